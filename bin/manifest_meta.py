NOTES = ("All checks build the CURRENT /repo tree: harness test files, the kit packages (explore, vsched, vsync, vatomic, vkit, cargen) and "
         "instrumented copies of repository files are injected with `go test -overlay`; /repo itself is never modified by a check. "
         "Exit 0 = held on everything explored (known findings are printed as KNOWN-FINDING lines), exit 1 = VIOLATION, exit 2 = internal error.")
NOT_APPLICABLE = {}
META = {
    "C01": {
        "technique": "bounded-exhaustive input enumeration: every epoch shape within k deviations (k=2 quick, 3 thorough) of a base epoch from a 33-item deviation menu, plus item-count boundary epochs, each indexed by the real `index all` and looked up exhaustively against generator-side ground truth",
        "text": "All combinations of up to 2 (thorough 3) deviations from a 2-block base epoch (block/entry/tx counts, 1/2/3-byte section varints, metadata and rewards frame layouts, epochs 0/1/700, longer header, subsets, optional fields, block-time edge values) x {local file, ReaderAt}, plus epochs with 9996..10001 (thorough also 19996..20001) transactions and 4998..10001 blocks: after the real index generation every object is fetched by CID (bytes identical, index offset/size equal to the generator's own counters), every slot and signature resolves, sig-exists answers yes, block time matches. A failing `index all` is accepted (nothing else demanded).",
        "design_ref": "§4 C01, §3.4",
        "note": "Trusted: cargen (reference ipld-prime encoder + own offset counters) as ground truth; the sig-exists writer's capacity hint (16000 per prefix, 8 GiB) is shrunk to 16 by an overlay rule (allocation size only). Not covered: remote HTTP CARs beyond the ReaderAt seam, Filecoin mode.",
    },
    "C06": {
        "technique": "stateless model checking of the implementation: all push histories up to a depth x all interleavings (preemption-bounded, HB state pruning) of Push/Close with the background flusher on the instrumented writer with shrunk thresholds, read back through the real reader; plus real-threshold runs and exhaustive record-length windows",
        "text": "Every history of <=4 (thorough <=6) pushes over {A},{B},{A,B} x slot parity, followed by Close, is run under every schedule of the writer thread and the background flusher within preemption bound 2 (thorough 3); the real reader must return exactly the reverse push order for both addresses. The un-instrumented writer is additionally driven at the real thresholds (per-address counts 1,2,999..1001,1999..2001,3000,3001 and a >100000-address run that triggers the periodic partial flush), and linked-log records of every reachable length in [min,400] and [16300,16500] are written and read back. Histories x schedules is exactly the property's quantifier.",
        "design_ref": "§4 C06, §3.3",
        "note": "Trusted: channel/atomic/mutex/timer models (conformance-tested); shrunk constants (batch size 2, parked buffers 2, channel capacity 1, periodic flush slot%2 && >1 keys, small-key threshold 2) stand for the real ones in the scheduled variant, the real ones are exercised free-running; rank list size is not shrunk; linked log/hashmap/zstd calls are atomic steps.",
    },
    "C09": {
        "technique": "stateless model checking of the implementation: all interleavings (no preemption bound) of 2-3 threads over the real MultiEpoch methods under a controlled scheduler, RWMutex modelled with writer preference, happens-before state pruning; brute-force linearizability against sequential runs of the real object",
        "text": "Every interleaving of every pair and (in thorough: every, in quick: half of the) triple of query-side x reload-side operations on the epoch-set lock is executed on the real methods; deadlock freedom, sorted duplicate-free listings and linearizability of observations and final epoch set are checked on each. This is the right level because the defect class (lock re-entrancy vs a pending writer, torn epoch set) needs one specific 3-step schedule that tests never force.",
        "design_ref": "§4 C09, §3.3",
        "note": "Trusted: the RWMutex/Mutex/WaitGroup/channel models of kit/vsync+vsched (validated by kit/vsched/conform_test.go against exhaustive stateless search and against the real primitives); code between two synchronisation operations is atomic; light Epoch objects stand in for loaded epochs in the lock-protocol family (the handler family uses real epochs).",
    },
    "C18": {
        "technique": "stateless model checking of the implementation: all interleavings of FirstSuccess + errgroup (both instrumented from the current source) for every outcome vector and concurrency limit, n<=3 unbounded, n=4..5 preemption-bounded",
        "text": "For every outcome vector in {success, not-found, error, error wrapping a context error}^n (job i's hit is the value i, so job 0's hit is the zero value of T), every concurrency limit in {-1,0,1..n} and every completion order / interleaving (n<=3: all; n=4,5 in thorough: preemption bound 3/2) the real FirstSuccess returns a value some job produced whenever one succeeded, otherwise exactly the n job errors, and terminates. Completion orders are a schedule quantifier, so exhaustive interleaving exploration is the matching level.",
        "design_ref": "§4 C18, §3.3",
        "note": "Trusted: channel/select/WaitGroup models (conformance-tested); job bodies are one scheduling point plus a preset outcome; the request context stays live (as the statement says).",
    },
}
