# Per-property configuration of bin/check. See DESIGN.md §4.
MOD = "github.com/rpcpool/yellowstone-faithful"

def job(dir, pkg, files, **kw):
    j = {"dir": dir, "pkg": pkg, "files": files, "sync": True}
    j.update(kw)
    return j

ERRGROUP = job("$GOMODCACHE/golang.org/x/sync@v0.6.0/errgroup", "golang.org/x/sync/errgroup", ["errgroup.go", "go120.go", "pre_go120.go"],
               **{"as_dir": "$REPO/zzverif/verrgroup"})

FIRST_SUCCESS = job("$REPO", MOD, ["first-success.go"], imports={"golang.org/x/sync/errgroup": MOD + "/zzverif/verrgroup"})

CHECKS = {
    "C09": {
        "pkg": ".", "harness": ["main/kit_test.go", "main/c18_test.go", "main/c09_test.go"], "run": "^TestVerif_C09$",
        "level": "model_checking",
        "instrument": [job("$REPO", MOD, ["multiepoch.go", "first-success.go"], imports={"golang.org/x/sync/errgroup": MOD + "/zzverif/verrgroup"}), ERRGROUP],
        "quick": {"shards": 16, "budget_s": 90},
        "thorough": {"shards": 16, "budget_s": 900},
    },
    "C18": {
        "pkg": ".", "harness": ["main/kit_test.go", "main/c18_test.go"], "run": "^TestVerif_C18$",
        "level": "model_checking",
        "instrument": [
            job("$REPO", MOD, ["first-success.go"], imports={"golang.org/x/sync/errgroup": MOD + "/zzverif/verrgroup"}),
            ERRGROUP,
        ],
        "quick": {"shards": 16, "budget_s": 90},
        "thorough": {"shards": 16, "budget_s": 900},
    },
}
