# Per-property configuration of bin/check. See DESIGN.md §4.
MOD = "github.com/rpcpool/yellowstone-faithful"

def job(dir, pkg, files, **kw):
    j = {"dir": dir, "pkg": pkg, "files": files, "sync": True}
    j.update(kw)
    return j

ERRGROUP = job("$GOMODCACHE/golang.org/x/sync@v0.6.0/errgroup", "golang.org/x/sync/errgroup", ["errgroup.go", "go120.go", "pre_go120.go"],
               **{"as_dir": "$REPO/zzverif/verrgroup"})

FIRST_SUCCESS = job("$REPO", MOD, ["first-success.go"], imports={"golang.org/x/sync/errgroup": MOD + "/zzverif/verrgroup"})

GSFA_SHRINK = ["const:itemsPerBatch=2", "var:howManyBuffersToFlushConcurrently=2", "makecap:fullBufferWriterChan=1",
               "lit:Push:500=2", "lit:Push:100_000=1", "lit:Push:100=2", "lit:NewGsfaWriter:1_000_000=16"]
GSFA_PERF = [
    job("$REPO/gsfa/linkedlog", MOD + "/gsfa/linkedlog", ["linked-log.go"], sync=False, rules_only=True, rules=["lit:NewLinkedLog:12=1/16"]),
    job("$REPO/indexes", MOD + "/indexes", ["index-pubkey-to-offset-and-size.go"], sync=False, rules_only=True,
        rules=["lit:NewWriter_PubkeyToOffsetAndSize:1000000=1"]),
]

MAINKIT = ["main/kit_test.go", "main/epochkit_test.go"]
# Performance-only: the sig-exists writer pre-allocates 65536 x 16000 uint64 (8 GiB) per writer; checks that build
# hundreds of small epochs shrink that capacity hint (semantics unchanged; C05 keeps the real value).
EPOCH_PERF = [job("$REPO/bucketteer", MOD + "/bucketteer", ["write.go"], sync=False, rules_only=True, rules=["lit:newPrefixToHashes:16_000=16"])]

CHECKS = {
    "C01": {
        "pkg": ".", "harness": MAINKIT + ["main/c01_test.go"], "run": "^TestVerif_C01$",
        "level": "exploration", "env": {"GOGC": "400"},
        "variants": [
            {"name": "main", "run": "^TestVerif_C01$", "instrument": EPOCH_PERF},
            {"name": "race", "run": "^TestVerif_C01_Race$", "race": True, "tiers": ["thorough"], "shards": {"thorough": 3, "quick": 3},
             "harness": MAINKIT + ["main/race_index_test.go"], "instrument": EPOCH_PERF},
        ],
        "quick": {"shards": 16, "budget_s": 150},
        "thorough": {"shards": 16, "budget_s": 1800},
    },
    "C06": {
        "pkg": "gsfa", "harness": ["gsfa/kit_test.go", "gsfa/c06_test.go", "gsfa/c06_real_test.go"], "run": "^TestVerif_C06_Sched$",
        "level": "model_checking",
        "variants": [
            {"name": "sched", "run": "^TestVerif_C06_Sched$",
             "instrument": [job("$REPO/gsfa", MOD + "/gsfa", ["gsfa-write.go"], rules=GSFA_SHRINK)] + GSFA_PERF},
            {"name": "real", "run": "^TestVerif_C06_Real$", "instrument": [], "shards": {"quick": 5, "thorough": 7}},
            {"name": "reclen", "run": "^TestVerif_C06_RecLen$", "instrument": [], "shards": {"quick": 1, "thorough": 1}},
            {"name": "real-race", "run": "^TestVerif_C06_Real$", "race": True, "tiers": ["thorough"], "instrument": [], "shards": {"quick": 1, "thorough": 2}},
        ],
        "quick": {"shards": 16, "budget_s": 60},
        "thorough": {"shards": 16, "budget_s": 900},
    },
    "C09": {
        "pkg": ".", "harness": ["main/kit_test.go", "main/c18_test.go", "main/c09_test.go"], "run": "^TestVerif_C09$",
        "level": "model_checking",
        "variants": [
            {"name": "locks", "run": "^TestVerif_C09$",
             "instrument": [job("$REPO", MOD, ["multiepoch.go", "first-success.go"], imports={"golang.org/x/sync/errgroup": MOD + "/zzverif/verrgroup"}), ERRGROUP]},
            {"name": "handlers", "run": "^TestVerif_C09_Handlers$",
             "harness": ["main/kit_test.go", "main/epochkit_test.go", "main/grpckit_test.go", "main/c18_test.go", "main/c09_test.go", "main/c09_handlers_test.go"],
             "instrument": [job("$REPO", MOD, ["multiepoch.go", "first-success.go", "grpc-server.go"], imports={"golang.org/x/sync/errgroup": MOD + "/zzverif/verrgroup"},
                                maprange=True, maprange_only=["epochToTxns"]), ERRGROUP] + EPOCH_PERF},
            {"name": "unmap", "run": "^TestVerif_C09_Unmap$",
             "harness": ["main/kit_test.go", "main/epochkit_test.go", "main/grpckit_test.go", "main/c18_test.go", "main/c09_test.go", "main/c09_handlers_test.go", "main/c09_unmap_test.go"],
             "instrument": [job("$REPO", MOD, ["multiepoch.go", "first-success.go", "epoch.go", "storage.go", "multiepoch-getBlock.go", "multiepoch-getTransaction.go", "multiepoch-getBlockTime.go", "grpc-server.go"],
                                imports={"golang.org/x/sync/errgroup": MOD + "/zzverif/verrgroup", "golang.org/x/exp/mmap": MOD + "/zzverif/vmmap",
                                         "github.com/ipld/go-car/v2": MOD + "/zzverif/vcarv2"}),
                            job("$REPO/huge-cache", MOD + "/huge-cache", ["cache.go"], sync=False, imports={"github.com/allegro/bigcache/v3": MOD + "/zzverif/vbigcache"}),
                            ERRGROUP] + EPOCH_PERF},
            {"name": "reload-cuts", "run": "^TestVerif_C09_ReloadCuts$",
             "harness": ["main/kit_test.go", "main/epochkit_test.go", "main/c09_reload_cuts_test.go"], "instrument": EPOCH_PERF},
            {"name": "race", "run": "^TestVerif_C09_Race$", "race": True, "tiers": ["thorough"], "shards": {"thorough": 1, "quick": 1},
             "harness": ["main/kit_test.go", "main/race_test.go"], "instrument": []},
            {"name": "race-handlers", "run": "^TestVerif_C09_RaceHandlers$", "race": True, "tiers": ["thorough"], "shards": {"thorough": 2, "quick": 2},
             "harness": MAINKIT + ["main/grpckit_test.go", "main/race_handlers_test.go"], "instrument": EPOCH_PERF},
        ],
        "quick": {"shards": 16, "budget_s": 180},
        "thorough": {"shards": 16, "budget_s": 900},
    },
    "C18": {
        "pkg": ".", "harness": ["main/kit_test.go", "main/c18_test.go"], "run": "^TestVerif_C18$",
        "level": "model_checking",
        "variants": [
            {"name": "main", "run": "^TestVerif_C18$", "instrument": [
                job("$REPO", MOD, ["first-success.go"], imports={"golang.org/x/sync/errgroup": MOD + "/zzverif/verrgroup"}), ERRGROUP]},
            {"name": "race", "run": "^TestVerif_C18_Race$", "race": True, "tiers": ["thorough"], "shards": {"thorough": 1, "quick": 1},
             "harness": ["main/kit_test.go", "main/race_test.go"], "instrument": []},
        ],
        "quick": {"shards": 16, "budget_s": 180},
        "thorough": {"shards": 16, "budget_s": 900},
    },
}

# Additional checks are defined one per file in bin/checks.d/<ID>.json:
#   {"check": {...same keys as above...}, "meta": {"technique":..., "text":..., "design_ref":..., "note":...}}
import glob as _glob, json as _json, os as _os
EXTRA_META = {}
for _f in sorted(_glob.glob(_os.path.join(_os.path.dirname(_os.path.abspath(__file__)), "checks.d", "*.json"))):
    _d = _json.load(open(_f))
    _id = _os.path.basename(_f)[:-5]
    CHECKS[_id] = _d["check"]
    if "meta" in _d:
        EXTRA_META[_id] = _d["meta"]
