//go:build verif

package splitcarfetcher

import (
	"bytes"
	"encoding/base64"
	"encoding/binary"
	"encoding/json"
	"fmt"
	"strings"
	"testing"

	"github.com/anjor/carlet"
	"github.com/rpcpool/yellowstone-faithful/zzverif/explore"
	"github.com/rpcpool/yellowstone-faithful/zzverif/vkit"
	"github.com/rpcpool/yellowstone-faithful/zzverif/vsched"
)

// C16 (scheduled variant): NewSplitCarReader opens its pieces concurrently (errgroup with a limit, results stored
// under a mutex) and then lays them out in metadata order. fetcher.go and errgroup are instrumented from the
// current tree and EVERY interleaving of the openers (unbounded, happens-before pruning) is executed; each opener
// has a scheduling point of its own (the I/O of opening a piece). Oracle per execution: the constructor returns;
// with healthy pieces the reader reads back as original header || contents in metadata order (one read of everything; the read matrix is the readers variant's business);
// when opening one piece fails the constructor returns an error, whatever the completion order.

type c16sScenario struct {
	Name  string `json:"name"`
	Sizes []int  `json:"sizes"`
	HS    []int  `json:"hs"`
	Fail  int    `json:"fail"` // index of the piece whose opening fails, -1 = none
}

func TestVerif_C16_Sched(t *testing.T) {
	R := vkit.New("C16")
	defer R.Finish()
	R.Rule = "scheduled variant: scenario = NewSplitCarReader over 2..4 in-memory pieces (different content and own-header sizes), optionally with one piece whose opening fails; fetcher.go and errgroup instrumented from the current tree; every interleaving of the concurrent openers (one scheduling point inside each; unbounded search with happens-before pruning, the 4-piece scenarios preemption-bounded at 2 in the quick tier); oracle = returns; healthy pieces: one read of the whole reader equals original header || contents in metadata order; failing piece: an error is returned; non-trivial = execution with at least one context switch"
	scs := []c16sScenario{
		{"2-pieces", []int{3, 2}, []int{1, 2}, -1},
		{"3-pieces", []int{2, 3, 1}, []int{2, 0, 1}, -1},
		{"4-pieces", []int{1, 2, 1, 3}, []int{1, 1, 2, 0}, -1},
		{"3-pieces/first-fails", []int{2, 3, 1}, []int{2, 0, 1}, 0},
		{"3-pieces/last-fails", []int{2, 3, 1}, []int{2, 0, 1}, 2},
		{"4-pieces/third-fails", []int{1, 2, 1, 3}, []int{1, 1, 2, 0}, 2},
	}
	R.Bounds["sched_scenarios"] = len(scs)
	run := func(sc c16sScenario, c *explore.Ctx) explore.Result {
		hdr := c16RealHeader
		prefix := binary.AppendUvarint(nil, uint64(len(hdr)))
		ref := append(append([]byte{}, prefix...), hdr...)
		ends := []int{len(ref)}
		meta := &carlet.CarPiecesAndMetadata{OriginalCarHeader: base64.StdEncoding.EncodeToString(hdr), OriginalCarHeaderSize: uint64(len(ref))}
		files := map[string][]byte{}
		for i, s := range sc.Sizes {
			content := c16Content(i, s)
			var file []byte
			for j := 0; j < sc.HS[i]; j++ {
				file = append(file, byte(0xA0+i))
			}
			file = append(file, content...)
			file = append(file, byte(0xB0+i)) // one byte after the content: must never be returned
			name := fmt.Sprintf("piece-%d.car", i)
			files[name] = file
			meta.CarPieces = append(meta.CarPieces, carlet.CarFile{Name: name, HeaderSize: uint64(sc.HS[i]), ContentSize: uint64(s)})
			ref = append(ref, content...)
			ends = append(ends, len(ref))
		}
		creator := func(cf carlet.CarFile) (ReaderAtCloserSize, error) {
			vsched.Yield("open " + cf.Name)
			if sc.Fail >= 0 && cf.Name == fmt.Sprintf("piece-%d.car", sc.Fail) {
				return nil, fmt.Errorf("c16: cannot open %s", cf.Name)
			}
			b := files[cf.Name]
			return &c16Mem{bytes.NewReader(b), int64(len(b))}, nil
		}
		var scr *SplitCarReader
		var nerr error
		returned := false
		s := vsched.Run(c, vsched.Options{Horizon: 5000, Drain: true, Canonical: len(sc.Sizes) < 4 || vkit.Thorough()}, func() {
			scr, nerr = NewSplitCarReader(meta, creator)
			returned = true
		})
		if c.Pruned {
			return explore.Result{}
		}
		res := explore.Result{NonTrivial: s.Switches > 0}
		bad := func(key, what string) {
			if res.Violation == nil {
				res.Violation = &explore.Violation{Key: "C16|sched|" + key, What: fmt.Sprintf("[%s] %s", sc.Name, what)}
			}
		}
		switch {
		case s.Panic != "":
			if strings.Contains(s.Panic, "replay divergence") {
				panic(s.Panic)
			}
			res.Outcome = "panic"
			bad("panic|"+c16RepoFrame(s.Panic), "NewSplitCarReader panicked: "+strings.SplitN(s.Panic, "\n", 2)[0])
		case s.Deadlock:
			res.Outcome = "deadlock"
			bad("deadlock", "NewSplitCarReader never returns: "+s.DeadlockInfo)
		case s.HorizonHit:
			res.Outcome = "horizon"
		case !returned:
			res.Outcome = "no-return"
			bad("no-return", "NewSplitCarReader did not return")
		case sc.Fail >= 0:
			res.Outcome = fmt.Sprintf("error=%v", nerr != nil)
			if nerr == nil {
				bad("failed-piece-accepted", fmt.Sprintf("opening piece %d failed, but the constructor returned a reader", sc.Fail))
			}
		case nerr != nil:
			res.Outcome = "error"
			bad("reader-rejects-consistent-pieces", fmt.Sprintf("NewSplitCarReader: %v", nerr))
		default:
			// one read of everything (the whole read matrix is the business of the readers variant)
			got := make([]byte, len(ref)+1)
			n, _ := scr.ReadAt(got, 0)
			scr.Close()
			res.Outcome = vkit.Hash(got[:n])
			if !bytes.Equal(got[:n], ref) {
				d := 0
				for d < n && d < len(ref) && got[d] == ref[d] {
					d++
				}
				bad("read-back-depends-on-schedule", fmt.Sprintf("under this schedule the reader returns %d bytes that differ from original header || contents (%d bytes) at offset %d (%s)", n, len(ref), d, c16Where(ends, c16PieceNames(len(sc.Sizes), true), d)))
			}
		}
		return res
	}
	if rp := vkit.ReplayRequest(); rp != nil {
		var sc c16sScenario
		if b, err := json.Marshal(rp["scenario"]); err == nil {
			json.Unmarshal(b, &sc)
		}
		if sc.Name == "" {
			R.Note("replay file describes a case of another variant: nothing to do in this one")
			R.Case(false, "")
			return
		}
		choices := vkit.Ints(rp["choices"])
		res, _, err := explore.Replay(choices, func(c *explore.Ctx) explore.Result { return run(sc, c) })
		t.Logf("replay scenario=%s outcome=%s violation=%v err=%v", sc.Name, res.Outcome, res.Violation, err)
		R.Case(true, "")
		if res.Violation != nil {
			R.Violation(res.Violation.Key, res.Violation.What, map[string]interface{}{"scenario": sc, "choices": choices})
		}
		return
	}
	for idx, sc := range scs {
		if !vkit.Mine(int64(idx)) {
			continue
		}
		if R.Expired() {
			R.Note("deadline reached at scheduled scenario %d", idx)
			break
		}
		sc := sc
		runf := func(c *explore.Ctx) explore.Result { return run(sc, c) }
		bound := -1
		if len(sc.Sizes) >= 4 && !vkit.Thorough() {
			bound = 2 // quick tier: the 4-piece scenarios are preemption-bounded (unbounded in the thorough tier)
		}
		st := explore.Search(explore.Config{Bound: bound, Deadline: R.Deadline(), Prune: true}, runf)
		R.Evaluations += st.Executions
		R.NonTrivial += st.NonTrivial
		R.Transitions += st.Points
		R.TracesValidated += st.Executions
		R.States += st.States
		R.Add("sched_scenarios_done", 1)
		R.Add("sched_pruned_executions", st.Pruned)
		if st.CapHit {
			R.CapHit, R.Exhaustive = true, false
			R.Note("scenario %s: deadline reached inside the search (executions so far %d)", sc.Name, st.Executions)
		}
		for o := range st.Outcomes {
			R.Outcome(sc.Name + ":" + o)
		}
		seen := map[string]bool{}
		for _, f := range st.Violations {
			if seen[f.Violation.Key] {
				continue
			}
			seen[f.Violation.Key] = true
			if ok, why := explore.Confirm(f, 5, runf); !ok {
				R.InconclusiveF("violation %s in scenario %s did not reproduce: %s", f.Violation.Key, sc.Name, why)
				continue
			}
			R.Violation(f.Violation.Key, f.Violation.What, map[string]interface{}{"scenario": sc, "choices": f.Choices})
		}
		R.Sample(map[string]interface{}{"variant": "sched", "scenario": sc, "executions": st.Executions, "states": st.States, "distinct_outcomes": len(st.Outcomes)})
	}
}
