//go:build verif

package splitcarfetcher

import (
	"bytes"
	"context"
	"fmt"
	"net/http"
	"net/http/httptest"
	"strconv"
	"strings"
	"sync"
	"testing"

	"github.com/rpcpool/yellowstone-faithful/zzverif/vkit"
)

// C17 (http variant): the REAL remote-file reader (NewRemoteHTTPFileAsIoReaderAt -> range cache -> remoteReadAt with
// the real net/http client) against a loopback HTTP server whose answer to each range request is taken from a
// small alphabet of server behaviours. For every (offset, length) on a small file x every behaviour of the server
// for the fetch that read triggers (and a healthy server for the read after it) the reader must return exactly
// the file's bytes or an error, must not cache what a failed fetch delivered, and must refuse reads past the end.

type c17hBehaviour struct {
	Name string
	// serve answers one GET with a Range header; start/end are the requested inclusive byte positions
	serve func(w http.ResponseWriter, file []byte, start, end int64)
	// failed = the fetch must be treated as failed (an error is the only acceptable result of the read)
	failed bool
}

func c17hRange(file []byte, start, end int64) (int64, int64, bool) {
	if start < 0 || start >= int64(len(file)) || end < start { // (a last position before the first one: Go's file server answers 416)
		return 0, 0, false
	}
	if end >= int64(len(file)) {
		end = int64(len(file)) - 1
	}
	return start, end, true
}

func c17hBehaviours() []c17hBehaviour {
	page := strings.Repeat("<html>error</html>", 8) // 144 bytes: longer than any read of the small file
	partial := func(w http.ResponseWriter, file []byte, start, end int64, body []byte) {
		w.Header().Set("Content-Range", fmt.Sprintf("bytes %d-%d/%d", start, end, len(file)))
		w.Header().Set("Content-Length", strconv.Itoa(len(body)))
		w.WriteHeader(http.StatusPartialContent)
		w.Write(body)
	}
	return []c17hBehaviour{
		{"206-exact", func(w http.ResponseWriter, file []byte, start, end int64) {
			s, e, ok := c17hRange(file, start, end)
			if !ok {
				w.Header().Set("Content-Range", fmt.Sprintf("bytes */%d", len(file)))
				w.WriteHeader(http.StatusRequestedRangeNotSatisfiable)
				return
			}
			partial(w, file, s, e, file[s:e+1])
		}, false},
		{"200-whole-file(range-ignored)", func(w http.ResponseWriter, file []byte, start, end int64) {
			w.Header().Set("Content-Length", strconv.Itoa(len(file)))
			w.WriteHeader(http.StatusOK)
			w.Write(file)
		}, false}, // not a failure when the read starts at 0; judged by the bytes
		{"404-with-page", func(w http.ResponseWriter, file []byte, start, end int64) {
			w.WriteHeader(http.StatusNotFound)
			w.Write([]byte(page))
		}, true},
		{"500-with-page", func(w http.ResponseWriter, file []byte, start, end int64) {
			w.WriteHeader(http.StatusInternalServerError)
			w.Write([]byte(page))
		}, true},
		{"503-with-page", func(w http.ResponseWriter, file []byte, start, end int64) {
			w.WriteHeader(http.StatusServiceUnavailable)
			w.Write([]byte(page))
		}, true},
		{"416-empty", func(w http.ResponseWriter, file []byte, start, end int64) {
			w.Header().Set("Content-Range", fmt.Sprintf("bytes */%d", len(file)))
			w.WriteHeader(http.StatusRequestedRangeNotSatisfiable)
		}, true},
		{"206-half-body", func(w http.ResponseWriter, file []byte, start, end int64) {
			s, e, ok := c17hRange(file, start, end)
			if !ok {
				w.WriteHeader(http.StatusRequestedRangeNotSatisfiable)
				return
			}
			body := file[s : e+1]
			partial(w, file, s, e, body[:len(body)/2]) // Content-Length says half: a complete, short answer
		}, true},
		{"206-empty-body", func(w http.ResponseWriter, file []byte, start, end int64) {
			w.Header().Set("Content-Length", "0")
			w.WriteHeader(http.StatusPartialContent)
		}, true},
	}
}

type c17hCase struct {
	Off       int64  `json:"off"`
	Len       int    `json:"len"`
	Behaviour string `json:"server_behaviour"`
	Head      int    `json:"head_mode,omitempty"` // 0 = HEAD answers with Content-Length, 1 = 200 without it, 2 = 405
}

func TestVerif_C17_HTTP(t *testing.T) {
	R := vkit.New("C17")
	defer R.Finish()
	R.Rule = "http variant: the real NewRemoteHTTPFileAsIoReaderAt (range cache + net/http client) against a loopback server; case = (offset 0..size+1, length 0..size+2) on a 12-byte file x behaviour of the server for the fetch this read triggers (206 exact, 200 whole file, 404/500/503 with a long page, 416, 206 with half or no body); then the same read again with a healthy server; and every read against a healthy server that answers HEAD with 200 but no Content-Length, or with 405; oracle = exactly the file's bytes or an error (an error is demanded when the server answered with an error status or a short body and when the read reaches past the end), and the second read returns the right bytes (nothing from a failed fetch is cached); non-trivial = faulty behaviour and a read inside the file"
	file := []byte("0123456789ab")
	behaviours := c17hBehaviours()
	var mu sync.Mutex
	current := behaviours[0]
	headMode := 0
	gets := 0
	srv := httptest.NewServer(http.HandlerFunc(func(w http.ResponseWriter, r *http.Request) {
		if r.Method == "HEAD" {
			mu.Lock()
			hm := headMode
			mu.Unlock()
			switch hm {
			case 1: // 200 without a Content-Length (dynamic HEAD answers, some CDNs)
				w.WriteHeader(http.StatusOK)
			case 2: // HEAD not allowed: the size has to come from a ranged GET
				w.WriteHeader(http.StatusMethodNotAllowed)
			default:
				w.Header().Set("Content-Length", strconv.Itoa(len(file)))
				w.WriteHeader(http.StatusOK)
			}
			return
		}
		mu.Lock()
		b := current
		gets++
		mu.Unlock()
		var start, end int64 = 0, int64(len(file)) - 1
		if rg := r.Header.Get("Range"); strings.HasPrefix(rg, "bytes=") {
			parts := strings.SplitN(strings.TrimPrefix(rg, "bytes="), "-", 2)
			start, _ = strconv.ParseInt(parts[0], 10, 64)
			if len(parts) == 2 && parts[1] != "" {
				end, _ = strconv.ParseInt(parts[1], 10, 64)
			}
		}
		b.serve(w, file, start, end)
	}))
	defer srv.Close()
	R.Bounds["file_bytes"] = len(file)
	R.Bounds["server_behaviours"] = len(behaviours)
	size := int64(len(file))
	idx := int64(0)
	run := func(c c17hCase, b c17hBehaviour) {
		// a fresh reader per case: nothing cached
		mu.Lock()
		headMode = c.Head
		current = behaviours[0] // the size may be learnt from a ranged GET: answered by a healthy server
		mu.Unlock()
		rd, _, err := NewRemoteHTTPFileAsIoReaderAt(context.Background(), srv.URL+"/epoch.car")
		if err != nil {
			if c.Head == 0 {
				R.Internal("cannot open the remote file: %v", err)
			} else {
				R.Outcome(fmt.Sprintf("head-mode-%d:open-refused", c.Head)) // an error is an acceptable answer
			}
			return
		}
		defer rd.Close()
		viol := func(class, what string) {
			R.Violation("C17|http|"+class+"|"+b.Name, fmt.Sprintf("server behaviour %s, HEAD mode %d, ReadAt(len %d, off %d): %s", b.Name, c.Head, c.Len, c.Off, what), map[string]interface{}{"variant": "http", "case": c})
		}
		judge := func(step string, n int, rerr error, p []byte, mustFail bool) {
			inside := c.Off >= 0 && c.Off+int64(c.Len) <= size
			if rerr == nil {
				switch {
				case !inside && c.Len > 0:
					viol("read-past-end-accepted", fmt.Sprintf("%s: the read reaches past the end of the %d-byte file but returned %d bytes and no error", step, size, n))
				case n != c.Len:
					viol("short-read-without-error", fmt.Sprintf("%s: %d bytes returned and no error", step, n))
				case inside && !bytes.Equal(p[:n], file[c.Off:c.Off+int64(n)]):
					viol("wrong-bytes", fmt.Sprintf("%s: returned %q, the remote holds %q", step, p[:n], file[c.Off:c.Off+int64(n)]))
				case mustFail && c.Len > 0:
					// the right bytes although the fetch failed would need a cache hit: impossible on a fresh reader,
					// so the bytes came from the failed answer by accident (e.g. an error page that happens to match)
					viol("failed-fetch-accepted", fmt.Sprintf("%s: the server's answer was a failure, yet the read succeeded", step))
				}
			}
		}
		mu.Lock()
		current = b
		mu.Unlock()
		p := make([]byte, c.Len)
		n, rerr := rd.ReadAt(p, c.Off)
		mustFail := b.failed
		if b.Name == "206-half-body" {
			// the request asks for one byte more than the read needs (inclusive end = off+len): half of that body
			// is a failure only when it is shorter than the read
			avail := size - c.Off
			if avail > int64(c.Len)+1 {
				avail = int64(c.Len) + 1
			}
			mustFail = avail/2 < int64(c.Len)
		}
		judge("first read", n, rerr, p, mustFail)
		R.Outcome(fmt.Sprintf("%s:first:err=%v", b.Name, rerr != nil))
		// the same read with a healthy server: nothing of the first answer may have been kept
		mu.Lock()
		current = behaviours[0]
		mu.Unlock()
		p2 := make([]byte, c.Len)
		n2, rerr2 := rd.ReadAt(p2, c.Off)
		judge("second read (healthy server)", n2, rerr2, p2, false)
		if c.Off >= 0 && c.Off+int64(c.Len) <= size && rerr2 != nil && c.Len > 0 {
			viol("healthy-read-fails", fmt.Sprintf("second read with a healthy server failed: %v", rerr2))
		}
		// a read of no bytes at a position inside the file asks for nothing the remote lacks (at the very end of the
		// file an end-of-file answer is as good)
		if c.Len == 0 && c.Off >= 0 && c.Off < size && rerr2 != nil {
			viol("healthy-empty-read-fails", fmt.Sprintf("second read (of no bytes, inside the file) with a healthy server failed: %v", rerr2))
		}
	}
	if rp := vkit.ReplayRequest(); rp != nil {
		if rp["variant"] != "http" {
			return
		}
		var c c17hCase
		if m, ok := rp["case"].(map[string]interface{}); ok {
			c.Off = int64(m["off"].(float64))
			c.Len = int(m["len"].(float64))
			c.Behaviour, _ = m["server_behaviour"].(string)
			if hm, ok := m["head_mode"].(float64); ok {
				c.Head = int(hm)
			}
		}
		for _, b := range behaviours {
			if b.Name == c.Behaviour {
				run(c, b)
				R.Case(true, "")
			}
		}
		return
	}
	for _, b := range behaviours {
		for off := int64(0); off <= size+1; off++ {
			for l := 0; l <= int(size)+2; l++ {
				mine := vkit.Mine(idx)
				idx++
				if !mine {
					continue
				}
				if R.Expired() {
					R.Note("deadline reached at case %d", idx)
					return
				}
				c := c17hCase{Off: off, Len: l, Behaviour: b.Name}
				run(c, b)
				R.Case(b.Name != "206-exact" && off+int64(l) <= size && l > 0, "")
				if idx%197 == 0 {
					R.Sample(c)
				}
			}
		}
	}
	// the other ways a server answers HEAD (the reader learns the file size from it), healthy range answers
	for hm := 1; hm <= 2; hm++ {
		for off := int64(0); off <= size+1; off++ {
			for l := 0; l <= int(size)+2; l++ {
				mine := vkit.Mine(idx)
				idx++
				if !mine {
					continue
				}
				c := c17hCase{Off: off, Len: l, Behaviour: behaviours[0].Name, Head: hm}
				run(c, behaviours[0])
				R.Case(off+int64(l) <= size && l > 0, "")
			}
		}
	}
	mu.Lock()
	R.Add("http_range_requests_served", int64(gets))
	mu.Unlock()
}
