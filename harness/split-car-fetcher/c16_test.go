//go:build verif

package splitcarfetcher

import (
	"bytes"
	"encoding/base64"
	"encoding/binary"
	"errors"
	"fmt"
	"io"
	"os"
	"path/filepath"
	"runtime/debug"
	"sort"
	"strings"
	"testing"

	"github.com/anjor/carlet"
	"github.com/ipfs/go-cid"
	carv1 "github.com/ipld/go-car"
	"github.com/rpcpool/yellowstone-faithful/zzverif/explore"
	"github.com/rpcpool/yellowstone-faithful/zzverif/vkit"
)

// C16 parts (a) and (b): the split-CAR reader returns exactly header ‖ contents for EVERY
// (offset, length), with end-of-file only at the true end. Reference model = a plain byte slice.

const c16Rule = "(a) MultiReaderAt: every piece-size vector (1..4 pieces, each 0..K bytes, distinct bytes per piece) x reader kind " +
	"(bytes.Reader | io.SectionReader inside a padded backing, as NewSplitCarReader builds them | reader that reports io.EOF together with the last byte) " +
	"x EVERY read (offset 0..total+1, length 0..total+2), compared with the plain concatenation; " +
	"(b) NewSplitCarReader over pieces of <=3 in-memory (and on-disk) files = own header ‖ content ‖ tail, original header taken from the metadata, same read matrix, " +
	"reference = uvarint(len(header)) ‖ header ‖ contents; " +
	"(c) the real split-car action on generated epoch CARs for every --size at a cumulative block-DAG boundary -1/0/+1 (plus 0, 1, huge): every block DAG byte-identical, in order, inside exactly one piece; " +
	"HeaderSize/ContentSize of the written YAML delimit exactly the piece header and the DAG bytes in the written files; reading the written pieces through NewSplitCarReader gives original header ‖ DAG bytes. " +
	"Per read the oracle demands: bytes returned = reference bytes; count = min(length, bytes available); nil error when the range ends before the true end; " +
	"a non-nil error (io.EOF expected) when the range passes the true end; a range ending exactly at the true end may return nil or io.EOF with the full count (io.ReaderAt allows both); " +
	"zero-length reads at or after the true end may return nil or io.EOF, before the end they must return nil. " +
	"Non-trivial = vector with >=2 pieces (reads span a piece boundary) / split into >=2 pieces."

type c16Case struct {
	Part  string `json:"part"`           // "a" | "b"
	Kind  string `json:"kind"`           // a: bytes|section|eager   b: mem|file
	Sizes []int  `json:"sizes"`          // piece content sizes
	HS    []int  `json:"hs,omitempty"`   // b: own header size of each piece
	Tail  int    `json:"tail,omitempty"` // b: bytes after the content inside each piece file
	Hdr   int    `json:"hdr,omitempty"`  // b: original header length (0 = a real CARv1 header)
	Off   *int   `json:"off,omitempty"`  // first failing read
	Len   *int   `json:"len,omitempty"`
}

// c16Eager is a legal io.ReaderAt that returns io.EOF together with the last byte.
type c16Eager struct{ b []byte }

func (e c16Eager) ReadAt(p []byte, off int64) (int, error) {
	if off < 0 {
		return 0, errors.New("negative offset")
	}
	if off >= int64(len(e.b)) {
		return 0, io.EOF
	}
	n := copy(p, e.b[off:])
	if off+int64(n) == int64(len(e.b)) {
		return n, io.EOF
	}
	if n < len(p) {
		return n, io.EOF
	}
	return n, nil
}

// c16Mem is an in-memory piece file (neither a local-file nor an HTTP reader: no size policy applies).
type c16Mem struct {
	*bytes.Reader
	size int64
}

func (m *c16Mem) Close() error { return nil }
func (m *c16Mem) Size() int64  { return m.size }

func c16RepoFrame(stack string) string {
	for _, l := range strings.Split(stack, "\n") {
		l = strings.TrimSpace(l)
		if strings.HasPrefix(l, "github.com/rpcpool/yellowstone-faithful") && !strings.Contains(l, "zzverif") &&
			!strings.Contains(l, "c16") && !strings.Contains(l, "TestVerif") {
			if i := strings.LastIndex(l, "("); i > 0 {
				l = l[:i]
			}
			return strings.TrimPrefix(l, "github.com/rpcpool/yellowstone-faithful/")
		}
	}
	return "unknown-frame"
}

type c16Fail struct{ class, where, detail string }

// c16Where names the segment that holds byte position pos. ends = cumulative end offset of each
// segment; names = label of each segment.
func c16Where(ends []int, names []string, pos int) string {
	for i, e := range ends {
		if pos < e {
			return names[i]
		}
	}
	return "past-end"
}

func c16PieceNames(n int, withHeader bool) []string {
	var out []string
	if withHeader {
		out = append(out, "header")
	}
	for i := 0; i < n; i++ {
		switch {
		case i == 0:
			out = append(out, "first-piece")
		case i == n-1:
			out = append(out, "last-piece")
		default:
			out = append(out, "middle-piece")
		}
	}
	return out
}

// c16Read performs one read and judges it against ref. Returns nil when fine, and a short class of what was observed.
func c16Read(r io.ReaderAt, ref []byte, ends []int, names []string, off, length int) (f *c16Fail, seen string) {
	p := bytes.Repeat([]byte{0xEE}, length)
	var n int
	var err error
	var pv interface{}
	var stack string
	func() {
		defer func() {
			if x := recover(); x != nil {
				pv, stack = x, string(debug.Stack())
			}
		}()
		n, err = r.ReadAt(p, int64(off))
	}()
	total := len(ref)
	at := fmt.Sprintf("ReadAt(len=%d, off=%d) over %d bytes", length, off, total)
	if pv != nil {
		return &c16Fail{"panic|" + c16RepoFrame(stack), c16Where(ends, names, off), fmt.Sprintf("%s panicked: %v", at, pv)}, "panic"
	}
	avail := total - off
	if avail < 0 {
		avail = 0
	}
	if avail > length {
		avail = length
	}
	if n < 0 || n > length {
		return &c16Fail{"bad-count", c16Where(ends, names, off), fmt.Sprintf("%s returned n=%d err=%v", at, n, err)}, "bad"
	}
	if n > avail {
		return &c16Fail{"bytes-past-true-end", "past-end", fmt.Sprintf("%s returned n=%d (only %d bytes exist in that range) err=%v", at, n, avail, err)}, "bad"
	}
	if n > 0 && !bytes.Equal(p[:n], ref[off:off+n]) {
		d := 0
		for d < n && p[d] == ref[off+d] {
			d++
		}
		return &c16Fail{"wrong-bytes", c16Where(ends, names, off+d), fmt.Sprintf("%s returned %x, the concatenation has %x there (first difference at byte %d of the result)", at, p[:n], ref[off:off+n], d)}, "bad"
	}
	if n < avail {
		w := c16Where(ends, names, off+n)
		switch {
		case err == nil:
			return &c16Fail{"short-read-nil-error", w, fmt.Sprintf("%s returned n=%d with a nil error although %d bytes exist in that range", at, n, avail)}, "bad"
		case err == io.EOF:
			return &c16Fail{"eof-before-true-end", w, fmt.Sprintf("%s returned n=%d io.EOF although %d bytes exist in that range", at, n, avail)}, "bad"
		default:
			return &c16Fail{"error-inside-range", w, fmt.Sprintf("%s returned n=%d err=%v although %d bytes exist in that range", at, n, err, avail)}, "bad"
		}
	}
	// n == avail
	switch {
	case avail < length: // the range passes the true end: a short count needs an error
		if err == nil {
			return &c16Fail{"short-read-nil-error", "past-end", fmt.Sprintf("%s returned n=%d with a nil error: the range passes the true end, the caller cannot tell", at, n)}, "bad"
		}
		if err == io.EOF {
			return nil, "short+EOF"
		}
		return nil, "short+other-error"
	case length == 0:
		if off >= total {
			if err == nil {
				return nil, "empty@end+nil"
			}
			if err == io.EOF {
				return nil, "empty@end+EOF"
			}
			return &c16Fail{"unexpected-error", "past-end", fmt.Sprintf("%s returned err=%v", at, err)}, "bad"
		}
		if err != nil {
			return &c16Fail{"eof-before-true-end", c16Where(ends, names, off), fmt.Sprintf("%s (zero-length read before the end) returned err=%v", at, err)}, "bad"
		}
		return nil, "empty+nil"
	case off+length == total: // ends exactly at the true end: nil or EOF
		if err == nil {
			return nil, "full@end+nil"
		}
		if err == io.EOF {
			return nil, "full@end+EOF"
		}
		return &c16Fail{"unexpected-error", c16Where(ends, names, off), fmt.Sprintf("%s returned the full count with err=%v", at, err)}, "bad"
	default:
		if err == io.EOF {
			return &c16Fail{"eof-before-true-end", c16Where(ends, names, off+n), fmt.Sprintf("%s returned the full count with io.EOF although %d more bytes follow", at, total-off-length)}, "bad"
		}
		if err != nil {
			return &c16Fail{"error-inside-range", c16Where(ends, names, off), fmt.Sprintf("%s returned err=%v", at, err)}, "bad"
		}
		return nil, "full+nil"
	}
}

// c16Matrix runs every (offset, length) and returns the failures (one per class|where) and the observation counts.
func c16Matrix(r io.ReaderAt, ref []byte, ends []int, names []string, seen map[string]int64) (fails []*c16Fail, failAt [][2]int, spanning int64) {
	total := len(ref)
	got := map[string]bool{}
	for off := 0; off <= total+1; off++ {
		for length := 0; length <= total+2; length++ {
			f, s := c16Read(r, ref, ends, names, off, length)
			seen[s]++
			// does the range cross a segment boundary?
			for _, e := range ends[:len(ends)-1] {
				if off < e && off+length > e {
					spanning++
					break
				}
			}
			if f != nil && !got[f.class+"|"+f.where] {
				got[f.class+"|"+f.where] = true
				fails = append(fails, f)
				failAt = append(failAt, [2]int{off, length})
			}
		}
	}
	return
}

func c16Content(piece, size int) []byte {
	b := make([]byte, size)
	for j := range b {
		b[j] = byte(0x10*(piece+1) + j)
	}
	return b
}

// ---- part (a)

func c16RunA(c c16Case, seen map[string]int64) (fails []*c16Fail, failAt [][2]int, reads, spanning int64, err error) {
	var ref []byte
	var readers []io.ReaderAt
	var sizes []int64
	var ends []int
	for i, s := range c.Sizes {
		content := c16Content(i, s)
		ref = append(ref, content...)
		ends = append(ends, len(ref))
		sizes = append(sizes, int64(s))
		switch c.Kind {
		case "bytes":
			readers = append(readers, bytes.NewReader(content))
		case "section":
			backing := append(append([]byte{0xAA, 0xAB}, content...), 0xBA, 0xBB)
			readers = append(readers, io.NewSectionReader(bytes.NewReader(backing), 2, int64(s)))
		case "eager":
			readers = append(readers, c16Eager{content})
		default:
			return nil, nil, 0, 0, fmt.Errorf("unknown kind %q", c.Kind)
		}
	}
	var m *MultiReaderAt
	var pv interface{}
	func() {
		defer func() { pv = recover() }()
		m = NewMultiReaderAt(readers, sizes)
	}()
	if pv != nil {
		return []*c16Fail{{"panic|NewMultiReaderAt", "construct", fmt.Sprint(pv)}}, [][2]int{{0, 0}}, 0, 0, nil
	}
	fails, failAt, spanning = c16Matrix(m, ref, ends, c16PieceNames(len(c.Sizes), false), seen)
	total := int64(len(ref))
	return fails, failAt, (total + 2) * (total + 3), spanning, nil
}

// ---- part (b)

var c16RealHeader = func() []byte {
	c, err := cid.Prefix{Version: 1, Codec: cid.DagCBOR, MhType: 0x12, MhLength: -1}.Sum([]byte("verif-c16-root"))
	if err != nil {
		panic(err)
	}
	var b bytes.Buffer
	if err := carv1.WriteHeader(&carv1.CarHeader{Roots: []cid.Cid{c}, Version: 1}, &b); err != nil {
		panic(err)
	}
	_, n := binary.Uvarint(b.Bytes())
	return b.Bytes()[n:] // without the length prefix, as the metadata stores it
}()

func c16RunB(c c16Case, dir string, seen map[string]int64) (fails []*c16Fail, failAt [][2]int, reads, spanning int64, err error) {
	var hdr []byte
	if c.Hdr == 0 {
		hdr = c16RealHeader
	} else {
		hdr = make([]byte, c.Hdr)
		for i := range hdr {
			hdr[i] = byte(0xC0 + i%0x30)
		}
	}
	prefix := binary.AppendUvarint(nil, uint64(len(hdr)))
	ref := append(append([]byte{}, prefix...), hdr...)
	ends := []int{len(ref)}
	meta := &carlet.CarPiecesAndMetadata{
		OriginalCarHeader:     base64.StdEncoding.EncodeToString(hdr),
		OriginalCarHeaderSize: uint64(len(ref)),
	}
	files := map[string][]byte{}
	for i, s := range c.Sizes {
		content := c16Content(i, s)
		var file []byte
		for j := 0; j < c.HS[i]; j++ {
			file = append(file, byte(0xA0+i)) // the piece's own header: must never be returned
		}
		file = append(file, content...)
		for j := 0; j < c.Tail; j++ {
			file = append(file, byte(0xB0+i)) // bytes after the content (subset node / padding): must never be returned
		}
		name := fmt.Sprintf("piece-%d.car", i)
		files[name] = file
		meta.CarPieces = append(meta.CarPieces, carlet.CarFile{Name: name, HeaderSize: uint64(c.HS[i]), ContentSize: uint64(s)})
		ref = append(ref, content...)
		ends = append(ends, len(ref))
	}
	var creator SplitCarFileReaderCreator
	switch c.Kind {
	case "mem":
		creator = func(cf carlet.CarFile) (ReaderAtCloserSize, error) {
			b, ok := files[cf.Name]
			if !ok {
				return nil, fmt.Errorf("no such piece %q", cf.Name)
			}
			return &c16Mem{bytes.NewReader(b), int64(len(b))}, nil
		}
	case "file":
		if err := os.MkdirAll(dir, 0o755); err != nil {
			return nil, nil, 0, 0, err
		}
		defer os.RemoveAll(dir)
		for name, b := range files {
			if err := os.WriteFile(filepath.Join(dir, name), b, 0o644); err != nil {
				return nil, nil, 0, 0, err
			}
		}
		creator = func(cf carlet.CarFile) (ReaderAtCloserSize, error) {
			return NewFileSplitCarReader(filepath.Join(dir, cf.Name))
		}
	default:
		return nil, nil, 0, 0, fmt.Errorf("unknown kind %q", c.Kind)
	}
	var scr *SplitCarReader
	var pv interface{}
	var stack string
	var nerr error
	func() {
		defer func() {
			if x := recover(); x != nil {
				pv, stack = x, string(debug.Stack())
			}
		}()
		scr, nerr = NewSplitCarReader(meta, creator)
	}()
	if pv != nil {
		return []*c16Fail{{"panic|" + c16RepoFrame(stack), "construct", fmt.Sprintf("NewSplitCarReader panicked: %v", pv)}}, [][2]int{{0, 0}}, 0, 0, nil
	}
	if nerr != nil {
		// consistent metadata and pieces (sizes recorded = sizes present) must be readable
		return []*c16Fail{{"reader-rejects-consistent-pieces", "construct", fmt.Sprintf("NewSplitCarReader: %v", nerr)}}, [][2]int{{0, 0}}, 0, 0, nil
	}
	defer scr.Close()
	fails, failAt, spanning = c16Matrix(scr, ref, ends, c16PieceNames(len(c.Sizes), true), seen)
	total := int64(len(ref))
	return fails, failAt, (total + 2) * (total + 3), spanning, nil
}

func c16Base() string {
	b := os.Getenv("VERIF_SHM")
	if b == "" {
		b = "/dev/shm"
		if _, err := os.Stat(b); err != nil {
			b = os.TempDir()
		}
	}
	d := filepath.Join(b, fmt.Sprintf("verif-c16r-%d", os.Getpid()))
	os.MkdirAll(d, 0o755)
	return d
}

func c16Vectors(maxPieces, maxSize int) [][]int {
	var out [][]int
	for k := 1; k <= maxPieces; k++ {
		dims := make([]int, k)
		for i := range dims {
			dims[i] = maxSize + 1
		}
		explore.Product(dims, func(ix []int) bool {
			out = append(out, append([]int{}, ix...))
			return true
		})
	}
	return out
}

func c16Cases() (cases []c16Case, bounds map[string]interface{}) {
	bounds = map[string]interface{}{}
	maxA, maxB := 4, 3
	if vkit.Thorough() {
		maxA, maxB = 6, 5
	}
	// (a)
	kinds := []string{"bytes", "section", "eager"}
	va := c16Vectors(4, maxA)
	if vkit.Thorough() {
		// longer vectors (several middle pieces, runs of empty pieces): 5 and 6 pieces over sizes {0,1,3}
		alphabet := []int{0, 1, 3}
		for k := 5; k <= 6; k++ {
			dims := make([]int, k)
			for i := range dims {
				dims[i] = len(alphabet)
			}
			explore.Product(dims, func(ix []int) bool {
				v := make([]int, k)
				for i, x := range ix {
					v[i] = alphabet[x]
				}
				va = append(va, v)
				return true
			})
		}
		bounds["a_long_vectors"] = "5 and 6 pieces over sizes {0,1,3} (972 vectors)"
	}
	for _, v := range va {
		for _, k := range kinds {
			cases = append(cases, c16Case{Part: "a", Kind: k, Sizes: v})
		}
	}
	bounds["a_max_pieces"] = 4
	bounds["a_piece_size_max"] = maxA
	bounds["a_size_vectors"] = len(va)
	bounds["a_reader_kinds"] = kinds
	// (b)
	vb := c16Vectors(3, maxB)
	hsPatterns := [][]int{{1, 2, 3}, {3, 3, 3}, {0, 0, 0}}
	tails := []int{0, 2}
	hdrs := []int{1, 3, 0}
	if vkit.Thorough() {
		hdrs = append(hdrs, 130) // 2-byte length prefix
	}
	nb := 0
	for _, v := range vb {
		for _, hs := range hsPatterns {
			for _, tail := range tails {
				for _, h := range hdrs {
					if h == 130 && !(hs[0] == 1 && tail == 0) {
						continue
					}
					if h == 0 && !vkit.Thorough() && !(hs[0] == 1) {
						continue
					}
					cases = append(cases, c16Case{Part: "b", Kind: "mem", Sizes: v, HS: hs[:len(v)], Tail: tail, Hdr: h})
					nb++
				}
			}
		}
		// through real files and the repository's local-file reader (file size = header + content, as that reader requires)
		cases = append(cases, c16Case{Part: "b", Kind: "file", Sizes: v, HS: []int{1, 2, 3}[:len(v)], Tail: 0, Hdr: 3})
		nb++
	}
	bounds["b_max_pieces"] = 3
	bounds["b_piece_content_max"] = maxB
	bounds["b_size_vectors"] = len(vb)
	bounds["b_configs"] = nb
	bounds["b_piece_header_sizes"] = hsPatterns
	bounds["b_tail_bytes"] = tails
	bounds["b_original_header_lengths(0=real CARv1 header)"] = hdrs
	bounds["read_matrix"] = "offset 0..total+1 x length 0..total+2"
	return
}

func TestVerif_C16(t *testing.T) {
	R := vkit.New("C16")
	defer R.Finish()
	R.Rule = c16Rule
	base := c16Base()
	defer os.RemoveAll(base)

	run := func(c c16Case, seen map[string]int64) ([]*c16Fail, [][2]int, int64, int64, error) {
		if c.Part == "a" {
			return c16RunA(c, seen)
		}
		return c16RunB(c, filepath.Join(base, "b-"+vkit.Hash(c.Kind, c.Sizes, c.HS, c.Tail, c.Hdr)), seen)
	}
	report := func(c c16Case, fails []*c16Fail, failAt [][2]int) {
		part := map[string]string{"a": "multireader", "b": "splitreader"}[c.Part]
		for i, f := range fails {
			cc := c
			off, ln := failAt[i][0], failAt[i][1]
			cc.Off, cc.Len = &off, &ln
			R.Violation(fmt.Sprintf("C16|%s|%s|%s", part, f.class, f.where),
				fmt.Sprintf("[%s kind=%s sizes=%v hs=%v tail=%d hdr=%d] %s", part, c.Kind, c.Sizes, c.HS, c.Tail, c.Hdr, f.detail),
				map[string]interface{}{"case": cc})
		}
	}

	if rp := vkit.ReplayRequest(); rp != nil {
		var c c16Case
		remarshalC16(rp["case"], &c)
		if c.Part != "a" && c.Part != "b" {
			R.Note("replay file describes a case of the other variant (split): nothing to do in this one")
			R.Case(false, "")
			return
		}
		seen := map[string]int64{}
		fails, failAt, reads, _, err := run(c, seen)
		if err != nil {
			R.Internal("replay: %v", err)
			return
		}
		t.Logf("replay %+v: %d reads, %d failure classes, observations %v", c, reads, len(fails), seen)
		for _, f := range fails {
			t.Logf("  %s|%s: %s", f.class, f.where, f.detail)
		}
		report(c, fails, failAt)
		R.Case(true, "")
		return
	}

	cases, bounds := c16Cases()
	for k, v := range bounds {
		R.Bounds[k] = v
	}
	seen := map[string]int64{}
	defer func() {
		keys := make([]string, 0, len(seen))
		for k := range seen {
			keys = append(keys, k)
		}
		sort.Strings(keys)
		for _, k := range keys {
			R.Add("reads:"+k, seen[k])
		}
	}()
	for idx, c := range cases {
		if !vkit.Mine(int64(idx)) {
			continue
		}
		if R.Expired() {
			R.Note("deadline reached at case %d of %d", idx, len(cases))
			break
		}
		fails, failAt, reads, spanning, err := run(c, seen)
		if err != nil {
			R.Internal("case %+v: %v", c, err)
			return
		}
		R.Case(len(c.Sizes) >= 2, "")
		R.Add("reads_"+c.Part, reads)
		R.Add("reads_spanning_a_boundary_"+c.Part, spanning)
		zero := 0
		for _, s := range c.Sizes {
			if s == 0 {
				zero++
			}
		}
		if zero > 0 {
			R.Add("vectors_with_an_empty_piece_"+c.Part, 1)
		}
		if len(fails) == 0 {
			R.Outcome(c.Part + ":" + c.Kind + ":all reads agree with the concatenation")
		} else {
			for _, f := range fails {
				R.Outcome(c.Part + ":" + c.Kind + ":" + f.class + "|" + f.where)
			}
		}
		if idx%997 == 0 {
			R.Sample(c)
		}
		report(c, fails, failAt)
	}
}

func remarshalC16(in interface{}, out *c16Case) {
	m, _ := in.(map[string]interface{})
	if m == nil {
		return
	}
	str := func(k string) string { s, _ := m[k].(string); return s }
	num := func(k string) int { f, _ := m[k].(float64); return int(f) }
	out.Part, out.Kind = str("part"), str("kind")
	out.Sizes, out.HS = vkit.Ints(m["sizes"]), vkit.Ints(m["hs"])
	out.Tail, out.Hdr = num("tail"), num("hdr")
}
