//go:build verif

package iplddecoders

// C11: the hand-written ("fast") node decoders agree with the schema-driven ("classic",
// ipld-prime bindnode + dag-cbor) decoder on every schema-conforming node, and a node of one
// kind is never accepted as another kind.
//
// Bounded-exhaustive: typed values are enumerated from per-field alphabets (full product for
// Epoch, Subset, Entry, Rewards, Shredding and SlotMeta; every value within k field deviations of
// a base value for DataFrame, Transaction and Block), encoded with the REFERENCE encoder, and
// decoded by both decoders of the kind, by the exported Decode*, by DecodeAny and by the six
// fast decoders of the other kinds. Plus every node of ../fixtures/*.car and every []byte vector
// embedded in the package's own *_test.go files.

import (
	"bytes"
	"encoding/binary"
	"encoding/hex"
	"fmt"
	"go/ast"
	"go/parser"
	"go/token"
	"os"
	"path/filepath"
	"reflect"
	"runtime"
	"runtime/debug"
	"sort"
	"strconv"
	"strings"
	"testing"

	"github.com/ipfs/go-cid"
	"github.com/ipld/go-ipld-prime"
	"github.com/ipld/go-ipld-prime/codec/dagcbor"
	"github.com/ipld/go-ipld-prime/datamodel"
	cidlink "github.com/ipld/go-ipld-prime/linking/cid"
	"github.com/ipld/go-ipld-prime/schema"
	"github.com/multiformats/go-multihash"
	"github.com/rpcpool/yellowstone-faithful/ipld/ipldbindcode"
	"github.com/rpcpool/yellowstone-faithful/zzverif/explore"
	"github.com/rpcpool/yellowstone-faithful/zzverif/vkit"
)

// ---------------------------------------------------------------------------------------------
// alphabets

var c11Ints = []int{1, 0, 23, 24, 255, 256, 65535, 65536, 1 << 32, 1<<63 - 1, -1, -24, -25, -1 << 63}

var c11ListLens = []int{0, 1, 2, 23, 24, 25, 300}

var c11ByteLens = []int{1, 0, 23, 24, 256, 70000}

// c11Cids is the pool of distinct CIDs: CIDv1 dag-cbor sha2-256 (what the archive uses), CIDv1
// dag-cbor sha2-512 (longer byte string), the identity CID radiance stores for "no rewards", a
// CIDv0, and four 36-byte CIDv1s with another codec or hash function.
var c11Cids = func() []cid.Cid {
	mk := func(mh uint64, codec uint64, s string) cid.Cid {
		c, err := cid.Prefix{Version: 1, Codec: codec, MhType: mh, MhLength: -1}.Sum([]byte(s))
		if err != nil {
			panic(err)
		}
		return c
	}
	v0h, _ := multihash.Sum([]byte("c11-v0"), multihash.SHA2_256, -1)
	return []cid.Cid{
		mk(multihash.SHA2_256, cid.DagCBOR, "c11-a"),
		mk(multihash.SHA2_512, cid.DagCBOR, "c11-b"),
		cid.MustParse("bafkqaaa"),
		cid.NewCidV0(v0h),
		// 36-byte CIDv1s (same length as the archive's own) whose codec or hash function is not
		// dag-cbor/sha2-256: a decoder fast path keyed on the length alone must not rewrite them
		mk(multihash.SHA2_256, cid.Raw, "c11-raw"),
		mk(multihash.SHA2_256, cid.DagProtobuf, "c11-pb"),
		mk(multihash.SHA3_256, cid.DagCBOR, "c11-sha3"),
	}
}()

// optional+nullable int: 0 = present(base), 1 = omitted/absent, 2 = null, 3.. = present(other ints)
const c11OptN = 2 + 14

func c11OptInt(i int) **int {
	switch {
	case i == 1:
		return nil
	case i == 2:
		var p *int
		return &p
	case i == 0:
		v := c11Ints[0]
		p := &v
		return &p
	default:
		v := c11Ints[i-2]
		p := &v
		return &p
	}
}

func c11OptName(i int) string {
	switch i {
	case 1:
		return "omitted"
	case 2:
		return "null"
	case 0:
		return fmt.Sprint(c11Ints[0])
	}
	return fmt.Sprint(c11Ints[i-2])
}

// link lists: 0 = length 1 (base); 1 = empty; then every other length x 1..3 distinct CIDs
type c11ListSpec struct{ Len, Distinct int }

var c11Lists = func() []c11ListSpec {
	out := []c11ListSpec{{1, 1}, {0, 0}}
	for _, l := range c11ListLens {
		for d := 1; d <= 3; d++ {
			if l == 0 || (l == 1 && d == 1) || d > l {
				continue
			}
			out = append(out, c11ListSpec{l, d})
		}
	}
	// length 1 pointing at each of the other pool members
	for k := 1; k < len(c11Cids); k++ {
		out = append(out, c11ListSpec{1, -k})
	}
	// a longer list cycling through the whole pool
	out = append(out, c11ListSpec{2 * len(c11Cids), len(c11Cids)})
	return out
}()

func c11LinkList(i int) ipldbindcode.List__Link {
	s := c11Lists[i]
	out := make(ipldbindcode.List__Link, 0, s.Len)
	if s.Distinct < 0 {
		return append(out, cidlink.Link{Cid: c11Cids[-s.Distinct]})
	}
	for k := 0; k < s.Len; k++ {
		out = append(out, cidlink.Link{Cid: c11Cids[k%s.Distinct]})
	}
	return out
}

// optional+nullable link list: 0 = present(base list), 1 = omitted, 2 = null, 3.. = present(list i-2)
func c11OptListN() int { return 2 + len(c11Lists) }

func c11OptList(i int) **ipldbindcode.List__Link {
	switch i {
	case 1:
		return nil
	case 2:
		var p *ipldbindcode.List__Link
		return &p
	case 0:
		l := c11LinkList(0)
		p := &l
		return &p
	}
	l := c11LinkList(i - 2)
	p := &l
	return &p
}

func c11Bytes(i int) []byte {
	n := c11ByteLens[i]
	b := make([]byte, n)
	for k := range b {
		b[k] = byte(k*7 + 3 + n)
	}
	return b
}

// shredding lists: 0 = one element (base); the other lengths cycle through the int alphabet
func c11ShreddingList(i int) ipldbindcode.List__Shredding {
	lens := []int{1, 0, 2, 23, 24, 25, 300}
	out := ipldbindcode.List__Shredding{}
	for k := 0; k < lens[i]; k++ {
		out = append(out, ipldbindcode.Shredding{EntryEndIdx: c11Ints[k%len(c11Ints)], ShredEndIdx: c11Ints[(k+5)%len(c11Ints)]})
	}
	return out
}

// ---------------------------------------------------------------------------------------------
// families

type c11Family struct {
	Name string
	Kind Kind
	Dims []int // alphabet size per field; index 0 is the base value
	Dev  int   // <0: full product; otherwise every index vector with at most Dev non-zero entries
	// Build returns a pointer to the typed value.
	Build func(ix []int) interface{}
}

func c11Type(k Kind) schema.Type {
	switch k {
	case KindTransaction:
		return ipldbindcode.Prototypes.Transaction.Type()
	case KindEntry:
		return ipldbindcode.Prototypes.Entry.Type()
	case KindBlock:
		return ipldbindcode.Prototypes.Block.Type()
	case KindSubset:
		return ipldbindcode.Prototypes.Subset.Type()
	case KindEpoch:
		return ipldbindcode.Prototypes.Epoch.Type()
	case KindRewards:
		return ipldbindcode.Prototypes.Rewards.Type()
	case KindDataFrame:
		return ipldbindcode.Prototypes.DataFrame.Type()
	}
	panic("kind")
}

// frame builds a DataFrame from 5 alphabet indices taken from the given (possibly reduced) alphabets.
type c11FrameAlpha struct {
	Hash, Index, Total []int // indices into the optional-int alphabet
	Data               []int // indices into c11ByteLens
	Next               []int // indices into the optional-list alphabet
}

func c11Seq(n int) []int {
	out := make([]int, n)
	for i := range out {
		out[i] = i
	}
	return out
}

func c11FullFrameAlpha() c11FrameAlpha {
	return c11FrameAlpha{c11Seq(c11OptN), c11Seq(c11OptN), c11Seq(c11OptN), c11Seq(len(c11ByteLens)), c11Seq(c11OptListN())}
}

func (a c11FrameAlpha) dims() []int {
	return []int{len(a.Hash), len(a.Index), len(a.Total), len(a.Data), len(a.Next)}
}

func (a c11FrameAlpha) build(ix []int) ipldbindcode.DataFrame {
	return ipldbindcode.DataFrame{
		Kind:  int(KindDataFrame),
		Hash:  c11OptInt(a.Hash[ix[0]]),
		Index: c11OptInt(a.Index[ix[1]]),
		Total: c11OptInt(a.Total[ix[2]]),
		Data:  c11Bytes(a.Data[ix[3]]),
		Next:  c11OptList(a.Next[ix[4]]),
	}
}

func c11Families(thorough bool) []c11Family {
	nI := len(c11Ints)
	nL := len(c11Lists)
	full := c11FullFrameAlpha()
	// reduced frame alphabet used inside the Rewards full product (quick tier)
	red := c11FrameAlpha{
		Hash:  []int{0, 2, 11, 15}, // 1, null, 2^63-1, -2^63
		Index: []int{0, 2, 3, 12},  // 1, null, 0, -1
		Total: []int{0, 2, 5, 10},  // 1, null, 24, 2^32
		Data:  c11Seq(len(c11ByteLens)),
		Next:  []int{0, 1, 2, 3, 4, 5, 13}, // [1], omitted, null, [1], [], [2/1], ...
	}
	if thorough {
		red = full
		red.Data = []int{0, 1, 3, 4} // 1, 0, 24, 256 bytes (70 000-byte data is covered by the DataFrame and Transaction families)
	}
	devT, devB, devF := 2, 2, 2
	if thorough {
		devT, devB, devF = 3, 3, -1
	}
	baseBlock := func() ipldbindcode.Block {
		return ipldbindcode.Block{Kind: int(KindBlock), Slot: c11Ints[0], Shredding: c11ShreddingList(0), Entries: c11LinkList(0),
			Meta: ipldbindcode.SlotMeta{Parent_slot: c11Ints[0], Blocktime: c11Ints[0], Block_height: c11OptInt(0)}, Rewards: cidlink.Link{Cid: c11Cids[0]}}
	}
	fams := []c11Family{
		{Name: "Epoch", Kind: KindEpoch, Dims: []int{nI, nL}, Dev: -1, Build: func(ix []int) interface{} {
			return &ipldbindcode.Epoch{Kind: int(KindEpoch), Epoch: c11Ints[ix[0]], Subsets: c11LinkList(ix[1])}
		}},
		{Name: "Subset", Kind: KindSubset, Dims: []int{nI, nI, nL}, Dev: -1, Build: func(ix []int) interface{} {
			return &ipldbindcode.Subset{Kind: int(KindSubset), First: c11Ints[ix[0]], Last: c11Ints[ix[1]], Blocks: c11LinkList(ix[2])}
		}},
		{Name: "Entry", Kind: KindEntry, Dims: []int{nI, len(c11ByteLens), nL}, Dev: -1, Build: func(ix []int) interface{} {
			return &ipldbindcode.Entry{Kind: int(KindEntry), NumHashes: c11Ints[ix[0]], Hash: c11Bytes(ix[1]), Transactions: c11LinkList(ix[2])}
		}},
		{Name: "Rewards", Kind: KindRewards, Dims: append([]int{nI}, red.dims()...), Dev: -1, Build: func(ix []int) interface{} {
			return &ipldbindcode.Rewards{Kind: int(KindRewards), Slot: c11Ints[ix[0]], Data: red.build(ix[1:])}
		}},
		{Name: "Block.SlotMeta", Kind: KindBlock, Dims: []int{nI, nI, c11OptN}, Dev: -1, Build: func(ix []int) interface{} {
			b := baseBlock()
			b.Meta = ipldbindcode.SlotMeta{Parent_slot: c11Ints[ix[0]], Blocktime: c11Ints[ix[1]], Block_height: c11OptInt(ix[2])}
			return &b
		}},
		{Name: "Block.Shredding", Kind: KindBlock, Dims: []int{nI, nI, 3}, Dev: -1, Build: func(ix []int) interface{} {
			b := baseBlock()
			n := []int{1, 2, 24}[ix[2]]
			b.Shredding = ipldbindcode.List__Shredding{}
			for k := 0; k < n; k++ {
				s := ipldbindcode.Shredding{EntryEndIdx: c11Ints[ix[0]], ShredEndIdx: c11Ints[ix[1]]}
				if k%2 == 1 {
					s.EntryEndIdx, s.ShredEndIdx = s.ShredEndIdx, s.EntryEndIdx
				}
				b.Shredding = append(b.Shredding, s)
			}
			return &b
		}},
		{Name: "DataFrame", Kind: KindDataFrame, Dims: full.dims(), Dev: devF, Build: func(ix []int) interface{} {
			f := full.build(ix)
			return &f
		}},
		{Name: "Transaction", Kind: KindTransaction, Dims: append(append(append([]int{}, full.dims()...), full.dims()...), nI, c11OptN), Dev: devT, Build: func(ix []int) interface{} {
			return &ipldbindcode.Transaction{Kind: int(KindTransaction), Data: full.build(ix[0:5]), Metadata: full.build(ix[5:10]), Slot: c11Ints[ix[10]], Index: c11OptInt(ix[11])}
		}},
		{Name: "Block", Kind: KindBlock, Dims: []int{nI, 7, nL, nI, nI, c11OptN, len(c11Cids)}, Dev: devB, Build: func(ix []int) interface{} {
			return &ipldbindcode.Block{Kind: int(KindBlock), Slot: c11Ints[ix[0]], Shredding: c11ShreddingList(ix[1]), Entries: c11LinkList(ix[2]),
				Meta:    ipldbindcode.SlotMeta{Parent_slot: c11Ints[ix[3]], Blocktime: c11Ints[ix[4]], Block_height: c11OptInt(ix[5])},
				Rewards: cidlink.Link{Cid: c11Cids[ix[6]]}}
		}},
	}
	// long lists: an epoch has up to 432 000 slots, so a Subset may list hundreds of thousands of blocks; the
	// lengths straddle the element limit a CBOR library applies by default (131 072)
	longLens := []int{1000, 131072, 131073, 200000}
	longLinks := func(n int) ipldbindcode.List__Link {
		out := make(ipldbindcode.List__Link, 0, n)
		for k := 0; k < n; k++ {
			out = append(out, cidlink.Link{Cid: c11Cids[(k%2)*4]}) // two 36-byte CIDs
		}
		return out
	}
	fams = append(fams,
		c11Family{Name: "Epoch.long", Kind: KindEpoch, Dims: []int{len(longLens)}, Dev: -1, Build: func(ix []int) interface{} {
			return &ipldbindcode.Epoch{Kind: int(KindEpoch), Epoch: 1, Subsets: longLinks(longLens[ix[0]])}
		}},
		c11Family{Name: "Subset.long", Kind: KindSubset, Dims: []int{len(longLens)}, Dev: -1, Build: func(ix []int) interface{} {
			return &ipldbindcode.Subset{Kind: int(KindSubset), First: 1, Last: 2, Blocks: longLinks(longLens[ix[0]])}
		}},
		c11Family{Name: "Entry.long", Kind: KindEntry, Dims: []int{len(longLens)}, Dev: -1, Build: func(ix []int) interface{} {
			return &ipldbindcode.Entry{Kind: int(KindEntry), NumHashes: 1, Hash: c11Bytes(0), Transactions: longLinks(longLens[ix[0]])}
		}},
		c11Family{Name: "Block.long", Kind: KindBlock, Dims: []int{2, len(longLens)}, Dev: -1, Build: func(ix []int) interface{} {
			b := baseBlock()
			if ix[0] == 0 {
				b.Entries = longLinks(longLens[ix[1]])
			} else {
				b.Shredding = make(ipldbindcode.List__Shredding, longLens[ix[1]])
				for k := range b.Shredding {
					b.Shredding[k] = ipldbindcode.Shredding{EntryEndIdx: k % 25, ShredEndIdx: -1}
				}
			}
			return &b
		}},
	)
	if thorough {
		fams = append(fams, c11Family{Name: "DataFrame.long", Kind: KindDataFrame, Dims: []int{len(longLens)}, Dev: -1, Build: func(ix []int) interface{} {
			f := full.build(make([]int, 5))
			l := longLinks(longLens[ix[0]])
			pl := &l
			f.Next = &pl
			return &f
		}})
	}
	return fams
}

// c11Enumerate calls f for every index vector of the family (full product, or <= Dev deviations).
func c11Enumerate(fam *c11Family, f func(ix []int) bool) {
	if fam.Dev < 0 {
		explore.Product(fam.Dims, f)
		return
	}
	ix := make([]int, len(fam.Dims))
	stop := false
	var rec func(from, left int)
	rec = func(from, left int) {
		if stop {
			return
		}
		if !f(ix) {
			stop = true
			return
		}
		if left == 0 {
			return
		}
		for p := from; p < len(fam.Dims); p++ {
			for v := 1; v < fam.Dims[p]; v++ {
				ix[p] = v
				rec(p+1, left-1)
				if stop {
					return
				}
			}
			ix[p] = 0
		}
	}
	rec(0, fam.Dev)
}

// ---------------------------------------------------------------------------------------------
// observation through exported fields and accessors

type c11Obs struct {
	names []string
	vals  []string
}

func (o *c11Obs) add(name, val string) { o.names = append(o.names, name); o.vals = append(o.vals, val) }

func c11LinkStr(l datamodel.Link) string {
	if l == nil {
		return "<nil link>"
	}
	switch x := l.(type) {
	case cidlink.Link:
		return x.Cid.KeyString()
	case *cidlink.Link:
		return x.Cid.KeyString()
	}
	return "?" + l.String()
}

// nil and empty lists are equal under the stated comparison
func c11LinksStr(l ipldbindcode.List__Link) string {
	var sb strings.Builder
	sb.WriteString(strconv.Itoa(len(l)))
	for _, x := range l {
		sb.WriteByte('|')
		sb.WriteString(c11LinkStr(x))
	}
	return sb.String()
}

func c11FrameObs(o *c11Obs, p string, f ipldbindcode.DataFrame) {
	o.add(p+"Kind", strconv.Itoa(f.Kind))
	h, hok := f.GetHash()
	o.add(p+"Hash", fmt.Sprintf("%v/%v/%d", f.HasHash(), hok, h))
	i, iok := f.GetIndex()
	o.add(p+"Index", fmt.Sprintf("%v/%v/%d", f.HasIndex(), iok, i))
	t, tok := f.GetTotal()
	o.add(p+"Total", fmt.Sprintf("%v/%v/%d", f.HasTotal(), tok, t))
	o.add(p+"Data", string(f.Bytes()))
	nx, _ := f.GetNext()
	o.add(p+"Next", fmt.Sprintf("%v/%s", f.HasNext(), c11LinksStr(nx)))
}

// c11NextFlag is the part of GetNext deliberately NOT compared (nil == empty): its ok flag.
func c11NextFlags(v interface{}) string {
	fl := func(f ipldbindcode.DataFrame) string { _, ok := f.GetNext(); return fmt.Sprint(ok) }
	switch x := v.(type) {
	case *ipldbindcode.DataFrame:
		return fl(*x)
	case *ipldbindcode.Rewards:
		return fl(x.Data)
	case *ipldbindcode.Transaction:
		return fl(x.Data) + fl(x.Metadata)
	}
	return ""
}

func c11Observe(v interface{}) (o *c11Obs, kind Kind, err error) {
	o = &c11Obs{}
	defer func() {
		if r := recover(); r != nil {
			err = fmt.Errorf("accessor panic: %v", r)
		}
	}()
	switch x := v.(type) {
	case *ipldbindcode.Epoch:
		o.add("Kind", strconv.Itoa(x.Kind))
		o.add("Epoch", strconv.Itoa(x.Epoch))
		o.add("Subsets", c11LinksStr(x.Subsets))
		return o, KindEpoch, nil
	case *ipldbindcode.Subset:
		o.add("Kind", strconv.Itoa(x.Kind))
		o.add("First", strconv.Itoa(x.First))
		o.add("Last", strconv.Itoa(x.Last))
		o.add("Blocks", c11LinksStr(x.Blocks))
		return o, KindSubset, nil
	case *ipldbindcode.Entry:
		o.add("Kind", strconv.Itoa(x.Kind))
		o.add("NumHashes", strconv.Itoa(x.NumHashes))
		o.add("Hash", string(x.Hash))
		o.add("Transactions", c11LinksStr(x.Transactions))
		return o, KindEntry, nil
	case *ipldbindcode.Rewards:
		o.add("Kind", strconv.Itoa(x.Kind))
		o.add("Slot", strconv.Itoa(x.Slot))
		c11FrameObs(o, "Data.", x.Data)
		return o, KindRewards, nil
	case *ipldbindcode.DataFrame:
		c11FrameObs(o, "", *x)
		return o, KindDataFrame, nil
	case *ipldbindcode.Transaction:
		o.add("Kind", strconv.Itoa(x.Kind))
		c11FrameObs(o, "Data.", x.Data)
		c11FrameObs(o, "Metadata.", x.Metadata)
		o.add("Slot", strconv.Itoa(x.Slot))
		pi, pok := x.GetPositionIndex()
		o.add("Index", fmt.Sprintf("%v/%v/%d", x.HasIndex(), pok, pi))
		return o, KindTransaction, nil
	case *ipldbindcode.Block:
		o.add("Kind", strconv.Itoa(x.Kind))
		o.add("Slot", strconv.Itoa(x.Slot))
		var sb strings.Builder
		sb.WriteString(strconv.Itoa(len(x.Shredding)))
		for _, s := range x.Shredding {
			fmt.Fprintf(&sb, "|%d,%d", s.EntryEndIdx, s.ShredEndIdx)
		}
		o.add("Shredding", sb.String())
		o.add("Entries", c11LinksStr(x.Entries))
		o.add("Meta.Parent_slot", strconv.Itoa(x.Meta.Parent_slot))
		o.add("Meta.Blocktime", strconv.Itoa(x.Meta.Blocktime))
		bh, ok := x.GetBlockHeight()
		mh, mok := x.Meta.GetBlockHeight()
		o.add("Meta.Block_height", fmt.Sprintf("%v/%v/%d/%v/%d", x.Meta.HasBlockHeight(), ok, bh, mok, mh))
		o.add("Rewards", c11LinkStr(x.Rewards))
		return o, KindBlock, nil
	}
	return nil, -1, fmt.Errorf("unexpected decoded type %T", v)
}

func c11Diff(a, b *c11Obs) (field, av, bv string) {
	for i := range a.names {
		if i >= len(b.names) || a.names[i] != b.names[i] {
			return "shape", strings.Join(a.names, ","), strings.Join(b.names, ",")
		}
		if a.vals[i] != b.vals[i] {
			return a.names[i], a.vals[i], b.vals[i]
		}
	}
	if len(a.names) != len(b.names) {
		return "shape", strings.Join(a.names, ","), strings.Join(b.names, ",")
	}
	return "", "", ""
}

func c11Short(s string) string {
	if len(s) > 160 {
		return fmt.Sprintf("%q...(%d bytes)", s[:160], len(s))
	}
	return fmt.Sprintf("%q", s)
}

// ---------------------------------------------------------------------------------------------
// decoders

type c11Dec struct {
	Kind                    Kind
	Fast, Classic, Exported func([]byte) (interface{}, error)
}

// ptrOrNil avoids typed-nil pointers inside interface values
func c11Wrap(v interface{}, err error) (interface{}, error) {
	if err != nil {
		return nil, err
	}
	if rv := reflect.ValueOf(v); !rv.IsValid() || (rv.Kind() == reflect.Ptr && rv.IsNil()) {
		return nil, fmt.Errorf("decoder returned nil without error")
	}
	return v, nil
}

var c11Decs = []c11Dec{
	{KindTransaction,
		func(b []byte) (interface{}, error) { return c11Wrap(_DecodeTransactionFast(b)) },
		func(b []byte) (interface{}, error) { return c11Wrap(_DecodeTransactionClassic(b)) },
		func(b []byte) (interface{}, error) { return c11Wrap(DecodeTransaction(b)) }},
	{KindEntry,
		func(b []byte) (interface{}, error) { return c11Wrap(_DecodeEntryFast(b)) },
		func(b []byte) (interface{}, error) { return c11Wrap(_DecodeEntryClassic(b)) },
		func(b []byte) (interface{}, error) { return c11Wrap(DecodeEntry(b)) }},
	{KindBlock,
		func(b []byte) (interface{}, error) { return c11Wrap(_DecodeBlockFast(b)) },
		func(b []byte) (interface{}, error) { return c11Wrap(_DecodeBlockClassic(b)) },
		func(b []byte) (interface{}, error) { return c11Wrap(DecodeBlock(b)) }},
	{KindSubset,
		func(b []byte) (interface{}, error) { return c11Wrap(_DecodeSubsetFast(b)) },
		func(b []byte) (interface{}, error) { return c11Wrap(_DecodeSubsetClassic(b)) },
		func(b []byte) (interface{}, error) { return c11Wrap(DecodeSubset(b)) }},
	{KindEpoch,
		func(b []byte) (interface{}, error) { return c11Wrap(_DecodeEpochFast(b)) },
		func(b []byte) (interface{}, error) { return c11Wrap(_DecodeEpochClassic(b)) },
		func(b []byte) (interface{}, error) { return c11Wrap(DecodeEpoch(b)) }},
	{KindRewards,
		func(b []byte) (interface{}, error) { return c11Wrap(_DecodeRewardsFast(b)) },
		func(b []byte) (interface{}, error) { return c11Wrap(_DecodeRewardsClassic(b)) },
		func(b []byte) (interface{}, error) { return c11Wrap(DecodeRewards(b)) }},
	{KindDataFrame,
		func(b []byte) (interface{}, error) { return c11Wrap(_DecodeDataFrameFast(b)) },
		func(b []byte) (interface{}, error) { return c11Wrap(_DecodeDataFrameClassic(b)) },
		func(b []byte) (interface{}, error) { return c11Wrap(DecodeDataFrame(b)) }},
}

// c11PanicSite returns the innermost frame of the repository (not the harness, not the kit) from a stack dump.
func c11PanicSite(stack []byte) string {
	lines := strings.Split(string(stack), "\n")
	for i := 0; i+1 < len(lines); i++ {
		fn := strings.TrimSpace(lines[i])
		if !strings.HasPrefix(fn, "github.com/rpcpool/yellowstone-faithful") {
			continue
		}
		loc := strings.TrimSpace(lines[i+1])
		if strings.Contains(loc, "zz_verif_") || strings.Contains(fn, "/zzverif/") {
			continue
		}
		if j := strings.Index(fn, "("); j > 0 && !strings.HasPrefix(fn[j:], "(*") {
			fn = fn[:j]
		} else if j := strings.LastIndex(fn, "("); j > 0 {
			fn = fn[:j]
		}
		fn = strings.TrimPrefix(fn, "github.com/rpcpool/yellowstone-faithful/")
		if j := strings.Index(loc, " "); j > 0 {
			loc = loc[:j]
		}
		return fn + "@" + filepath.Base(loc)
	}
	return "unknown-site"
}

// c11Call runs a decoder, converting a panic into (nil, nil, panic description, site).
func c11Call(d func([]byte) (interface{}, error), raw []byte) (v interface{}, err error, pan string, site string) {
	defer func() {
		if r := recover(); r != nil {
			pan = fmt.Sprint(r)
			site = c11PanicSite(debug.Stack())
			v, err = nil, nil
		}
	}()
	v, err = d(raw)
	return
}

// ---------------------------------------------------------------------------------------------
// one case

type c11Result struct {
	Skipped bool
	Outcome string
}

// c11CheckNode decodes raw (a node of kind k) with everything and reports violations.
// origin describes the case for replay. requireAccept=false for corpus nodes whose classic decoder rejects them.
func c11CheckNode(R *vkit.Report, raw []byte, k Kind, famName string, origin map[string]interface{}) c11Result {
	var own *c11Dec
	for i := range c11Decs {
		if c11Decs[i].Kind == k {
			own = &c11Decs[i]
		}
	}
	if own == nil {
		return c11Result{Skipped: true, Outcome: "unknown-kind"}
	}
	rep := func(extra map[string]interface{}) map[string]interface{} {
		m := map[string]interface{}{}
		for a, b := range origin {
			m[a] = b
		}
		if len(raw) <= 4096 {
			m["raw_hex"] = hex.EncodeToString(raw)
		} else {
			m["raw_len"] = len(raw)
			m["raw_head_hex"] = hex.EncodeToString(raw[:256])
		}
		for a, b := range extra {
			m[a] = b
		}
		return m
	}
	res := c11Result{Outcome: k.String() + ":agree"}
	cv, cerr, cpan, csite := c11Call(own.Classic, raw)
	if cpan != "" {
		// the reference decoder itself died: no oracle for this value
		R.Add("reference_decoder_panicked", 1)
		R.Note("classic %s decoder panicked (%s at %s): no oracle", k, cpan, csite)
		cerr = fmt.Errorf("panic: %s", cpan)
	}
	fv, ferr, fpan, fsite := c11Call(own.Fast, raw)
	if fpan != "" {
		R.Violation(fmt.Sprintf("C11|panic|_Decode%sFast|%s", k, fsite), fmt.Sprintf("fast %s decoder panicked on a %s node (%s): %s", k, famName, fsite, fpan), rep(map[string]interface{}{"panic": fpan}))
		res.Outcome = k.String() + ":fast-panic"
	} else if cerr != nil {
		// reference decoder rejects what the reference encoder wrote: not a schema-conforming node for our purposes
		R.Add("reference_decoder_rejected", 1)
		res.Outcome = k.String() + ":classic-rejects"
		if ferr == nil {
			res.Outcome += "/fast-accepts"
		}
		res.Skipped = true
	} else if ferr != nil {
		R.Violation(fmt.Sprintf("C11|reject|%s|fast-rejects-conforming-node", k), fmt.Sprintf("_Decode%sFast rejects a node the schema-driven decoder accepts (%s): %v", k, famName, ferr), rep(map[string]interface{}{"fast_error": ferr.Error()}))
		res.Outcome = k.String() + ":fast-rejects"
	} else {
		co, ck, e1 := c11Observe(cv)
		fo, fk, e2 := c11Observe(fv)
		switch {
		case e1 != nil:
			R.Add("reference_value_unobservable", 1)
			R.Note("classic %s value cannot be observed: %v", k, e1)
			res.Skipped = true
		case e2 != nil:
			R.Violation(fmt.Sprintf("C11|accessor|%s", k), fmt.Sprintf("accessors on the fast-decoded %s fail: %v", k, e2), rep(nil))
		case ck != fk:
			R.Violation(fmt.Sprintf("C11|kind|%s", k), fmt.Sprintf("decoded kinds differ: classic %s fast %s", ck, fk), rep(nil))
		default:
			if f, a, b := c11Diff(co, fo); f != "" {
				R.Violation(fmt.Sprintf("C11|mismatch|%s|%s", k, f), fmt.Sprintf("%s node (%s): field %s (has/ok/value): schema-driven decoder %s, fast decoder %s", k, famName, f, c11Short(a), c11Short(b)),
					rep(map[string]interface{}{"field": f, "classic": c11Short(a), "fast": c11Short(b)}))
				res.Outcome = k.String() + ":mismatch:" + f
			}
			if a, b := c11NextFlags(cv), c11NextFlags(fv); a != b {
				R.Add("observation:GetNext_ok_flag_differs_on_empty_list(nil==empty,not_compared)", 1)
			}
		}
		// exported Decode* must behave as the fast one
		ev, eerr, epan, esite := c11Call(own.Exported, raw)
		if epan != "" {
			R.Violation(fmt.Sprintf("C11|panic|Decode%s|%s", k, esite), fmt.Sprintf("Decode%s panicked: %s", k, epan), rep(nil))
		} else if eerr != nil {
			R.Violation(fmt.Sprintf("C11|reject|%s|exported-rejects-conforming-node", k), fmt.Sprintf("Decode%s rejects: %v", k, eerr), rep(nil))
		} else if eo, _, e := c11Observe(ev); e == nil && e1 == nil {
			if f, a, b := c11Diff(co, eo); f != "" {
				R.Violation(fmt.Sprintf("C11|mismatch|%s|%s", k, f), fmt.Sprintf("%s node via Decode%s: field %s: schema-driven %s, exported %s", k, k, f, c11Short(a), c11Short(b)), rep(nil))
			}
		}
		// DecodeAny
		av, aerr, apan, asite := c11Call(DecodeAny, raw)
		if apan != "" {
			R.Violation(fmt.Sprintf("C11|panic|DecodeAny|%s", asite), fmt.Sprintf("DecodeAny panicked on a %s node: %s", k, apan), rep(nil))
		} else if aerr != nil {
			R.Violation(fmt.Sprintf("C11|reject|%s|DecodeAny-rejects-conforming-node", k), fmt.Sprintf("DecodeAny rejects a %s node: %v", k, aerr), rep(nil))
		} else if ao, ak, e := c11Observe(av); e != nil || ak != k {
			R.Violation(fmt.Sprintf("C11|kind|DecodeAny|%s", k), fmt.Sprintf("DecodeAny returned %T (%v) for a %s node", av, e, k), rep(nil))
		} else if e1 == nil {
			if f, a, b := c11Diff(co, ao); f != "" {
				R.Violation(fmt.Sprintf("C11|mismatch|%s|%s", k, f), fmt.Sprintf("%s node via DecodeAny: field %s: schema-driven %s, DecodeAny %s", k, f, c11Short(a), c11Short(b)), rep(nil))
			}
		}
	}
	// the six other fast decoders must return an error (and not panic)
	for i := range c11Decs {
		d := &c11Decs[i]
		if d.Kind == k {
			continue
		}
		{
			fn := d.Fast
			name := fmt.Sprintf("_Decode%sFast", d.Kind)
			v, err, pan, site := c11Call(fn, raw)
			if pan != "" {
				R.Violation(fmt.Sprintf("C11|panic|%s|%s", name, site), fmt.Sprintf("%s panicked on a %s node (%s): %s", name, k, site, pan), rep(map[string]interface{}{"decoder": name}))
			} else if err == nil {
				R.Violation(fmt.Sprintf("C11|wrong-kind-accepted|%s|%s", k, name), fmt.Sprintf("%s accepted a %s node as %T", name, k, v), rep(map[string]interface{}{"decoder": name}))
			}
		}
	}
	return res
}

func c11Encode(node interface{}, k Kind) (raw []byte, err error) {
	defer func() {
		if r := recover(); r != nil {
			err = fmt.Errorf("reference encoder panicked: %v", r)
		}
	}()
	return ipld.Marshal(dagcbor.Encode, node, c11Type(k))
}

// ---------------------------------------------------------------------------------------------
// corpus: fixture CARs and embedded test vectors

type c11CorpusNode struct {
	Source string
	N      int
	Raw    []byte
}

func c11ReadCar(path string) ([][]byte, error) {
	b, err := os.ReadFile(path)
	if err != nil {
		return nil, err
	}
	hl, n := binary.Uvarint(b)
	if n <= 0 || uint64(n)+hl > uint64(len(b)) {
		return nil, fmt.Errorf("bad CAR header")
	}
	off := uint64(n) + hl
	var out [][]byte
	for off < uint64(len(b)) {
		sl, n := binary.Uvarint(b[off:])
		if n <= 0 || off+uint64(n)+sl > uint64(len(b)) {
			return out, fmt.Errorf("bad section at %d", off)
		}
		sec := b[off+uint64(n) : off+uint64(n)+sl]
		cl, _, err := cid.CidFromBytes(sec)
		if err != nil {
			return out, fmt.Errorf("bad cid at %d: %w", off, err)
		}
		out = append(out, sec[cl:])
		off += uint64(n) + sl
	}
	return out, nil
}

// c11EmbeddedVectors evaluates every package-level `name = []byte{...}` literal of the *_test.go files in dir.
func c11EmbeddedVectors(dir string) (map[string][]byte, error) {
	out := map[string][]byte{}
	files, _ := filepath.Glob(filepath.Join(dir, "*_test.go"))
	fset := token.NewFileSet()
	for _, fn := range files {
		if strings.HasPrefix(filepath.Base(fn), "zz_verif_") {
			continue
		}
		f, err := parser.ParseFile(fset, fn, nil, 0)
		if err != nil {
			return out, err
		}
		ast.Inspect(f, func(n ast.Node) bool {
			vs, ok := n.(*ast.ValueSpec)
			if !ok {
				return true
			}
			for i, v := range vs.Values {
				cl, ok := v.(*ast.CompositeLit)
				if !ok || i >= len(vs.Names) {
					continue
				}
				at, ok := cl.Type.(*ast.ArrayType)
				if !ok || at.Len != nil {
					continue
				}
				if id, ok := at.Elt.(*ast.Ident); !ok || (id.Name != "byte" && id.Name != "uint8") {
					continue
				}
				buf := make([]byte, 0, len(cl.Elts))
				good := true
				for _, e := range cl.Elts {
					bl, ok := e.(*ast.BasicLit)
					if !ok || bl.Kind != token.INT {
						good = false
						break
					}
					x, err := strconv.ParseUint(bl.Value, 0, 8)
					if err != nil {
						good = false
						break
					}
					buf = append(buf, byte(x))
				}
				if good && len(buf) >= 2 {
					out[filepath.Base(fn)+":"+vs.Names[i].Name] = buf
				}
			}
			return true
		})
	}
	return out, nil
}

func c11Corpus(R *vkit.Report) []c11CorpusNode {
	var out []c11CorpusNode
	cars, _ := filepath.Glob(filepath.Join("..", "fixtures", "*.car"))
	sort.Strings(cars)
	for _, p := range cars {
		nodes, err := c11ReadCar(p)
		if err != nil {
			R.Note("fixture %s: %v (read %d nodes)", p, err, len(nodes))
		}
		for i, n := range nodes {
			out = append(out, c11CorpusNode{Source: filepath.Base(p), N: i, Raw: n})
		}
	}
	R.Bounds["fixture_cars"] = len(cars)
	vec, err := c11EmbeddedVectors(".")
	if err != nil {
		R.Note("embedded vectors: %v", err)
	}
	names := make([]string, 0, len(vec))
	for n := range vec {
		names = append(names, n)
	}
	sort.Strings(names)
	for _, n := range names {
		out = append(out, c11CorpusNode{Source: n, N: 0, Raw: vec[n]})
	}
	R.Bounds["embedded_test_vectors"] = len(names)
	return out
}

// ---------------------------------------------------------------------------------------------

func c11IxName(fam *c11Family, ix []int) string {
	return fmt.Sprintf("%s%v", fam.Name, ix)
}

func TestVerif_C11(t *testing.T) {
	R := vkit.New("C11")
	defer R.Finish()
	// 16 worker processes share the machine: keep each one (and its garbage collector) on two threads
	runtime.GOMAXPROCS(2)
	debug.SetGCPercent(400)
	R.Rule = "case = one typed node value: full product of the per-field alphabets for Epoch, Subset, Entry, Rewards, Block.SlotMeta, Block.Shredding (thorough: DataFrame too); every value within k field deviations of a base value for DataFrame, Transaction, Block; link and shredding lists of 1 000, 131 072, 131 073 and 200 000 elements in Epoch, Subset, Entry and Block (thorough: DataFrame.next too); plus every node of fixtures/*.car and every embedded test vector. The value is encoded by the reference encoder (ipld-prime bindnode + dag-cbor) and decoded by _Decode<K>Fast, _Decode<K>Classic, Decode<K>, DecodeAny and the 6 fast decoders of the other kinds; non-trivial = the value differs from the family's base value (or is a corpus node); a value the reference encoder or reference decoder refuses is counted as skipped"
	thorough := vkit.Thorough()
	fams := c11Families(thorough)
	R.Bounds["int_alphabet"] = c11Ints
	R.Bounds["list_lengths"] = c11ListLens
	R.Bounds["byte_string_lengths"] = c11ByteLens
	R.Bounds["distinct_cids"] = len(c11Cids)
	R.Bounds["optional_states"] = "omitted|null|present"
	fb := map[string]interface{}{}
	for i := range fams {
		f := &fams[i]
		if f.Dev < 0 {
			fb[f.Name] = fmt.Sprintf("full product of %v", f.Dims)
		} else {
			fb[f.Name] = fmt.Sprintf("<=%d deviations over field alphabets %v", f.Dev, f.Dims)
		}
	}
	R.Bounds["families"] = fb

	runFamilyCase := func(f *c11Family, ix []int) {
		origin := map[string]interface{}{"family": f.Name, "ix": append([]int{}, ix...)}
		nonBase := false
		for _, v := range ix {
			if v != 0 {
				nonBase = true
			}
		}
		node := f.Build(ix)
		raw, err := c11Encode(node, f.Kind)
		if err != nil {
			R.Case(false, "")
			R.Add("skipped_reference_encoder_refused", 1)
			R.Outcome(f.Kind.String() + ":encoder-refuses")
			return
		}
		res := c11CheckNode(R, raw, f.Kind, c11IxName(f, ix), origin)
		if res.Skipped {
			R.Add("skipped_reference_decoder_refused", 1)
		}
		R.Case(nonBase && !res.Skipped, "")
		R.Outcome(res.Outcome)
	}

	corpus := c11Corpus(R)

	if rp := vkit.ReplayRequest(); rp != nil {
		if name, ok := rp["family"].(string); ok {
			ix := vkit.Ints(rp["ix"])
			for i := range fams {
				if fams[i].Name == name && len(ix) == len(fams[i].Dims) {
					runFamilyCase(&fams[i], ix)
					if raw, err := c11Encode(fams[i].Build(ix), fams[i].Kind); err == nil && len(raw) < 2048 {
						t.Logf("replay %s%v: encoded %x", name, ix, raw)
						for j := range c11Decs {
							if c11Decs[j].Kind == fams[i].Kind {
								cv, cerr, _, _ := c11Call(c11Decs[j].Classic, raw)
								fv, ferr, _, _ := c11Call(c11Decs[j].Fast, raw)
								t.Logf("classic: %+v err=%v next-ok=%s", cv, cerr, c11NextFlags(cv))
								t.Logf("fast:    %+v err=%v next-ok=%s", fv, ferr, c11NextFlags(fv))
							}
						}
					}
				}
			}
		} else if src, ok := rp["corpus"].(string); ok {
			n := int(rp["n"].(float64))
			for _, c := range corpus {
				if c.Source == src && c.N == n && len(c.Raw) >= 2 {
					c11CheckNode(R, c.Raw, Kind(c.Raw[1]), src, map[string]interface{}{"corpus": src, "n": n})
					R.Case(true, "")
				}
			}
		}
		t.Logf("replay done: %d violations", R.NumViolations())
		return
	}

	idx := int64(0)
	expired := false
	for i := range fams {
		f := &fams[i]
		var count int64
		c11Enumerate(f, func(ix []int) bool {
			mine := vkit.Mine(idx)
			idx++
			count++
			if !mine {
				return true
			}
			if idx%512 == 0 && R.Expired() {
				R.Note("deadline reached in family %s at case %d", f.Name, idx)
				expired = true
				return false
			}
			runFamilyCase(f, ix)
			if count%1009 == 1 {
				R.Sample(map[string]interface{}{"family": f.Name, "ix": append([]int{}, ix...)})
			}
			return true
		})
		R.Add("cases_in_family:"+f.Name, 0)
		if si, _ := vkit.Shard(); si == 0 {
			R.Add("cases_in_family:"+f.Name, count)
		}
		if expired {
			return
		}
	}
	kinds := map[string]int64{}
	for _, c := range corpus {
		mine := vkit.Mine(idx)
		idx++
		if !mine {
			continue
		}
		if len(c.Raw) < 2 {
			continue
		}
		k := Kind(c.Raw[1])
		if bytes.HasPrefix([]byte(c.Source), []byte("epoch-")) == false && (k < 0 || k > KindDataFrame) {
			// an embedded []byte literal that is not a node (e.g. a hash)
			R.Add("embedded_literals_not_a_node", 1)
			continue
		}
		res := c11CheckNode(R, c.Raw, k, c.Source, map[string]interface{}{"corpus": c.Source, "n": c.N})
		R.Case(!res.Skipped, "")
		R.Outcome("corpus:" + res.Outcome)
		kinds[k.String()]++
		if c.N%97 == 0 {
			R.Sample(map[string]interface{}{"corpus": c.Source, "n": c.N, "kind": k.String()})
		}
	}
	for k, n := range kinds {
		R.Add("corpus_nodes:"+k, n)
	}
}
