//go:build verif

package tooling

// C14 (part 1 of 3): tooling.LoadDataFromDataFrames reassembles a payload split into linked
// frames into exactly the original bytes, whatever the frame count, the fan-out of the `next`
// links and the order in which the frames are linked/fetched; under EVERY single fault (frame
// missing, duplicated, altered, exchanged with a frame of another payload, index/total/hash
// changed) it returns an error or the original bytes - never different bytes.
//
// Frames are built with the reference encoder (bindnode + dag-cbor) and handed to the getter
// through iplddecoders.DecodeDataFrame, exactly as Epoch.GetDataFrameByCid does. A fault is an
// altered node served under the original CID (storage corruption), or a missing node.

import (
	"bytes"
	"context"
	"encoding/json"
	"fmt"
	"hash/crc64"
	"hash/fnv"
	"path/filepath"
	"regexp"
	"runtime"
	"runtime/debug"
	"strings"
	"testing"

	"github.com/ipfs/go-cid"
	"github.com/ipld/go-ipld-prime"
	"github.com/ipld/go-ipld-prime/codec/dagcbor"
	cidlink "github.com/ipld/go-ipld-prime/linking/cid"
	"github.com/multiformats/go-multihash"
	"github.com/rpcpool/yellowstone-faithful/ipld/ipldbindcode"
	"github.com/rpcpool/yellowstone-faithful/iplddecoders"
	"github.com/rpcpool/yellowstone-faithful/zzverif/vkit"
)

type c14Shape struct {
	Len       int    `json:"len"`
	FrameSize int    `json:"frame_size"`
	FanOut    int    `json:"fan_out"`
	Sum       string `json:"sum"`            // crc64 | fnv
	Prot      string `json:"prot,omitempty"` // "" = hash+total (what the writer records) | nohash | nototal | bare
	Perm      []int  `json:"perm,omitempty"` // Perm[p-1] = frame index stored at layout position p (p>=1); nil = identity
	Limited   bool   `json:"limited,omitempty"`
	Seed      int    `json:"seed,omitempty"`
}

type c14Fault struct {
	Kind string `json:"kind"`
	I    int    `json:"i"`
	J    int    `json:"j,omitempty"`
	V    int    `json:"v,omitempty"`
}

const c14Null = -1 << 40 // sentinel: set the optional field to null

func c14Payload(n int, seed int) []byte {
	x := uint64(seed)*0x9E3779B97F4A7C15 + uint64(n)*0xBF58476D1CE4E5B9 + 0x1234567
	out := make([]byte, n)
	for i := range out {
		x ^= x << 13
		x ^= x >> 7
		x ^= x << 17
		out[i] = byte(x >> 24)
	}
	return out
}

func c14Chunks(payload []byte, fs int) [][]byte {
	if fs <= 0 || len(payload) <= fs {
		return [][]byte{payload}
	}
	var out [][]byte
	for off := 0; off < len(payload); off += fs {
		end := off + fs
		if end > len(payload) {
			end = len(payload)
		}
		out = append(out, payload[off:end])
	}
	return out
}

func c14NumFrames(s c14Shape) int {
	if s.FrameSize <= 0 || s.Len <= s.FrameSize {
		return 1
	}
	return (s.Len + s.FrameSize - 1) / s.FrameSize
}

func c14Sum(kind string, b []byte) uint64 {
	if kind == "fnv" {
		h := fnv.New64a()
		h.Write(b)
		return h.Sum64()
	}
	return crc64.Checksum(b, crc64.MakeTable(crc64.ISO))
}

func c14pp(v int) **int { p := &v; return &p }

// c14Children returns the layout positions linked from position p (schema comment: frame 0 links
// 1..F, frame F links F+1..2F, ...).
func c14Children(p, n, F int) []int {
	if p != 0 && p%F != 0 {
		return nil
	}
	var out []int
	for j := p + 1; j <= p+F && j < n; j++ {
		out = append(out, j)
	}
	return out
}

type c14Chain struct {
	Shape   c14Shape
	Payload []byte
	N       int
	Frames  []*ipldbindcode.DataFrame // by layout position, as the real decoder returns them
	Cids    []cid.Cid                 // by layout position (position 0: the CID the embedded first frame would have)
	Parent  []int                     // layout position of the linking frame
	IndexAt []int                     // frame index stored at a position
	Hash    uint64
}

func c14Build(s c14Shape, seedOffset int) (*c14Chain, error) {
	payload := c14Payload(s.Len, s.Seed+seedOffset)
	chunks := c14Chunks(payload, s.FrameSize)
	n := len(chunks)
	F := s.FanOut
	if F <= 0 {
		F = 5
	}
	c := &c14Chain{Shape: s, Payload: payload, N: n, Frames: make([]*ipldbindcode.DataFrame, n), Cids: make([]cid.Cid, n), Parent: make([]int, n), IndexAt: make([]int, n)}
	for p := 1; p < n; p++ {
		c.IndexAt[p] = p
		if s.Perm != nil {
			c.IndexAt[p] = s.Perm[p-1]
		}
	}
	c.Hash = c14Sum(s.Sum, payload)
	for p := n - 1; p >= 0; p-- {
		df := ipldbindcode.DataFrame{Kind: int(iplddecoders.KindDataFrame), Data: chunks[c.IndexAt[p]]}
		if s.Prot != "bare" {
			df.Index = c14pp(c.IndexAt[p])
			if s.Prot != "nototal" {
				df.Total = c14pp(n)
			}
			if s.Prot != "nohash" {
				df.Hash = c14pp(int(c.Hash))
			}
			nl := ipldbindcode.List__Link{}
			for _, ch := range c14Children(p, n, F) {
				nl = append(nl, cidlink.Link{Cid: c.Cids[ch]})
				c.Parent[ch] = p
			}
			pnl := &nl
			df.Next = &pnl
		}
		raw, err := ipld.Marshal(dagcbor.Encode, &df, ipldbindcode.Prototypes.DataFrame.Type())
		if err != nil {
			return nil, fmt.Errorf("reference encoder: %w", err)
		}
		cc, err := cid.Prefix{Version: 1, Codec: cid.DagCBOR, MhType: multihash.SHA2_256, MhLength: -1}.Sum(raw)
		if err != nil {
			return nil, err
		}
		c.Cids[p] = cc
		dec, err := iplddecoders.DecodeDataFrame(raw)
		if err != nil {
			return nil, fmt.Errorf("decode of a reference-encoded frame: %w", err)
		}
		c.Frames[p] = dec
	}
	return c, nil
}

// c14Faults lists every single fault for a shape (depends on the shape only).
func c14Faults(s c14Shape) []c14Fault {
	n := c14NumFrames(s)
	F := s.FanOut
	out := []c14Fault{{Kind: "none"}}
	if s.Prot == "bare" {
		return out
	}
	chunkLen := func(idx int) int {
		if n == 1 {
			return s.Len
		}
		if idx == n-1 {
			return s.Len - (n-1)*s.FrameSize
		}
		return s.FrameSize
	}
	indexAt := func(p int) int {
		if p == 0 || s.Perm == nil {
			return p
		}
		return s.Perm[p-1]
	}
	parent := func(p int) int {
		if p <= F {
			return 0
		}
		return ((p - 1) / F) * F
	}
	for p := 1; p < n; p++ {
		out = append(out, c14Fault{Kind: "drop-getter", I: p}, c14Fault{Kind: "drop-link", I: p}, c14Fault{Kind: "dup-link", I: p})
		if parent(p) != 0 {
			out = append(out, c14Fault{Kind: "dup-link-root", I: p})
		}
		// links that close a cycle (a CAR section can claim any CID for any bytes): a frame that lists itself, or its
		// parent, among its next frames
		out = append(out, c14Fault{Kind: "self-link", I: p}, c14Fault{Kind: "back-link", I: p})
	}
	for p := 0; p < n; p++ {
		l := chunkLen(indexAt(p))
		switch {
		case l <= 4:
			for b := 0; b < 8*l; b++ {
				out = append(out, c14Fault{Kind: "bitflip", I: p, V: b})
			}
		case !s.Limited:
			for by := 0; by < l; by++ {
				out = append(out, c14Fault{Kind: "bitflip", I: p, V: by*8 + by%8})
			}
		default:
			for _, by := range []int{0, l / 2, l - 1} {
				out = append(out, c14Fault{Kind: "bitflip", I: p, V: by*8 + by%8})
			}
		}
	}
	for p := 0; p < n; p++ {
		for j := 0; j < n; j++ {
			if s.Limited && n > 12 && j != indexAt(p) && j != (indexAt(p)+1)%n {
				continue
			}
			out = append(out, c14Fault{Kind: "swap-data", I: p, J: j})
			if p >= 1 && j >= 1 {
				out = append(out, c14Fault{Kind: "swap-node", I: p, J: j})
			}
		}
	}
	for p := 0; p < n; p++ {
		own := indexAt(p)
		var vs []int
		if s.Limited && n > 12 {
			vs = []int{own - 1, own + 1, n, -1}
		} else {
			for v := -1; v <= n; v++ {
				vs = append(vs, v)
			}
		}
		for _, v := range vs {
			if v != own {
				out = append(out, c14Fault{Kind: "index", I: p, V: v})
			}
		}
		out = append(out, c14Fault{Kind: "index", I: p, V: c14Null})
		seenT := map[int]bool{n: true}
		for _, v := range []int{0, 1, n - 1, n + 1, c14Null} {
			if !seenT[v] {
				seenT[v] = true
				out = append(out, c14Fault{Kind: "total", I: p, V: v})
			}
		}
		for _, v := range []int{1, 2, c14Null} { // 1: low bit flipped; 2: the other payload's hash
			out = append(out, c14Fault{Kind: "hash", I: p, V: v})
		}
	}
	return out
}

type c14Store struct {
	base  map[cid.Cid]*ipldbindcode.DataFrame
	over  map[cid.Cid]*ipldbindcode.DataFrame // nil value = not found
	other map[cid.Cid]*ipldbindcode.DataFrame
	calls int
}

func (s *c14Store) get(ctx context.Context, c cid.Cid) (*ipldbindcode.DataFrame, error) {
	s.calls++
	if f, ok := s.over[c]; ok {
		if f == nil {
			return nil, fmt.Errorf("not found: %s", c)
		}
		return f, nil
	}
	if f, ok := s.base[c]; ok {
		return f, nil
	}
	if f, ok := s.other[c]; ok {
		return f, nil
	}
	return nil, fmt.Errorf("not found: %s", c)
}

func c14WithNext(f *ipldbindcode.DataFrame, edit func(l ipldbindcode.List__Link) ipldbindcode.List__Link) *ipldbindcode.DataFrame {
	cp := *f
	var cur ipldbindcode.List__Link
	if l, ok := f.GetNext(); ok {
		cur = append(cur, l...)
	}
	nl := edit(cur)
	pnl := &nl
	cp.Next = &pnl
	return &cp
}

// c14Apply returns the first frame and the getter for chain a under fault f (b = second payload of the same shape).
func c14Apply(a, b *c14Chain, f c14Fault) (*ipldbindcode.DataFrame, *c14Store) {
	st := &c14Store{base: map[cid.Cid]*ipldbindcode.DataFrame{}, over: map[cid.Cid]*ipldbindcode.DataFrame{}}
	for p := 1; p < a.N; p++ {
		st.base[a.Cids[p]] = a.Frames[p]
	}
	first := a.Frames[0]
	put := func(p int, fr *ipldbindcode.DataFrame) {
		if p == 0 {
			first = fr
		} else {
			st.over[a.Cids[p]] = fr
		}
	}
	link := func(p int) cidlink.Link { return cidlink.Link{Cid: a.Cids[p]} }
	switch f.Kind {
	case "none":
	case "drop-getter":
		st.over[a.Cids[f.I]] = nil
	case "drop-link":
		par := a.Parent[f.I]
		put(par, c14WithNext(a.Frames[par], func(l ipldbindcode.List__Link) ipldbindcode.List__Link {
			var out ipldbindcode.List__Link
			for _, x := range l {
				if x.(cidlink.Link).Cid != a.Cids[f.I] {
					out = append(out, x)
				}
			}
			return out
		}))
	case "dup-link":
		par := a.Parent[f.I]
		put(par, c14WithNext(a.Frames[par], func(l ipldbindcode.List__Link) ipldbindcode.List__Link {
			var out ipldbindcode.List__Link
			for _, x := range l {
				out = append(out, x)
				if x.(cidlink.Link).Cid == a.Cids[f.I] {
					out = append(out, x)
				}
			}
			return out
		}))
	case "self-link":
		put(f.I, c14WithNext(a.Frames[f.I], func(l ipldbindcode.List__Link) ipldbindcode.List__Link { return append(l, link(f.I)) }))
	case "back-link":
		put(f.I, c14WithNext(a.Frames[f.I], func(l ipldbindcode.List__Link) ipldbindcode.List__Link { return append(l, link(a.Parent[f.I])) }))
	case "dup-link-root":
		put(0, c14WithNext(a.Frames[0], func(l ipldbindcode.List__Link) ipldbindcode.List__Link { return append(l, link(f.I)) }))
	case "bitflip":
		cp := *a.Frames[f.I]
		d := append([]byte{}, cp.Data...)
		d[f.V/8] ^= 1 << uint(f.V%8)
		cp.Data = d
		put(f.I, &cp)
	case "swap-data":
		cp := *a.Frames[f.I]
		cp.Data = c14Chunks(b.Payload, b.Shape.FrameSize)[f.J]
		put(f.I, &cp)
	case "swap-node":
		st.other = map[cid.Cid]*ipldbindcode.DataFrame{}
		for p := 1; p < b.N; p++ {
			st.other[b.Cids[p]] = b.Frames[p]
		}
		put(f.I, b.Frames[f.J])
	case "index":
		cp := *a.Frames[f.I]
		if f.V == c14Null {
			cp.Index = nil
		} else {
			cp.Index = c14pp(f.V)
		}
		put(f.I, &cp)
	case "total":
		cp := *a.Frames[f.I]
		if f.V == c14Null {
			cp.Total = nil
		} else {
			cp.Total = c14pp(f.V)
		}
		put(f.I, &cp)
	case "hash":
		cp := *a.Frames[f.I]
		switch f.V {
		case 1:
			cp.Hash = c14pp(int(a.Hash ^ 1))
		case 2:
			cp.Hash = c14pp(int(b.Hash))
		default:
			cp.Hash = nil
		}
		put(f.I, &cp)
	default:
		panic("unknown fault " + f.Kind)
	}
	return first, st
}

var c14Digits = regexp.MustCompile(`[0-9]+|baf[a-z0-9]+`)

func c14ErrClass(err error) string {
	s := err.Error()
	if len(s) > 80 {
		s = s[:80]
	}
	return c14Digits.ReplaceAllString(s, "#")
}

func c14PanicSite(stack []byte) string {
	lines := strings.Split(string(stack), "\n")
	for i := 0; i+1 < len(lines); i++ {
		fn := strings.TrimSpace(lines[i])
		loc := strings.TrimSpace(lines[i+1])
		if !strings.HasPrefix(fn, "github.com/rpcpool/yellowstone-faithful") || strings.Contains(loc, "zz_verif_") || strings.Contains(fn, "/zzverif/") {
			continue
		}
		if j := strings.LastIndex(fn, "("); j > 0 {
			fn = fn[:j]
		}
		if j := strings.Index(loc, " "); j > 0 {
			loc = loc[:j]
		}
		return strings.TrimPrefix(fn, "github.com/rpcpool/yellowstone-faithful/") + "@" + filepath.Base(loc)
	}
	return "unknown-site"
}

func c14Load(first *ipldbindcode.DataFrame, st *c14Store) (out []byte, err error, pan string, site string) {
	defer func() {
		if r := recover(); r != nil {
			pan, site = fmt.Sprint(r), c14PanicSite(debug.Stack())
		}
	}()
	out, err = LoadDataFromDataFrames(first, st.get)
	return
}

// c14Eval runs one (shape, fault) case and reports.
func c14Eval(R *vkit.Report, a, b *c14Chain, f c14Fault) {
	first, st := c14Apply(a, b, f)
	got, err, pan, site := c14Load(first, st)
	rp := map[string]interface{}{"variant": "tooling", "shape": a.Shape, "fault": f}
	protected := a.Shape.Prot == ""
	nonTrivial := f.Kind != "none" || a.N > 1
	R.Case(nonTrivial, "")
	switch {
	case pan != "":
		R.Outcome(f.Kind + ":panic")
		R.Violation(fmt.Sprintf("C14|panic|%s|LoadDataFromDataFrames|%s", f.Kind, site), fmt.Sprintf("LoadDataFromDataFrames panicked (%s) on shape %+v fault %+v: %s", site, a.Shape, f, pan), rp)
	case f.Kind == "none":
		if err != nil {
			R.Outcome("none:error")
			R.Violation("C14|fault-free-error|LoadDataFromDataFrames", fmt.Sprintf("fault-free payload of %d bytes in %d frames (fan-out %d, %s, link order %v) is rejected: %v", a.Shape.Len, a.N, a.Shape.FanOut, a.Shape.Sum, a.Shape.Perm, err), rp)
		} else if !bytes.Equal(got, a.Payload) {
			R.Outcome("none:wrong-bytes")
			R.Violation("C14|fault-free-wrong-bytes|LoadDataFromDataFrames", fmt.Sprintf("fault-free payload of %d bytes in %d frames (fan-out %d, %s, link order %v) reassembles to %d different bytes", a.Shape.Len, a.N, a.Shape.FanOut, a.Shape.Sum, a.Shape.Perm, len(got)), rp)
		} else {
			R.Outcome("none:original")
			if st.calls != a.N-1 {
				R.Add("observation:getter_calls_differ_from_frame_count", 1)
			}
		}
	case err != nil:
		R.Outcome(f.Kind + ":error:" + c14ErrClass(err))
	case bytes.Equal(got, a.Payload):
		R.Outcome(f.Kind + ":original")
	case !protected:
		// outside the "rejected" clause (payload without checksum and/or total): observation only
		R.Outcome(f.Kind + ":unprotected-wrong-bytes")
		R.Add("observation:unprotected("+a.Shape.Prot+")_payload_returns_different_bytes:"+f.Kind, 1)
	default:
		R.Outcome(f.Kind + ":wrong-bytes")
		R.Violation(fmt.Sprintf("C14|wrong-bytes|%s|LoadDataFromDataFrames", f.Kind), fmt.Sprintf("shape %+v (%d frames) fault %+v: no error, %d bytes returned that differ from the original %d bytes", a.Shape, a.N, f, len(got), len(a.Payload)), rp)
	}
}

func c14Remarshal(in interface{}, out interface{}) {
	b, err := json.Marshal(in)
	if err != nil {
		panic(err)
	}
	if err := json.Unmarshal(b, out); err != nil {
		panic(err)
	}
}

func c14Perms(n int) [][]int {
	// all permutations of 1..n in lexicographic order
	cur := make([]int, n)
	for i := range cur {
		cur[i] = i + 1
	}
	var out [][]int
	for {
		out = append(out, append([]int{}, cur...))
		i := n - 2
		for i >= 0 && cur[i] > cur[i+1] {
			i--
		}
		if i < 0 {
			return out
		}
		j := n - 1
		for cur[j] < cur[i] {
			j--
		}
		cur[i], cur[j] = cur[j], cur[i]
		for l, r := i+1, n-1; l < r; l, r = l+1, r-1 {
			cur[l], cur[r] = cur[r], cur[l]
		}
	}
}

func c14Shapes(thorough bool, R *vkit.Report) []c14Shape {
	const fs = 4
	maxN, maxF, permN := 8, 4, 5
	if thorough {
		maxN, maxF, permN = 60, 10, 6
	}
	var out []c14Shape
	seen := map[string]bool{}
	add := func(s c14Shape) {
		k := fmt.Sprintf("%+v", s)
		if !seen[k] {
			seen[k] = true
			out = append(out, s)
		}
	}
	lens := []int{0, 1, fs - 1, fs, fs + 1, 3*fs + 2}
	for n := 1; n <= maxN; n++ {
		lens = append(lens, fs*(n-1)+1, fs*n-1, fs*n)
	}
	for _, sum := range []string{"crc64", "fnv"} {
		for F := 1; F <= maxF; F++ {
			for _, l := range lens {
				s := c14Shape{Len: l, FrameSize: fs, FanOut: F, Sum: sum}
				add(s)
				n := c14NumFrames(s)
				if n >= 3 && n <= permN {
					for _, pm := range c14Perms(n - 1)[1:] {
						sp := s
						sp.Perm = pm
						add(sp)
					}
				}
			}
		}
	}
	// unprotected layouts: fault-free reassembly is demanded, faults are observations only
	for _, prot := range []string{"bare", "nohash", "nototal"} {
		for _, l := range []int{0, 1, fs, fs + 1, 3*fs + 2, 8 * fs} {
			for _, F := range []int{1, 2, 4} {
				s := c14Shape{Len: l, FrameSize: fs, FanOut: F, Sum: "crc64", Prot: prot}
				if prot == "bare" {
					s.FrameSize = 0
				}
				add(s)
			}
		}
	}
	// long chains with a small fan-out (deep link trees): the frame counts around 16, 32 and 48 links of depth
	if !thorough {
		for _, n := range []int{16, 17, 18, 19, 33, 34, 35, 49, 50, 51} {
			for _, F := range []int{1, 2, 3} {
				add(c14Shape{Len: fs * n, FrameSize: fs, FanOut: F, Sum: "crc64", Limited: true})
			}
		}
		add(c14Shape{Len: fs * 60, FrameSize: fs, FanOut: 1, Sum: "fnv", Limited: true})
	}
	// real sizes
	type big struct{ l, n, F int }
	bigs := []big{{70000, 10, 5}, {1000, 3, 2}}
	if thorough {
		bigs = nil
		for _, l := range []int{64, 1000, 4096} {
			for _, n := range []int{1, 2, 3, 5, 8, 9, 16, 17, 30, 59, 60} {
				for _, F := range []int{1, 2, 3, 5, 10} {
					bigs = append(bigs, big{l, n, F})
				}
			}
		}
		for _, l := range []int{65536, 100 * 1024, 200 * 1024} {
			for _, n := range []int{1, 2, 5, 6, 11, 59, 60} {
				for _, F := range []int{1, 5, 10} {
					bigs = append(bigs, big{l, n, F})
				}
			}
		}
	}
	for _, bg := range bigs {
		for _, sum := range []string{"crc64", "fnv"} {
			f := (bg.l + bg.n - 1) / bg.n
			s := c14Shape{Len: bg.l, FrameSize: f, FanOut: bg.F, Sum: sum, Limited: bg.l > 4096}
			if c14NumFrames(s) != bg.n {
				continue
			}
			add(s)
		}
	}
	R.Bounds["small_scope_frame_size"] = fs
	R.Bounds["frame_counts"] = fmt.Sprintf("1..%d", maxN)
	if !thorough {
		R.Bounds["frame_counts"] = fmt.Sprintf("1..%d, and 16..19, 33..35, 49..51, 60 with fan-out 1..3 (reduced fault set)", maxN)
	}
	R.Bounds["fan_out"] = fmt.Sprintf("1..%d", maxF)
	R.Bounds["link_orders"] = fmt.Sprintf("all (n-1)! orders of the continuation frames for n<=%d", permN)
	R.Bounds["checksums"] = []string{"crc64", "fnv"}
	R.Bounds["real_sizes"] = fmt.Sprintf("%d shapes up to %d bytes", len(bigs)*2, func() int {
		m := 0
		for _, b := range bigs {
			if b.l > m {
				m = b.l
			}
		}
		return m
	}())
	R.Bounds["faults"] = "every single: drop (getter miss / link removed), duplicate link (adjacent / from first frame), link closing a cycle (to the frame itself / to its parent), bit flips (all bits of <=4-byte frames, one per byte otherwise, 3 per frame above 4 KiB), data or node exchanged with frame j of a second payload, index -> every other value in -1..n or null, total -> {0,1,n-1,n+1,null}, hash -> {xor 1, other payload's, null}"
	return out
}

func TestVerif_C14(t *testing.T) {
	R := vkit.New("C14")
	defer R.Finish()
	runtime.GOMAXPROCS(2)
	R.Rule = "case = (payload shape: length x frame size x fan-out x checksum x link order) x (no fault | one single fault); the frames are reference-encoded, decoded by the real decoder and served by an in-memory getter; LoadDataFromDataFrames must return the original bytes when fault-free and an error or the original bytes under a fault; non-trivial = a fault is injected or the payload has more than one frame"
	thorough := vkit.Thorough()
	shapes := c14Shapes(thorough, R)
	R.Bounds["shapes"] = len(shapes)

	if rp := vkit.ReplayRequest(); rp != nil {
		if v, _ := rp["variant"].(string); v != "tooling" {
			R.Note("replay file belongs to variant %q: nothing to do in this one", v)
			return
		}
		var s c14Shape
		var f c14Fault
		c14Remarshal(rp["shape"], &s)
		c14Remarshal(rp["fault"], &f)
		a, err := c14Build(s, 0)
		if err != nil {
			R.Internal("replay: %v", err)
			return
		}
		b, _ := c14Build(s, 1000)
		c14Eval(R, a, b, f)
		t.Logf("replay shape=%+v fault=%+v: %d violations", s, f, R.NumViolations())
		return
	}

	idx := int64(0)
	for si, s := range shapes {
		faults := c14Faults(s)
		var a, b *c14Chain
		for fi, f := range faults {
			mine := vkit.Mine(idx)
			idx++
			if !mine {
				continue
			}
			if idx%256 == 0 && R.Expired() {
				R.Note("deadline reached at shape %d/%d", si, len(shapes))
				return
			}
			if a == nil {
				var err error
				if a, err = c14Build(s, 0); err == nil {
					b, err = c14Build(s, 1000)
				}
				if err != nil {
					R.Internal("cannot build shape %+v: %v", s, err)
					return
				}
			}
			c14Eval(R, a, b, f)
			if (si%37 == 0 && fi == len(faults)/2) || (si == 3 && fi == 0) {
				R.Sample(map[string]interface{}{"shape": s, "fault": f})
			}
		}
	}
}
