//go:build verif

package rangecache

import (
	"bytes"
	"context"
	"runtime"
	"sync"
	"testing"
	"time"

	"github.com/rpcpool/yellowstone-faithful/zzverif/vkit"
)

// Supplementary (sampling, not deciding): the un-instrumented cache under the race detector with
// free-running readers, expiry and SetRange. A cooperative scheduler's hand-offs hide data races
// from the detector, so this separate pass looks for unsynchronised accesses.
func TestVerif_C17_Race(t *testing.T) {
	R := vkit.New("C17")
	defer R.Finish()
	R.Rule = "supplementary race-detector pass (free-running, GOMAXPROCS 1..16): concurrent GetRange on overlapping ranges + DeleteOldEntries + SetRange on the un-instrumented cache; every read compared with the file"
	file := make([]byte, 64)
	for i := range file {
		file[i] = byte(i*5 + 1)
	}
	for _, procs := range []int{1, 2, 4, 16} {
		old := runtime.GOMAXPROCS(procs)
		rc := NewRangeCache(int64(len(file)), "race", func(p []byte, off int64) (int, error) { return copy(p, file[off:off+int64(len(p))]), nil })
		var wg sync.WaitGroup
		ctx := context.Background()
		for g := 0; g < 6; g++ {
			g := g
			wg.Add(1)
			go func() {
				defer wg.Done()
				for i := 0; i < 300; i++ {
					st := int64((g*7 + i*3) % 48)
					ln := int64(1 + (g+i)%16)
					got, err := rc.GetRange(ctx, st, ln)
					R.Case(true, "")
					if err != nil || !bytes.Equal(got, file[st:st+ln]) {
						R.Violation("C17|race-pass|wrong-bytes", "free-running read returned wrong bytes", map[string]interface{}{"variant": "race"})
						return
					}
					got[0] ^= 0xff
				}
			}()
		}
		wg.Add(2)
		go func() {
			defer wg.Done()
			for i := 0; i < 100; i++ {
				rc.DeleteOldEntries(ctx, -time.Hour)
				runtime.Gosched()
			}
		}()
		go func() {
			defer wg.Done()
			for i := 0; i < 100; i++ {
				st := int64(i % 32)
				rc.SetRange(ctx, st, 8, append([]byte{}, file[st:st+8]...))
			}
		}()
		wg.Wait()
		runtime.GOMAXPROCS(old)
	}
	R.Sample("6 readers x 300 reads + expiry + SetRange, GOMAXPROCS 1/2/4/16, -race")
}
