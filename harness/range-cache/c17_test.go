//go:build verif

package rangecache

import (
	"bytes"
	"context"
	"errors"
	"fmt"
	"io"
	"sort"
	"strings"
	"testing"
	"time"

	"github.com/rpcpool/yellowstone-faithful/zzverif/explore"
	"github.com/rpcpool/yellowstone-faithful/zzverif/vkit"
	"github.com/rpcpool/yellowstone-faithful/zzverif/vsched"
)

// C17: the remote-file range cache is transparent.
//
// (a) explicit-state BFS on the REAL object over a 5-byte file: operations = GetRange for every
//     (start,len) incl. empty, past-end and negative ranges, SetRange (valid and invalid),
//     DeleteOldEntries (expire all / none), "remote fails on its next call"; a state is the
//     sorted cache content (+ the pending-failure flag); successors are produced by replaying
//     the history on a fresh instance; map iteration order inside the last operation is an
//     explorer choice (range over rc.cache is rewritten to vsched.MapKeys).
// (b) schedules: 2-3 threads of GetRange on overlapping/nested/adjacent ranges + a
//     DeleteOldEntries thread + injected remote failures, all interleavings.

var c17File = []byte{10, 11, 12, 13, 14}

type c17Op struct {
	Kind  string `json:"kind"` // get | set | setbad | delall | delnone | failnext | failnext-eof | failnext-eof-partial | close
	Start int64  `json:"start,omitempty"`
	Len   int64  `json:"len,omitempty"`
}

func (o c17Op) String() string {
	switch o.Kind {
	case "get", "set", "setbad":
		return fmt.Sprintf("%s(%d,%d)", o.Kind, o.Start, o.Len)
	}
	return o.Kind
}

type c17Env struct {
	rc         *RangeCache
	failNext   int // 0 = healthy; 1 = error, garbage in the buffer; 2 = io.EOF, nothing read; 3 = wrapped io.EOF after half of the bytes
	calls      int
	failedCall bool
	failCount  int
	closed     bool
	held       []c17Held // slices returned by earlier reads that the caller still holds
}

// c17Held is a slice a read returned together with what it must (still) contain.
type c17Held struct {
	op   c17Op
	got  []byte
	want []byte
}

// checkHeld verifies that the bytes handed out by earlier reads were not changed by the cache
// afterwards (a reader may hold its slice while other reads run), then scribbles on them (the
// caller owns them: that must not reach the cache either) and forgets them.
func (e *c17Env) checkHeld(after c17Op) (string, string) {
	defer func() {
		for _, h := range e.held {
			for i := range h.got {
				h.got[i] ^= 0xFF
			}
		}
		e.held = nil
	}()
	for _, h := range e.held {
		if !bytes.Equal(h.got, h.want) {
			return "returned-bytes-changed-later", fmt.Sprintf("the slice returned by %s held %v; after the later operation %s it holds %v", h.op, h.want, after, h.got)
		}
	}
	return "", ""
}

var errC17Remote = errors.New("c17: injected remote failure")

func c17New() *c17Env {
	e := &c17Env{}
	e.rc = NewRangeCache(int64(len(c17File)), "c17", func(p []byte, off int64) (int, error) {
		e.calls++
		if mode := e.failNext; mode != 0 {
			e.failNext = 0
			e.failedCall = true
			e.failCount++
			switch mode {
			case 2:
				// the connection closed before the first byte: nothing read, plain io.EOF
				return 0, io.EOF
			case 3:
				// the body ended early: half of the bytes arrived, the error wraps io.EOF
				half := len(p) / 2
				if off >= 0 && off+int64(half) <= int64(len(c17File)) {
					copy(p[:half], c17File[off:off+int64(half)])
				}
				return half, fmt.Errorf("c17: short body: %w", io.EOF)
			}
			// a failing transport may leave garbage in the buffer
			for i := range p {
				p[i] = 0xEE
			}
			return 0, errC17Remote
		}
		if off < 0 || off+int64(len(p)) > int64(len(c17File)) {
			return 0, fmt.Errorf("c17: remote range out of bounds")
		}
		return copy(p, c17File[off:off+int64(len(p))]), nil
	})
	return e
}

// apply performs one operation and returns a violation class ("" = fine) and detail.
func (e *c17Env) apply(o c17Op) (class, detail string) {
	defer func() {
		if r := recover(); r != nil {
			class, detail = "panic", fmt.Sprintf("%s panicked: %v (cache closed: %v)", o, r, e.closed)
		}
	}()
	ctx := context.Background()
	size := int64(len(c17File))
	switch o.Kind {
	case "get":
		e.calls, e.failedCall = 0, false
		got, err := e.rc.GetRange(ctx, o.Start, o.Len)
		valid := o.Start >= 0 && o.Len >= 0 && o.Start+o.Len <= size
		if !valid {
			if err == nil {
				return "invalid-range-served", fmt.Sprintf("%s on a %d-byte file returned %v without error (must be refused, never padded)", o, size, got)
			}
			return "", ""
		}
		if err != nil {
			if e.failedCall {
				return "", "" // the fetch it needed failed
			}
			if o.Len == 0 {
				return "", "" // an empty read may be refused
			}
			if e.closed {
				return "", "" // a closed cache may refuse to read
			}
			return "spurious-error", fmt.Sprintf("%s failed although the remote was healthy: %v", o, err)
		}
		want := c17File[o.Start : o.Start+o.Len]
		if !bytes.Equal(got, want) {
			return "wrong-bytes", fmt.Sprintf("%s returned %v, the remote holds %v (remote calls=%d failed=%v)", o, got, want, e.calls, e.failedCall)
		}
		// the caller keeps the slice over the next operation (checked and scribbled on by checkHeld)
		if cl, dt := e.checkHeld(o); cl != "" {
			return cl, dt
		}
		e.held = append(e.held, c17Held{o, got, append([]byte{}, want...)})
		return "", ""
	case "set":
		v := append([]byte{}, c17File[o.Start:o.Start+o.Len]...)
		if err := e.rc.SetRange(ctx, o.Start, o.Len, v); err != nil {
			if e.closed {
				return "", ""
			}
			return "set-rejected", fmt.Sprintf("%s with correct bytes rejected: %v", o, err)
		}
		// the caller reuses its buffer after the call (as after any Write)
		for i := range v {
			v[i] ^= 0xff
		}
	case "setbad":
		// inconsistent length or out-of-range: must be rejected (else later reads would be wrong)
		v := make([]byte, o.Len+1)
		if err := e.rc.SetRange(ctx, o.Start, o.Len, v); err == nil {
			return "bad-set-accepted", fmt.Sprintf("%s with a %d-byte value accepted", o, len(v))
		}
	case "delall":
		e.rc.DeleteOldEntries(ctx, -time.Hour)
	case "delnone":
		e.rc.DeleteOldEntries(ctx, 1000*time.Hour)
	case "close":
		// the owner closes the cache (an epoch being removed or replaced) while readers may still use it
		e.rc.Close()
		e.closed = true
	case "failnext":
		e.failNext = 1
	case "failnext-eof":
		e.failNext = 2
	case "failnext-eof-partial":
		e.failNext = 3
	}
	return e.checkHeld(o)
}

func (e *c17Env) key() string {
	var parts []string
	for r, v := range e.rc.cache {
		parts = append(parts, fmt.Sprintf("[%d,%d)=%v", r[0], r[1], v.Value))
	}
	sort.Strings(parts)
	return strings.Join(parts, " ") + fmt.Sprintf(" fail=%v closed=%v", e.failNext, e.closed)
}

func c17Alphabet() []c17Op {
	var ops []c17Op
	n := int64(len(c17File))
	for s := int64(0); s <= n; s++ {
		for l := int64(0); s+l <= n; l++ {
			ops = append(ops, c17Op{"get", s, l})
		}
	}
	ops = append(ops, c17Op{"get", 3, 3}, c17Op{"get", 5, 1}, c17Op{"get", 6, 0}, c17Op{"get", 0, 6}, c17Op{"get", -1, 2}, c17Op{"get", 2, -1})
	for _, r := range [][2]int64{{0, 5}, {0, 2}, {1, 3}, {2, 2}, {3, 2}, {4, 1}, {1, 1}} {
		ops = append(ops, c17Op{"set", r[0], r[1]})
	}
	ops = append(ops, c17Op{"setbad", 1, 2}, c17Op{"setbad", 4, 2})
	ops = append(ops, c17Op{Kind: "delall"}, c17Op{Kind: "delnone"}, c17Op{Kind: "failnext"}, c17Op{Kind: "failnext-eof"}, c17Op{Kind: "failnext-eof-partial"}, c17Op{Kind: "close"})
	return ops
}

func TestVerif_C17_BFS(t *testing.T) {
	R := vkit.New("C17")
	defer R.Finish()
	R.Rule = "(a) breadth-first search over the reachable states of the real RangeCache on a 5-byte file: every operation of the alphabet (all 21 valid (start,len) reads, 6 invalid reads, 7 valid and 2 invalid SetRange, expire-all, expire-none, fail-next-fetch) is applied in every reachable state up to the depth bound, every map iteration order inside that operation is enumerated; state = sorted cache content + pending-failure flag; oracle per read = exactly the file's bytes, or an error only if the range is invalid or the fetch it needed failed; returned slices are scribbled on (aliasing shows up in later states). (b) all interleavings of concurrent readers / expiry / injected failures. (c) every valid read, twice, with a remote reader that returns io.EOF together with the last bytes of the file. non-trivial = transition leading to a state other than the empty cache"
	R.Assume("the cache has no state besides its entry map (entries' LastRead only matters through the two DeleteOldEntries ages used) so states with equal sorted content have equal futures")
	// (c) the other conforming convention of the remote reader: a fetch that ends exactly at the end of the file
	// returns all its bytes together with io.EOF. Every valid read on a fresh cache, twice (miss, then hit).
	if si, _ := vkit.Shard(); si == 0 {
		size := int64(len(c17File))
		for start := int64(0); start <= size; start++ {
			for ln := int64(0); start+ln <= size; ln++ {
				rc := NewRangeCache(size, "c17-eager-eof", func(p []byte, off int64) (int, error) {
					if off < 0 || off+int64(len(p)) > size {
						return 0, fmt.Errorf("c17: remote range out of bounds")
					}
					n := copy(p, c17File[off:off+int64(len(p))])
					if off+int64(n) == size {
						return n, io.EOF
					}
					return n, nil
				})
				for pass := 0; pass < 2; pass++ {
					got, err := rc.GetRange(context.Background(), start, ln)
					R.Case(ln > 0, "")
					if ln == 0 {
						continue
					}
					if err != nil || !bytes.Equal(got, c17File[start:start+ln]) {
						R.Violation("C17|eager-eof-fetcher", fmt.Sprintf("remote reader that returns io.EOF together with the last bytes of the file: GetRange(%d,%d) pass %d -> %v err=%v, the remote holds %v and no fetch failed", start, ln, pass, got, err, c17File[start:start+ln]), map[string]interface{}{"variant": "eager-eof", "start": start, "len": ln})
					}
				}
				rc.Close()
			}
		}
	}
	ops := c17Alphabet()
	depth := 9
	if vkit.Thorough() {
		depth = 12
	}
	R.Bounds["depth"] = depth
	R.Bounds["alphabet"] = len(ops)
	if rp := vkit.ReplayRequest(); rp != nil {
		if rp["variant"] != "bfs" {
			return
		}
		var hist []c17Op
		c17Remarshal(rp["history"], &hist)
		res, _, err := explore.Replay(vkit.Ints(rp["choices"]), func(c *explore.Ctx) explore.Result { r, _ := c17RunHistory(c, hist); return r })
		t.Logf("replay %v: %+v err=%v", hist, res.Violation, err)
		if res.Violation != nil {
			R.Violation(res.Violation.Key, res.Violation.What, rp)
		}
		R.Case(true, "")
		return
	}
	if i, _ := vkit.Shard(); i != 0 {
		return // the BFS is a single search (it is small); other shards only run the schedule variant
	}
	type node struct{ hist []c17Op }
	seen := map[string]bool{}
	root := c17New()
	seen[root.key()] = true
	frontier := []node{{nil}}
	R.States = 1
	for d := 0; d < depth && len(frontier) > 0; d++ {
		var next []node
		for _, nd := range frontier {
			if R.Expired() {
				R.Note("deadline reached at depth %d", d)
				return
			}
			for _, op := range ops {
				h := append(append([]c17Op{}, nd.hist...), op)
				var keys []string
				st := explore.Search(explore.Config{Bound: -1}, func(c *explore.Ctx) explore.Result {
					r, k := c17RunHistory(c, h)
					keys = append(keys, k)
					return r
				})
				R.Transitions += st.Executions
				R.Evaluations += st.Executions
				R.TracesValidated += st.Executions
				for _, k := range keys {
					if k != "" && !strings.HasPrefix(k, " fail=") {
						R.NonTrivial++
					}
					if k != "" && !seen[k] {
						seen[k] = true
						R.States++
						next = append(next, node{h})
						if R.States%40 == 1 {
							R.Sample(map[string]interface{}{"history": fmt.Sprint(h), "state": k})
						}
					}
				}
				if len(st.Violations) > 0 {
					f := st.Violations[0]
					R.Violation(f.Violation.Key, f.Violation.What+" after history "+fmt.Sprint(nd.hist), map[string]interface{}{"variant": "bfs", "history": h, "choices": f.Choices})
				}
			}
		}
		R.Add(fmt.Sprintf("new_states_at_depth_%d", d+1), int64(len(next)))
		frontier = next
	}
	if len(frontier) > 0 {
		R.Note("states first reached at the depth bound were not expanded: %d", len(frontier))
	} else {
		R.Note("state space closed: no new state at the last level (fix-point reached below the depth bound)")
	}
}

// c17RunHistory replays hist on a fresh instance (canonical map order), then applies the last
// operation with the map iteration order owned by the explorer.
func c17RunHistory(c *explore.Ctx, hist []c17Op) (explore.Result, string) {
	e := c17New()
	var res explore.Result
	defer vsched.SetFreeCtx(nil)
	for i, op := range hist {
		if i == len(hist)-1 {
			vsched.SetFreeCtx(c)
		}
		class, detail := func() (cl, dt string) {
			defer func() {
				if r := recover(); r != nil {
					if d, ok := r.(explore.Divergence); ok {
						panic(d)
					}
					cl, dt = "panic", fmt.Sprintf("%s panicked: %v", op, r)
				}
			}()
			return e.apply(op)
		}()
		if class != "" {
			res.Violation = &explore.Violation{Key: "C17|" + class, What: detail}
			return res, ""
		}
	}
	res.Outcome = e.key()
	return res, e.key()
}

// ---- (b) schedules ----

type c17Thread struct {
	Ops []c17Op `json:"ops"`
}

type c17Scenario struct {
	Name    string      `json:"name"`
	Threads []c17Thread `json:"threads"`
	Preset  []c17Op     `json:"preset,omitempty"` // run sequentially first
}

func (sc c17Scenario) bound() int {
	if len(sc.Threads) >= 3 && !vkit.Thorough() {
		return 3
	}
	return -1
}

func (sc c17Scenario) run(c *explore.Ctx) explore.Result {
	var res explore.Result
	var viol *explore.Violation
	s := vsched.Run(c, vsched.Options{Horizon: 4000, Drain: true, Canonical: sc.bound() < 0}, func() {
		e := c17New()
		for _, op := range sc.Preset {
			e.apply(op)
		}
		done := make(chan struct{}, len(sc.Threads))
		for _, th := range sc.Threads {
			th := th
			vsched.Go(func() {
				for _, op := range th.Ops {
					// each thread observes its own remote-failure attribution through a private view
					if cl, dt := e.applyConcurrent(op); cl != "" && viol == nil {
						viol = &explore.Violation{Key: "C17|sched|" + cl, What: dt}
					}
				}
				vsched.Send(done, struct{}{})
			})
		}
		for range sc.Threads {
			vsched.Recv(done)
		}
		// afterwards every range must still read correctly from whatever is cached
		for st := int64(0); st < int64(len(c17File)); st++ {
			if cl, dt := e.apply(c17Op{"get", st, int64(len(c17File)) - st}); cl != "" && viol == nil {
				viol = &explore.Violation{Key: "C17|sched|after:" + cl, What: dt}
			}
		}
	})
	if c.Pruned {
		return explore.Result{}
	}
	res.NonTrivial = s.Switches > len(sc.Threads)
	switch {
	case s.Panic != "":
		if strings.Contains(s.Panic, "replay divergence") {
			panic(s.Panic)
		}
		res.Outcome = "panic"
		res.Violation = &explore.Violation{Key: "C17|sched|panic", What: strings.SplitN(s.Panic, "\n", 2)[0]}
	case s.Deadlock:
		res.Outcome = "deadlock"
		res.Violation = &explore.Violation{Key: "C17|sched|deadlock", What: "readers deadlock: " + s.DeadlockInfo}
	case s.HorizonHit:
		res.Outcome = "horizon"
	default:
		res.Outcome = "ok"
		res.Violation = viol
	}
	return res
}

// applyConcurrent is apply for reads issued by concurrent threads: a read may fail whenever ANY
// injected failure was consumed while it ran (the attribution is per cache, not per thread).
func (e *c17Env) applyConcurrent(o c17Op) (string, string) {
	if o.Kind != "get" {
		return e.apply(o)
	}
	ctx := context.Background()
	size := int64(len(c17File))
	failsBefore := e.failCount
	got, err := e.rc.GetRange(ctx, o.Start, o.Len)
	valid := o.Start >= 0 && o.Len >= 0 && o.Start+o.Len <= size
	if !valid {
		if err == nil {
			return "invalid-range-served", fmt.Sprintf("%s returned %v without error", o, got)
		}
		return "", ""
	}
	if err != nil {
		if e.failCount > failsBefore || o.Len == 0 {
			return "", ""
		}
		return "spurious-error", fmt.Sprintf("%s failed although no remote call failed meanwhile: %v", o, err)
	}
	want := c17File[o.Start : o.Start+o.Len]
	if !bytes.Equal(got, want) {
		return "wrong-bytes", fmt.Sprintf("%s returned %v, the remote holds %v", o, got, want)
	}
	// the reader uses its slice a little later (after a scheduling point): it must still be intact
	vsched.Yield("use-result")
	if !bytes.Equal(got, want) {
		return "returned-bytes-changed-later", fmt.Sprintf("the slice returned by %s held %v; while the reader was still using it, it changed to %v", o, want, got)
	}
	for i := range got {
		got[i] ^= 0xFF
	}
	return "", ""
}

func c17Scenarios() []c17Scenario {
	g := func(s, l int64) c17Op { return c17Op{"get", s, l} }
	fail := c17Op{Kind: "failnext"}
	del := c17Op{Kind: "delall"}
	scs := []c17Scenario{
		{Name: "same-range x2", Threads: []c17Thread{{[]c17Op{g(1, 3)}}, {[]c17Op{g(1, 3)}}}},
		{Name: "nested", Threads: []c17Thread{{[]c17Op{g(0, 5)}}, {[]c17Op{g(1, 2)}}}},
		{Name: "overlapping", Threads: []c17Thread{{[]c17Op{g(0, 3)}}, {[]c17Op{g(2, 3)}}}},
		{Name: "adjacent", Threads: []c17Thread{{[]c17Op{g(0, 2)}}, {[]c17Op{g(2, 3)}}}},
		{Name: "nested + expiry", Threads: []c17Thread{{[]c17Op{g(0, 5), g(1, 2)}}, {[]c17Op{g(1, 2)}}, {[]c17Op{del}}}},
		{Name: "preset superset, readers + expiry", Preset: []c17Op{{"set", 0, 5}}, Threads: []c17Thread{{[]c17Op{g(1, 3)}}, {[]c17Op{g(0, 5)}}, {[]c17Op{del}}}},
		{Name: "preset subset, superset read + reader", Preset: []c17Op{{"set", 1, 2}}, Threads: []c17Thread{{[]c17Op{g(0, 5)}}, {[]c17Op{g(1, 2), g(1, 1)}}}},
		{Name: "failure + two readers", Preset: []c17Op{fail}, Threads: []c17Thread{{[]c17Op{g(0, 3)}}, {[]c17Op{g(1, 2), g(0, 3)}}}},
		{Name: "failure + reader + expiry", Preset: []c17Op{{"set", 3, 2}, fail}, Threads: []c17Thread{{[]c17Op{g(0, 5), g(0, 5)}}, {[]c17Op{g(3, 2)}}, {[]c17Op{del}}}},
		{Name: "EOF failure + two readers", Preset: []c17Op{{Kind: "failnext-eof"}}, Threads: []c17Thread{{[]c17Op{g(0, 3)}}, {[]c17Op{g(1, 2), g(0, 3)}}}},
		{Name: "short-body failure + two readers", Preset: []c17Op{{Kind: "failnext-eof-partial"}}, Threads: []c17Thread{{[]c17Op{g(0, 4)}}, {[]c17Op{g(1, 2), g(0, 4)}}}},
		{Name: "close + two readers", Threads: []c17Thread{{[]c17Op{g(0, 3), g(1, 3)}}, {[]c17Op{g(2, 3)}}, {[]c17Op{{Kind: "close"}}}}},
		{Name: "preset entry, close + reader", Preset: []c17Op{{"set", 0, 5}}, Threads: []c17Thread{{[]c17Op{g(1, 2), g(0, 5)}}, {[]c17Op{{Kind: "close"}}}}},
		{Name: "three readers", Threads: []c17Thread{{[]c17Op{g(0, 4)}}, {[]c17Op{g(1, 4)}}, {[]c17Op{g(2, 2), g(0, 5)}}}},
		{Name: "reader + concurrent SetRange", Threads: []c17Thread{{[]c17Op{g(0, 4), g(1, 2)}}, {[]c17Op{{"set", 1, 3}, {"set", 0, 5}}}}},
	}
	return scs
}

func TestVerif_C17_Sched(t *testing.T) {
	R := vkit.New("C17")
	defer R.Finish()
	R.Rule = "(b) scenario = 2-3 threads x 1-2 GetRange/SetRange/DeleteOldEntries operations on overlapping, nested and adjacent ranges, with injected remote failures; all interleavings of the lock operations of the instrumented range-cache.go and all map iteration orders are executed (happens-before pruning); oracle per read as in (a), plus every range still reads correctly afterwards"
	scs := c17Scenarios()
	if rp := vkit.ReplayRequest(); rp != nil {
		if rp["variant"] != "sched" {
			return
		}
		var sc c17Scenario
		c17Remarshal(rp["scenario"], &sc)
		res, _, err := explore.Replay(vkit.Ints(rp["choices"]), sc.run)
		t.Logf("replay %s: %+v err=%v", sc.Name, res.Violation, err)
		if res.Violation != nil {
			R.Violation(res.Violation.Key, res.Violation.What, rp)
		}
		R.Case(true, "")
		return
	}
	R.Bounds["sched_scenarios"] = len(scs)
	for idx, sc := range scs {
		if !vkit.Mine(int64(idx)) {
			continue
		}
		if R.Expired() {
			break
		}
		st := explore.Search(explore.Config{Bound: sc.bound(), Deadline: R.Deadline(), Prune: true}, sc.run)
		R.Evaluations += st.Executions
		R.NonTrivial += st.NonTrivial
		R.Transitions += st.Points
		R.TracesValidated += st.Executions
		R.States += st.States
		R.Add("sched_scenarios_done", 1)
		R.Bounds["preemption_bound:"+sc.Name] = sc.bound()
		R.Add("pruned_executions", st.Pruned)
		if st.CapHit {
			R.CapHit, R.Exhaustive = true, false
			R.Note("scenario %q stopped by the deadline after %d executions", sc.Name, st.Executions)
		}
		R.Sample(map[string]interface{}{"scenario": sc.Name, "executions": st.Executions, "states": st.States})
		seen := map[string]bool{}
		for _, f := range st.Violations {
			if seen[f.Violation.Key] {
				continue
			}
			seen[f.Violation.Key] = true
			if ok, why := explore.Confirm(f, 5, sc.run); !ok {
				R.InconclusiveF("violation %s in %s did not reproduce 5x: %s", f.Violation.Key, sc.Name, why)
				continue
			}
			R.Violation(f.Violation.Key, f.Violation.What+" [scenario "+sc.Name+"]", map[string]interface{}{"variant": "sched", "scenario": sc, "choices": f.Choices})
		}
	}
}
