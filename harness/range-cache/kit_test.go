//go:build verif

package rangecache

import "encoding/json"

func c17Remarshal(in interface{}, out interface{}) {
	b, _ := json.Marshal(in)
	if err := json.Unmarshal(b, out); err != nil {
		panic(err)
	}
}
