//go:build verif

package bucketteer

// C05: the signature-existence index has no false negatives (current format).
// The section "generic body" is textually identical in /verif/harness/deprecated__bucketteer/c05_test.go;
// only the "adapter" section differs.

import (
	"bytes"
	"encoding/binary"
	"encoding/hex"
	"encoding/json"
	"fmt"
	"io"
	"os"
	"os/exec"
	"path/filepath"
	"runtime"
	"sort"
	"strings"
	"testing"
	"time"

	"github.com/cespare/xxhash/v2"
	"github.com/rpcpool/yellowstone-faithful/indexmeta"
	"github.com/rpcpool/yellowstone-faithful/zzverif/vkit"
)

// ---------------------------------------------------------------------------------------------
// adapter (format-specific)
// ---------------------------------------------------------------------------------------------

const c05Format = "bucketteer"

const c05KeySuffix = ""

// NewWriter of the current format reserves 65 536 x 16 000 uint64 of capacity. A second writer in the same
// process makes that memory resident, so every populations case (real constant) runs in a child process of
// its own; the small-universe cases run in the variant whose capacity hint is shrunk (performance only).
func c05PopInChild() bool { return true }

func c05MetaPairs(shape int) [][2]string {
	switch shape {
	case 1:
		return [][2]string{{"epoch", "123"}}
	case 2:
		return [][2]string{{"epoch", "123"}, {"", ""}, {strings.Repeat("k", 255), strings.Repeat("v", 255)}}
	}
	return nil
}

func c05Seal(w *Writer, metaShape int) (int64, error) {
	var m indexmeta.Meta
	for _, kv := range c05MetaPairs(metaShape) {
		if err := m.Add([]byte(kv[0]), []byte(kv[1])); err != nil {
			return 0, err
		}
	}
	return w.Seal(m)
}

// informational only: the property statement does not cover metadata content
func c05MetaReadback(r *Reader, metaShape int) string {
	want := c05MetaPairs(metaShape)
	m := r.Meta()
	if m == nil {
		if len(want) == 0 {
			return ""
		}
		return "Meta() is nil"
	}
	if len(m.KeyVals) != len(want) {
		return fmt.Sprintf("%d pairs written, %d read back", len(want), len(m.KeyVals))
	}
	for i, kv := range want {
		if string(m.KeyVals[i].Key) != kv[0] || string(m.KeyVals[i].Value) != kv[1] {
			return fmt.Sprintf("pair %d differs", i)
		}
	}
	return ""
}

// ---------------------------------------------------------------------------------------------
// generic body (identical in the two C05 harness files)
// ---------------------------------------------------------------------------------------------

const c05Mod = "github.com/rpcpool/yellowstone-faithful"

type c05Case struct {
	Format string `json:"format"`
	Part   string `json:"part"`            // small | pop
	Mult   []int  `json:"mult,omitempty"`  // small: multiplicity (0..2) of each universe signature
	Order  int    `json:"order,omitempty"` // small: 0 = grouped ascending, 1 = two passes (descending, then ascending)
	Meta   int    `json:"meta"`            // metadata shape: 0, 1 or 3 pairs
	Procs  int    `json:"procs,omitempty"` // small: processors the Go runtime is told to use while the case runs (0 = as started)
	Pair   int    `json:"pair,omitempty"`  // small: which prefix pair the universe uses (c05Pairs)
	Pop    string `json:"pop,omitempty"`   // pop: name of the populations layout
	MaxP   int    `json:"max_p,omitempty"`
}

type c05Panic struct{ Phase, Value, Frame string }

func (p *c05Panic) String() string {
	return fmt.Sprintf("panic in %s: %s @ %s", p.Phase, p.Value, p.Frame)
}

func c05Guard(phase string, f func() error) (err error, pn *c05Panic) {
	defer func() {
		if r := recover(); r != nil {
			pn = &c05Panic{Phase: phase, Value: fmt.Sprint(r), Frame: c05RepoFrame()}
		}
	}()
	return f(), nil
}

func c05RepoFrame() string {
	pcs := make([]uintptr, 64)
	n := runtime.Callers(3, pcs)
	fr := runtime.CallersFrames(pcs[:n])
	for {
		f, more := fr.Next()
		fn := f.Function
		if strings.HasPrefix(fn, c05Mod) && !strings.Contains(fn, ".c05") && !strings.Contains(fn, "TestVerif") && !strings.Contains(fn, "zzverif") {
			return fmt.Sprintf("%s (%s:%d)", strings.TrimPrefix(fn, c05Mod+"/"), filepath.Base(f.File), f.Line)
		}
		if !more {
			break
		}
	}
	return "?"
}

// c05Sig: signature number j of the two-byte prefix p (little endian, as the index reads it).
func c05Sig(p uint16, j int) (s [64]byte) {
	s[0], s[1] = byte(p), byte(p>>8)
	binary.BigEndian.PutUint64(s[2:10], uint64(j)*0x9E3779B97F4A7C15+uint64(j))
	for k := 10; k < 64; k++ {
		s[k] = byte(j*31 + k*7 + int(p))
	}
	return
}

func c05SigDesc(s [64]byte) string { return "sig " + hex.EncodeToString(s[:10]) + ".." }

// reference model: per prefix the set of 64-bit hashes of the added signatures
type c05Model map[uint16]map[uint64]bool

func c05Prefix(s [64]byte) uint16 { return uint16(s[0]) | uint16(s[1])<<8 }

func (m c05Model) add(s [64]byte) {
	p := c05Prefix(s)
	if m[p] == nil {
		m[p] = map[uint64]bool{}
	}
	m[p][xxhash.Sum64(s[:])] = true
}

// expected answer: true if added; false if the hash differs from every added hash of the prefix
func (m c05Model) has(s [64]byte) bool { return m[c05Prefix(s)][xxhash.Sum64(s[:])] }

var c05Scratch string

func c05Base() string {
	if c05Scratch == "" {
		root := os.Getenv("VERIF_SHM")
		if root == "" {
			root = os.TempDir()
		}
		d, err := os.MkdirTemp(root, "c05-")
		if err != nil {
			panic(err)
		}
		c05Scratch = d
	}
	return c05Scratch
}

func c05Viol(R *vkit.Report, class, scope, what string, c c05Case) {
	R.Violation("C05|"+class+"|"+scope+c05KeySuffix, "["+c05Format+"] "+what, map[string]interface{}{"case": c})
}

// c05Round: one writer. puts = the multiset in insertion order; queries = signatures whose answers are
// compared with the model (every put signature must be present; the others must be absent unless their
// hash equals an added hash of the same prefix). Returns false after the first violation.
func c05Round(R *vkit.Report, c c05Case, scope string, puts [][64]byte, queries [][64]byte) bool {
	dir, err := os.MkdirTemp(c05Base(), "w")
	if err != nil {
		panic(err)
	}
	defer os.RemoveAll(dir)
	path := filepath.Join(dir, "sig-exists.index")
	desc := fmt.Sprintf("%s %+v", scope, c)
	fail := func(class, what string) bool {
		R.Outcome(scope + ":" + class)
		c05Viol(R, class, scope, desc+": "+what, c)
		return false
	}
	var w *Writer
	err, pn := c05Guard("NewWriter", func() error { var e error; w, e = NewWriter(path); return e })
	if pn != nil {
		return fail("panic|"+pn.Phase+"|"+pn.Frame, pn.String())
	}
	if err != nil {
		return fail("writer-error", "NewWriter: "+err.Error())
	}
	model := c05Model{}
	_, pn = c05Guard("Put", func() error {
		for _, s := range puts {
			w.Put(s)
			model.add(s)
		}
		return nil
	})
	if pn != nil {
		w.Close()
		return fail("panic|"+pn.Phase+"|"+pn.Frame, pn.String())
	}
	// the writer's own membership test, before sealing
	wHas := make([]bool, len(queries))
	_, pn = c05Guard("Writer.Has", func() error {
		for i, s := range queries {
			wHas[i] = w.Has(s)
		}
		return nil
	})
	if pn != nil {
		w.Close()
		return fail("panic|"+pn.Phase+"|"+pn.Frame, pn.String())
	}
	err, pn = c05Guard("Seal", func() error { _, e := c05Seal(w, c.Meta); return e })
	if pn != nil {
		w.Close()
		return fail("panic|"+pn.Phase+"|"+pn.Frame, pn.String())
	}
	if err != nil {
		w.Close()
		return fail("writer-error", "Seal: "+err.Error())
	}
	// and after sealing (sealing sorts the writer's slices in place)
	wHas2 := make([]bool, len(queries))
	_, pn = c05Guard("Writer.Has", func() error {
		for i, s := range queries {
			wHas2[i] = w.Has(s)
		}
		return nil
	})
	if pn != nil {
		w.Close()
		return fail("panic|"+pn.Phase+"|"+pn.Frame, pn.String())
	}
	if err, pn = c05Guard("Writer.Close", func() error { return w.Close() }); pn != nil {
		return fail("panic|"+pn.Phase+"|"+pn.Frame, pn.String())
	} else if err != nil {
		return fail("writer-error", "Close: "+err.Error())
	}
	data, err := os.ReadFile(path)
	if err != nil {
		return fail("writer-error", "sealed file unreadable: "+err.Error())
	}
	for _, access := range []string{"Open(mmap)", "NewReader(ReaderAt)", "NewReader(ReaderAt reporting io.EOF with the last bytes)", "NewReader(all-or-nothing ReaderAt)"} {
		var r *Reader
		err, pn = c05Guard(access, func() error {
			var e error
			switch access {
			case "Open(mmap)":
				r, e = Open(path)
			case "NewReader(ReaderAt)":
				r, e = NewReader(bytes.NewReader(data))
			case "NewReader(all-or-nothing ReaderAt)":
				r, e = NewReader(c05AllOrNothing{bytes.NewReader(data)})
			default:
				r, e = NewReader(c05EagerEOF{bytes.NewReader(data)})
			}
			return e
		})
		if pn != nil {
			return fail("panic|"+pn.Phase+"|"+pn.Frame, pn.String())
		}
		if err != nil {
			return fail("false-negative", fmt.Sprintf("the sealed file (%d signatures put) cannot be opened through %s: %v", len(puts), access, err))
		}
		for i, s := range queries {
			var got bool
			err, pn = c05Guard("Reader.Has", func() error { var e error; got, e = r.Has(s); return e })
			if pn != nil {
				return fail("panic|"+pn.Phase+"|"+pn.Frame, fmt.Sprintf("%s of %s: %s", access, c05SigDesc(s), pn))
			}
			want := model.has(s)
			pop := len(model[c05Prefix(s)])
			if err != nil {
				if want {
					return fail("false-negative", fmt.Sprintf("%s: Has(%s) -> error %v; the signature was added (prefix %d holds %d distinct signatures)", access, c05SigDesc(s), err, c05Prefix(s), pop))
				}
				return fail("has-error", fmt.Sprintf("%s: Has(%s) -> error %v for a signature that was not added", access, c05SigDesc(s), err))
			}
			if want && !got {
				return fail("false-negative", fmt.Sprintf("%s: Has(%s) -> false, but the signature was added (prefix %d holds %d distinct signatures, %d puts in total)", access, c05SigDesc(s), c05Prefix(s), pop, len(puts)))
			}
			if !want && got {
				return fail("false-positive", fmt.Sprintf("%s: Has(%s) -> true, but no added signature of prefix %d has this 64-bit hash (%d distinct there)", access, c05SigDesc(s), c05Prefix(s), pop))
			}
			if wHas[i] != got || wHas2[i] != got {
				return fail("writer-disagrees", fmt.Sprintf("Writer.Has(%s) -> %v before Seal, %v after Seal; the sealed file says %v (%s)", c05SigDesc(s), wHas[i], wHas2[i], got, access))
			}
		}
		if info := c05MetaReadback(r, c.Meta); info != "" {
			R.Add("metadata_readback_differs(not demanded)", 1)
			R.Note("[%s] metadata shape %d: %s (informational: the property statement does not cover metadata content)", c05Format, c.Meta, info)
		}
		r.Close()
	}
	return true
}

// c05Pairs: the two prefixes a small universe alternates between. Pair 0 has prefixes whose byte order
// matters (1 and 0xfffe); pair 1 is the first and the last prefix of the table (0 and 0xffff), whose
// buckets sit at the two ends of the file (the first bucket is at offset 0 after the header).
var c05Pairs = [][2]uint16{{0x0001, 0xfffe}, {0x0000, 0xffff}}

// universe: n signatures alternating between the two prefixes of the pair
func c05Universe(n, pair int) [][64]byte {
	out := make([][64]byte, n)
	for i := range out {
		out[i] = c05Sig(c05Pairs[pair][i%2], i/2)
	}
	return out
}

// signatures that are never added: byte-swapped prefixes, the prefixes of the other pair, and one more
// per used prefix
func c05Probes(pair int) [][64]byte {
	other := c05Pairs[1-pair]
	return [][64]byte{c05Sig(0x0100, 0), c05Sig(0xfeff, 0), c05Sig(other[0], 0), c05Sig(other[1], 0),
		c05Sig(c05Pairs[pair][0], 1000), c05Sig(c05Pairs[pair][1], 1000)}
}

func c05RunSmall(R *vkit.Report, c c05Case) {
	uni := c05Universe(len(c.Mult), c.Pair)
	var puts [][64]byte
	if c.Order == 0 {
		for i, m := range c.Mult {
			for k := 0; k < m; k++ {
				puts = append(puts, uni[i])
			}
		}
	} else {
		for i := len(c.Mult) - 1; i >= 0; i-- {
			if c.Mult[i] >= 1 {
				puts = append(puts, uni[i])
			}
		}
		for i, m := range c.Mult {
			if m >= 2 {
				puts = append(puts, uni[i])
			}
		}
	}
	queries := append(append([][64]byte{}, uni...), c05Probes(c.Pair)...)
	if c.Procs > 0 {
		prev := runtime.GOMAXPROCS(c.Procs)
		defer runtime.GOMAXPROCS(prev)
	}
	nonTrivial := false
	perPrefix := map[uint16]int{}
	for i, m := range c.Mult {
		if m >= 2 {
			nonTrivial = true
		}
		if m >= 1 {
			perPrefix[c05Prefix(uni[i])]++
		}
	}
	for _, n := range perPrefix {
		if n >= 2 {
			nonTrivial = true
		}
	}
	R.Case(nonTrivial, "")
	if c05Round(R, c, "small-universe", puts, queries) {
		R.Outcome(fmt.Sprintf("small-universe:puts=%d:ok", len(puts)))
	}
}

type c05Layout struct {
	Prefix uint16
	Pop    int
	Twice  bool
}

func c05PowerPops() []int {
	seen := map[int]bool{}
	var out []int
	for k := 1; k <= 12; k++ {
		for _, d := range []int{-1, 0, 1} {
			if n := 1<<k + d; !seen[n] {
				seen[n] = true
				out = append(out, n)
			}
		}
	}
	sort.Ints(out)
	return out
}

// c05PopLayout: "all" = prefix p holds exactly p signatures for p = 0..maxP (every seventh prefix gets each
// signature twice) plus the populations 2^k-1, 2^k, 2^k+1 (k = 1..12) on prefixes 0xff00..; "mirror" = prefix
// 65535-p holds p signatures, every signature put twice, prefixes filled in descending order.
func c05PopLayout(name string, maxP int) []c05Layout {
	var out []c05Layout
	switch name {
	case "all":
		out = append(out, c05Layout{0, maxP + 1, false}) // the first bucket of the file is populated too
		for p := 1; p <= maxP; p++ {
			out = append(out, c05Layout{uint16(p), p, p%7 == 3})
		}
		for i, n := range c05PowerPops() {
			out = append(out, c05Layout{uint16(0xff00 + i), n, false})
		}
	case "mirror":
		for p := maxP; p >= 1; p-- {
			out = append(out, c05Layout{uint16(65535 - p), p, true})
		}
		out = append(out, c05Layout{65535, maxP + 1, true}) // and so is the last one
	}
	return out
}

func c05RunPop(R *vkit.Report, c c05Case) {
	layout := c05PopLayout(c.Pop, c.MaxP)
	var puts, queries [][64]byte
	for _, l := range layout {
		for j := 0; j < l.Pop; j++ {
			s := c05Sig(l.Prefix, j)
			puts = append(puts, s)
			queries = append(queries, s)
		}
		if l.Twice {
			for j := l.Pop - 1; j >= 0; j-- {
				puts = append(puts, c05Sig(l.Prefix, j))
			}
		}
		// two signatures of the same prefix that are not added
		queries = append(queries, c05Sig(l.Prefix, l.Pop), c05Sig(l.Prefix, l.Pop+12345))
	}
	queries = append(queries, c05Sig(0x8000, 0), c05Sig(0x7fff, 1))
	for range layout {
		R.Case(true, "") // one evaluation per (prefix, population)
	}
	if c05Round(R, c, "populations", puts, queries) {
		R.Outcome(fmt.Sprintf("populations:%s:prefixes=%d:puts=%d:ok", c.Pop, len(layout), len(puts)))
		R.Add("signatures_put", int64(len(puts)))
		R.Add("membership_queries", int64(2*len(queries)))
	}
}

// c05PopChild runs one populations case in a fresh process (one real writer per process) and folds its report in.
func c05PopChild(R *vkit.Report, c c05Case) {
	b, _ := json.Marshal(c)
	out := filepath.Join(c05Base(), "child-"+c.Pop+".json")
	cmd := exec.Command(os.Args[0], "-test.run", "^TestVerif_C05$", "-test.timeout", "3000s")
	cmd.Env = append(os.Environ(), "VERIF_C05_CHILD="+string(b), "VERIF_OUT="+out, "VERIF_REPLAY=", "VERIF_SHARD=0/1")
	var log bytes.Buffer
	cmd.Stdout, cmd.Stderr = &log, &log
	if err := cmd.Start(); err != nil {
		R.Internal("cannot start child: %v", err)
		return
	}
	done := make(chan error, 1)
	go func() { done <- cmd.Wait() }()
	limit := 40 * time.Minute
	if d := R.Deadline(); !d.IsZero() {
		limit = time.Until(d) + 90*time.Second
	}
	var werr error
	select {
	case werr = <-done:
	case <-time.After(limit):
		cmd.Process.Kill()
		<-done
		R.InconclusiveF("[%s] populations case %q: child process exceeded the deadline and was stopped (no verdict)", c05Format, c.Pop)
		R.Exhaustive = false
		return
	}
	rb, rerr := os.ReadFile(out)
	os.Remove(out)
	var child vkit.Report
	if rerr != nil || json.Unmarshal(rb, &child) != nil {
		txt := log.String()
		if len(txt) > 3000 {
			txt = txt[len(txt)-3000:]
		}
		if strings.Contains(txt, "panic:") || strings.Contains(txt, "fatal error:") {
			c05Viol(R, "worker-died", "populations|"+c.Pop, fmt.Sprintf("child process running populations case %q died (%v): %s", c.Pop, werr, txt), c)
		} else {
			R.InconclusiveF("[%s] populations case %q: child ended without a report (%v): %s", c05Format, c.Pop, werr, txt)
			R.Exhaustive = false
		}
		return
	}
	R.Evaluations += child.Evaluations
	R.NonTrivial += child.NonTrivial
	for k, v := range child.Violations {
		R.Violation(k, v.What, v.Replay)
	}
	for k, v := range child.Outcomes {
		R.Outcomes[k] += v
	}
	for k, v := range child.Counters {
		R.Counters[k] += v
	}
	for _, n := range child.Notes {
		R.Note("%s", n)
	}
	if child.InternalError != "" {
		R.Internal("child: %s", child.InternalError)
	}
}

func TestVerif_C05(t *testing.T) {
	R := vkit.New("C05")
	defer R.Finish()
	defer func() {
		if c05Scratch != "" {
			os.RemoveAll(c05Scratch)
		}
	}()
	R.Rule = "reference model = per two-byte prefix the set of xxhash64 values of the added signatures. (small-universe) every multiset with multiplicity 0..2 over a universe of signatures on two prefixes x two insertion orders x metadata of 0/1/3 pairs x the runtime told to use its processors as started, 3 or 6 of them, one real writer each; (populations) one file in which prefix p holds exactly p signatures for every p = 0..P plus populations 2^k-1, 2^k, 2^k+1 up to 4097, and a mirrored file with every signature put twice. After Seal every added signature must be present through Open (mmap), through NewReader over an in-memory ReaderAt over a ReaderAt that reports io.EOF together with the last bytes of the input and over one that returns nothing at all for a read crossing the end, never-added signatures whose hash differs from all added ones of the prefix must be absent, and Writer.Has (before and after Seal) must agree with the file. One evaluation = one writer (small-universe) or one (prefix, population) pair (populations); non-trivial = a duplicate or at least two signatures in one prefix."
	// child mode: exactly one populations case, report goes to the parent
	if cj := os.Getenv("VERIF_C05_CHILD"); cj != "" {
		var c c05Case
		if err := json.Unmarshal([]byte(cj), &c); err != nil {
			R.Internal("bad child case: %v", err)
			return
		}
		c05RunPop(R, c)
		return
	}
	variant := os.Getenv("VERIF_VARIANT") // small | pop | anything else: both parts
	doSmall, doPop := variant != "pop", variant != "small"
	uniSize, maxP := 5, 300
	if vkit.Thorough() {
		uniSize, maxP = 6, 600
	}
	if doSmall {
		if u := os.Getenv("VERIF_UNMATCHED_RULES"); u != "" {
			R.Note("[%s] capacity-hint rule did not match (%s): writers use the real pre-allocation and are slow", c05Format, u)
		}
	}
	runPop := func(c c05Case) {
		if c05PopInChild() {
			c05PopChild(R, c)
		} else {
			c05RunPop(R, c)
		}
	}
	if rp := vkit.ReplayRequest(); rp != nil {
		var c c05Case
		b, _ := json.Marshal(rp["case"])
		if err := json.Unmarshal(b, &c); err != nil {
			R.Internal("bad replay file: %v", err)
			return
		}
		if c.Format != c05Format || (c.Part == "small" && !doSmall) || (c.Part == "pop" && !doPop) {
			return // another variant owns this replay
		}
		if c.Part == "small" {
			c05RunSmall(R, c)
		} else {
			runPop(c)
		}
		t.Logf("replayed %+v: violations=%d", c, R.NumViolations())
		return
	}
	idx := int64(-1)
	next := func() bool { idx++; return vkit.Mine(idx) }
	if doPop {
		for pi, name := range []string{"all", "mirror"} {
			if !next() {
				continue
			}
			if R.Expired() {
				R.Note("[%s] deadline reached at case %d", c05Format, idx)
				return
			}
			c := c05Case{Format: c05Format, Part: "pop", Pop: name, MaxP: maxP, Meta: pi + 1}
			runPop(c)
			R.Sample(c)
		}
		R.Bounds[c05Format+":populations"] = fmt.Sprintf("every p in 0..%d, and 2^k-1,2^k,2^k+1 for k=1..12 (up to 4097)", maxP)
	}
	if doSmall {
		total := 1
		for i := 0; i < uniSize; i++ {
			total *= 3
		}
		for code := 0; code < total; code++ {
			mult := make([]int, uniSize)
			x, n := code, 0
			for i := range mult {
				mult[i] = x % 3
				n += mult[i]
				x /= 3
			}
			orders := 2
			if n < 2 {
				orders = 1
			}
			for order := 0; order < orders; order++ {
				for meta := 0; meta < 3; meta++ {
					for pair := range c05Pairs {
						// the number of processors is part of the configuration a writer runs under: as started, and
						// two counts that do not divide the 65 536 prefixes
						for _, procs := range []int{0, 3, 6} {
							if !next() {
								continue
							}
							if R.Expired() {
								R.Note("[%s] deadline reached at case %d", c05Format, idx)
								return
							}
							c := c05Case{Format: c05Format, Part: "small", Mult: mult, Order: order, Meta: meta, Pair: pair, Procs: procs}
							c05RunSmall(R, c)
							if code%97 == 50 && order == 1 && meta == 2 {
								R.Sample(c)
							}
						}
					}
				}
			}
		}
		R.Bounds[c05Format+":universe_signatures"] = uniSize
		R.Bounds[c05Format+":prefix_pairs"] = "0x0001/0xfffe and 0x0000/0xffff"
		R.Bounds[c05Format+":multiplicity"] = "0..2"
		R.Bounds[c05Format+":insertion_orders"] = 2
		R.Bounds[c05Format+":metadata_shapes"] = "0, 1, 3 pairs"
		R.Bounds[c05Format+":processors"] = "as started, 3, 6"
	}
	R.Assume("the 64-bit hash named by the property is xxhash64 of the 64 signature bytes (computed independently by the harness)")
	R.Assume("metadata content read-back is informational; the statement only demands membership answers whatever the metadata")
	if c05PopInChild() && doSmall {
		R.Assume("small-universe writers run with the capacity hint of newPrefixToHashes shrunk from 16000 to 16 (pre-allocation only, no semantic effect); the populations variant runs the unmodified constant")
	}
}

// c05EagerEOF is a conforming io.ReaderAt of the other kind: a read that ends exactly at the end of the input
// returns all the bytes asked for together with io.EOF ("ReadAt may return either err == EOF or err == nil").
type c05EagerEOF struct{ r *bytes.Reader }

func (e c05EagerEOF) ReadAt(p []byte, off int64) (int, error) {
	n, err := e.r.ReadAt(p, off)
	if err == nil && off+int64(n) == e.r.Size() {
		err = io.EOF
	}
	return n, err
}

// c05AllOrNothing is a third conforming kind of io.ReaderAt: a read that would cross the end of the input returns
// no bytes at all together with io.EOF (n < len(p) with a non-nil error is all the contract asks for). A reader
// that only ever asks for bytes the file holds never notices.
type c05AllOrNothing struct{ r *bytes.Reader }

func (e c05AllOrNothing) ReadAt(p []byte, off int64) (int, error) {
	if off+int64(len(p)) > e.r.Size() {
		return 0, io.EOF
	}
	return e.r.ReadAt(p, off)
}
