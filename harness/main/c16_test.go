//go:build verif

package main

import (
	"bytes"
	"encoding/base64"
	"encoding/binary"
	"encoding/csv"
	"fmt"
	"io"
	"os"
	"path/filepath"
	"runtime/debug"
	"sort"
	"strconv"
	"strings"
	"testing"

	"github.com/anjor/carlet"
	splitcarfetcher "github.com/rpcpool/yellowstone-faithful/split-car-fetcher"
	"github.com/rpcpool/yellowstone-faithful/zzverif/cargen"
	"github.com/rpcpool/yellowstone-faithful/zzverif/vkit"
	"github.com/urfave/cli/v2"
)

// C16 part (c): the real `split-car` CLI action, run in-process on generated epoch CARs, for every
// --size value at which the piece assignment can change. Ground truth = the generator's own
// object table (offsets, section lengths, block membership).

const c16SplitRule = "(a) MultiReaderAt: every piece-size vector (1..4 pieces, each 0..K bytes, distinct bytes per piece) x reader kind " +
	"(bytes.Reader | io.SectionReader inside a padded backing, as NewSplitCarReader builds them | reader that reports io.EOF together with the last byte) " +
	"x EVERY read (offset 0..total+1, length 0..total+2), compared with the plain concatenation; " +
	"(b) NewSplitCarReader over pieces of <=3 in-memory (and on-disk) files = own header ‖ content ‖ tail, original header taken from the metadata, same read matrix, " +
	"reference = uvarint(len(header)) ‖ header ‖ contents; " +
	"(c) the real split-car action on generated epoch CARs for every --size at a cumulative block-DAG boundary -1/0/+1 (plus 0, 1, huge): every block DAG byte-identical, in order, inside exactly one piece; " +
	"HeaderSize/ContentSize of the written YAML delimit exactly the piece header and the DAG bytes in the written files; reading the written pieces through NewSplitCarReader gives original header ‖ DAG bytes; the CSV's file-size column equals the size of each written file and the repository's own local piece reader (NewFileSplitCarReader) accepts the written pieces with the written metadata; merge-cars over the written pieces yields the nul-root header followed by every piece's body, nothing lost. " +
	"Per read the oracle demands: bytes returned = reference bytes; count = min(length, bytes available); nil error when the range ends before the true end; " +
	"a non-nil error (io.EOF expected) when the range passes the true end; a range ending exactly at the true end may return nil or io.EOF with the full count (io.ReaderAt allows both); " +
	"zero-length reads at or after the true end may return nil or io.EOF, before the end they must return nil. " +
	"Non-trivial = vector with >=2 pieces (reads span a piece boundary) / split into >=2 pieces."

type c16Shape struct {
	Name  string
	Shape cargen.Shape
}

// c16Block returns block number b of a family in which every block has a different DAG size:
// 0..4 transactions in 0..2 entries, metadata in 1..7 frames, transaction payload padding, rewards
// absent / one frame / linked frames.
func c16Block(b int) cargen.BlockShape {
	bs := cargen.BlockShape{SlotOffset: 100 + 3*b, Blocktime: int64(1_700_000_000 + b)}
	switch b % 8 {
	case 0:
		bs.Entries = [][]cargen.TxShape{{{Accounts: []int{0}}}}
	case 1:
		bs.Entries = [][]cargen.TxShape{{{Accounts: []int{1}, Meta: cargen.PayloadShape{Pad: 500, FrameSize: 200}}}, {{Accounts: []int{2}}}}
		bs.Rewards = &cargen.PayloadShape{Pad: 40}
	case 2:
		bs.Entries = nil // a block with no entries: the DAG is the block node alone
	case 3:
		bs.Entries = [][]cargen.TxShape{{{Accounts: []int{0, 1}, TxPad: 300}, {Accounts: []int{2}, Vote: true}, {Accounts: []int{1}, Failed: true}}}
		bs.Rewards = &cargen.PayloadShape{Pad: 700, FrameSize: 150, FanOut: 2}
	case 4:
		bs.Entries = [][]cargen.TxShape{{}, {{Accounts: []int{2}, Meta: cargen.PayloadShape{Pad: 1300, FrameSize: 200, FanOut: 1}}}}
	case 5:
		bs.Entries = [][]cargen.TxShape{{{NoMeta: true}, {Accounts: []int{0}, Meta: cargen.PayloadShape{Bare: true}}}}
		bs.Rewards = &cargen.PayloadShape{Pad: 10}
	case 6:
		bs.Entries = [][]cargen.TxShape{{{Accounts: []int{1}, TxPad: 900, Meta: cargen.PayloadShape{Pad: 16000}}}}
	case 7:
		bs.Entries = [][]cargen.TxShape{{{Accounts: []int{0}}, {Accounts: []int{1}}}, {{Accounts: []int{2}}, {Accounts: []int{0}, Meta: cargen.PayloadShape{Pad: 900, FrameSize: 200, FanOut: 4, Checksum: "fnv"}}}}
		bs.Rewards = &cargen.PayloadShape{Pad: 300, FrameSize: 100}
	}
	return bs
}

func c16Shapes() []c16Shape {
	mk := func(name string, epoch uint64, n, first, subsetEvery int, sha512 bool) c16Shape {
		s := cargen.Shape{Epoch: epoch, SubsetEvery: subsetEvery, RootSha512: sha512}
		for b := 0; b < n; b++ {
			bs := c16Block(first + b)
			bs.SlotOffset = 100 + 3*b
			s.Blocks = append(s.Blocks, bs)
		}
		return c16Shape{name, s}
	}
	out := []c16Shape{
		mk("3-blocks", 1, 3, 0, 0, false),
		mk("5-blocks/subset-every-2", 7, 5, 1, 2, false),
		mk("8-blocks", 3, 8, 0, 0, false),
		// more than nine pieces at the small sizes: piece 10 sorts before piece 2 by name
		mk("12-blocks", 21, 12, 0, 0, false),
	}
	// a block whose DAG has more objects than the accumulator's initial child buffer (5000): 3 entries
	// with 1700 transactions each, between two small blocks
	big := mk("3-blocks/middle-one-with-5100-txs", 13, 3, 0, 0, false)
	var es [][]cargen.TxShape
	for e := 0; e < 3; e++ {
		ts := make([]cargen.TxShape, 1700)
		for k := range ts {
			ts[k] = cargen.TxShape{Accounts: []int{k % 3}, NoMeta: k%2 == 0}
		}
		es = append(es, ts)
	}
	big.Shape.Blocks[1].Entries = es
	out = append(out, big)
	// objects whose section payload (CID + data) sits exactly on and around the boundaries where the
	// section-length varint grows (127/128/129, 16383/16384/16385, 16511/16512), one per block
	edge := mk("8-blocks/section-payloads-at-varint-boundaries", 17, 8, 0, 0, false)
	for b, target := range []int{127, 128, 129, 16383, 16384, 16385, 16511, 16512} {
		if pad, ok := vkPadForTxPayload(target); ok {
			edge.Shape.Blocks[b].Entries = [][]cargen.TxShape{{{Accounts: []int{0}, TxPad: pad, NoMeta: true}, {Accounts: []int{1}}}}
		}
	}
	out = append(out, edge)
	if os.Getenv("C16_RACE_PASS") != "" {
		// supplementary race-detector pass (thorough tier): the two smallest shapes and the varint-boundary shape
		return []c16Shape{out[0], out[1], out[len(out)-1]}
	}
	if vkit.Thorough() {
		out = append(out,
			mk("4-blocks/from-3", 2, 4, 3, 0, false),
			mk("6-blocks/subset-every-1", 4, 6, 2, 1, false),
			mk("7-blocks/root-sha512", 5, 7, 1, 0, true),
			mk("8-blocks/subset-every-3/root-sha512", 700, 8, 5, 3, true),
			mk("3-blocks/from-5", 0, 3, 5, 0, false),
			mk("5-blocks/from-6", 9, 5, 6, 0, false),
			mk("6-blocks/from-4/subset-every-2", 11, 6, 4, 2, false),
		)
	}
	return out
}

type c16Truth struct {
	t       *cargen.Truth
	dag     [][]byte // bytes of each block's DAG (sections FirstObj..Obj)
	dagEnds []int    // cumulative end of each DAG inside all
	all     []byte   // concatenation of all DAGs
}

func c16GroundTruth(t *cargen.Truth) *c16Truth {
	g := &c16Truth{t: t}
	for _, b := range t.Blocks {
		var d []byte
		for i := b.FirstObj; i <= b.Obj; i++ {
			o := t.Objects[i]
			d = append(d, t.Bytes[o.Offset:o.Offset+o.SectionLen]...)
		}
		g.dag = append(g.dag, d)
		g.all = append(g.all, d...)
		g.dagEnds = append(g.dagEnds, len(g.all))
	}
	return g
}

// c16Sizes returns every --size at which the greedy piece assignment can change: piece header +
// any run of consecutive DAGs, -1/0/+1, plus the extremes.
func c16Sizes(g *c16Truth, pieceHeader int) []int64 {
	set := map[int64]bool{0: true, 1: true, int64(pieceHeader): true, 1 << 40: true}
	for i := range g.dag {
		sum := int64(pieceHeader)
		for j := i; j < len(g.dag); j++ {
			sum += int64(len(g.dag[j]))
			set[sum-1], set[sum], set[sum+1] = true, true, true
		}
	}
	var out []int64
	for s := range set {
		out = append(out, s)
	}
	sort.Slice(out, func(a, b int) bool { return out[a] < out[b] })
	return out
}

// c16Greedy is the reference piece assignment (used for coverage accounting only, not as an oracle).
func c16Greedy(g *c16Truth, pieceHeader int, size int64) []int {
	var counts []int
	cur := int64(0)
	for i, d := range g.dag {
		if i == 0 || cur+int64(len(d)) > size {
			counts = append(counts, 0)
			cur = int64(pieceHeader)
		}
		cur += int64(len(d))
		counts[len(counts)-1]++
	}
	return counts
}

type c16NeutralFile struct {
	*os.File
	size int64
}

func (f *c16NeutralFile) Size() int64 { return f.size }

func c16MainFrame(stack string) string {
	for _, l := range strings.Split(stack, "\n") {
		l = strings.TrimSpace(l)
		if strings.HasPrefix(l, "github.com/rpcpool/yellowstone-faithful") && !strings.Contains(l, "zzverif") && !strings.Contains(l, "c16") && !strings.Contains(l, "TestVerif") {
			if i := strings.LastIndex(l, "("); i > 0 {
				l = l[:i]
			}
			return strings.TrimPrefix(l, "github.com/rpcpool/yellowstone-faithful")
		}
	}
	return "unknown-frame"
}

type c16SplitCase struct {
	Shape string `json:"shape"`
	Size  int64  `json:"size"`
}

type c16Finding struct{ key, what string }

type c16Result struct {
	findings   []c16Finding
	pieces     []int // blocks per piece, as observed
	notes      []string
	actionErr  string
	fileReader string // what the repository's local-file piece reader says about the written pieces
	csvSizes   string
	csvDiffer  int
	tailBytes  int
}

// c16RunSplit runs the action for one (shape, size) in a fresh directory and checks everything.
func c16RunSplit(base string, sh c16Shape, g *c16Truth, carPath string, size int64) (res c16Result) {
	t := g.t
	bad := func(class, param, f string, a ...interface{}) {
		res.findings = append(res.findings, c16Finding{"C16|split|" + class + "|" + param, fmt.Sprintf("[%s --size %d] ", sh.Name, size) + fmt.Sprintf(f, a...)})
	}
	dir := filepath.Join(base, "run-"+vkit.Hash(sh.Name, size))
	out := filepath.Join(dir, "out")
	if err := os.MkdirAll(out, 0o755); err != nil {
		panic(err)
	}
	defer os.RemoveAll(dir)
	// the action writes epoch-N-metadata.yaml into the working directory
	wd, err := os.Getwd()
	if err != nil {
		panic(err)
	}
	if err := os.Chdir(dir); err != nil {
		panic(err)
	}
	defer os.Chdir(wd)
	app := &cli.App{Name: "faithful-cli", Commands: []*cli.Command{newCmd_SplitCar()}, Writer: io.Discard, ErrWriter: io.Discard,
		ExitErrHandler: func(*cli.Context, error) {}}
	var runErr error
	var pv interface{}
	var stack string
	func() {
		defer func() {
			if x := recover(); x != nil {
				pv, stack = x, string(debug.Stack())
			}
		}()
		runErr = app.Run([]string{"faithful-cli", "split-car", "--size", strconv.FormatInt(size, 10), "--epoch", fmt.Sprint(t.Epoch),
			"--metadata", filepath.Join(dir, "metadata.csv"), "--output-dir", out, carPath})
	}()
	if pv != nil {
		bad("panic", c16MainFrame(stack), "split-car panicked: %v", pv)
		return
	}
	if runErr != nil {
		// a well-formed epoch CAR and a writable directory: the statement leaves no room for a refusal
		res.actionErr = runErr.Error()
		bad("action-fails", "well-formed-epoch", "split-car failed: %v", runErr)
		return
	}
	yamlPath := filepath.Join(dir, fmt.Sprintf("epoch-%d-metadata.yaml", t.Epoch))
	meta, err := splitcarfetcher.MetadataFromYaml(yamlPath)
	if err != nil || meta.CarPieces == nil {
		bad("metadata-unreadable", "yaml", "MetadataFromYaml(%s): %v", filepath.Base(yamlPath), err)
		return
	}
	mp := meta.CarPieces
	// ---- original header as recorded
	origHeader := t.Bytes[:t.HeaderLen]
	if mp.OriginalCarHeaderSize != t.HeaderLen {
		bad("original-header-size", "yaml", "originalCarHeaderSize=%d, the epoch CAR's header is %d bytes", mp.OriginalCarHeaderSize, t.HeaderLen)
	}
	if hb, err := base64.StdEncoding.DecodeString(mp.OriginalCarHeader); err != nil {
		bad("original-header-bytes", "yaml", "originalCarHeader is not base64: %v", err)
	} else {
		_, n := binary.Uvarint(origHeader)
		if !bytes.Equal(hb, origHeader[n:]) {
			bad("original-header-bytes", "yaml", "originalCarHeader differs from the epoch CAR's header")
		}
	}
	if len(mp.CarPieces) == 0 {
		bad("no-pieces", "yaml", "metadata lists no piece")
		return
	}
	// ---- each piece: sizes delimit the header and the content inside the written file
	var contents [][]byte
	filesOnDisk, _ := filepath.Glob(filepath.Join(out, "*.car"))
	if len(filesOnDisk) != len(mp.CarPieces) {
		bad("piece-count", "yaml-vs-files", "%d piece files were written, the metadata lists %d", len(filesOnDisk), len(mp.CarPieces))
	}
	pos := func(k int) string {
		switch {
		case k == len(mp.CarPieces)-1:
			return "last-piece"
		case k == 0:
			return "first-piece"
		}
		return "middle-piece"
	}
	for k, cf := range mp.CarPieces {
		fb, err := os.ReadFile(cf.Name)
		if err != nil {
			bad("piece-missing", pos(k), "piece %d (%s): %v", k, cf.Name, err)
			return
		}
		if cf.HeaderSize > uint64(len(fb)) || cf.ContentSize > uint64(len(fb)) || cf.HeaderSize+cf.ContentSize > uint64(len(fb)) {
			bad("sizes-exceed-file", pos(k), "piece %d: headerSize=%d contentSize=%d but the file has %d bytes", k, cf.HeaderSize, cf.ContentSize, len(fb))
			return
		}
		hl, n := binary.Uvarint(fb)
		if n <= 0 || uint64(n)+hl != cf.HeaderSize {
			bad("header-size", pos(k), "piece %d: headerSize=%d, the file's CAR header occupies %d bytes", k, cf.HeaderSize, uint64(n)+hl)
		}
		contents = append(contents, fb[cf.HeaderSize:cf.HeaderSize+cf.ContentSize])
		res.tailBytes += len(fb) - int(cf.HeaderSize+cf.ContentSize)
	}
	// ---- merge-cars over the written pieces: a header with the nul root followed by everything after each
	// piece's own header, nothing lost (the counterpart of split-car; cmd-merge-cars.go is an anchor of C16)
	{
		var wantMerged []byte
		wantMerged = append(wantMerged, nulRootCarHeader...)
		var paths []string
		for _, cf := range mp.CarPieces {
			fb, err := os.ReadFile(cf.Name)
			if err != nil || cf.HeaderSize > uint64(len(fb)) {
				wantMerged = nil
				break
			}
			wantMerged = append(wantMerged, fb[cf.HeaderSize:]...)
			paths = append(paths, cf.Name)
		}
		if wantMerged != nil {
			merged := filepath.Join(dir, "merged.car")
			mapp := &cli.App{Name: "faithful-cli", Commands: []*cli.Command{newCmd_MergeCars()}, Writer: io.Discard, ErrWriter: io.Discard, ExitErrHandler: func(*cli.Context, error) {}}
			var merr error
			var mpv interface{}
			func() {
				defer func() { mpv = recover() }()
				merr = mapp.Run(append([]string{"faithful-cli", "merge-cars", "-o", merged}, paths...))
			}()
			got, _ := os.ReadFile(merged)
			switch {
			case mpv != nil:
				bad("merge-panics", "merge-cars", "merge-cars over the %d written pieces panicked: %v", len(paths), mpv)
			case merr != nil:
				bad("merge-fails", "merge-cars", "merge-cars over the %d written pieces failed: %v", len(paths), merr)
			case !bytes.Equal(got, wantMerged):
				bad("merge-loses-bytes", "merge-cars", "merge-cars over the %d written pieces reported success; its output has %d bytes, header + the pieces' bodies are %d bytes", len(paths), len(got), len(wantMerged))
			}
			os.Remove(merged)
		}
	}
	// ---- every block DAG inside exactly one piece, byte-identical, original order
	var joined []byte
	ok := true
	cum := 0
	for k, c := range contents {
		joined = append(joined, c...)
		cum += len(c)
		if cum == 0 {
			res.pieces = append(res.pieces, 0) // a piece without content holds no block
			continue
		}
		// the piece must end on a DAG boundary
		i := sort.SearchInts(g.dagEnds, cum)
		if i >= len(g.dagEnds) || g.dagEnds[i] != cum {
			blk := i
			if blk >= len(g.dag) {
				blk = len(g.dag) - 1
			}
			bad("content-not-whole-block-dags", pos(k), "piece %d: the recorded content (%d bytes, ending at DAG byte %d) does not end on a block-DAG boundary (boundaries %v): block %d (slot %d) is cut or the size is wrong",
				k, len(c), cum, g.dagEnds, blk, t.Blocks[blk].Slot)
			ok = false
			break
		}
		nb := i + 1
		for _, p := range res.pieces {
			nb -= p
		}
		res.pieces = append(res.pieces, nb)
	}
	if ok {
		if len(joined) != len(g.all) {
			bad("blocks-missing-or-duplicated", "whole-epoch", "the pieces' contents hold %d bytes, the epoch's block DAGs are %d bytes", len(joined), len(g.all))
			ok = false
		} else if !bytes.Equal(joined, g.all) {
			d := 0
			for joined[d] == g.all[d] {
				d++
			}
			blk := sort.SearchInts(g.dagEnds, d+1)
			// which object?
			objName := "?"
			o := g.dagEnds[blk] - len(g.dag[blk])
			for i := t.Blocks[blk].FirstObj; i <= t.Blocks[blk].Obj; i++ {
				if d < o+int(t.Objects[i].SectionLen) {
					objName = fmt.Sprintf("object %d of the block (kind %d, %s)", i-t.Blocks[blk].FirstObj, t.Objects[i].Kind, t.Objects[i].Cid)
					break
				}
				o += int(t.Objects[i].SectionLen)
			}
			bad("dag-bytes-differ", "block-content", "the pieces' contents differ from the original sections at DAG byte %d: block %d (slot %d), %s", d, blk, t.Blocks[blk].Slot, objName)
			ok = false
		}
	}
	// ---- read back through NewSplitCarReader with the written metadata
	want := append(append([]byte{}, origHeader...), g.all...)
	readBack := func(label string, creator splitcarfetcher.SplitCarFileReaderCreator) (string, bool) {
		var scr *splitcarfetcher.SplitCarReader
		var err error
		var pv interface{}
		var stack string
		func() {
			defer func() {
				if x := recover(); x != nil {
					pv, stack = x, string(debug.Stack())
				}
			}()
			scr, err = splitcarfetcher.NewSplitCarReader(mp, creator)
		}()
		if pv != nil {
			return fmt.Sprintf("panic|%s: %v", c16MainFrame(stack), pv), false
		}
		if err != nil {
			return "rejected: " + err.Error(), false
		}
		defer scr.Close()
		total := len(want)
		check := func(off, ln int) string {
			p := make([]byte, ln)
			var n int
			var err error
			func() {
				defer func() {
					if x := recover(); x != nil {
						err = fmt.Errorf("panic|%s: %v", c16MainFrame(string(debug.Stack())), x)
						n = -1
					}
				}()
				n, err = scr.ReadAt(p, int64(off))
			}()
			if n < 0 {
				return err.Error()
			}
			avail := total - off
			if avail < 0 {
				avail = 0
			}
			if avail > ln {
				avail = ln
			}
			switch {
			case n != avail:
				return fmt.Sprintf("ReadAt(len=%d, off=%d) returned n=%d err=%v, %d bytes exist in that range (total %d)", ln, off, n, err, avail, total)
			case n > 0 && !bytes.Equal(p[:n], want[off:off+n]):
				d := 0
				for p[d] == want[off+d] {
					d++
				}
				return fmt.Sprintf("ReadAt(len=%d, off=%d): byte %d differs from original header ‖ block DAGs", ln, off, off+d)
			case avail < ln && err == nil:
				return fmt.Sprintf("ReadAt(len=%d, off=%d) returned n=%d with a nil error past the true end", ln, off, n)
			case off+ln < total && err != nil:
				return fmt.Sprintf("ReadAt(len=%d, off=%d) returned err=%v before the true end", ln, off, err)
			}
			return ""
		}
		// whole stream, whole stream + 1, and every object of every block at its original position
		// (original offsets are valid up to the first interleaved subset node; positions are taken in header ‖ DAGs)
		reads := [][2]int{{0, total}, {0, total + 1}, {total, 1}, {total - 1, 1}, {total - 1, 2}}
		bounds := []int{int(t.HeaderLen)}
		cum := int(t.HeaderLen)
		for _, c := range contents {
			cum += len(c)
			bounds = append(bounds, cum)
		}
		for _, b := range bounds {
			for _, d := range []int{-3, -1, 0} {
				for _, ln := range []int{1, 2, 4, 7} {
					if b+d >= 0 {
						reads = append(reads, [2]int{b + d, ln})
					}
				}
			}
		}
		p := int(t.HeaderLen)
		for bi, b := range t.Blocks {
			for i := b.FirstObj; i <= b.Obj; i++ {
				reads = append(reads, [2]int{p, int(t.Objects[i].SectionLen)})
				p += int(t.Objects[i].SectionLen)
			}
			if p != int(t.HeaderLen)+g.dagEnds[bi] {
				panic("c16: ground truth bookkeeping")
			}
		}
		for _, r := range reads {
			if msg := check(r[0], r[1]); msg != "" {
				return msg, false
			}
		}
		return "ok", true
	}
	if ok {
		msg, good := readBack("neutral", func(cf carlet.CarFile) (splitcarfetcher.ReaderAtCloserSize, error) {
			f, err := os.Open(cf.Name)
			if err != nil {
				return nil, err
			}
			st, err := f.Stat()
			if err != nil {
				return nil, err
			}
			return &c16NeutralFile{f, st.Size()}, nil
		})
		if !good {
			class := "read-back-differs"
			if strings.HasPrefix(msg, "panic|") {
				class = "read-back-panics"
			} else if strings.HasPrefix(msg, "rejected") {
				class = "read-back-rejected"
			}
			bad(class, "NewSplitCarReader", "reading the written pieces with the written metadata: %s", msg)
		}
		// observation only: the repository's own local-file piece reader insists on file size = headerSize + contentSize
		fmsg, _ := readBack("file", func(cf carlet.CarFile) (splitcarfetcher.ReaderAtCloserSize, error) {
			return splitcarfetcher.NewFileSplitCarReader(cf.Name)
		})
		if strings.HasPrefix(fmsg, "rejected") {
			bad("own-pieces-rejected", "NewFileSplitCarReader", "the repository's local piece reader refuses the pieces split-car has just written, with the metadata it has just written: %s", fmsg)
			fmsg = "rejected (file size != headerSize+contentSize)"
		}
		res.fileReader = fmsg
	}
	// observation only: the CSV's "file size" column against the files
	if f, err := os.Open(filepath.Join(dir, "metadata.csv")); err == nil {
		rows, _ := csv.NewReader(f).ReadAll()
		f.Close()
		same, differ := 0, 0
		for _, r := range rows[1:] {
			if len(r) < 5 {
				continue
			}
			st, err := os.Stat(filepath.Join(out, r[0]))
			if err != nil {
				continue
			}
			if strconv.FormatInt(st.Size(), 10) == r[4] {
				same++
			} else {
				differ++
			}
		}
		res.csvDiffer = differ
		if differ > 0 {
			bad("csv-file-size", "metadata.csv", "the 'file size' column of the metadata CSV differs from the size of the written file for %d of %d pieces", differ, same+differ)
		}
		res.csvSizes = fmt.Sprintf("csv file-size column equals the file size for %d pieces, differs for %d", same, differ)
	}
	return
}

func TestVerif_C16_Split(t *testing.T) {
	silenceKlog()
	R := vkit.New("C16")
	defer R.Finish()
	R.Rule = c16SplitRule
	base := vkBase("c16")
	defer os.RemoveAll(base)
	pieceHeader := int(hdrSize) // the fixed header of every piece (placeholder root, replaced in place)

	shapes := c16Shapes()
	type prepared struct {
		sh    c16Shape
		g     *c16Truth
		car   string
		sizes []int64
	}
	var preps []prepared
	for i, sh := range shapes {
		tr := cargen.Generate(sh.Shape)
		g := c16GroundTruth(tr)
		car := filepath.Join(base, fmt.Sprintf("shape-%d-epoch-%d.car", i, tr.Epoch))
		if err := os.WriteFile(car, tr.Bytes, 0o644); err != nil {
			R.Internal("write CAR: %v", err)
			return
		}
		preps = append(preps, prepared{sh, g, car, c16Sizes(g, pieceHeader)})
	}
	runOne := func(p prepared, size int64) c16Result {
		res := c16RunSplit(base, p.sh, p.g, p.car, size)
		for _, f := range res.findings {
			R.Violation(f.key, f.what, map[string]interface{}{"case": c16SplitCase{p.sh.Name, size}})
		}
		return res
	}
	if rp := vkit.ReplayRequest(); rp != nil {
		var c c16SplitCase
		remarshal(rp["case"], &c)
		if c.Shape == "" {
			R.Note("replay file describes a case of the other variant (readers): nothing to do in this one")
			R.Case(false, "")
			return
		}
		for _, p := range preps {
			if p.sh.Name == c.Shape {
				res := runOne(p, c.Size)
				t.Logf("replay %+v: pieces=%v findings=%d file-reader=%s %s", c, res.pieces, len(res.findings), res.fileReader, res.csvSizes)
				for _, f := range res.findings {
					t.Logf("  %s: %s", f.key, f.what)
				}
				R.Case(true, "")
				return
			}
		}
		R.Internal("replay: unknown shape %q (tier mismatch?)", c.Shape)
		return
	}
	var shapeNames []string
	totalSizes := 0
	for _, p := range preps {
		var ds []int
		for _, d := range p.g.dag {
			ds = append(ds, len(d))
		}
		// coverage accounting with the reference assignment: every piece count 1..N must be forced by some size
		counts := map[int]bool{}
		assignments := map[string]bool{}
		for _, s := range p.sizes {
			a := c16Greedy(p.g, pieceHeader, s)
			counts[len(a)] = true
			assignments[fmt.Sprint(a)] = true
		}
		for n := 1; n <= len(p.g.dag); n++ {
			if !counts[n] {
				R.Note("shape %s: no enumerated --size yields %d pieces under the reference assignment", p.sh.Name, n)
			}
		}
		shapeNames = append(shapeNames, fmt.Sprintf("%s: header %d B, DAG sizes %v, %d sizes, %d distinct assignments", p.sh.Name, p.g.t.HeaderLen, ds, len(p.sizes), len(assignments)))
		totalSizes += len(p.sizes)
	}
	R.Bounds["c_shapes"] = shapeNames
	R.Bounds["c_split_runs"] = totalSizes
	R.Bounds["c_piece_header_bytes"] = pieceHeader
	idx := int64(0)
	notedTail, notedFile, notedCsv := false, false, false
	for _, p := range preps {
		for _, size := range p.sizes {
			mine := vkit.Mine(idx)
			idx++
			if !mine {
				continue
			}
			if R.Expired() {
				R.Note("deadline reached at split run %d of %d", idx, totalSizes)
				return
			}
			res := runOne(p, size)
			R.Case(len(res.pieces) >= 2, p.sh.Name+"|"+fmt.Sprint(res.pieces))
			R.Add("split_runs", 1)
			R.Add(fmt.Sprintf("split_runs_with_%d_pieces", len(res.pieces)), 1)
			if len(res.findings) == 0 {
				R.Outcome(fmt.Sprintf("c:%s: blocks per piece %v: ok", p.sh.Name, res.pieces))
				if want := c16Greedy(p.g, pieceHeader, size); fmt.Sprint(want) != fmt.Sprint(res.pieces) {
					R.Add("assignment_differs_from_reference_greedy(not demanded)", 1)
				}
			} else {
				for _, f := range res.findings {
					R.Outcome("c:" + f.key)
				}
			}
			if res.tailBytes > 0 && !notedTail {
				notedTail = true
				R.Note("split-car appends a subset node (and the epoch node in the last piece) AFTER the recorded content, so every written file is longer than headerSize+contentSize; by DESIGN §2(e) those bytes are not demanded to be counted (counter split_runs_with_bytes_after_content)")
			}
			if res.fileReader != "" && res.fileReader != "ok" && !notedFile {
				notedFile = true
				R.Note("splitcarfetcher.NewFileSplitCarReader + NewSplitCarReader on the pieces split-car has just written: %s", res.fileReader)
			}
			if res.fileReader != "" {
				R.Add("local_file_reader:"+res.fileReader, 1)
			}
			if res.tailBytes > 0 {
				R.Add("split_runs_with_bytes_after_content", 1)
			}
			if res.csvDiffer > 0 {
				R.Add("csv_file_size_differs_from_file", int64(res.csvDiffer))
			}
			if res.csvDiffer > 0 && !notedCsv {
				notedCsv = true
				R.Note("the 'file size' column of the metadata CSV differs from the size of the written file (it omits the subset/epoch node); counter csv_file_size_differs_from_file")
			}
			if idx%41 == 0 {
				R.Sample(map[string]interface{}{"part": "c", "shape": p.sh.Name, "size": size, "blocks_per_piece": res.pieces})
			}
		}
	}
}
