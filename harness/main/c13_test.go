//go:build verif

package main

import (
	"bytes"
	"context"
	"encoding/base64"
	"encoding/binary"
	"encoding/json"
	"errors"
	"fmt"
	"io"
	"os"
	"path/filepath"
	"runtime"
	"sort"
	"strings"
	"sync"
	"testing"
	"time"

	"github.com/allegro/bigcache/v3"
	"github.com/anjor/carlet"
	"github.com/gagliardetto/solana-go"
	"github.com/ipfs/go-cid"
	"github.com/rpcpool/yellowstone-faithful/accum"
	"github.com/rpcpool/yellowstone-faithful/blocktimeindex"
	"github.com/rpcpool/yellowstone-faithful/bucketteer"
	"github.com/rpcpool/yellowstone-faithful/carreader"
	"github.com/rpcpool/yellowstone-faithful/compactindexsized"
	deprecatedbucketteer "github.com/rpcpool/yellowstone-faithful/deprecated/bucketteer"
	"github.com/rpcpool/yellowstone-faithful/deprecated/compactindex"
	"github.com/rpcpool/yellowstone-faithful/deprecated/compactindex36"
	"github.com/rpcpool/yellowstone-faithful/gsfa"
	hugecache "github.com/rpcpool/yellowstone-faithful/huge-cache"
	"github.com/rpcpool/yellowstone-faithful/indexes"
	"github.com/rpcpool/yellowstone-faithful/indexmeta"
	"github.com/rpcpool/yellowstone-faithful/iplddecoders"
	splitcarfetcher "github.com/rpcpool/yellowstone-faithful/split-car-fetcher"
	"github.com/rpcpool/yellowstone-faithful/zzverif/cargen"
	"github.com/rpcpool/yellowstone-faithful/zzverif/vkit"
	"github.com/valyala/fasthttp"
)

// C13: a truncated index or CAR file fails loudly instead of answering 'not found'.
//
// One small generated epoch (6 blocks, 12 transactions, one multi-frame metadata payload, one rewards
// object, one block on the last slot of the epoch) is indexed by the REAL indexers (`index all`, `index gsfa`).
// Every file the server reads is then cut short at every enumerated offset and every stored key is looked up:
// the answer must be the complete file's answer or an error.

const c13Rule = "case = (file kind, access path, cut offset c = number of leading bytes kept, stored key). " +
	"File kinds: cid-to-offset-and-size, slot-to-cid, sig-to-cid (typed compact indexes), gsfa pubkey-to-offset-and-size index, gsfa linked log, gsfa manifest, sig-exists, slot-to-blocktime, the CAR; " +
	"plus the legacy formats written by the deprecated packages' own builders (compactindex36 slot-to-cid and sig-to-cid, compactindex cid-to-offset, deprecated bucketteer sig-exists; every offset, in-memory ReaderAt through the typed readers' format auto-detection). " +
	"Access paths: length-limited in-memory io.ReaderAt that behaves like a short file (short count + io.EOF) through indexes.OpenWithReader_*, bucketteer.NewReader, blocktimeindex.FromBytes/FromReader, main.ReadAllFromReaderAt, the Epoch's ReaderAt CAR path and splitcarfetcher.NewSplitCarReader (one piece cut at a time); " +
	"really truncated copies through indexes.Open_* (os.File), bucketteer.Open (mmap), blocktimeindex.FromFile, gsfa.NewGsfaReader (directory), carv2 local CAR and NewEpochFromConfig (every index role), plus JSON-RPC getBlock/getTransaction/getSignaturesForAddress/getBlockTime through the real handler with one and with two epochs loaded. " +
	"Cuts: EVERY offset 0..size for files <= 64 KiB (all compact indexes, the three gsfa files, the CAR and each split piece); sig-exists: every offset of the body for lookups on a reader whose open was verified to touch only the header, and a full re-open at every offset within +-2 of each structure boundary (header fields, the prefix-table entry and the bucket of every stored signature) plus every 97th offset (thorough: every offset); " +
	"slot-to-blocktime: +-2 around every header field, every stored slot's value and the end, plus every 97th offset (thorough: every 7th for the full parse, every offset for the epoch loader's exact-size read). " +
	"Sequential traversal of the CAR (the section reader's three iteration calls and the object accumulator) at every cut that is not a section boundary: it must end in an error, not in a clean end after fewer objects. " +
	"Keys: every object CID, every slot with a block, every signature, every address, plus the metadata (epoch, root CID, network, kind) as an extra key of 'open'. " +
	"Oracle: open or lookup on the cut file = the complete file's answer, or an error that is not (and does not wrap) a 'not found' error; has=false, zero block time, empty list, null/empty JSON result, a not-found JSON-RPC error or any other value is a violation; panics are recovered and reported separately. " +
	"Non-trivial = at least one byte is missing (c < size)."

// ---------- length-limited ReaderAt (short file semantics) ----------

type c13Cut struct {
	b        []byte
	limit    int64
	hi       int64 // highest byte position requested so far
	httpLike bool  // short read reports io.ErrUnexpectedEOF (as splitcarfetcher.HTTPSingleFileRemoteReaderAt does) instead of io.EOF
}

func (c *c13Cut) ReadAt(p []byte, off int64) (int, error) {
	if off < 0 {
		return 0, errors.New("c13: negative offset")
	}
	if e := off + int64(len(p)); e > c.hi {
		c.hi = e
	}
	if off >= c.limit {
		return 0, io.EOF
	}
	n := copy(p, c.b[off:c.limit])
	if n < len(p) {
		if c.httpLike {
			return n, io.ErrUnexpectedEOF
		}
		return n, io.EOF
	}
	return n, nil
}
func (c *c13Cut) Close() error { return nil }
func (c *c13Cut) Size() int64  { return c.limit }

// ---------- run state ----------

type c13Run struct {
	R      *vkit.Report
	base   string
	idx    int64
	replay *c13Case
	stop   bool
}

type c13Case struct {
	Section string `json:"section"`
	File    string `json:"file"`
	Cut     int    `json:"cut"`
	Key     string `json:"key,omitempty"`
	Size    int    `json:"size,omitempty"`
}

// take decides whether this worker evaluates the (section, file, cut) tuple.
func (r *c13Run) take(section, file string, cut int) bool {
	if r.stop {
		return false
	}
	if r.replay != nil {
		return r.replay.Section == section && r.replay.File == file && r.replay.Cut == cut
	}
	i := r.idx
	r.idx++
	if !vkit.Mine(i) {
		return false
	}
	if i%64 == 0 && r.R.Expired() {
		r.R.Note("deadline reached in section %s file %s at cut %d", section, file, cut)
		r.stop = true
		return false
	}
	return true
}

// c13Frame returns the innermost repository frame of the current (panicking) stack.
func c13Frame() string {
	pcs := make([]uintptr, 64)
	n := runtime.Callers(3, pcs)
	fr := runtime.CallersFrames(pcs[:n])
	for {
		f, more := fr.Next()
		if strings.HasPrefix(f.Function, "github.com/rpcpool/yellowstone-faithful") && !strings.Contains(f.Function, "zzverif") &&
			!strings.Contains(f.File, "zz_verif_") && !strings.Contains(f.File, "/verif/harness/") {
			fn := strings.TrimPrefix(f.Function, "github.com/rpcpool/yellowstone-faithful")
			if strings.HasPrefix(fn, ".") {
				return "main" + fn
			}
			return strings.TrimPrefix(fn, "/")
		}
		if !more {
			break
		}
	}
	return "unknown-frame"
}

type c13Out struct {
	val   string // answer, rendered
	err   error
	pan   string // panic value
	frame string
}

func c13Do(f func() (string, error)) (o c13Out) {
	defer func() {
		if x := recover(); x != nil {
			o.pan = fmt.Sprint(x)
			o.frame = c13Frame()
		}
	}()
	o.val, o.err = f()
	return
}

func c13IsNotFound(err error) bool {
	if err == nil {
		return false
	}
	if errors.Is(err, compactindexsized.ErrNotFound) || errors.Is(err, bucketteer.ErrNotFound) || errors.Is(err, ErrNotFound) {
		return true
	}
	return strings.Contains(strings.ToLower(err.Error()), "not found")
}

// judge compares one observation with the complete file's answer.
// class of the answer when it is wrong: caller passes `emptyVals` = renderings that mean "nothing there".
func (r *c13Run) judge(cs c13Case, api, region string, ref string, o c13Out, emptyVals ...string) {
	R := r.R
	R.Case(cs.Cut < cs.Size, "")
	file := cs.File
	switch {
	case o.pan != "":
		R.Outcome(file + "|" + api + "|panic")
		R.Violation(fmt.Sprintf("C13|panic|%s|%s", api, o.frame),
			fmt.Sprintf("%s cut to %d of %d bytes (cut lies in: %s): %s(%s) panicked: %s", file, cs.Cut, cs.Size, region, api, cs.Key, o.pan),
			map[string]interface{}{"case": cs})
	case o.err != nil:
		if c13IsNotFound(o.err) {
			R.Outcome(file + "|" + api + "|NOT-FOUND")
			R.Violation(fmt.Sprintf("C13|not-found|%s|%s%s", file, api, c13KeyRegion(api, region)),
				fmt.Sprintf("%s cut to %d of %d bytes (cut lies in: %s): %s(%s) answers 'not found' (%v); the complete file answers %s", file, cs.Cut, cs.Size, region, api, cs.Key, o.err, c13Short(ref)),
				map[string]interface{}{"case": cs})
		} else {
			R.Outcome(file + "|" + api + "|error")
		}
	case o.val == ref:
		R.Outcome(file + "|" + api + "|same-answer")
	default:
		class := "wrong-value"
		for _, e := range emptyVals {
			if o.val == e {
				class = "empty"
			}
		}
		R.Outcome(file + "|" + api + "|" + strings.ToUpper(class))
		R.Violation(fmt.Sprintf("C13|%s|%s|%s%s", class, file, api, c13KeyRegion(api, region)),
			fmt.Sprintf("%s cut to %d of %d bytes (cut lies in: %s): %s(%s) returned %s without an error; the complete file answers %s", file, cs.Cut, cs.Size, region, api, cs.Key, c13Short(o.val), c13Short(ref)),
			map[string]interface{}{"case": cs})
	}
}

// c13KeyRegion: file-level entry points are keyed with the structure the cut lies in; JSON-RPC observations are not
// (one swallowed error shows up wherever the cut makes the lookup fail).
func c13KeyRegion(api, region string) string {
	if strings.HasPrefix(api, "rpc[") {
		return ""
	}
	return "|cut-in:" + region
}

func c13Short(s string) string {
	if len(s) > 160 {
		return s[:160] + "…"
	}
	return s
}

// ---------- regions ----------

type c13Region struct {
	end  int // exclusive end offset
	name string
}

func c13RegionOf(regs []c13Region, cut int) string {
	for _, g := range regs {
		if cut < g.end {
			return g.name
		}
	}
	return "complete"
}

// c13Around adds b-2..b+2 (clamped) to the set.
func c13Around(set map[int]bool, size int, bs ...int) {
	for _, b := range bs {
		for d := -2; d <= 2; d++ {
			if c := b + d; c >= 0 && c <= size {
				set[c] = true
			}
		}
	}
}

func c13Sorted(set map[int]bool, desc bool) []int {
	out := make([]int, 0, len(set))
	for c := range set {
		out = append(out, c)
	}
	sort.Ints(out)
	if desc {
		for i, j := 0, len(out)-1; i < j; i, j = i+1, j-1 {
			out[i], out[j] = out[j], out[i]
		}
	}
	return out
}

func c13AllCuts(size int, desc bool) []int {
	out := make([]int, 0, size+1)
	for c := 0; c <= size; c++ {
		out = append(out, c)
	}
	if desc {
		for i, j := 0, len(out)-1; i < j; i, j = i+1, j-1 {
			out[i], out[j] = out[j], out[i]
		}
	}
	return out
}

func c13MustRead(p string) []byte {
	b, err := os.ReadFile(p)
	if err != nil {
		panic(err)
	}
	return b
}

func c13CopyFile(dst, src string) {
	if err := os.WriteFile(dst, c13MustRead(src), 0o644); err != nil {
		panic(err)
	}
}

func c13NewCache() *hugecache.Cache {
	conf := bigcache.DefaultConfig(0)
	conf.CleanWindow = 0
	conf.Verbose = false
	conf.Shards = 2
	conf.MaxEntriesInWindow = 256
	conf.MaxEntrySize = 256
	conf.HardMaxCacheSize = 8
	c, err := hugecache.NewWithConfig(context.Background(), conf)
	if err != nil {
		panic(err)
	}
	return c
}

// ---------- world ----------

type c13World struct {
	A, B   *vEpoch
	addrs  []solana.PublicKey
	shape  cargen.Shape
	gsfaPk string // file names inside the gsfa dir
}

func c13Shape() cargen.Shape {
	sh := cargen.Shape{Epoch: 3}
	prev := uint64(3*cargen.SlotsPerEpoch - 1) // the first block's parent lies in the previous epoch
	sh.PrevSlot = &prev
	offs := []int{5, 6, 9, 200, 4000, cargen.SlotsPerEpoch - 1}
	for i, off := range offs {
		t1 := cargen.TxShape{Accounts: []int{i % 4}}
		t2 := cargen.TxShape{Accounts: []int{(i + 1) % 4, 5}, Loaded: []int{6}}
		b := cargen.BlockShape{SlotOffset: off, Blocktime: int64(1_650_123_457 + 1_000_003*i), Entries: [][]cargen.TxShape{{t1}, {t2}}}
		sh.Blocks = append(sh.Blocks, b)
	}
	sh.Blocks[1].Entries[0][0].Meta = cargen.PayloadShape{Pad: 700, FrameSize: 200, FanOut: 2}
	sh.Blocks[2].Rewards = &cargen.PayloadShape{Pad: 60}
	return sh
}

func c13Build(base string) (*c13World, error) {
	w := &c13World{shape: c13Shape()}
	var err error
	if w.A, err = vkBuildEpoch(filepath.Join(base, "A"), w.shape, true); err != nil {
		return nil, fmt.Errorf("epoch A: %w", err)
	}
	if w.B, err = vkBuildEpoch(filepath.Join(base, "B"), cargen.SimpleShape(4, 7, 3, 2), true); err != nil {
		return nil, fmt.Errorf("epoch B: %w", err)
	}
	seen := map[solana.PublicKey]bool{}
	for _, tx := range w.A.Truth.Txs {
		for _, a := range tx.Accounts {
			if !seen[a] {
				seen[a] = true
				w.addrs = append(w.addrs, a)
			}
		}
	}
	w.gsfaPk = string(indexes.Kind_PubkeyToOffsetAndSize) + ".index"
	return w, nil
}

func c13Meta(m *indexes.Metadata) string {
	if m == nil {
		return "meta=nil"
	}
	return fmt.Sprintf("epoch=%d root=%s network=%s kind=%s", m.Epoch, m.RootCid, m.Network, m.IndexKind)
}

// ---------- S1: typed compact indexes ----------

type c13Lookup func(i int) (string, error) // i = -1: the metadata read at open

type c13Compact struct {
	file   string
	path   string
	keys   []string
	empty  []string
	open   func(r indexes.ReaderAtCloser) (c13Lookup, func(), error)
	openFn func(path string) (c13Lookup, func(), error)
}

// c13Prefetch selects the prefetch mode of the compact-index readers opened over a ReaderAt.
var c13Prefetch bool

func c13Compacts(w *c13World) []c13Compact {
	t := w.A.Truth
	var out []c13Compact
	{
		mk := func(rd *indexes.CidToOffsetAndSize_Reader) c13Lookup {
			return func(i int) (string, error) {
				if i < 0 {
					return c13Meta(rd.Meta()), nil
				}
				oas, err := rd.Get(t.Objects[i].Cid)
				if err != nil {
					return "", err
				}
				return fmt.Sprintf("offset=%d size=%d", oas.Offset, oas.Size), nil
			}
		}
		c := c13Compact{file: "cid-to-offset-and-size", path: w.A.Paths.CidToOffsetAndSize, empty: []string{"offset=0 size=0"}}
		for _, o := range t.Objects {
			c.keys = append(c.keys, o.Cid.String())
		}
		c.open = func(r indexes.ReaderAtCloser) (c13Lookup, func(), error) {
			rd, err := indexes.OpenWithReader_CidToOffsetAndSize(r)
			if err != nil {
				return nil, nil, err
			}
			rd.Prefetch(c13Prefetch) // the server turns this on for indexes served over http(s)
			return mk(rd), func() { rd.Close() }, nil
		}
		c.openFn = func(p string) (c13Lookup, func(), error) {
			rd, err := indexes.Open_CidToOffsetAndSize(p)
			if err != nil {
				return nil, nil, err
			}
			return mk(rd), func() { rd.Close() }, nil
		}
		out = append(out, c)
	}
	{
		mk := func(rd *indexes.SlotToCid_Reader) c13Lookup {
			return func(i int) (string, error) {
				if i < 0 {
					return c13Meta(rd.Meta()), nil
				}
				c, err := rd.Get(t.Blocks[i].Slot)
				if err != nil {
					return "", err
				}
				return c.String(), nil
			}
		}
		c := c13Compact{file: "slot-to-cid", path: w.A.Paths.SlotToCid, empty: []string{cid.Undef.String()}}
		for _, b := range t.Blocks {
			c.keys = append(c.keys, fmt.Sprint(b.Slot))
		}
		c.open = func(r indexes.ReaderAtCloser) (c13Lookup, func(), error) {
			rd, err := indexes.OpenWithReader_SlotToCid(r)
			if err != nil {
				return nil, nil, err
			}
			rd.Prefetch(c13Prefetch) // the server turns this on for indexes served over http(s)
			return mk(rd), func() { rd.Close() }, nil
		}
		c.openFn = func(p string) (c13Lookup, func(), error) {
			rd, err := indexes.Open_SlotToCid(p)
			if err != nil {
				return nil, nil, err
			}
			return mk(rd), func() { rd.Close() }, nil
		}
		out = append(out, c)
	}
	{
		mk := func(rd *indexes.SigToCid_Reader) c13Lookup {
			return func(i int) (string, error) {
				if i < 0 {
					return c13Meta(rd.Meta()), nil
				}
				c, err := rd.Get(t.Txs[i].Sig)
				if err != nil {
					return "", err
				}
				return c.String(), nil
			}
		}
		c := c13Compact{file: "sig-to-cid", path: w.A.Paths.SignatureToCid, empty: []string{cid.Undef.String()}}
		for _, tx := range t.Txs {
			c.keys = append(c.keys, tx.Sig.String())
		}
		c.open = func(r indexes.ReaderAtCloser) (c13Lookup, func(), error) {
			rd, err := indexes.OpenWithReader_SigToCid(r)
			if err != nil {
				return nil, nil, err
			}
			rd.Prefetch(c13Prefetch) // the server turns this on for indexes served over http(s)
			return mk(rd), func() { rd.Close() }, nil
		}
		c.openFn = func(p string) (c13Lookup, func(), error) {
			rd, err := indexes.Open_SigToCid(p)
			if err != nil {
				return nil, nil, err
			}
			return mk(rd), func() { rd.Close() }, nil
		}
		out = append(out, c)
	}
	{
		mk := func(rd *indexes.PubkeyToOffsetAndSize_Reader) c13Lookup {
			return func(i int) (string, error) {
				if i < 0 {
					return c13Meta(rd.Meta()), nil
				}
				oas, err := rd.Get(w.addrs[i])
				if err != nil {
					return "", err
				}
				return fmt.Sprintf("offset=%d size=%d", oas.Offset, oas.Size), nil
			}
		}
		c := c13Compact{file: "gsfa-pubkey-index", path: filepath.Join(w.A.GsfaDir, w.gsfaPk), empty: []string{"offset=0 size=0"}}
		for _, a := range w.addrs {
			c.keys = append(c.keys, a.String())
		}
		c.open = func(r indexes.ReaderAtCloser) (c13Lookup, func(), error) {
			rd, err := indexes.OpenWithReader_PubkeyToOffsetAndSize(r)
			if err != nil {
				return nil, nil, err
			}
			rd.Prefetch(c13Prefetch) // the server turns this on for indexes served over http(s)
			return mk(rd), func() { rd.Close() }, nil
		}
		c.openFn = func(p string) (c13Lookup, func(), error) {
			rd, err := indexes.Open_PubkeyToOffsetAndSize(p)
			if err != nil {
				return nil, nil, err
			}
			return mk(rd), func() { rd.Close() }, nil
		}
		out = append(out, c)
	}
	return out
}

// c13CompactRegions: header | bucket-table | entries.
func c13CompactRegions(full []byte) []c13Region {
	if len(full) < 24 {
		return nil
	}
	h := 12 + int(binary.LittleEndian.Uint32(full[8:12]))
	nb := int(binary.LittleEndian.Uint32(full[20:24]))
	return []c13Region{{h, "header"}, {h + 16*nb, "bucket-table"}, {len(full), "entries"}}
}

// c13OpenAndLookup runs open + every lookup for one cut and judges all of them.
func (r *c13Run) openAndLookup(section, file, api string, cut, size int, regs []c13Region, keys []string, refs []string, refMeta string, empty []string,
	open func() (c13Lookup, func(), error)) {
	region := c13RegionOf(regs, cut)
	var lk c13Lookup
	var closer func()
	oo := c13Do(func() (string, error) {
		var err error
		lk, closer, err = open()
		if err != nil {
			return "", err
		}
		return lk(-1)
	})
	r.judge(c13Case{Section: section, File: file, Cut: cut, Key: "<open+metadata>", Size: size}, api+".open", region, refMeta, oo)
	if lk == nil || oo.pan != "" {
		return
	}
	for i, k := range keys {
		i := i
		o := c13Do(func() (string, error) { return lk(i) })
		r.judge(c13Case{Section: section, File: file, Cut: cut, Key: k, Size: size}, api+".Get", region, refs[i], o, empty...)
	}
	if closer != nil {
		func() {
			defer func() { recover() }()
			closer()
		}()
	}
}

func (r *c13Run) sectionCompact(w *c13World) {
	for _, c := range c13Compacts(w) {
		full := c13MustRead(c.path)
		size := len(full)
		regs := c13CompactRegions(full)
		// the complete file's answers
		lk, closer, err := c.open(&c13Cut{b: full, limit: int64(size)})
		if err != nil {
			r.R.Internal("complete %s does not open: %v", c.file, err)
			return
		}
		refMeta, _ := lk(-1)
		refs := make([]string, len(c.keys))
		for i := range c.keys {
			v, err := lk(i)
			if err != nil {
				r.R.Internal("complete %s does not answer key %s: %v", c.file, c.keys[i], err)
				return
			}
			refs[i] = v
		}
		closer()
		r.R.Bounds["size:"+c.file] = size
		r.R.Bounds["keys:"+c.file] = len(c.keys)
		// (a) in-memory ReaderAt, every offset
		for _, cut := range c13AllCuts(size, false) {
			if !r.take("compact-readerat", c.file, cut) {
				continue
			}
			rc := &c13Cut{b: full, limit: int64(cut)}
			r.openAndLookup("compact-readerat", c.file, "indexes.OpenWithReader", cut, size, regs, c.keys, refs, refMeta, c.empty,
				func() (c13Lookup, func(), error) { return c.open(rc) })
			if cut%211 == 0 {
				r.R.Sample(c13Case{Section: "compact-readerat", File: c.file, Cut: cut, Size: size, Key: "every stored key"})
			}
		}
		// (a') the same with the readers' prefetch mode on (used for indexes served over http/https)
		c13Prefetch = true
		for _, cut := range c13AllCuts(size, false) {
			if !r.take("compact-readerat-prefetch", c.file, cut) {
				continue
			}
			rc := &c13Cut{b: full, limit: int64(cut)}
			r.openAndLookup("compact-readerat-prefetch", c.file, "indexes.OpenWithReader+Prefetch", cut, size, regs, c.keys, refs, refMeta, c.empty,
				func() (c13Lookup, func(), error) { return c.open(rc) })
		}
		c13Prefetch = false
		// (b) really truncated copy (os.File), every offset, descending so that one copy is truncated in place
		p := filepath.Join(r.base, "cut-"+c.file+".index")
		c13CopyFile(p, c.path)
		for _, cut := range c13AllCuts(size, true) {
			if !r.take("compact-file", c.file, cut) {
				continue
			}
			if r.replay != nil {
				c13CopyFile(p, c.path)
			}
			if err := os.Truncate(p, int64(cut)); err != nil {
				r.R.Internal("truncate: %v", err)
				return
			}
			r.openAndLookup("compact-file", c.file, "indexes.Open", cut, size, regs, c.keys, refs, refMeta, c.empty,
				func() (c13Lookup, func(), error) { return c.openFn(p) })
		}
		os.Remove(p)
	}
}

// ---------- S1b: legacy (deprecated) index formats, written by the deprecated packages' own builders ----------

func (r *c13Run) sectionLegacy(w *c13World) {
	t := w.A.Truth
	ctx := context.Background()
	dir := filepath.Join(r.base, "legacy")
	os.MkdirAll(dir, 0o755)
	defer os.RemoveAll(dir)
	seal := func(name string, f func(out *os.File) error) ([]byte, error) {
		p := filepath.Join(dir, name)
		out, err := os.Create(p)
		if err != nil {
			return nil, err
		}
		if err := f(out); err != nil {
			out.Close()
			return nil, err
		}
		out.Close()
		return os.ReadFile(p)
	}
	cid36 := func(c cid.Cid) (v [36]byte, err error) {
		b := c.Bytes()
		if len(b) != 36 {
			return v, fmt.Errorf("cid of %d bytes", len(b))
		}
		copy(v[:], b)
		return v, nil
	}
	type legacy struct {
		file  string
		full  []byte
		keys  []string
		empty []string
		open  func(rd indexes.ReaderAtCloser) (c13Lookup, func(), error)
		regs  []c13Region
	}
	var all []legacy
	{ // slot-to-cid, compactindex36
		full, err := seal("legacy-slot-to-cid.index", func(out *os.File) error {
			tmp := filepath.Join(dir, "tmp-s2c")
			os.MkdirAll(tmp, 0o755)
			b, err := compactindex36.NewBuilder(tmp, uint(len(t.Blocks)), 1<<40)
			if err != nil {
				return err
			}
			defer b.Close()
			for _, bl := range t.Blocks {
				v, err := cid36(bl.Cid)
				if err != nil {
					return err
				}
				if err := b.Insert(indexes.Uint64tob(bl.Slot), v); err != nil {
					return err
				}
			}
			return b.Seal(ctx, out)
		})
		if err != nil {
			r.R.Internal("legacy slot-to-cid: %v", err)
			return
		}
		l := legacy{file: "legacy-slot-to-cid", full: full, empty: []string{cid.Undef.String()}}
		for _, b := range t.Blocks {
			l.keys = append(l.keys, fmt.Sprint(b.Slot))
		}
		l.open = func(rd indexes.ReaderAtCloser) (c13Lookup, func(), error) {
			x, err := indexes.OpenWithReader_SlotToCid(rd)
			if err != nil {
				return nil, nil, err
			}
			return func(i int) (string, error) {
				if i < 0 {
					return fmt.Sprintf("legacy=%v", x.IsDeprecatedOldVersion()), nil
				}
				c, err := x.Get(t.Blocks[i].Slot)
				if err != nil {
					return "", err
				}
				return c.String(), nil
			}, func() { x.Close() }, nil
		}
		all = append(all, l)
	}
	{ // sig-to-cid, compactindex36
		full, err := seal("legacy-sig-to-cid.index", func(out *os.File) error {
			tmp := filepath.Join(dir, "tmp-g2c")
			os.MkdirAll(tmp, 0o755)
			b, err := compactindex36.NewBuilder(tmp, uint(len(t.Txs)), 1<<40)
			if err != nil {
				return err
			}
			defer b.Close()
			for _, tx := range t.Txs {
				v, err := cid36(tx.Cid)
				if err != nil {
					return err
				}
				if err := b.Insert(tx.Sig[:], v); err != nil {
					return err
				}
			}
			return b.Seal(ctx, out)
		})
		if err != nil {
			r.R.Internal("legacy sig-to-cid: %v", err)
			return
		}
		l := legacy{file: "legacy-sig-to-cid", full: full, empty: []string{cid.Undef.String()}}
		for _, tx := range t.Txs {
			l.keys = append(l.keys, tx.Sig.String())
		}
		l.open = func(rd indexes.ReaderAtCloser) (c13Lookup, func(), error) {
			x, err := indexes.OpenWithReader_SigToCid(rd)
			if err != nil {
				return nil, nil, err
			}
			return func(i int) (string, error) {
				if i < 0 {
					return fmt.Sprintf("legacy=%v", x.IsDeprecatedOldVersion()), nil
				}
				c, err := x.Get(t.Txs[i].Sig)
				if err != nil {
					return "", err
				}
				return c.String(), nil
			}, func() { x.Close() }, nil
		}
		all = append(all, l)
	}
	{ // cid-to-offset, compactindex (8-byte values)
		full, err := seal("legacy-cid-to-offset.index", func(out *os.File) error {
			tmp := filepath.Join(dir, "tmp-c2o")
			os.MkdirAll(tmp, 0o755)
			b, err := compactindex.NewBuilder(tmp, uint(len(t.Objects)), uint64(len(t.Bytes)))
			if err != nil {
				return err
			}
			defer b.Close()
			for _, o := range t.Objects {
				if err := b.Insert(o.Cid.Bytes(), o.Offset); err != nil {
					return err
				}
			}
			return b.Seal(ctx, out)
		})
		if err != nil {
			r.R.Internal("legacy cid-to-offset: %v", err)
			return
		}
		l := legacy{file: "legacy-cid-to-offset", full: full, empty: []string{"0"}}
		for _, o := range t.Objects {
			l.keys = append(l.keys, o.Cid.String())
		}
		l.open = func(rd indexes.ReaderAtCloser) (c13Lookup, func(), error) {
			x, err := indexes.Deprecated_OpenWithReader_CidToOffset(rd)
			if err != nil {
				return nil, nil, err
			}
			return func(i int) (string, error) {
				if i < 0 {
					return "opened", nil
				}
				off, err := x.Get(t.Objects[i].Cid)
				if err != nil {
					return "", err
				}
				return fmt.Sprint(off), nil
			}, func() { x.Close() }, nil
		}
		all = append(all, l)
	}
	{ // sig-exists, deprecated bucketteer
		p := filepath.Join(dir, "legacy-sig-exists.index")
		wr, err := deprecatedbucketteer.NewWriter(p)
		if err != nil {
			r.R.Internal("legacy sig-exists: %v", err)
			return
		}
		for _, tx := range t.Txs {
			wr.Put(tx.Sig)
		}
		if _, err := wr.Seal(map[string]string{"epoch": fmt.Sprint(t.Epoch)}); err != nil {
			r.R.Internal("legacy sig-exists: %v", err)
			return
		}
		wr.Close()
		l := legacy{file: "legacy-sig-exists", full: c13MustRead(p), empty: []string{"false"}}
		for _, tx := range t.Txs {
			l.keys = append(l.keys, tx.Sig.String())
		}
		l.open = func(rd indexes.ReaderAtCloser) (c13Lookup, func(), error) {
			x, err := deprecatedbucketteer.NewReader(rd)
			if err != nil {
				return nil, nil, err
			}
			return func(i int) (string, error) {
				if i < 0 {
					return "epoch=" + x.GetMeta("epoch"), nil
				}
				has, err := x.Has(t.Txs[i].Sig)
				return fmt.Sprint(has), err
			}, func() { x.Close() }, nil
		}
		if len(l.full) >= 4 {
			h := 4 + int(binary.LittleEndian.Uint32(l.full[0:4]))
			if h > len(l.full) {
				h = len(l.full)
			}
			l.regs = []c13Region{{h, "header"}, {len(l.full), "buckets"}}
		}
		all = append(all, l)
	}
	for _, l := range all {
		size := len(l.full)
		if l.regs == nil {
			l.regs = []c13Region{{size, "file"}}
		}
		lk, closer, err := l.open(&c13Cut{b: l.full, limit: int64(size)})
		if err != nil {
			r.R.Internal("complete %s does not open: %v", l.file, err)
			return
		}
		refMeta, _ := lk(-1)
		refs := make([]string, len(l.keys))
		for i := range l.keys {
			v, err := lk(i)
			if err != nil {
				r.R.Internal("complete %s does not answer key %s: %v", l.file, l.keys[i], err)
				return
			}
			refs[i] = v
		}
		closer()
		r.R.Bounds["size:"+l.file] = size
		r.R.Bounds["keys:"+l.file] = len(l.keys)
		cuts := c13AllCuts(size, false)
		if size > 64<<10 { // not expected for these small indexes
			set := map[int]bool{}
			for c := 0; c <= size; c += 97 {
				set[c] = true
			}
			for _, g := range l.regs {
				c13Around(set, size, g.end)
			}
			cuts = c13Sorted(set, false)
		}
		for _, cut := range cuts {
			if !r.take("legacy-readerat", l.file, cut) {
				continue
			}
			rc := &c13Cut{b: l.full, limit: int64(cut)}
			r.openAndLookup("legacy-readerat", l.file, "legacy.OpenWithReader", cut, size, l.regs, l.keys, refs, refMeta, l.empty,
				func() (c13Lookup, func(), error) { return l.open(rc) })
		}
	}
}

// ---------- S2: sig-exists (bucketteer) ----------

type c13SigExists struct {
	full      []byte
	H         int // end of header = start of the bucket area
	table     int // start of the prefix table
	metaEnd   int
	regs      []c13Region
	bounds    map[int]bool
	refMeta   string
	sigs      []solana.Signature
	keyLabels []string
}

func c13BucketteerMeta(m *indexmeta.Meta) string {
	if m == nil {
		return "meta=nil"
	}
	e, eok := m.GetUint64(indexmeta.MetadataKey_Epoch)
	c, cok := m.GetCid(indexmeta.MetadataKey_RootCid)
	n, nok := m.GetString(indexmeta.MetadataKey_Network)
	return fmt.Sprintf("epoch=%d(%v) root=%s(%v) network=%s(%v)", e, eok, c, cok, n, nok)
}

func c13ParseSigExists(w *c13World) (*c13SigExists, error) {
	s := &c13SigExists{full: c13MustRead(w.A.Paths.SignatureExists)}
	full := s.full
	size := len(full)
	s.H = 4 + int(binary.LittleEndian.Uint32(full[0:4]))
	s.table = s.H - 65536*10
	if s.table < 28 || s.H > size {
		return nil, fmt.Errorf("unexpected sig-exists layout: header end %d, size %d", s.H, size)
	}
	s.metaEnd = s.table - 8
	s.regs = []c13Region{{4, "header-size"}, {12, "magic"}, {20, "version"}, {s.metaEnd, "metadata"}, {s.table, "prefix-count"}, {s.H, "prefix-table"}, {size, "buckets"}}
	s.bounds = map[int]bool{}
	c13Around(s.bounds, size, 0, 4, 12, 20, s.metaEnd, s.table, s.H, size)
	for _, tx := range w.A.Truth.Txs {
		s.sigs = append(s.sigs, tx.Sig)
		s.keyLabels = append(s.keyLabels, tx.Sig.String())
		p := int(binary.LittleEndian.Uint16(tx.Sig[0:2]))
		ent := s.table + p*10
		c13Around(s.bounds, size, ent, ent+2, ent+10)
		off := s.H + int(binary.LittleEndian.Uint64(full[ent+2:ent+10]))
		if off+4 > size {
			return nil, fmt.Errorf("bucket of %s outside the file", tx.Sig)
		}
		n := int(binary.LittleEndian.Uint32(full[off : off+4]))
		c13Around(s.bounds, size, off, off+4)
		for k := 1; k <= n; k++ {
			c13Around(s.bounds, size, off+4+8*k)
		}
	}
	rd, err := bucketteer.NewReader(bytes.NewReader(full))
	if err != nil {
		return nil, err
	}
	s.refMeta = c13BucketteerMeta(rd.Meta())
	for _, sig := range s.sigs {
		has, err := rd.Has(sig)
		if err != nil || !has {
			return nil, fmt.Errorf("complete sig-exists index: Has(%s) = %v, %v", sig, has, err)
		}
	}
	return s, nil
}

func (r *c13Run) sigExistsLookups(section, api string, cut int, s *c13SigExists, open func() (*bucketteer.Reader, error)) {
	size := len(s.full)
	region := c13RegionOf(s.regs, cut)
	var rd *bucketteer.Reader
	oo := c13Do(func() (string, error) {
		var err error
		rd, err = open()
		if err != nil {
			return "", err
		}
		return c13BucketteerMeta(rd.Meta()), nil
	})
	r.judge(c13Case{Section: section, File: "sig-exists", Cut: cut, Key: "<open+metadata>", Size: size}, api+".open", region, s.refMeta, oo)
	if rd == nil || oo.pan != "" {
		return
	}
	for i, sig := range s.sigs {
		sig := sig
		o := c13Do(func() (string, error) {
			has, err := rd.Has(sig)
			return fmt.Sprint(has), err
		})
		r.judge(c13Case{Section: section, File: "sig-exists", Cut: cut, Key: s.keyLabels[i], Size: size}, api+".Has", region, "true", o, "false")
	}
	func() {
		defer func() { recover() }()
		rd.Close()
	}()
}

func (r *c13Run) sectionSigExists(w *c13World) {
	s, err := c13ParseSigExists(w)
	if err != nil {
		r.R.Internal("sig-exists: %v", err)
		return
	}
	size := len(s.full)
	r.R.Bounds["size:sig-exists"] = size
	r.R.Bounds["keys:sig-exists"] = len(s.sigs)
	// (a) full re-open at the boundary offsets and every 97th (thorough: every offset)
	set := map[int]bool{}
	for c := range s.bounds {
		set[c] = true
	}
	step := 97
	if vkit.Thorough() {
		step = 1
	}
	for c := 0; c <= size; c += step {
		set[c] = true
	}
	r.R.Bounds["sig-exists:reopen-cuts"] = len(set)
	for _, cut := range c13Sorted(set, false) {
		if !r.take("sigexists-readerat", "sig-exists", cut) {
			continue
		}
		rc := &c13Cut{b: s.full, limit: int64(cut)}
		r.sigExistsLookups("sigexists-readerat", "bucketteer.NewReader", cut, s, func() (*bucketteer.Reader, error) { return bucketteer.NewReader(rc) })
		if cut%9973 == 0 {
			r.R.Sample(c13Case{Section: "sigexists-readerat", File: "sig-exists", Cut: cut, Size: size, Key: "every stored signature"})
		}
	}
	// (b) every offset of the bucket area: lookups on a reader opened once; sound because open touches the header only (checked here)
	{
		rc := &c13Cut{b: s.full, limit: int64(size)}
		rd, err := bucketteer.NewReader(rc)
		if err != nil {
			r.R.Internal("sig-exists: %v", err)
			return
		}
		if rc.hi > int64(s.H) {
			r.R.Note("bucketteer.NewReader touched byte %d beyond the header end %d: the every-offset body scan is skipped", rc.hi, s.H)
			r.R.Exhaustive = false
		} else {
			r.R.Assume(fmt.Sprintf("bucketteer.NewReader reads only the header (checked: highest byte requested during open = %d <= header end %d); hence a reader opened on the complete file and then limited to c >= header end bytes is in the state of a reader opened on the c-byte file", rc.hi, s.H))
			for cut := s.H; cut <= size; cut++ {
				if !r.take("sigexists-body-scan", "sig-exists", cut) {
					continue
				}
				rc.limit = int64(cut)
				region := "buckets"
				if cut == size {
					region = "complete"
				}
				for i, sig := range s.sigs {
					sig := sig
					o := c13Do(func() (string, error) {
						has, err := rd.Has(sig)
						return fmt.Sprint(has), err
					})
					r.judge(c13Case{Section: "sigexists-body-scan", File: "sig-exists", Cut: cut, Key: s.keyLabels[i], Size: size}, "bucketteer.NewReader.Has", region, "true", o, "false")
				}
			}
		}
	}
	// (c) mmap path on really truncated copies at the boundary offsets (descending, truncated in place)
	p := filepath.Join(r.base, "cut-sig-exists.index")
	c13CopyFile(p, w.A.Paths.SignatureExists)
	for _, cut := range c13Sorted(s.bounds, true) {
		if !r.take("sigexists-mmap", "sig-exists", cut) {
			continue
		}
		if r.replay != nil {
			c13CopyFile(p, w.A.Paths.SignatureExists)
		}
		if err := os.Truncate(p, int64(cut)); err != nil {
			r.R.Internal("truncate: %v", err)
			return
		}
		r.sigExistsLookups("sigexists-mmap", "bucketteer.Open", cut, s, func() (*bucketteer.Reader, error) { return bucketteer.Open(p) })
	}
	os.Remove(p)
}

// ---------- S3: slot-to-blocktime ----------

func (r *c13Run) sectionBlocktime(w *c13World) {
	full := c13MustRead(w.A.Paths.SlotToBlocktime)
	size := len(full)
	const hdr = 14 + 8 + 8 + 8 + 8
	t := w.A.Truth
	regs := []c13Region{{14, "magic"}, {22, "start"}, {30, "end"}, {38, "epoch"}, {46, "capacity"}, {size - 4, "values"}, {size, "last-value"}}
	bounds := map[int]bool{}
	c13Around(bounds, size, 0, 14, 22, 30, 38, hdr, size)
	var keys []string
	var refs []string
	first := t.Epoch * cargen.SlotsPerEpoch
	for _, b := range t.Blocks {
		keys = append(keys, fmt.Sprint(b.Slot))
		refs = append(refs, fmt.Sprint(b.Blocktime))
		o := hdr + 4*int(b.Slot-first)
		c13Around(bounds, size, o, o+4)
	}
	refMeta := fmt.Sprintf("epoch=%d", t.Epoch)
	{
		idx, err := blocktimeindex.FromBytes(full)
		if err != nil {
			r.R.Internal("complete block-time index: %v", err)
			return
		}
		for i, b := range t.Blocks {
			v, err := idx.Get(b.Slot)
			if err != nil || fmt.Sprint(v) != refs[i] {
				r.R.Internal("complete block-time index: Get(%d) = %d, %v; archived %s", b.Slot, v, err, refs[i])
				return
			}
		}
	}
	r.R.Bounds["size:slot-to-blocktime"] = size
	r.R.Bounds["keys:slot-to-blocktime"] = len(keys)
	lookups := func(section, entry string, cut int, open func() (*blocktimeindex.Index, error)) {
		// FromFile and FromReader are thin wrappers of FromBytes: one key, the entry point is named in the case
		api := "blocktimeindex.FromBytes"
		if entry == "main.ReadAllFromReaderAt+FromBytes" {
			api = entry
		}
		region := c13RegionOf(regs, cut)
		var idx *blocktimeindex.Index
		oo := c13Do(func() (string, error) {
			var err error
			idx, err = open()
			if err != nil {
				return "", err
			}
			return fmt.Sprintf("epoch=%d", idx.Epoch()), nil
		})
		r.judge(c13Case{Section: section, File: "slot-to-blocktime", Cut: cut, Key: entry + " <open+metadata>", Size: size}, api+".open", region, refMeta, oo)
		if idx == nil || oo.pan != "" {
			return
		}
		for i, b := range t.Blocks {
			slot := b.Slot
			o := c13Do(func() (string, error) {
				v, err := idx.Get(slot)
				return fmt.Sprint(v), err
			})
			r.judge(c13Case{Section: section, File: "slot-to-blocktime", Cut: cut, Key: entry + " slot " + keys[i], Size: size}, api+".Get", region, refs[i], o, "0")
		}
	}
	mkset := func(step int) map[int]bool {
		set := map[int]bool{}
		for c := range bounds {
			set[c] = true
		}
		for c := 0; c <= size; c += step {
			set[c] = true
		}
		return set
	}
	stepParse, stepExact := 97, 97
	if vkit.Thorough() {
		stepParse, stepExact = 7, 1
	}
	// (a) the full parse of the cut bytes
	set := mkset(stepParse)
	r.R.Bounds["slot-to-blocktime:parse-cuts"] = len(set)
	for _, cut := range c13Sorted(set, false) {
		if !r.take("blocktime-frombytes", "slot-to-blocktime", cut) {
			continue
		}
		lookups("blocktime-frombytes", "blocktimeindex.FromBytes", cut, func() (*blocktimeindex.Index, error) { return blocktimeindex.FromBytes(full[:cut]) })
		if cut%97000 == 0 {
			r.R.Sample(c13Case{Section: "blocktime-frombytes", File: "slot-to-blocktime", Cut: cut, Size: size, Key: "every slot with a block"})
		}
	}
	// (b) the epoch loader's path: exact-size read through a ReaderAt, then the parse
	set = mkset(stepExact)
	r.R.Bounds["slot-to-blocktime:exact-read-cuts"] = len(set)
	for _, cut := range c13Sorted(set, false) {
		if !r.take("blocktime-epochloader", "slot-to-blocktime", cut) {
			continue
		}
		rc := &c13Cut{b: full, limit: int64(cut)}
		lookups("blocktime-epochloader", "main.ReadAllFromReaderAt+FromBytes", cut, func() (*blocktimeindex.Index, error) {
			buf, err := ReadAllFromReaderAt(rc, uint64(blocktimeindex.DefaultIndexByteSize))
			if err != nil {
				return nil, err
			}
			return blocktimeindex.FromBytes(buf)
		})
	}
	// (c) FromReader and FromFile (real truncated copy) at the boundary offsets
	p := filepath.Join(r.base, "cut-slot-to-blocktime.index")
	c13CopyFile(p, w.A.Paths.SlotToBlocktime)
	for _, cut := range c13Sorted(bounds, true) {
		if !r.take("blocktime-file", "slot-to-blocktime", cut) {
			continue
		}
		if r.replay != nil {
			c13CopyFile(p, w.A.Paths.SlotToBlocktime)
		}
		if err := os.Truncate(p, int64(cut)); err != nil {
			r.R.Internal("truncate: %v", err)
			return
		}
		lookups("blocktime-file", "blocktimeindex.FromFile", cut, func() (*blocktimeindex.Index, error) { return blocktimeindex.FromFile(p) })
		lookups("blocktime-file", "blocktimeindex.FromReader", cut, func() (*blocktimeindex.Index, error) {
			return blocktimeindex.FromReader(bytes.NewReader(full[:cut]))
		})
	}
	os.Remove(p)
}

// ---------- S4: gsfa directory (pubkey index, linked log, manifest) ----------

func c13GsfaMeta(g *gsfa.GsfaReader) string {
	m := g.Meta()
	e, eok := m.GetUint64(indexmeta.MetadataKey_Epoch)
	c, cok := m.GetCid(indexmeta.MetadataKey_RootCid)
	n, nok := m.GetString(indexmeta.MetadataKey_Network)
	return fmt.Sprintf("version=%d epoch=%d(%v) root=%s(%v) network=%s(%v)", g.Version(), e, eok, c, cok, n, nok)
}

func c13GsfaGet(g *gsfa.GsfaReader, a solana.PublicKey) (string, error) {
	locs, err := g.Get(context.Background(), a, 1000)
	if err != nil {
		return "", err
	}
	var sb strings.Builder
	fmt.Fprintf(&sb, "%d:", len(locs))
	for _, l := range locs {
		fmt.Fprintf(&sb, " (%d+%d@%d)", l.Offset, l.Size, l.Slot)
	}
	return sb.String(), nil
}

type c13GsfaRefs struct {
	meta string
	refs []string
	keys []string
}

func c13GsfaReference(w *c13World) (*c13GsfaRefs, error) {
	g, err := gsfa.NewGsfaReader(w.A.GsfaDir)
	if err != nil {
		return nil, err
	}
	defer g.Close()
	out := &c13GsfaRefs{meta: c13GsfaMeta(g)}
	for _, a := range w.addrs {
		v, err := c13GsfaGet(g, a)
		if err != nil {
			return nil, fmt.Errorf("complete gsfa index: Get(%s): %v", a, err)
		}
		if strings.HasPrefix(v, "0:") {
			return nil, fmt.Errorf("complete gsfa index: Get(%s) is empty", a)
		}
		out.refs = append(out.refs, v)
		out.keys = append(out.keys, a.String())
	}
	return out, nil
}

// c13GsfaScratch makes a private copy of A's gsfa directory.
func c13GsfaScratch(w *c13World, dir string) {
	os.RemoveAll(dir)
	os.MkdirAll(dir, 0o755)
	for _, n := range []string{w.gsfaPk, "linked-log", "manifest"} {
		c13CopyFile(filepath.Join(dir, n), filepath.Join(w.A.GsfaDir, n))
	}
}

func c13ManifestRegions(full []byte) []c13Region {
	// magic(8) version(8) meta: count(1) then key/value records; then 16-byte tuples
	regs := []c13Region{{8, "magic"}, {16, "version"}}
	p := 16
	if len(full) > p {
		n := int(full[p])
		p++
		for i := 0; i < n && p < len(full); i++ {
			p += 1 + int(full[p])
			if p >= len(full) {
				break
			}
			p += 1 + int(full[p])
		}
	}
	if p > len(full) {
		p = len(full)
	}
	regs = append(regs, c13Region{p, "metadata"}, c13Region{len(full), "tuples"})
	return regs
}

func (r *c13Run) sectionGsfa(w *c13World) {
	ref, err := c13GsfaReference(w)
	if err != nil {
		r.R.Internal("%v", err)
		return
	}
	dir := filepath.Join(r.base, "cut-gsfa")
	for _, name := range []string{w.gsfaPk, "linked-log", "manifest"} {
		file := map[string]string{w.gsfaPk: "gsfa-pubkey-index", "linked-log": "gsfa-linked-log", "manifest": "gsfa-manifest"}[name]
		full := c13MustRead(filepath.Join(w.A.GsfaDir, name))
		size := len(full)
		r.R.Bounds["size:"+file] = size
		r.R.Bounds["keys:"+file] = len(ref.keys)
		var regs []c13Region
		switch name {
		case w.gsfaPk:
			regs = c13CompactRegions(full)
		case "linked-log":
			regs = []c13Region{{size, "records"}}
		default:
			regs = c13ManifestRegions(full)
		}
		c13GsfaScratch(w, dir)
		p := filepath.Join(dir, name)
		for _, cut := range c13AllCuts(size, true) {
			if !r.take("gsfa-dir", file, cut) {
				continue
			}
			if r.replay != nil {
				c13GsfaScratch(w, dir)
			}
			if err := os.Truncate(p, int64(cut)); err != nil {
				r.R.Internal("truncate: %v", err)
				return
			}
			region := c13RegionOf(regs, cut)
			var g *gsfa.GsfaReader
			oo := c13Do(func() (string, error) {
				var err error
				g, err = gsfa.NewGsfaReader(dir)
				if err != nil {
					return "", err
				}
				return c13GsfaMeta(g), nil
			})
			emptyMeta := "version=5 epoch=0(false) root=b(false) network=(false)"
			r.judge(c13Case{Section: "gsfa-dir", File: file, Cut: cut, Key: "<open+metadata>", Size: size}, "gsfa.NewGsfaReader.open", region, ref.meta, oo, emptyMeta)
			if g == nil || oo.pan != "" {
				continue
			}
			for i, a := range w.addrs {
				a := a
				o := c13Do(func() (string, error) { return c13GsfaGet(g, a) })
				r.judge(c13Case{Section: "gsfa-dir", File: file, Cut: cut, Key: ref.keys[i], Size: size}, "gsfa.NewGsfaReader.Get", region, ref.refs[i], o, "0:")
			}
			func() {
				defer func() { recover() }()
				g.Close()
			}()
			if cut%101 == 0 {
				r.R.Sample(c13Case{Section: "gsfa-dir", File: file, Cut: cut, Size: size, Key: "every address"})
			}
		}
	}
	os.RemoveAll(dir)
}

// ---------- S5: the CAR ----------

func (r *c13Run) carObjects(section, api string, cut, size int, regs []c13Region, t *cargen.Truth, ep *Epoch) {
	region := c13RegionOf(regs, cut)
	ctx := context.Background()
	for i := range t.Objects {
		o := &t.Objects[i]
		out := c13Do(func() (string, error) {
			data, err := ep.GetNodeByCid(ctx, o.Cid)
			if err != nil {
				return "", err
			}
			if bytes.Equal(data, o.Data) {
				return "stored-bytes", nil
			}
			return fmt.Sprintf("%d other bytes (sha %s)", len(data), vkit.Hash(data)), nil
		})
		r.judge(c13Case{Section: section, File: "car", Cut: cut, Key: o.Cid.String(), Size: size}, api+".GetNodeByCid", region, "stored-bytes", out, "0 other bytes (sha "+vkit.Hash([]byte{})+")")
	}
}

// c13CarRegions: header, then one region per object named by what it is.
func c13CarRegions(t *cargen.Truth) []c13Region {
	regs := []c13Region{{int(t.HeaderLen), "car-header"}}
	kind := map[int]string{cargen.KindTransaction: "transaction", cargen.KindEntry: "entry", cargen.KindBlock: "block", cargen.KindSubset: "subset", cargen.KindEpoch: "epoch", cargen.KindRewards: "rewards", cargen.KindDataFrame: "dataframe"}
	for _, o := range t.Objects {
		regs = append(regs, c13Region{int(o.Offset + o.SectionLen), "object:" + kind[o.Kind]})
	}
	return regs
}

// c13CarRegionsCoarse: used in violation keys (one key per defect, not per object kind).
func c13CarRegionsCoarse(t *cargen.Truth) []c13Region {
	return []c13Region{{int(t.HeaderLen), "car-header"}, {len(t.Bytes), "objects"}}
}

type c13Piece struct {
	hdr     []byte
	content []byte
}

func (r *c13Run) sectionCar(w *c13World) {
	t := w.A.Truth
	size := len(t.Bytes)
	regs := c13CarRegionsCoarse(t)
	r.R.Bounds["size:car"] = size
	r.R.Bounds["keys:car"] = len(t.Objects)
	// (a) local file through NewEpochFromConfig (carv2 reader), every offset
	{
		p := filepath.Join(r.base, "cut-epoch.car")
		if err := os.WriteFile(p, t.Bytes, 0o644); err != nil {
			r.R.Internal("%v", err)
			return
		}
		rpcs := c13RPCs(w)
		rpcRef, err := r.rpcReference(w, nil, rpcs)
		if err != nil {
			r.R.Internal("%v", err)
			return
		}
		cfg := w.A.writeConfig(vkConfigOpts{Name: "c13-car-local", CarURI: p})
		for _, cut := range c13AllCuts(size, true) {
			if !r.take("car-local", "car", cut) {
				continue
			}
			if r.replay != nil {
				os.WriteFile(p, t.Bytes, 0o644)
			}
			if err := os.Truncate(p, int64(cut)); err != nil {
				r.R.Internal("truncate: %v", err)
				return
			}
			var ep *Epoch
			oo := c13Do(func() (string, error) {
				var err error
				ep, err = vkLoadEpoch(cfg, c13NewCache())
				if err != nil {
					return "", err
				}
				return "loaded", nil
			})
			r.judge(c13Case{Section: "car-local", File: "car", Cut: cut, Key: "<open>", Size: size}, "NewEpochFromConfig(local-car).open", c13RegionOf(regs, cut), "loaded", oo)
			if ep == nil || oo.pan != "" {
				continue
			}
			r.carObjects("car-local", "Epoch(local-car)", cut, size, regs, t, ep)
			r.rpcAll(func(key string) c13Case {
				return c13Case{Section: "car-local", File: "car", Cut: cut, Key: key, Size: size}
			},
				c13RegionOf(regs, cut), ep, "one-epoch", newMultiEpochHandler(vkNewMulti(2, ep), nil), rpcs, rpcRef)
			ep.Close()
			if cut%997 == 0 {
				r.R.Sample(c13Case{Section: "car-local", File: "car", Cut: cut, Size: size, Key: "every object CID"})
			}
		}
		os.Remove(p)
	}
	// (b) ReaderAt path of the Epoch, every offset
	{
		cfg := w.A.writeConfig(vkConfigOpts{Name: "c13-car-readerat", NoGsfa: true})
		ep, err := vkLoadEpoch(cfg, c13NewCache())
		if err != nil {
			r.R.Internal("load A: %v", err)
			return
		}
		for _, cut := range c13AllCuts(size, false) {
			if !r.take("car-readerat", "car", cut) {
				continue
			}
			rc := &c13Cut{b: t.Bytes, limit: int64(cut)}
			rcw := &readCloserWrapper{rac: rc, name: "epoch.car", size: int64(cut)}
			// what NewEpochFromConfig does for a remote CAR: read 10 bytes, decode the header length
			oo := c13Do(func() (string, error) {
				hb, err := readSectionFromReaderAt(rcw, 0, 10)
				if err != nil {
					return "", err
				}
				hs, n := binary.Uvarint(hb)
				if n <= 0 {
					return "", errors.New("failed to decode CAR header size")
				}
				return fmt.Sprint(uint64(n) + hs), nil
			})
			r.judge(c13Case{Section: "car-readerat", File: "car", Cut: cut, Key: "<open>", Size: size}, "Epoch(readerat-car).open", c13RegionOf(regs, cut), fmt.Sprint(t.HeaderLen), oo)
			if oo.err != nil || oo.pan != "" {
				continue
			}
			ep.localCarReader = nil
			ep.remoteCarReader = rcw
			ep.carHeaderSize = t.HeaderLen
			ep.allCache = c13NewCache()
			r.carObjects("car-readerat", "Epoch(readerat-car)", cut, size, regs, t, ep)
		}
		ep.remoteCarReader = nil
		ep.Close()
	}
	// (c) split CAR: three pieces at object boundaries; one piece cut at a time, every offset
	{
		nObj := len(t.Objects)
		b1, b2 := int(t.Objects[nObj/3].Offset), int(t.Objects[2*nObj/3].Offset)
		bodies := [][]byte{t.Bytes[t.HeaderLen:b1], t.Bytes[b1:b2], t.Bytes[b2:]}
		var pieces []c13Piece
		meta := &carlet.CarPiecesAndMetadata{
			OriginalCarHeaderSize: t.HeaderLen,
		}
		{
			_, n := binary.Uvarint(t.Bytes)
			meta.OriginalCarHeader = base64.StdEncoding.EncodeToString(t.Bytes[n:t.HeaderLen])
		}
		for i, body := range bodies {
			h := bytes.Repeat([]byte{0xA0 + byte(i)}, 17+i) // the piece's own header: skipped by the reader
			pieces = append(pieces, c13Piece{hdr: h, content: body})
			commp, _ := cid.Prefix{Version: 1, Codec: cid.Raw, MhType: 0x12, MhLength: -1}.Sum([]byte(fmt.Sprintf("c13-piece-%d", i)))
			meta.CarPieces = append(meta.CarPieces, carlet.CarFile{Name: fmt.Sprintf("piece-%d.car", i), CommP: commp, HeaderSize: uint64(len(h)), ContentSize: uint64(len(body))})
		}
		cfg := w.A.writeConfig(vkConfigOpts{Name: "c13-car-split", NoGsfa: true})
		ep, err := vkLoadEpoch(cfg, c13NewCache())
		if err != nil {
			r.R.Internal("load A: %v", err)
			return
		}
		names := []string{"first-piece", "middle-piece", "last-piece"}
		labels := []string{"car-split-inner-piece", "car-split-inner-piece", "car-split-last-piece"}
		for _, httpLike := range []bool{false, true} {
			for pi := range pieces {
				whole := append(append([]byte{}, pieces[pi].hdr...), pieces[pi].content...)
				psize := len(whole)
				label, sect := labels[pi], "car-split-"+names[pi]
				if httpLike {
					label, sect = label+"(http-like-reader)", sect+"-httplike"
				}
				pregs := []c13Region{{len(pieces[pi].hdr), "piece-header"}, {psize, "piece-content"}}
				r.R.Bounds["size:car-split-"+names[pi]] = psize
				for _, cut := range c13AllCuts(psize, false) {
					if !r.take(sect, label, cut) {
						continue
					}
					var scr *splitcarfetcher.SplitCarReader
					oo := c13Do(func() (string, error) {
						var err error
						scr, err = splitcarfetcher.NewSplitCarReader(meta, func(cf carlet.CarFile) (splitcarfetcher.ReaderAtCloserSize, error) {
							for i := range meta.CarPieces {
								if meta.CarPieces[i].Name == cf.Name {
									b := append(append([]byte{}, pieces[i].hdr...), pieces[i].content...)
									lim := len(b)
									if i == pi {
										lim = cut
									}
									return &c13Cut{b: b, limit: int64(lim), httpLike: httpLike}, nil
								}
							}
							return nil, fmt.Errorf("unknown piece")
						})
						if err != nil {
							return "", err
						}
						return "opened", nil
					})
					cs := c13Case{Section: sect, File: label, Cut: cut, Key: "<open>", Size: psize}
					r.judge(cs, "NewSplitCarReader.open", c13RegionOf(pregs, cut), "opened", oo)
					if scr == nil || oo.pan != "" {
						continue
					}
					ep.localCarReader = nil
					ep.remoteCarReader = scr
					ep.carHeaderSize = t.HeaderLen
					ep.allCache = c13NewCache()
					region := c13RegionOf(pregs, cut)
					ctx := context.Background()
					for i := range t.Objects {
						o := &t.Objects[i]
						out := c13Do(func() (string, error) {
							data, err := ep.GetNodeByCid(ctx, o.Cid)
							if err != nil {
								return "", err
							}
							if bytes.Equal(data, o.Data) {
								return "stored-bytes", nil
							}
							return fmt.Sprintf("%d other bytes (sha %s)", len(data), vkit.Hash(data)), nil
						})
						r.judge(c13Case{Section: sect, File: label, Cut: cut, Key: o.Cid.String(), Size: psize}, "Epoch(split-car).GetNodeByCid", region, "stored-bytes", out)
					}
				}
			}
		}
		ep.remoteCarReader = nil
		ep.Close()
	}
	// (d) sequential traversal (what every index builder does with the CAR): the section reader and the object
	// accumulator over the CAR cut at every offset that is not a section boundary (a CAR cut at a boundary is a
	// shorter well-formed CAR, which no reader can tell from a complete one). The traversal of the complete file
	// ends cleanly after all objects; on the cut file it must end in an error, not in a clean end after fewer objects.
	{
		boundary := map[int]bool{int(t.HeaderLen): true, size: true}
		for _, o := range t.Objects {
			boundary[int(o.Offset+o.SectionLen)] = true
		}
		ref := fmt.Sprintf("clean end after %d objects", len(t.Objects))
		walk := func(in []byte, step func(cr *carreader.CarReader) error) (string, error) {
			cr, err := carreader.New(io.NopCloser(bytes.NewReader(in)))
			if err != nil {
				return "", err
			}
			for n := 0; ; n++ {
				if err := step(cr); err != nil {
					if errors.Is(err, io.EOF) {
						return fmt.Sprintf("clean end after %d objects", n), nil
					}
					return "", err
				}
				if n > len(in) {
					return "", errors.New("more sections than bytes")
				}
			}
		}
		for _, cut := range c13AllCuts(size, false) {
			if boundary[cut] || cut < int(t.HeaderLen) {
				continue
			}
			if !r.take("car-traversal", "car", cut) {
				continue
			}
			in := t.Bytes[:cut]
			region := c13RegionOf(regs, cut)
			cs := c13Case{Section: "car-traversal", File: "car", Cut: cut, Key: "<all sections>", Size: size}
			r.judge(cs, "carreader.NextNodeBytes-loop", region, ref, c13Do(func() (string, error) {
				return walk(in, func(cr *carreader.CarReader) error { _, _, _, err := cr.NextNodeBytes(); return err })
			}))
			r.judge(cs, "carreader.NextNode-loop", region, ref, c13Do(func() (string, error) {
				return walk(in, func(cr *carreader.CarReader) error { _, _, _, err := cr.NextNode(); return err })
			}))
			r.judge(cs, "carreader.NextInfo-loop", region, ref, c13Do(func() (string, error) {
				return walk(in, func(cr *carreader.CarReader) error { _, _, err := cr.NextInfo(); return err })
			}))
			r.judge(cs, "accum.ObjectAccumulator.Run", region, ref, c13Do(func() (string, error) {
				cr, err := carreader.New(io.NopCloser(bytes.NewReader(in)))
				if err != nil {
					return "", err
				}
				var mu sync.Mutex
				n := 0
				oa := accum.NewObjectAccumulator(cr, iplddecoders.KindBlock, func(parent *accum.ObjectWithMetadata, children []accum.ObjectWithMetadata) error {
					mu.Lock()
					defer mu.Unlock()
					n += len(children)
					if parent != nil {
						n++
					}
					return nil
				})
				if err := oa.Run(context.Background()); err != nil {
					return "", err
				}
				mu.Lock()
				defer mu.Unlock()
				return fmt.Sprintf("clean end after %d objects", n), nil
			}))
		}
	}
}

// ---------- S6: epoch level, every index role cut, through NewEpochFromConfig and the JSON-RPC handler ----------

type c13RPC struct {
	method string
	key    string
	body   string
}

func c13RPCs(w *c13World) []c13RPC {
	t := w.A.Truth
	var out []c13RPC
	for bi := range t.Blocks {
		s := t.Blocks[bi].Slot
		out = append(out, c13RPC{"getBlock", fmt.Sprint(s), fmt.Sprintf(`{"jsonrpc":"2.0","id":1,"method":"getBlock","params":[%d,{"encoding":"base64","maxSupportedTransactionVersion":0}]}`, s)})
		out = append(out, c13RPC{"getBlockTime", fmt.Sprint(s), fmt.Sprintf(`{"jsonrpc":"2.0","id":1,"method":"getBlockTime","params":[%d]}`, s)})
	}
	for ti := range t.Txs {
		s := t.Txs[ti].Sig
		out = append(out, c13RPC{"getTransaction", s.String(), fmt.Sprintf(`{"jsonrpc":"2.0","id":1,"method":"getTransaction","params":[%q,{"encoding":"base64","maxSupportedTransactionVersion":0}]}`, s.String())})
	}
	for _, a := range []solana.PublicKey{cargen.Account(5), cargen.Account(1)} {
		out = append(out, c13RPC{"getSignaturesForAddress", a.String(), fmt.Sprintf(`{"jsonrpc":"2.0","id":1,"method":"getSignaturesForAddress","params":[%q,{"limit":100}]}`, a.String())})
	}
	return out
}

// c13RPCAnswer renders a JSON-RPC response: ("value", canonical result) | ("null"|"empty", ..) | ("not-found"|"error", message)
func c13RPCAnswer(resp []byte) (class, val string) {
	var m struct {
		Result json.RawMessage `json:"result"`
		Error  *struct {
			Code    int    `json:"code"`
			Message string `json:"message"`
		} `json:"error"`
	}
	if err := json.Unmarshal(resp, &m); err != nil {
		return "error", "unparsable response: " + c13Short(string(resp))
	}
	if m.Error != nil {
		msg := strings.ToLower(m.Error.Message)
		if m.Error.Code == CodeNotFound || strings.Contains(msg, "not found") || strings.Contains(msg, "skipped") || strings.Contains(msg, "not available") {
			return "not-found", fmt.Sprintf("%d %s", m.Error.Code, m.Error.Message)
		}
		return "error", fmt.Sprintf("%d %s", m.Error.Code, m.Error.Message)
	}
	s := strings.TrimSpace(string(m.Result))
	switch s {
	case "", "null":
		return "null", s
	case "[]", "{}", "0":
		return "empty", s
	}
	var v interface{}
	json.Unmarshal(m.Result, &v)
	b, _ := json.Marshal(v)
	return "value", string(b)
}

// c13Call drives one JSON-RPC request through the handler in memory; a panic is recovered with its innermost repository frame.
func c13Call(h func(*fasthttp.RequestCtx), body string) (resp []byte, pan, frame string) {
	var req fasthttp.Request
	req.Header.SetMethod("POST")
	req.SetRequestURI("/")
	req.Header.SetContentType("application/json")
	req.SetBody([]byte(body))
	var ctx fasthttp.RequestCtx
	ctx.Init(&req, nil, nil)
	func() {
		defer func() {
			if x := recover(); x != nil {
				pan = fmt.Sprint(x)
				frame = c13Frame()
			}
		}()
		h(&ctx)
	}()
	return append([]byte{}, ctx.Response.Body()...), pan, frame
}

// rpcAll sends every prepared request and judges the answers against the complete epoch's answers.
func (r *c13Run) rpcAll(cs func(key string) c13Case, region string, ep *Epoch, label string, h func(*fasthttp.RequestCtx), rpcs []c13RPC, rpcRef map[string]string) {
	for _, q := range rpcs {
		ep.allCache = c13NewCache()
		resp, pan, frame := c13Call(h, q.body)
		var out c13Out
		api := "rpc[" + label + "]." + q.method
		if pan != "" {
			out.pan, out.frame = pan, frame
			api = "rpc." + q.method // one key per crashing frame, whatever the number of loaded epochs
		} else {
			class, val := c13RPCAnswer(resp)
			switch class {
			case "error":
				out.err = errors.New(val)
			case "not-found":
				out.err = fmt.Errorf("not found: %s", val)
			default:
				out.val = val
			}
		}
		r.judge(cs(q.method+" "+q.key), api, region, rpcRef[label+"|"+q.method+"|"+q.key], out, "null", "[]", "{}", "0", "")
	}
}

// rpcReference: the complete epoch's answers (alone and, when epB != nil, next to epoch B).
func (r *c13Run) rpcReference(w *c13World, epB *Epoch, rpcs []c13RPC) (map[string]string, error) {
	cfg := w.A.writeConfig(vkConfigOpts{Name: "c13-full"})
	ep, err := vkLoadEpoch(cfg, c13NewCache())
	if err != nil {
		return nil, fmt.Errorf("load A: %v", err)
	}
	defer ep.Close()
	ref := map[string]string{}
	for _, two := range []bool{false, true} {
		label := "one-epoch"
		eps := []*Epoch{ep}
		if two {
			if epB == nil {
				continue
			}
			label = "two-epochs"
			eps = append(eps, epB)
		}
		h := newMultiEpochHandler(vkNewMulti(2, eps...), nil)
		for _, q := range rpcs {
			resp, pan, _ := c13Call(h, q.body)
			class, val := c13RPCAnswer(resp)
			if pan != "" || class != "value" {
				return nil, fmt.Errorf("complete epoch [%s]: %s(%s) -> %s %s (panic %v)", label, q.method, q.key, class, c13Short(val), pan)
			}
			ref[label+"|"+q.method+"|"+q.key] = val
		}
	}
	return ref, nil
}

type c13Role struct {
	role  string // config key
	file  string // file kind label
	path  string // complete file (or the file inside the gsfa dir)
	inDir string // gsfa: name inside the dir
	cuts  func(full []byte) (map[int]bool, []c13Region)
}

func (r *c13Run) sectionEpoch(w *c13World) {
	t := w.A.Truth
	ctx := context.Background()
	rpcs := c13RPCs(w)
	// reference: the complete epoch (alone, and next to epoch B)
	w.B.writeConfig(vkConfigOpts{Name: "c13-B"})
	epB, err := vkLoadEpoch(w.B.ConfigPath, c13NewCache())
	if err != nil {
		r.R.Internal("load B: %v", err)
		return
	}
	defer epB.Close()
	gref, err := c13GsfaReference(w)
	if err != nil {
		r.R.Internal("%v", err)
		return
	}
	run := func(ep *Epoch, two bool, f func(label string, h func(*fasthttp.RequestCtx))) {
		label := "one-epoch"
		eps := []*Epoch{ep}
		if two {
			label = "two-epochs"
			eps = append(eps, epB)
		}
		f(label, newMultiEpochHandler(vkNewMulti(2, eps...), nil))
	}
	rpcRef, err := r.rpcReference(w, epB, rpcs)
	if err != nil {
		r.R.Internal("%v", err)
		return
	}
	mkAll := func(full []byte) (map[int]bool, []c13Region) {
		set := map[int]bool{}
		for c := 0; c <= len(full); c++ {
			set[c] = true
		}
		return set, c13CompactRegions(full)
	}
	roles := []c13Role{
		{role: "cid_to_offset_and_size", file: "cid-to-offset-and-size", path: w.A.Paths.CidToOffsetAndSize, cuts: mkAll},
		{role: "slot_to_cid", file: "slot-to-cid", path: w.A.Paths.SlotToCid, cuts: mkAll},
		{role: "sig_to_cid", file: "sig-to-cid", path: w.A.Paths.SignatureToCid, cuts: mkAll},
		{role: "gsfa", file: "gsfa-pubkey-index", path: filepath.Join(w.A.GsfaDir, w.gsfaPk), inDir: w.gsfaPk, cuts: mkAll},
		{role: "gsfa", file: "gsfa-linked-log", path: filepath.Join(w.A.GsfaDir, "linked-log"), inDir: "linked-log", cuts: func(full []byte) (map[int]bool, []c13Region) {
			set, _ := mkAll(full)
			return set, []c13Region{{len(full), "records"}}
		}},
		{role: "gsfa", file: "gsfa-manifest", path: filepath.Join(w.A.GsfaDir, "manifest"), inDir: "manifest", cuts: func(full []byte) (map[int]bool, []c13Region) {
			set, _ := mkAll(full)
			return set, c13ManifestRegions(full)
		}},
		{role: "sig_exists", file: "sig-exists", path: w.A.Paths.SignatureExists, cuts: func(full []byte) (map[int]bool, []c13Region) {
			s, err := c13ParseSigExists(w)
			if err != nil {
				return nil, nil
			}
			return s.bounds, s.regs
		}},
		{role: "slot_to_blocktime", file: "slot-to-blocktime", path: w.A.Paths.SlotToBlocktime, cuts: func(full []byte) (map[int]bool, []c13Region) {
			size := len(full)
			set := map[int]bool{}
			c13Around(set, size, 0, 14, 22, 30, 38, 46, size)
			for _, b := range t.Blocks {
				o := 46 + 4*int(b.Slot-t.Epoch*cargen.SlotsPerEpoch)
				c13Around(set, size, o, o+4)
			}
			return set, []c13Region{{14, "magic"}, {22, "start"}, {30, "end"}, {38, "epoch"}, {46, "capacity"}, {size - 4, "values"}, {size, "last-value"}}
		}},
	}
	// every-offset files are thinned in the quick tier for the expensive handler part: the loader and the
	// Epoch-level lookups run at every enumerated cut, the JSON-RPC requests at every cut as well (they are cheap enough).
	gdir := filepath.Join(r.base, "cut-epoch-gsfa")
	for _, role := range roles {
		full := c13MustRead(role.path)
		size := len(full)
		set, regs := role.cuts(full)
		if set == nil {
			r.R.Internal("cannot compute cuts for %s", role.file)
			return
		}
		var p string
		over := map[string]string{}
		if role.inDir != "" {
			c13GsfaScratch(w, gdir)
			p = filepath.Join(gdir, role.inDir)
			over["gsfa"] = gdir
		} else {
			p = filepath.Join(r.base, "cut-epoch-"+role.file+".index")
			c13CopyFile(p, role.path)
			over[role.role] = p
		}
		cfg := w.A.writeConfig(vkConfigOpts{Name: "c13-epoch-" + role.file, Overrides: over})
		r.R.Bounds["epoch-level-cuts:"+role.file] = len(set)
		for _, cut := range c13Sorted(set, true) {
			if !r.take("epoch", role.file, cut) {
				continue
			}
			if r.replay != nil {
				if role.inDir != "" {
					c13GsfaScratch(w, gdir)
				} else {
					c13CopyFile(p, role.path)
				}
			}
			if err := os.Truncate(p, int64(cut)); err != nil {
				r.R.Internal("truncate: %v", err)
				return
			}
			region := c13RegionOf(regs, cut)
			cs := func(key string) c13Case {
				return c13Case{Section: "epoch", File: role.file, Cut: cut, Key: key, Size: size}
			}
			var ep *Epoch
			oo := c13Do(func() (string, error) {
				var err error
				ep, err = vkLoadEpoch(cfg, c13NewCache())
				if err != nil {
					return "", err
				}
				return "loaded", nil
			})
			r.judge(cs("<open>"), "NewEpochFromConfig.open", region, "loaded", oo)
			if ep == nil || oo.pan != "" {
				continue
			}
			// Epoch-level lookups that go through the cut file
			switch role.role {
			case "cid_to_offset_and_size":
				for i := range t.Objects {
					o := &t.Objects[i]
					out := c13Do(func() (string, error) {
						oas, err := ep.FindOffsetAndSizeFromCid(ctx, o.Cid)
						if err != nil {
							return "", err
						}
						return fmt.Sprintf("offset=%d size=%d", oas.Offset, oas.Size), nil
					})
					r.judge(cs(o.Cid.String()), "Epoch.FindOffsetAndSizeFromCid", region, fmt.Sprintf("offset=%d size=%d", o.Offset, o.SectionLen), out, "offset=0 size=0")
				}
			case "slot_to_cid":
				for _, b := range t.Blocks {
					b := b
					out := c13Do(func() (string, error) {
						c, err := ep.FindCidFromSlot(ctx, b.Slot)
						return c.String(), err
					})
					r.judge(cs(fmt.Sprint(b.Slot)), "Epoch.FindCidFromSlot", region, b.Cid.String(), out, cid.Undef.String())
				}
			case "sig_to_cid":
				for _, tx := range t.Txs {
					tx := tx
					out := c13Do(func() (string, error) {
						c, err := ep.FindCidFromSignature(ctx, tx.Sig)
						return c.String(), err
					})
					r.judge(cs(tx.Sig.String()), "Epoch.FindCidFromSignature", region, tx.Cid.String(), out, cid.Undef.String())
				}
			case "sig_exists":
				for _, tx := range t.Txs {
					tx := tx
					out := c13Do(func() (string, error) {
						has, err := ep.sigExists.Has(tx.Sig)
						return fmt.Sprint(has), err
					})
					r.judge(cs(tx.Sig.String()), "Epoch.sigExists.Has", region, "true", out, "false")
				}
			case "slot_to_blocktime":
				for _, b := range t.Blocks {
					b := b
					out := c13Do(func() (string, error) {
						v, err := ep.GetBlocktime(b.Slot)
						return fmt.Sprint(v), err
					})
					r.judge(cs(fmt.Sprint(b.Slot)), "Epoch.GetBlocktime", region, fmt.Sprint(b.Blocktime), out, "0")
				}
			case "gsfa":
				for i, a := range w.addrs {
					a := a
					out := c13Do(func() (string, error) { return c13GsfaGet(ep.gsfaReader, a) })
					r.judge(cs(a.String()), "Epoch.gsfaReader.Get", region, gref.refs[i], out, "0:")
				}
			}
			// JSON-RPC through the real handler
			for _, two := range []bool{false, true} {
				run(ep, two, func(label string, h func(*fasthttp.RequestCtx)) {
					r.rpcAll(cs, region, ep, label, h, rpcs, rpcRef)
				})
			}
			ep.Close()
			if cut%503 == 0 {
				r.R.Sample(c13Case{Section: "epoch", File: role.file, Cut: cut, Size: size, Key: "every stored key + 8 JSON-RPC requests x {one epoch, two epochs}"})
			}
		}
		if role.inDir != "" {
			os.RemoveAll(gdir)
		} else {
			os.Remove(p)
		}
	}
}

func TestVerif_C13(t *testing.T) {
	silenceKlog()
	R := vkit.New("C13")
	vkRequestWatchdog = 120 * time.Second // a request that never returns is a finding, not a worker timeout
	defer R.Finish()
	base := vkBase("c13")
	defer os.RemoveAll(base)
	R.Rule = c13Rule
	run := &c13Run{R: R, base: base}
	if rp := vkit.ReplayRequest(); rp != nil {
		var cs c13Case
		remarshal(rp["case"], &cs)
		run.replay = &cs
		t.Logf("replay %+v", cs)
	}
	tb := time.Now()
	w, err := c13Build(base)
	R.Add("section-ms:build-epochs", time.Since(tb).Milliseconds())
	if err != nil {
		R.Internal("cannot build the epochs: %v", err)
		return
	}
	R.Bounds["blocks"] = len(w.A.Truth.Blocks)
	R.Bounds["transactions"] = len(w.A.Truth.Txs)
	R.Bounds["objects"] = len(w.A.Truth.Objects)
	R.Bounds["addresses"] = len(w.addrs)
	R.Assume("the generated CAR and its ground truth (cargen) are correct; the complete files' answers are taken from the same readers on the complete files and cross-checked against the ground truth")
	sections := []struct {
		name string
		f    func(*c13World)
	}{
		{"compact", run.sectionCompact}, {"legacy", run.sectionLegacy}, {"sigexists", run.sectionSigExists}, {"blocktime", run.sectionBlocktime},
		{"gsfa", run.sectionGsfa}, {"car", run.sectionCar}, {"epoch", run.sectionEpoch},
	}
	only := os.Getenv("C13_ONLY")
	for _, s := range sections {
		if only != "" && !strings.Contains(only, s.name) {
			continue
		}
		if run.replay != nil && !strings.HasPrefix(run.replay.Section, s.name) {
			continue
		}
		t0 := time.Now()
		s.f(w)
		R.Add("section-ms:"+s.name, time.Since(t0).Milliseconds())
	}
	if run.replay != nil {
		for k, v := range R.Violations {
			t.Logf("replay: %s: %s", k, v.What)
		}
	}
}
