//go:build verif

package main

import (
	"context"
	"encoding/json"
	"fmt"
	"github.com/ipfs/go-cid"
	"os"
	"path/filepath"
	"strings"
	"testing"
	"time"

	old_faithful_grpc "github.com/rpcpool/yellowstone-faithful/old-faithful-proto/old-faithful-grpc"
	"github.com/rpcpool/yellowstone-faithful/zzverif/cargen"
	"github.com/rpcpool/yellowstone-faithful/zzverif/explore"
	"github.com/rpcpool/yellowstone-faithful/zzverif/vkit"
	"github.com/rpcpool/yellowstone-faithful/zzverif/vsched"
	"github.com/valyala/fasthttp"
	"google.golang.org/protobuf/proto"
)

// C09 (family 2): a real JSON-RPC request on a loaded epoch E1 runs concurrently with a reload
// thread that adds / replaces / removes another epoch E2 (multiepoch.go, first-success.go and
// errgroup instrumented). Every interleaving within the preemption bound is executed. Oracle: no
// deadlock, the request returns, and its response equals the response of an idle server (for
// requests addressed to E1) or one of the idle responses before/after the reload (getSlot,
// getFirstAvailableBlock, which look at the epoch set).

type c09hScenario struct {
	Query   string `json:"query"`
	Writer  string `json:"writer"`
	StartE2 bool   `json:"e2_loaded_at_start"`
}

func TestVerif_C09_Handlers(t *testing.T) {
	silenceKlog()
	R := vkit.New("C09")
	defer R.Finish()
	base := vkBase("c09h")
	defer os.RemoveAll(base)
	R.Rule = "family 2: scenario = one real request (JSON-RPC getBlock / getTransaction / getBlockTime / getSignaturesForAddress on epoch E1, getSlot, getFirstAvailableBlock; gRPC GetBlock / GetTransaction / StreamBlocks / index-accelerated StreamTransactions with two per-account workers on E1) ; StreamTransactions with two workers and getBlock addressed to E2 itself, for which only completion is demanded) x one reload operation on epoch E2 (AddEpoch, ReplaceOrAddEpoch, RemoveEpoch, RemoveEpochByConfigFilepath, Add then Remove) x E2 loaded at start or not; all interleavings within preemption bound 2 (thorough 3) with happens-before pruning; response compared with the idle-server response(s); probe family: GetEpoch(2) + FindCidFromSlot through the returned object while epoch 2 is replaced by another version of itself with a warm shared cache, all interleavings: the CID is the one of the object's own CAR"
	e1, err := vkBuildEpoch(filepath.Join(base, "e1"), cargen.SimpleShape(1, 5, 3, 2), true)
	if err != nil {
		R.Internal("build e1: %v", err)
		return
	}
	e2, err := vkBuildEpoch(filepath.Join(base, "e2"), cargen.SimpleShape(2, 3, 2, 1), true)
	if err != nil {
		R.Internal("build e2: %v", err)
		return
	}
	e1.writeConfig(vkConfigOpts{})
	e2.writeConfig(vkConfigOpts{})
	cache := vkNewCache()
	ep1, err := vkLoadEpoch(e1.ConfigPath, cache)
	if err != nil {
		R.Internal("load e1: %v", err)
		return
	}
	defer ep1.Close()
	queries := map[string]string{
		"getBlock":       fmt.Sprintf(`{"jsonrpc":"2.0","id":1,"method":"getBlock","params":[%d,{"encoding":"base64"}]}`, e1.Truth.Blocks[1].Slot),
		"getTransaction": fmt.Sprintf(`{"jsonrpc":"2.0","id":1,"method":"getTransaction","params":[%q,{"encoding":"base64"}]}`, e1.Truth.Txs[2].Sig.String()),
		"getBlockTime":   fmt.Sprintf(`{"jsonrpc":"2.0","id":1,"method":"getBlockTime","params":[%d]}`, e1.Truth.Blocks[0].Slot),
		// an address that has history in E1 only (E2's address index answers "not found" for it)
		"getSignaturesForAddress": fmt.Sprintf(`{"jsonrpc":"2.0","id":1,"method":"getSignaturesForAddress","params":[%q,{"limit":5}]}`, cargen.Account(2).String()),
		// an address with history in E1 and in E2: addressed to the epoch being reloaded as well (completion only)
		"getSignaturesForAddress@E2": fmt.Sprintf(`{"jsonrpc":"2.0","id":1,"method":"getSignaturesForAddress","params":[%q,{"limit":5}]}`, cargen.Account(0).String()),
		"getSlot":                    `{"jsonrpc":"2.0","id":1,"method":"getSlot"}`,
		"getFirstAvailableBlock":     `{"jsonrpc":"2.0","id":1,"method":"getFirstAvailableBlock"}`,
	}
	qnames := []string{"getBlock", "getTransaction", "getBlockTime", "getSignaturesForAddress", "getSlot", "getFirstAvailableBlock",
		"grpc:GetBlock", "grpc:GetTransaction", "grpc:StreamTransactions(2 accounts)", "grpc:StreamBlocks",
		// addressed to E2, the epoch being reloaded: the statement only demands that the operation completes
		"grpc:StreamTransactions@E2(2 accounts)", "getBlock@E2", "getSignaturesForAddress@E2"}
	onE2 := func(q string) bool { return strings.Contains(q, "@E2") }
	// ask performs one query against m and renders its answer as a string (panics are returned, not raised)
	ask := func(q string, m *MultiEpoch, h func(*fasthttp.RequestCtx)) (resp []byte, pan interface{}) {
		if body, ok := queries[q]; ok {
			_, r, p := vkRPCh(h, body)
			return r, p
		}
		defer func() {
			if r := recover(); r != nil {
				pan = r
			}
		}()
		ctx := context.Background()
		render := func(err error, parts ...string) []byte {
			if err != nil {
				return []byte("error: " + err.Error())
			}
			return []byte(strings.Join(parts, ","))
		}
		switch q {
		case "grpc:GetBlock":
			r, err := m.GetBlock(ctx, &old_faithful_grpc.BlockRequest{Slot: e1.Truth.Blocks[1].Slot})
			if err != nil {
				return render(err), nil
			}
			b, _ := proto.MarshalOptions{Deterministic: true}.Marshal(r)
			return []byte(vkit.Hash(string(b))), nil
		case "grpc:GetTransaction":
			r, err := m.GetTransaction(ctx, &old_faithful_grpc.TransactionRequest{Signature: e1.Truth.Txs[2].Sig[:]})
			if err != nil {
				return render(err), nil
			}
			b, _ := proto.MarshalOptions{Deterministic: true}.Marshal(r)
			return []byte(vkit.Hash(string(b))), nil
		case "grpc:StreamTransactions(2 accounts)":
			end := e1.Truth.Blocks[len(e1.Truth.Blocks)-1].Slot
			st := &vkTxStream{vkStreamBase: vkBase0()}
			err := m.StreamTransactions(&old_faithful_grpc.StreamTransactionsRequest{StartSlot: e1.Truth.Blocks[0].Slot, EndSlot: &end,
				Filter: &old_faithful_grpc.StreamTransactionsFilter{AccountInclude: []string{cargen.Account(0).String(), cargen.Account(1).String()}}}, st)
			var parts []string
			for _, g := range st.Got {
				if g.Transaction != nil {
					parts = append(parts, vkit.Hash(string(g.Transaction.Transaction))[:8])
				}
			}
			return render(err, parts...), nil
		case "grpc:StreamTransactions@E2(2 accounts)":
			end := e2.Truth.Blocks[len(e2.Truth.Blocks)-1].Slot
			st := &vkTxStream{vkStreamBase: vkBase0()}
			err := m.StreamTransactions(&old_faithful_grpc.StreamTransactionsRequest{StartSlot: e2.Truth.Blocks[0].Slot, EndSlot: &end,
				Filter: &old_faithful_grpc.StreamTransactionsFilter{AccountInclude: []string{cargen.Account(0).String(), cargen.Account(1).String()}}}, st)
			return render(err, fmt.Sprint(len(st.Got))), nil
		case "getBlock@E2":
			_, r, p := vkRPCh(h, fmt.Sprintf(`{"jsonrpc":"2.0","id":1,"method":"getBlock","params":[%d,{"encoding":"base64"}]}`, e2.Truth.Blocks[0].Slot))
			return r, p
		case "grpc:StreamBlocks":
			end := e1.Truth.Blocks[2].Slot
			st := &vkBlockStream{vkStreamBase: vkBase0()}
			err := m.StreamBlocks(&old_faithful_grpc.StreamBlocksRequest{StartSlot: e1.Truth.Blocks[0].Slot, EndSlot: &end}, st)
			var parts []string
			for _, g := range st.Got {
				parts = append(parts, fmt.Sprint(g.Slot))
			}
			return render(err, parts...), nil
		}
		return []byte("unknown query " + q), nil
	}
	writers := []string{"AddEpoch", "ReplaceOrAddEpoch", "RemoveEpoch", "RemoveEpochByConfigFilepath", "Add-then-Remove"}
	strip := func(b []byte) string { return string(b) }
	// idle responses with {E1} and with {E1,E2}
	idle := map[string]map[string]bool{}
	for _, withE2 := range []bool{false, true} {
		m := vkNewMulti(2, ep1)
		if withE2 {
			ep2, err := vkLoadEpoch(e2.ConfigPath, cache)
			if err != nil {
				R.Internal("load e2: %v", err)
				return
			}
			m.AddEpoch(2, ep2)
			defer ep2.Close()
		}
		h := newMultiEpochHandler(m, nil)
		for _, q := range qnames {
			resp, pan := ask(q, m, h)
			if pan != nil {
				R.Internal("idle %s panicked: %v", q, pan)
				return
			}
			if idle[q] == nil {
				idle[q] = map[string]bool{}
			}
			idle[q][strip(resp)] = true
		}
	}
	master2, err := vkLoadEpoch(e2.ConfigPath, cache)
	if err != nil {
		R.Internal("load e2: %v", err)
		return
	}
	defer master2.Close()
	bound := 2
	if vkit.Thorough() {
		bound = 3
	}
	R.Bounds["handler_preemption_bound"] = bound
	var scs []c09hScenario
	for _, q := range qnames {
		for _, w := range writers {
			for _, s := range []bool{false, true} {
				if (w == "AddEpoch" || w == "Add-then-Remove") && s {
					continue
				}
				if (w == "RemoveEpoch" || w == "RemoveEpochByConfigFilepath") && !s {
					continue
				}
				scs = append(scs, c09hScenario{q, w, s})
			}
		}
	}
	R.Bounds["handler_scenarios"] = len(scs)
	run := func(sc c09hScenario, c *explore.Ctx) explore.Result {
		var resp []byte
		var pan interface{}
		returned := false
		// fresh E2 objects per execution (reload operations close them)
		load2 := func() *Epoch {
			// a shallow copy of the loaded E2 whose Close is a no-op (the files stay owned by the
			// master object), so that reload operations may "close" it in every execution
			cp := *master2
			cp.onClose = nil
			return &cp
		}
		var toClose []*Epoch
		s := vsched.Run(c, vsched.Options{Horizon: 6000, Drain: true}, func() {
			m := vkNewMulti(2, ep1)
			if sc.StartE2 {
				ep := load2()
				toClose = append(toClose, ep)
				m.AddEpoch(2, ep)
			}
			var fresh *Epoch
			if sc.Writer != "RemoveEpoch" && sc.Writer != "RemoveEpochByConfigFilepath" {
				fresh = load2()
				toClose = append(toClose, fresh)
			}
			h := newMultiEpochHandler(m, nil)
			done := make(chan struct{}, 2)
			vsched.Go(func() {
				resp, pan = ask(sc.Query, m, h)
				returned = true
				vsched.Send(done, struct{}{})
			})
			vsched.Go(func() {
				switch sc.Writer {
				case "AddEpoch":
					m.AddEpoch(2, fresh)
				case "ReplaceOrAddEpoch":
					m.ReplaceOrAddEpoch(2, fresh)
				case "RemoveEpoch":
					m.RemoveEpoch(2)
				case "RemoveEpochByConfigFilepath":
					m.RemoveEpochByConfigFilepath(e2.ConfigPath)
				case "Add-then-Remove":
					m.AddEpoch(2, fresh)
					m.RemoveEpoch(2)
				}
				vsched.Send(done, struct{}{})
			})
			vsched.Recv(done)
			vsched.Recv(done)
		})
		for _, ep := range toClose {
			ep.Close()
		}
		if c.Pruned {
			return explore.Result{}
		}
		res := explore.Result{NonTrivial: s.Preemptions > 0}
		bad := func(key, what string) {
			if res.Violation == nil {
				res.Violation = &explore.Violation{Key: "C09|handler|" + key, What: what}
			}
		}
		switch {
		case s.Panic != "":
			if strings.Contains(s.Panic, "replay divergence") {
				panic(s.Panic)
			}
			res.Outcome = "panic"
			bad("panic|"+sc.Query, "panicked: "+firstLine(s.Panic))
		case s.Deadlock:
			res.Outcome = "deadlock"
			bad("deadlock|"+sc.Query, fmt.Sprintf("%s concurrent with %s never completes: %s", sc.Query, sc.Writer, s.DeadlockInfo))
		case s.HorizonHit:
			res.Outcome = "horizon"
		case pan != nil:
			res.Outcome = "handler-panic"
			bad("panic|"+sc.Query, fmt.Sprintf("%s panicked: %v", sc.Query, pan))
		case !returned:
			res.Outcome = "no-return"
			bad("no-return|"+sc.Query, "request did not return")
		default:
			res.Outcome = vkit.Hash(string(resp))
			if onE2(sc.Query) {
				break // E2 does not stay loaded for the whole query: only completion is demanded
			}
			if !idle[sc.Query][strip(resp)] {
				bad("differs-from-idle|"+sc.Query, fmt.Sprintf("%s concurrent with %s answered %q; an idle server answers one of %v", sc.Query, sc.Writer, resp, keysOf(idle[sc.Query])))
			}
		}
		return res
	}
	// ---- probe during a replacement: epoch 2 is replaced by another version of itself (same slots, other blocks, hence
	// other CIDs) while a reader does what every handler does first - GetEpoch(2), then the slot's CID through the
	// epoch object it was given. The shared cache has been warmed through the old version. Whatever object the
	// reader gets stays loaded (or is closed under it, then an error is fine); the CID it is told must be the one of
	// THAT object's CAR - never the other version's, which is what a look-up cached through the old object would say.
	if vkit.Mine(int64(len(scs)) + 1) {
		shv2 := cargen.SimpleShape(2, 3, 2, 2) // the same slots as e2, one more transaction per block
		e2v2, err := vkBuildEpoch(filepath.Join(base, "e2v2"), shv2, true)
		if err != nil {
			R.Internal("build e2v2: %v", err)
			return
		}
		e2v2.writeConfig(vkConfigOpts{})
		probeCache := vkNewCache()
		mOld, err1 := vkLoadEpoch(e2.ConfigPath, probeCache)
		mNew, err2 := vkLoadEpoch(e2v2.ConfigPath, probeCache)
		p1, err3 := vkLoadEpoch(e1.ConfigPath, probeCache)
		if err1 != nil || err2 != nil || err3 != nil {
			R.Internal("load: %v %v %v", err1, err2, err3)
			return
		}
		slot := e2.Truth.Blocks[1].Slot
		cidOld, cidNew := e2.Truth.Blocks[1].Cid, e2v2.Truth.Blocks[1].Cid
		if cidOld.Equals(cidNew) || e2v2.Truth.Blocks[1].Slot != slot {
			R.Internal("generator: the two versions of epoch 2 do not differ as intended")
			return
		}
		for _, writer := range []string{"ReplaceOrAddEpoch", "RemoveEpochByConfigFilepath+AddEpoch"} {
			writer := writer
			probe := func(c *explore.Ctx) explore.Result {
				if r, ok := interface{}(probeCache).(interface{ Reset() error }); ok {
					r.Reset()
				}
				oldCopy, newCopy := *mOld, *mNew
				oldCopy.onClose, newCopy.onClose = nil, nil
				old, fresh := &oldCopy, &newCopy
				old.FindCidFromSlot(context.Background(), slot) // warm the shared cache through the old version
				var got, after string
				var gotFrom, afterFrom *Epoch
				var gerr, afterErr error
				s := vsched.Run(c, vsched.Options{Horizon: 4000, Drain: true}, func() {
					m := vkNewMulti(2, p1, old)
					done := make(chan struct{}, 2)
					vsched.Go(func() {
						ep, err := m.GetEpoch(2)
						if err == nil {
							gotFrom = ep
							vsched.Yield("handler-work") // a handler does other things between the two steps
							var cc cid.Cid
							cc, gerr = ep.FindCidFromSlot(context.Background(), slot)
							got = cc.String()
						} else {
							gerr = err
						}
						vsched.Send(done, struct{}{})
					})
					vsched.Go(func() {
						if writer == "ReplaceOrAddEpoch" {
							m.ReplaceOrAddEpoch(2, fresh)
						} else {
							m.RemoveEpochByConfigFilepath(e2.ConfigPath)
							m.AddEpoch(2, fresh)
						}
						vsched.Send(done, struct{}{})
					})
					vsched.Recv(done)
					vsched.Recv(done)
					// both have returned: the new version is loaded and stays loaded; what does a request say now?
					if ep, err := m.GetEpoch(2); err == nil {
						cc, err := ep.FindCidFromSlot(context.Background(), slot)
						afterFrom, after, afterErr = ep, cc.String(), err
					} else {
						afterErr = err
					}
				})
				if c.Pruned {
					return explore.Result{}
				}
				res := explore.Result{NonTrivial: s.Preemptions > 0}
				switch {
				case s.Panic != "":
					if strings.Contains(s.Panic, "replay divergence") {
						panic(s.Panic)
					}
					res.Outcome = "panic"
					res.Violation = &explore.Violation{Key: "C09|probe|panic", What: firstLine(s.Panic)}
				case s.Panic == "" && !s.Deadlock && !s.HorizonHit && (afterFrom != fresh || afterErr != nil || after != cidNew.String()):
					res.Outcome = "stale-after-reload"
					res.Violation = &explore.Violation{Key: "C09|probe|stale-after-the-reload-returned|" + writer, What: fmt.Sprintf("after %s and the concurrent reader had both returned, GetEpoch(2) + FindCidFromSlot(%d) answered %s err=%v; the loaded version's block is %s (the reader that still held the old object has put its look-up into the shared cache after the reload had emptied it)", writer, slot, after, afterErr, cidNew)}
				case s.Deadlock:
					res.Outcome = "deadlock"
					res.Violation = &explore.Violation{Key: "C09|probe|deadlock", What: s.DeadlockInfo}
				case s.HorizonHit:
					res.Outcome = "horizon"
				case gerr != nil:
					res.Outcome = "error"
				case gotFrom == old && got == cidOld.String():
					res.Outcome = "old-version:its-cid"
				case gotFrom == fresh && got == cidNew.String():
					res.Outcome = "new-version:its-cid"
				default:
					which := "the new"
					if gotFrom == old {
						which = "the old"
					}
					res.Outcome = "other-versions-cid"
					res.Violation = &explore.Violation{Key: "C09|probe|cid-of-the-other-version|" + writer, What: fmt.Sprintf("GetEpoch(2) returned %s version of epoch 2 while %s was replacing it; FindCidFromSlot(%d) through that object answered %s, which is the block of the OTHER version's CAR (old version %s, new version %s): a look-up cached through the old object was served for the new one", which, writer, slot, got, cidOld, cidNew)}
				}
				return res
			}
			st := explore.Search(explore.Config{Bound: -1, Deadline: R.Deadline(), Prune: true}, probe)
			R.Evaluations += st.Executions
			R.NonTrivial += st.NonTrivial
			R.Transitions += st.Points
			R.TracesValidated += st.Executions
			R.States += st.States
			R.Add("probe_scenarios_done", 1)
			for o := range st.Outcomes {
				R.Outcome("probe:" + writer + ":" + o)
			}
			for _, f := range st.Violations {
				if ok, why := explore.Confirm(f, 3, probe); !ok {
					R.InconclusiveF("violation %s did not reproduce: %s", f.Violation.Key, why)
					continue
				}
				R.Violation(f.Violation.Key, f.Violation.What, map[string]interface{}{"family": "probe-during-replacement", "writer": writer, "choices": f.Choices})
				break
			}
		}
		for _, ep := range []*Epoch{mOld, mNew, p1} {
			ep.Close()
		}
	}
	// ---- getSignaturesForAddress while the epoch is replaced by another version with the SAME LAYOUT but other
	// transactions at the same offsets (the accounts are rotated): the handler reads the address's locations from the
	// old version's address index; whatever it then reads them from, the request is not addressed to an epoch that
	// stays loaded (an error reply is fine), but C03 has no exception for reloads: no signature of a transaction that
	// does not mention the address.
	if vkit.Mine(int64(len(scs)) + 2) {
		shA := cargen.SimpleShape(2, 3, 6, 1)
		shB := cargen.SimpleShape(2, 3, 6, 1)
		shB.Seed = 77 // other signatures (and block hashes) than version A, same sizes
		for b := range shB.Blocks {
			for k := range shB.Blocks[b].Entries[0] {
				shB.Blocks[b].Entries[0][k].Accounts = []int{(b + k + 1) % 3}
			}
		}
		eA, errA := vkBuildEpoch(filepath.Join(base, "gA"), shA, true)
		eB, errB := vkBuildEpoch(filepath.Join(base, "gB"), shB, true)
		if errA != nil || errB != nil {
			R.Internal("build: %v %v", errA, errB)
			return
		}
		eA.writeConfig(vkConfigOpts{})
		eB.writeConfig(vkConfigOpts{})
		gc := vkNewCache()
		mA, err1 := vkLoadEpoch(eA.ConfigPath, gc)
		mB, err2 := vkLoadEpoch(eB.ConfigPath, gc)
		g1, err3 := vkLoadEpoch(e1.ConfigPath, gc)
		if err1 != nil || err2 != nil || err3 != nil {
			R.Internal("load: %v %v %v", err1, err2, err3)
			return
		}
		addr := cargen.Account(0)
		own := map[string]bool{}
		for _, e := range []*vEpoch{eA, eB, e1} {
			for _, tx := range e.Truth.Txs {
				for _, k := range tx.Accounts {
					if k == addr {
						own[tx.Sig.String()] = true
					}
				}
			}
		}
		body := fmt.Sprintf(`{"jsonrpc":"2.0","id":1,"method":"getSignaturesForAddress","params":[%q,{"limit":10}]}`, addr.String())
		gsfaProbe := func(c *explore.Ctx) explore.Result {
			if r, ok := interface{}(gc).(interface{ Reset() error }); ok {
				r.Reset()
			}
			oldCopy, newCopy := *mA, *mB
			oldCopy.onClose, newCopy.onClose = nil, nil
			old, fresh := &oldCopy, &newCopy
			var resp []byte
			var pan interface{}
			s := vsched.Run(c, vsched.Options{Horizon: 6000, Drain: true}, func() {
				m := vkNewMulti(2, g1, old)
				h := newMultiEpochHandler(m, nil)
				done := make(chan struct{}, 2)
				vsched.Go(func() {
					_, resp, pan = vkRPCh(h, body)
					vsched.Send(done, struct{}{})
				})
				vsched.Go(func() {
					m.ReplaceOrAddEpoch(2, fresh)
					vsched.Send(done, struct{}{})
				})
				vsched.Recv(done)
				vsched.Recv(done)
			})
			if c.Pruned {
				return explore.Result{}
			}
			res := explore.Result{NonTrivial: s.Preemptions > 0}
			switch {
			case s.Panic != "":
				if strings.Contains(s.Panic, "replay divergence") {
					panic(s.Panic)
				}
				res.Outcome = "panic"
				res.Violation = &explore.Violation{Key: "C09|gsfa-during-replacement|panic", What: firstLine(s.Panic)}
			case s.Deadlock:
				res.Outcome = "deadlock"
				res.Violation = &explore.Violation{Key: "C09|gsfa-during-replacement|deadlock", What: s.DeadlockInfo}
			case s.HorizonHit:
				res.Outcome = "horizon"
			case pan != nil:
				res.Outcome = "handler-panic"
				res.Violation = &explore.Violation{Key: "C09|gsfa-during-replacement|panic", What: fmt.Sprint(pan)}
			default:
				var m struct {
					Result []map[string]interface{} `json:"result"`
				}
				json.Unmarshal(resp, &m)
				foreign := ""
				for _, r := range m.Result {
					if sg, _ := r["signature"].(string); !own[sg] && foreign == "" {
						foreign = sg
					}
				}
				res.Outcome = fmt.Sprintf("signatures=%d", len(m.Result))
				if foreign != "" {
					res.Outcome = "foreign-signature"
					res.Violation = &explore.Violation{Key: "C09|gsfa-during-replacement|foreign-signature", What: fmt.Sprintf("getSignaturesForAddress(%s) while epoch 2 is replaced by a version with other transactions at the same offsets: the answer lists %d signatures, among them %s, whose transaction does not mention the address in either version (locations from the old version's address index were read from the new version's CAR)", addr, len(m.Result), foreign)}
				}
			}
			return res
		}
		st := explore.Search(explore.Config{Bound: bound, Deadline: R.Deadline(), Prune: true}, gsfaProbe)
		R.Evaluations += st.Executions
		R.NonTrivial += st.NonTrivial
		R.Transitions += st.Points
		R.TracesValidated += st.Executions
		R.States += st.States
		R.Add("gsfa_probe_executions", st.Executions)
		for o := range st.Outcomes {
			R.Outcome("gsfa-during-replacement:" + o)
		}
		for _, f := range st.Violations {
			if ok, why := explore.Confirm(f, 3, gsfaProbe); !ok {
				R.InconclusiveF("violation %s did not reproduce: %s", f.Violation.Key, why)
				continue
			}
			R.Violation(f.Violation.Key, f.Violation.What, map[string]interface{}{"family": "gsfa-during-replacement", "choices": f.Choices})
			break
		}
		for _, ep := range []*Epoch{mA, mB, g1} {
			ep.Close()
		}
	}
	// ---- the same, with the new layout REGENERATED IN PLACE: same paths, same root CID, same index file names (only
	// the CAR header is encoded one byte longer, so every offset moves); the watcher sees a touched config file
	if vkit.Mine(int64(len(scs)) + 3) {
		shp := cargen.SimpleShape(2, 3, 2, 1)
		dirp := filepath.Join(base, "inplace")
		ea, err := vkBuildEpoch(dirp, shp, false)
		if err != nil {
			R.Internal("build in-place epoch: %v", err)
			return
		}
		cfgp := ea.writeConfig(vkConfigOpts{NoGsfa: true})
		var bodies []string
		for _, b := range ea.Truth.Blocks {
			bodies = append(bodies, fmt.Sprintf(`{"jsonrpc":"2.0","id":1,"method":"getBlock","params":[%d,{"encoding":"base64"}]}`, b.Slot))
		}
		for _, tx := range ea.Truth.Txs {
			bodies = append(bodies, fmt.Sprintf(`{"jsonrpc":"2.0","id":1,"method":"getTransaction","params":[%q,{"encoding":"base64"}]}`, tx.Sig.String()))
		}
		answers := func(m *MultiEpoch) []string {
			h := newMultiEpochHandler(m, nil)
			var out []string
			for _, b := range bodies {
				_, resp, pan := vkRPC(h, b)
				if pan != nil {
					out = append(out, fmt.Sprintf("panic: %v", pan))
				} else {
					out = append(out, string(resp))
				}
			}
			return out
		}
		runCache := vkNewCache()
		r1, err1 := vkLoadEpoch(e1.ConfigPath, runCache)
		r2, err2 := vkLoadEpoch(cfgp, runCache)
		if err1 != nil || err2 != nil {
			R.Internal("load: %v %v", err1, err2)
			return
		}
		m := vkNewMulti(2, r1, r2)
		answers(m) // warm the shared cache through the first layout
		shp.HeaderWide = "header-wide-int"
		// (the old files are unlinked first: the running epoch keeps its open files, as with any tool that
		// writes a new file and renames it over the old one)
		os.Remove(ea.CarPath)
		os.RemoveAll(filepath.Join(dirp, "indexes"))
		eb, err := vkBuildEpoch(dirp, shp, false) // the same paths again
		if err != nil || !eb.Truth.Root.Equals(ea.Truth.Root) || eb.Paths.CidToOffsetAndSize != ea.Paths.CidToOffsetAndSize {
			R.Internal("regenerate in place: %v (root %s -> %s)", err, ea.Truth.Root, eb.Truth.Root)
			return
		}
		r2b, err := vkLoadEpoch(cfgp, runCache)
		if err != nil {
			R.Internal("load the regenerated epoch: %v", err)
			return
		}
		if err := m.ReplaceOrAddEpoch(2, r2b); err != nil {
			R.Internal("ReplaceOrAddEpoch: %v", err)
			return
		}
		got := answers(m)
		idleCache := vkNewCache()
		i1, err1 := vkLoadEpoch(e1.ConfigPath, idleCache)
		i2, err2 := vkLoadEpoch(cfgp, idleCache)
		if err1 != nil || err2 != nil {
			R.Internal("load: %v %v", err1, err2)
			return
		}
		want := answers(vkNewMulti(2, i1, i2))
		R.Case(true, "")
		wrong, firstWrong := 0, ""
		for i := range want {
			if got[i] != want[i] {
				wrong++
				if firstWrong == "" {
					firstWrong = fmt.Sprintf("%s answered %.200s (idle server: %.120s)", bodies[i], got[i], want[i])
				}
			}
		}
		R.Outcome(fmt.Sprintf("reload:regenerated-in-place:wrong=%d", wrong))
		if wrong > 0 {
			R.Violation("C09|reload|stale-after-regeneration-in-place", fmt.Sprintf("epoch 2 regenerated in place (same paths, same root CID, every offset moved by one byte) and reloaded with ReplaceOrAddEpoch after it had served requests: %d of %d requests addressed to it are then answered differently from an idle server; first: %s", wrong, len(want), firstWrong),
				map[string]interface{}{"family": "reload-history", "how": "regenerated-in-place"})
		}
		vkDrain(0)
		for _, ep := range []*Epoch{i1, i2, r1, r2, r2b} {
			ep.Close()
		}
	}
	// ---- sequential histories: an epoch is reloaded from a CAR with another layout (same blocks and CIDs, a longer
	// header, hence other offsets) while the server keeps running; once the reload has completed, requests addressed
	// to it must be answered as an idle server started with the new configuration answers them ----
	if vkit.Mine(int64(len(scs))) {
		sh2x := cargen.SimpleShape(2, 3, 2, 1)
		sh2x.RootSha512 = true
		e2x, err := vkBuildEpoch(filepath.Join(base, "e2x"), sh2x, true)
		if err != nil {
			R.Internal("build e2x: %v", err)
			return
		}
		e2x.writeConfig(vkConfigOpts{})
		var bodies []string
		for _, b := range e2.Truth.Blocks {
			bodies = append(bodies, fmt.Sprintf(`{"jsonrpc":"2.0","id":1,"method":"getBlock","params":[%d,{"encoding":"base64"}]}`, b.Slot))
		}
		for _, tx := range e2.Truth.Txs {
			bodies = append(bodies, fmt.Sprintf(`{"jsonrpc":"2.0","id":1,"method":"getTransaction","params":[%q,{"encoding":"base64"}]}`, tx.Sig.String()))
		}
		answers := func(m *MultiEpoch) []string {
			h := newMultiEpochHandler(m, nil)
			var out []string
			for _, b := range bodies {
				_, resp, pan := vkRPC(h, b)
				if pan != nil {
					out = append(out, fmt.Sprintf("panic: %v", pan))
				} else {
					out = append(out, string(resp))
				}
			}
			return out
		}
		for _, how := range []string{"ReplaceOrAddEpoch", "RemoveEpochByConfigFilepath+AddEpoch", "RemoveEpoch+AddEpoch"} {
			for _, order := range []string{"old-layout -> new-layout", "new-layout -> old-layout"} {
				first, second := e2, e2x
				if order == "new-layout -> old-layout" {
					first, second = e2x, e2
				}
				// the idle server of the second configuration (a cache of its own)
				idleCache := vkNewCache()
				i1, err1 := vkLoadEpoch(e1.ConfigPath, idleCache)
				i2, err2 := vkLoadEpoch(second.ConfigPath, idleCache)
				if err1 != nil || err2 != nil {
					R.Internal("load: %v %v", err1, err2)
					return
				}
				want := answers(vkNewMulti(2, i1, i2))
				// the running server: serves the first configuration, answers requests, then the epoch is reloaded
				runCache := vkNewCache()
				r1, err1 := vkLoadEpoch(e1.ConfigPath, runCache)
				r2, err2 := vkLoadEpoch(first.ConfigPath, runCache)
				r2b, err3 := vkLoadEpoch(second.ConfigPath, runCache)
				if err1 != nil || err2 != nil || err3 != nil {
					R.Internal("load: %v %v %v", err1, err2, err3)
					return
				}
				m := vkNewMulti(2, r1, r2)
				answers(m) // warm: the shared cache now holds what was looked up in the first layout
				var rerr error
				switch how {
				case "ReplaceOrAddEpoch":
					rerr = m.ReplaceOrAddEpoch(2, r2b)
				case "RemoveEpochByConfigFilepath+AddEpoch":
					if _, rerr = m.RemoveEpochByConfigFilepath(first.ConfigPath); rerr == nil {
						rerr = m.AddEpoch(2, r2b)
					}
				case "RemoveEpoch+AddEpoch":
					if rerr = m.RemoveEpoch(2); rerr == nil {
						rerr = m.AddEpoch(2, r2b)
					}
				}
				if rerr != nil {
					R.Internal("%s: %v", how, rerr)
					return
				}
				got := answers(m)
				R.Case(true, "")
				wrong := 0
				firstWrong := ""
				for i := range want {
					if got[i] != want[i] {
						wrong++
						if firstWrong == "" {
							firstWrong = fmt.Sprintf("%s answered %.200s (idle server: %.120s)", bodies[i], got[i], want[i])
						}
					}
				}
				R.Outcome(fmt.Sprintf("reload:%s:%s:wrong=%d", how, order, wrong))
				if wrong > 0 {
					R.Violation("C09|reload|stale-after-"+how, fmt.Sprintf("epoch 2 reloaded by "+how+" (%s, same blocks, other offsets) after it had served requests: %d of %d requests addressed to it are then answered differently from an idle server with the new configuration; first: %s", order, wrong, len(want), firstWrong),
						map[string]interface{}{"family": "reload-history", "order": order, "how": how})
				}
				vkDrain(0)
				for _, ep := range []*Epoch{i1, i2, r1, r2, r2b} {
					ep.Close()
				}
			}
		}
	}
	for idx, sc := range scs {
		if !vkit.Mine(int64(idx)) {
			continue
		}
		if R.Expired() {
			R.Note("deadline reached at handler scenario %d", idx)
			break
		}
		sc := sc
		runf := func(c *explore.Ctx) explore.Result { return run(sc, c) }
		t0 := time.Now()
		st := explore.Search(explore.Config{Bound: bound, Deadline: R.Deadline(), Prune: true}, runf)
		t.Logf("scenario %d %+v: %d executions (%d pruned) in %v", idx, sc, st.Executions, st.Pruned, time.Since(t0))
		R.Evaluations += st.Executions
		R.NonTrivial += st.NonTrivial
		R.Transitions += st.Points
		R.TracesValidated += st.Executions
		R.States += st.States
		R.Add("handler_scenarios_done", 1)
		R.Add("handler_pruned_executions", st.Pruned)
		if st.CapHit {
			R.CapHit, R.Exhaustive = true, false
		}
		if idx%7 == 0 && len(st.Samples) > 0 {
			R.Sample(map[string]interface{}{"family": "handlers", "scenario": sc, "executions": st.Executions, "states": st.States, "a_schedule": st.Samples[len(st.Samples)-1]})
		}
		seen := map[string]bool{}
		for _, f := range st.Violations {
			if seen[f.Violation.Key] {
				continue
			}
			seen[f.Violation.Key] = true
			if ok, why := explore.Confirm(f, 3, runf); !ok {
				R.InconclusiveF("violation %s in %+v did not reproduce: %s", f.Violation.Key, sc, why)
				continue
			}
			R.Violation(f.Violation.Key, fmt.Sprintf("%s [scenario %+v]", f.Violation.What, sc), map[string]interface{}{"family": "handlers", "scenario": sc, "choices": f.Choices})
		}
	}
}

// vkRPCh is vkRPC without recover-to-string conversion differences (kept separate for clarity).
func vkRPCh(h func(*fasthttp.RequestCtx), body string) (int, []byte, interface{}) {
	return vkRPC(h, body)
}
