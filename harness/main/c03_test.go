//go:build verif

package main

import (
	"bytes"
	"context"
	"encoding/binary"
	"encoding/json"
	"fmt"
	"os"
	"path/filepath"
	"runtime"
	"sort"
	"strings"
	"testing"
	"time"

	"github.com/gagliardetto/solana-go"
	"github.com/ipfs/go-cid"
	"github.com/multiformats/go-multihash"
	legacyindex "github.com/rpcpool/yellowstone-faithful/deprecated/compactindex"
	"github.com/rpcpool/yellowstone-faithful/indexes"
	old_faithful_grpc "github.com/rpcpool/yellowstone-faithful/old-faithful-proto/old-faithful-grpc"
	"github.com/rpcpool/yellowstone-faithful/zzverif/cargen"
	"github.com/rpcpool/yellowstone-faithful/zzverif/vkit"
)

// C03: a request is never answered with an object that belongs to a different key.
//
// (a) EVERY slot of the generated epoch's 432 000-slot range that has no block is requested;
// (b) absent keys whose 24-bit in-bucket hash equals that of a stored key are CONSTRUCTED with the
//     index's own hash (domain read from the built file): skipped slots, signatures, CIDs, addresses;
// (c) slots of an epoch that is not loaded. One epoch loaded and two epochs loaded.

// c03SlotPairs finds (stored, absent) slot-offset pairs of one epoch that collide under domain.
func c03SlotPairs(epoch uint64, domain uint32, want int) [][2]int {
	first := map[uint64]int{}
	var pairs [][2]int
	used := map[int]bool{}
	for off := 0; off < cargen.SlotsPerEpoch; off++ {
		h := c03Hash24(domain, indexes.Uint64tob(epoch*cargen.SlotsPerEpoch+uint64(off)))
		if o, ok := first[h]; ok {
			if !used[o] && !used[off] && o > 0 && off-o > 1 {
				pairs = append(pairs, [2]int{o, off})
				used[o], used[off] = true, true
				if len(pairs) >= want {
					break
				}
			}
			continue
		}
		first[h] = off
	}
	return pairs
}

// c03FindLegacyCollider: like c03FindCollider for the deprecated index format (bucket and in-bucket hash
// computed with that format's own functions, domains read from the built file).
func c03FindLegacyCollider(db *legacyindex.DB, stored [][]byte, gen func(i uint64) []byte, start uint64, maxTries uint64) (cand []byte, tries uint64) {
	type hk struct {
		bucket uint
		h      uint64
	}
	storedSet := map[string]bool{}
	hashes := map[hk]bool{}
	buckets := map[uint]*legacyindex.Bucket{}
	for _, k := range stored {
		storedSet[string(k)] = true
		bi := db.Header.BucketHash(k)
		if _, ok := buckets[bi]; !ok {
			b, err := db.GetBucket(bi)
			if err != nil {
				continue
			}
			buckets[bi] = b
		}
		hashes[hk{bi, buckets[bi].Hash(k)}] = true
	}
	for i := start; i < start+maxTries; i++ {
		k := gen(i)
		if storedSet[string(k)] {
			continue
		}
		bi := db.Header.BucketHash(k)
		b, ok := buckets[bi]
		if !ok {
			continue
		}
		if hashes[hk{bi, b.Hash(k)}] {
			return k, i - start + 1
		}
	}
	return nil, maxTries
}

func c03GenCid(i uint64) []byte {
	var b [8]byte
	binary.LittleEndian.PutUint64(b[:], i)
	c, _ := cid.Prefix{Version: 1, Codec: cid.DagCBOR, MhType: multihash.SHA2_256, MhLength: -1}.Sum(append([]byte("c03-absent-object-"), b[:]...))
	return c.Bytes()
}

type c03World struct {
	R     *vkit.Report
	label string
	multi *MultiEpoch
	h     func(ctx interface{})
}

func TestVerif_C03(t *testing.T) {
	silenceKlog()
	R := vkit.New("C03")
	vkRequestWatchdog = 120 * time.Second // a request that never returns is a finding, not a worker timeout
	defer R.Finish()
	base := vkBase("c03")
	defer os.RemoveAll(base)
	R.Rule = "absent keys: (a) every skipped slot of the generated epoch (432 000-slot range, sharded), (b) constructed colliders = absent slots / signatures / CIDs / addresses whose bucket and 24-bit in-bucket hash equal those of a stored key (slot pairs computed over the whole epoch with the index's hash domain, the others by brute force over hashed candidates; colliding addresses for both kinds of stored address: newest transaction verifiable, newest transaction a v0 transaction with a table lookup archived without metadata, and ONLY such transactions), (c) slots of an epoch that is not loaded, (d) JSON numbers that are not the number of a slot with a block (a stored slot plus a fraction; an integer beyond 2^53; exponent notation whose leading digits are a stored slot); each through JSON-RPC and gRPC with one and with two epochs loaded; oracle = not-found / epoch-not-available / empty list / error, never an object of another key; non-trivial = constructed collider"
	nPairs, nOther := 6, 3
	if vkit.Thorough() {
		nPairs, nOther = 24, 10
	}
	const epochA = 1
	// ---- build epoch A with blocks on slots that have a colliding skipped slot ----
	domain := uint32(0)
	var eA *vEpoch
	var pairs [][2]int
	for attempt := 0; attempt < 4; attempt++ {
		pairs = c03SlotPairs(epochA, domain, nPairs)
		sort.Slice(pairs, func(i, j int) bool { return pairs[i][0] < pairs[j][0] })
		sh := cargen.Shape{Epoch: epochA}
		for i, p := range pairs {
			sh.Blocks = append(sh.Blocks, cargen.BlockShape{SlotOffset: p[0], Blocktime: int64(1_660_000_000 + i),
				Entries: [][]cargen.TxShape{{{Accounts: []int{i % 4}}, {Accounts: []int{(i + 1) % 4, 5}, Loaded: []int{6}}}}})
		}
		// last block: a v0 transaction with an address-table lookup archived WITHOUT metadata (its loaded addresses
		// are unknown) that mentions accounts 0..3: the newest entry of their address lists cannot be verified
		sh.Blocks = append(sh.Blocks, cargen.BlockShape{SlotOffset: pairs[len(pairs)-1][0] + 1, Blocktime: 1_660_000_999,
			Entries: [][]cargen.TxShape{{{Accounts: []int{0, 1, 2, 3, 8}, Loaded: []int{6}, NoMeta: true}}}})
		os.RemoveAll(filepath.Join(base, "A"))
		e, err := vkBuildEpoch(filepath.Join(base, "A"), sh, true)
		if err != nil {
			R.Internal("cannot build epoch: %v", err)
			return
		}
		d, _, f, err := c03OpenBucketDomain(e.Paths.SlotToCid, indexes.Uint64tob(e.Truth.Blocks[0].Slot))
		if err != nil {
			R.Internal("cannot open slot index: %v", err)
			return
		}
		f.Close()
		eA = e
		if d == domain {
			break
		}
		domain = d
	}
	eB, err := vkBuildEpoch(filepath.Join(base, "B"), cargen.SimpleShape(2, 5, 3, 2), true)
	if err != nil {
		R.Internal("cannot build epoch B: %v", err)
		return
	}
	eA.writeConfig(vkConfigOpts{})
	eB.writeConfig(vkConfigOpts{})
	stored := map[uint64]bool{}
	for _, b := range eA.Truth.Blocks {
		stored[b.Slot] = true
	}
	// verify the slot pairs against the built file
	var slotColliders []uint64
	{
		d, db, f, err := c03OpenBucketDomain(eA.Paths.SlotToCid, indexes.Uint64tob(eA.Truth.Blocks[0].Slot))
		if err != nil {
			R.Internal("%v", err)
			return
		}
		for _, p := range pairs {
			s1, s2 := uint64(epochA*cargen.SlotsPerEpoch+p[0]), uint64(epochA*cargen.SlotsPerEpoch+p[1])
			if c03Hash24(d, indexes.Uint64tob(s1)) == c03Hash24(d, indexes.Uint64tob(s2)) && db.Header.BucketHash(indexes.Uint64tob(s1)) == db.Header.BucketHash(indexes.Uint64tob(s2)) {
				slotColliders = append(slotColliders, s2)
			}
		}
		f.Close()
	}
	R.Add("slot_colliders", int64(len(slotColliders)))
	// ---- brute-force colliders for signatures, CIDs, addresses ----
	var sigColliders []solana.Signature
	var cidColliders []cid.Cid
	var addrColliders []solana.PublicKey
	seed := uint64(vkit.Seed()) * 1_000_003
	shardI, shardN := vkit.Shard()
	task := func(k int) bool { return k%shardN == shardI } // collider kinds are dealt to different workers
	if !task(0) {
		slotColliders = nil
	}
	if task(1) {
		var keys [][]byte
		for _, tx := range eA.Truth.Txs {
			keys = append(keys, append([]byte{}, tx.Sig[:]...))
		}
		_, db, f, err := c03OpenBucketDomain(eA.Paths.SignatureToCid, keys[0])
		if err == nil {
			start := seed
			for len(sigColliders) < nOther {
				cand, _, tries := c03FindCollider(db, keys, c03GenSig, start, 40_000_000)
				start += tries
				if cand == nil {
					break
				}
				var s solana.Signature
				copy(s[:], cand)
				sigColliders = append(sigColliders, s)
			}
			f.Close()
		}
	}
	if task(2) {
		var keys [][]byte
		for _, o := range eA.Truth.Objects {
			keys = append(keys, o.Cid.Bytes())
		}
		_, db, f, err := c03OpenBucketDomain(eA.Paths.CidToOffsetAndSize, keys[0])
		if err == nil {
			start := seed
			for len(cidColliders) < nOther {
				cand, _, tries := c03FindCollider(db, keys, c03GenCid, start, 20_000_000)
				start += tries
				if cand == nil {
					break
				}
				_, c, err := cid.CidFromBytes(cand)
				if err == nil {
					cidColliders = append(cidColliders, c)
				}
			}
			f.Close()
		}
	}
	// per victim class: addresses whose newest transaction is the unverifiable one of the last block (accounts
	// 0..3), and all the others
	nAddr := 1
	if vkit.Thorough() {
		nAddr = 3
	}
	if task(3) {
		seen := map[solana.PublicKey]bool{}
		var keys, keysUnverifiable, keysOnlyUnverifiable [][]byte
		for i := 0; i < 4; i++ {
			a := cargen.Account(i)
			seen[a] = true
			keysUnverifiable = append(keysUnverifiable, append([]byte{}, a[:]...))
		}
		// account 8 is mentioned by that last transaction ONLY: no entry of its list can be verified
		a8 := cargen.Account(8)
		seen[a8] = true
		keysOnlyUnverifiable = append(keysOnlyUnverifiable, append([]byte{}, a8[:]...))
		for _, tx := range eA.Truth.Txs[:len(eA.Truth.Txs)-1] {
			for _, a := range tx.Accounts {
				if !seen[a] {
					seen[a] = true
					keys = append(keys, append([]byte{}, a[:]...))
				}
			}
		}
		pkIdx := filepath.Join(eA.GsfaDir, string(indexes.Kind_PubkeyToOffsetAndSize)+".index")
		_, db, f, err := c03OpenBucketDomain(pkIdx, keys[0])
		if err == nil {
			for _, victims := range [][][]byte{keys, keysUnverifiable, keysOnlyUnverifiable} {
				start := seed
				for n := 0; n < nAddr; n++ {
					cand, _, tries := c03FindCollider(db, victims, c03GenAddr, start, 1_500_000_000)
					start += tries
					if cand == nil {
						break
					}
					addrColliders = append(addrColliders, solana.PublicKeyFromBytes(cand))
				}
			}
			f.Close()
		} else {
			R.Note("cannot open the gsfa pubkey index: %v", err)
		}
	}
	// epoch B2: a NEWER epoch in which the constructed colliding addresses do have history (they are static keys of
	// two of its transactions), while they still collide with a stored address in epoch A's address index
	var eB2 *vEpoch
	if task(3) && len(addrColliders) > 0 {
		shB2 := cargen.SimpleShape(2, 5, 3, 2)
		var ks [][32]byte
		for _, a := range addrColliders {
			ks = append(ks, [32]byte(a))
		}
		shB2.Blocks[1].Entries[0][0].Keys = ks
		shB2.Blocks[2].Entries[0][1].Keys = ks
		e, err := vkBuildEpoch(filepath.Join(base, "B2"), shB2, true)
		if err != nil {
			R.Internal("cannot build epoch B2: %v", err)
			return
		}
		e.writeConfig(vkConfigOpts{})
		eB2 = e
	}
	// legacy world: the same epoch served through a deprecated cid-to-offset index (config names
	// indexes.cid_to_offset only), with absent CIDs colliding in THAT index
	var legacyCidColliders []cid.Cid
	legacyConfig := ""
	if task(4) {
		lpath, err := vkBuildLegacyCidIndex(eA.Dir, eA.Truth)
		if err != nil {
			R.Internal("cannot build the legacy cid-to-offset index: %v", err)
			return
		}
		var keys [][]byte
		for _, o := range eA.Truth.Objects {
			keys = append(keys, o.Cid.Bytes())
		}
		lf, err := os.Open(lpath)
		if err != nil {
			R.Internal("%v", err)
			return
		}
		ldb, err := legacyindex.Open(lf)
		if err != nil {
			R.Internal("cannot open the legacy index: %v", err)
			return
		}
		start := seed
		for len(legacyCidColliders) < nOther {
			cand, tries := c03FindLegacyCollider(ldb, keys, c03GenCid, start, 20_000_000)
			start += tries
			if cand == nil {
				break
			}
			if _, err := ldb.Lookup(cand); err != nil {
				continue // not a hit of the real lookup after all: not a collider
			}
			if _, c, err := cid.CidFromBytes(cand); err == nil {
				legacyCidColliders = append(legacyCidColliders, c)
			}
		}
		lf.Close()
		lsig, err := vkBuildLegacySigExists(eA.Dir, eA.Truth)
		if err != nil {
			R.Internal("cannot build the legacy sig-exists index: %v", err)
			return
		}
		legacyConfig = eA.writeConfig(vkConfigOpts{Name: "config-legacy", LegacyCidToOffset: lpath, Overrides: map[string]string{"sig_exists": lsig}})
		eA.writeConfig(vkConfigOpts{}) // ConfigPath back to the current-format config
		if len(legacyCidColliders) == 0 {
			R.Note("no colliding absent CID could be constructed for the legacy index")
			R.Exhaustive = false
		}
	}
	R.Add("legacy_cid_colliders", int64(len(legacyCidColliders)))
	R.Add("sig_colliders", int64(len(sigColliders)))
	R.Add("cid_colliders", int64(len(cidColliders)))
	R.Add("address_colliders", int64(len(addrColliders)))
	if (task(0) && len(slotColliders) == 0) || (task(1) && len(sigColliders) == 0) || (task(2) && len(cidColliders) == 0) || (task(3) && len(addrColliders) == 0) {
		R.Note("a collider kind could not be constructed by this worker (slots=%d sigs=%d cids=%d addrs=%d)", len(slotColliders), len(sigColliders), len(cidColliders), len(addrColliders))
		R.Exhaustive = false
	}
	R.Sample(map[string]interface{}{"colliding_skipped_slots": slotColliders, "colliding_absent_signatures": fmt.Sprint(sigColliders), "colliding_absent_addresses": fmt.Sprint(addrColliders)})

	ctx := context.Background()
	type c03WorldCfg struct {
		label  string
		two    bool
		config string
		cids   []cid.Cid
		epochB *vEpoch // the second epoch of a two-epoch world
	}
	worlds := []c03WorldCfg{{"one-epoch", false, eA.ConfigPath, cidColliders, nil}, {"two-epochs", true, eA.ConfigPath, cidColliders, eB}}
	if eB2 != nil {
		worlds = append(worlds, c03WorldCfg{"two-epochs/colliding-address-has-history-in-the-newer-epoch", true, eA.ConfigPath, nil, eB2})
	}
	if legacyConfig != "" {
		worlds = append(worlds, c03WorldCfg{"one-epoch/legacy-cid-to-offset-index", false, legacyConfig, legacyCidColliders, nil})
	}
	for _, wc := range worlds {
		two, label, cidColliders := wc.two, wc.label, wc.cids
		goroutinesBefore := runtime.NumGoroutine()
		cache := vkNewCache()
		epA, err := vkLoadEpoch(wc.config, cache)
		if err != nil {
			if wc.config == legacyConfig {
				R.Note("the epoch does not load with the legacy cid-to-offset index: %v", err)
				R.Exhaustive = false
				continue
			}
			R.Internal("load A: %v", err)
			return
		}
		eps := []*Epoch{epA}
		if two {
			epB, err := vkLoadEpoch(wc.epochB.ConfigPath, cache)
			if err != nil {
				R.Internal("load B: %v", err)
				return
			}
			eps = append(eps, epB)
		}
		multi := vkNewMulti(2, eps...)
		h := newMultiEpochHandler(multi, nil)
		viol := func(key, what string, rp map[string]interface{}) {
			rp["config"] = label
			R.Violation("C03|"+key, "["+label+"] "+what, rp)
		}
		guard := func(what string, f func()) {
			defer func() {
				if r := recover(); r != nil {
					viol("panic|"+what, fmt.Sprintf("%s panicked: %v", what, r), map[string]interface{}{})
				}
			}()
			f()
		}
		grpcBlock := func(slot uint64, collider bool) {
			guard("gRPC GetBlock", func() {
				resp, err := multi.GetBlock(ctx, &old_faithful_grpc.BlockRequest{Slot: slot})
				R.Case(collider, "")
				if err == nil && resp != nil {
					kind := "skipped-slot"
					if collider {
						kind = "colliding-slot"
					}
					viol("getBlock|"+kind, fmt.Sprintf("gRPC GetBlock(%d): slot has no block, but a block of slot %d with %d transactions was returned", slot, resp.Slot, len(resp.Transactions)), map[string]interface{}{"slot": slot})
				}
			})
		}
		jsonBlock := func(slot uint64, collider bool) {
			_, resp, pan := vkRPC(h, fmt.Sprintf(`{"jsonrpc":"2.0","id":1,"method":"getBlock","params":[%d,{"encoding":"base64"}]}`, slot))
			R.Case(collider, "")
			if pan != nil {
				viol("panic|getBlock", fmt.Sprintf("getBlock(%d) panicked: %v", slot, pan), map[string]interface{}{"slot": slot})
				return
			}
			var m map[string]interface{}
			json.Unmarshal(resp, &m)
			if res, ok := m["result"].(map[string]interface{}); ok && res != nil {
				kind := "skipped-slot"
				if collider {
					kind = "colliding-slot"
				}
				viol("getBlock|"+kind, fmt.Sprintf("JSON-RPC getBlock(%d): slot has no block, but a block (blockhash %v, %d transactions) was returned", slot, res["blockhash"], len(res["transactions"].([]interface{}))), map[string]interface{}{"slot": slot})
			}
		}
		// (a) every skipped slot (sharded); with the second epoch loaded the quick tier scans every 8th
		for off := 0; off < cargen.SlotsPerEpoch; off++ {
			slot := uint64(epochA*cargen.SlotsPerEpoch + off)
			if stored[slot] || !vkit.Mine(int64(off)) {
				continue
			}
			if two && !vkit.Thorough() && (off/shardN)%8 != 0 {
				continue
			}
			grpcBlock(slot, false)
			if off%64 == 0 {
				jsonBlock(slot, false)
			}
		}
		// (b) constructed colliders (each kind on the worker that constructed it)
		for _, s := range slotColliders {
			grpcBlock(s, true)
			jsonBlock(s, true)
			// block time of a skipped slot
			guard("gRPC GetBlockTime", func() {
				bt, err := multi.GetBlockTime(ctx, &old_faithful_grpc.BlockTimeRequest{Slot: s})
				if err == nil && bt != nil && bt.BlockTime != 0 {
					viol("getBlockTime|colliding-slot", fmt.Sprintf("GetBlockTime(%d) of a skipped slot returned %d", s, bt.BlockTime), map[string]interface{}{"slot": s})
				}
			})
		}
		for _, sig := range sigColliders {
			guard("gRPC GetTransaction", func() {
				resp, err := multi.GetTransaction(ctx, &old_faithful_grpc.TransactionRequest{Signature: sig[:]})
				R.Case(true, "")
				if err == nil && resp != nil && resp.Transaction != nil {
					got, _ := readFirstSig(resp.Transaction.Transaction)
					if got != sig {
						viol("getTransaction|colliding-signature", fmt.Sprintf("gRPC GetTransaction(%s): signature is not archived, but the transaction %s (slot %d) was returned", sig, got, resp.Slot), map[string]interface{}{"signature": sig.String()})
					}
				}
			})
			_, resp, pan := vkRPC(h, fmt.Sprintf(`{"jsonrpc":"2.0","id":1,"method":"getTransaction","params":[%q,{"encoding":"json"}]}`, sig.String()))
			R.Case(true, "")
			if pan != nil {
				viol("panic|getTransaction", fmt.Sprintf("getTransaction(%s) panicked: %v", sig, pan), map[string]interface{}{})
				continue
			}
			var m map[string]interface{}
			json.Unmarshal(resp, &m)
			if res, ok := m["result"].(map[string]interface{}); ok && res != nil {
				if !strings.Contains(string(resp), sig.String()) {
					viol("getTransaction|colliding-signature", fmt.Sprintf("JSON-RPC getTransaction(%s): signature is not archived, but a transaction of slot %v was returned", sig, res["slot"]), map[string]interface{}{"signature": sig.String()})
				}
			}
		}
		if wc.config == legacyConfig && legacyConfig != "" {
			// control: through the legacy index every stored CID is answered with its own bytes (so the
			// world is functional and the colliders below really exercise its lookup path)
			failed := 0
			for _, o := range eA.Truth.Objects {
				o := o
				guard("GetNodeByCid(stored)", func() {
					data, err := epA.GetNodeByCid(ctx, o.Cid)
					R.Case(false, "")
					if err != nil {
						failed++
					} else if string(data) != string(o.Data) {
						viol("fetch-by-cid|stored-cid-other-bytes", fmt.Sprintf("GetNodeByCid(%s) through the legacy index returned %d bytes that are not the archived object", o.Cid, len(data)), map[string]interface{}{"cid": o.Cid.String()})
					}
				})
			}
			if failed > 0 {
				R.Note("[%s] %d of %d stored CIDs could not be fetched through the legacy index: the collider requests below are not meaningful", label, failed, len(eA.Truth.Objects))
				R.Exhaustive = false
			} else {
				R.Outcome("legacy-world:every-stored-cid-fetched")
			}
		}
		// every archived object fetched by CID, the results kept, then compared: "never bytes stored under a
		// different CID" also for a caller that looks at its bytes after the next fetch (cold cache: a fresh epoch)
		if task(2) && !two {
			if epH, err := vkLoadEpoch(eA.ConfigPath, vkNewCache()); err == nil {
				var heldData [][]byte
				for i := range eA.Truth.Objects {
					d, err := epH.GetNodeByCid(ctx, eA.Truth.Objects[i].Cid)
					if err != nil {
						d = nil
					}
					heldData = append(heldData, d)
				}
				for i := range eA.Truth.Objects {
					o := &eA.Truth.Objects[i]
					R.Case(true, "")
					if heldData[i] != nil && !bytes.Equal(heldData[i], o.Data) {
						viol("fetch-by-cid|bytes-of-another-object", fmt.Sprintf("GetNodeByCid(%s) returned this object's bytes; after the other objects were fetched the same slice holds other bytes (another object's)", o.Cid), map[string]interface{}{"cid": o.Cid.String()})
						break
					}
				}
				epH.Close()
			}
		}
		for _, c := range cidColliders {
			guard("GetNodeByCid", func() {
				data, err := epA.GetNodeByCid(ctx, c)
				R.Case(true, "")
				if err == nil {
					viol("fetch-by-cid|colliding-cid", fmt.Sprintf("GetNodeByCid(%s): CID is not archived, but %d bytes were returned", c, len(data)), map[string]interface{}{"cid": c.String()})
				}
			})
		}
		for _, a := range addrColliders {
			// the same address as the only account_include of a transaction stream over the whole epoch (the address
			// index accelerates it): nothing may be streamed that does not mention the address
			guard("gRPC StreamTransactions", func() {
				first, last := eA.Truth.Blocks[0].Slot, eA.Truth.Blocks[len(eA.Truth.Blocks)-1].Slot
				st := &vkTxStream{vkStreamBase: vkBase0()}
				serr := multi.StreamTransactions(&old_faithful_grpc.StreamTransactionsRequest{StartSlot: first, EndSlot: &last,
					Filter: &old_faithful_grpc.StreamTransactionsFilter{AccountInclude: []string{a.String()}}}, st)
				R.Case(true, "")
				foreign := 0
				for _, r := range st.Got {
					if r.Transaction == nil || len(r.Transaction.Transaction) == 0 {
						continue
					}
					sg, _ := readFirstSig(r.Transaction.Transaction)
					mentions := false
					for _, tx := range eA.Truth.Txs {
						if tx.Sig == sg {
							for _, k := range tx.Accounts {
								if k == a {
									mentions = true
								}
							}
						}
					}
					if !mentions {
						foreign++
					}
				}
				if foreign > 0 {
					viol("StreamTransactions|colliding-address", fmt.Sprintf("StreamTransactions(account_include=[%s]) over epoch A: %d streamed transactions do not mention the address (it has no history there; it collides with a stored address in the address index); err=%v", a, foreign, serr), map[string]interface{}{"address": a.String()})
				}
			})
			_, resp, pan := vkRPC(h, fmt.Sprintf(`{"jsonrpc":"2.0","id":1,"method":"getSignaturesForAddress","params":[%q,{"limit":10}]}`, a.String()))
			R.Case(true, "")
			if pan != nil {
				viol("panic|getSignaturesForAddress", fmt.Sprintf("getSignaturesForAddress(%s) panicked: %v", a, pan), map[string]interface{}{})
				continue
			}
			var m map[string]interface{}
			json.Unmarshal(resp, &m)
			res, _ := m["result"].([]interface{})
			if wc.epochB == eB2 && eB2 != nil {
				// the address has history in B2 only: every returned signature must be one of ITS transactions, and
				// all of them must be there
				own := map[string]bool{}
				for _, tx := range eB2.Truth.Txs {
					for _, k := range tx.Accounts {
						if k == a {
							own[tx.Sig.String()] = true
						}
					}
				}
				got := map[string]bool{}
				for _, r := range res {
					rm, _ := r.(map[string]interface{})
					sg, _ := rm["signature"].(string)
					got[sg] = true
					if !own[sg] {
						viol("getSignaturesForAddress|colliding-address-with-history-elsewhere", fmt.Sprintf("getSignaturesForAddress(%s): signature %s (slot %v) belongs to a transaction that does not mention the address (the address collides with a stored one in the older epoch's index and has %d transactions in the newer epoch)", a, sg, rm["slot"], len(own)), map[string]interface{}{"address": a.String()})
						break
					}
				}
				if len(own) == 0 {
					R.Internal("generator: colliding address %s is not in any transaction of epoch B2", a)
					return
				}
				for sg := range own {
					if !got[sg] {
						R.Note("[%s] getSignaturesForAddress(%s) does not list its transaction %s (answer: %.200s)", label, a, sg, resp)
					}
				}
				continue
			}
			if len(res) > 0 {
				viol("getSignaturesForAddress|colliding-address", fmt.Sprintf("getSignaturesForAddress(%s): the address has no history, but %d signatures of other addresses' transactions were returned (first: %v)", a, len(res), res[0]), map[string]interface{}{"address": a.String()})
			}
		}
		// (c) an epoch that is not loaded
		if !task(0) {
			vkDrain(goroutinesBefore)
			for _, ep := range eps {
				ep.Close()
			}
			continue
		}
		for _, slot := range []uint64{5 * cargen.SlotsPerEpoch, 5*cargen.SlotsPerEpoch + uint64(pairs[0][0]), 0, 3*cargen.SlotsPerEpoch - 1} {
			if two && slot/cargen.SlotsPerEpoch == 2 {
				continue
			}
			grpcBlock(slot, false)
			jsonBlock(slot, false)
		}
		// (d) JSON numbers that are not the number of a slot with a block: a stored slot plus a fraction, and an
		// integer beyond 2^53 (which a float64 rounds to a neighbour): never answered with a block
		for _, lit := range []string{fmt.Sprintf("%d.5", eA.Truth.Blocks[1].Slot), fmt.Sprintf("%d.25", eA.Truth.Blocks[2].Slot), fmt.Sprintf("%d.9", eA.Truth.Blocks[1].Slot-1), "9007199254740993",
			// exponent notation: the digits before the exponent are those of a stored slot, the number is another slot
			fmt.Sprintf("%de1", eA.Truth.Blocks[1].Slot), fmt.Sprintf("%dE2", eA.Truth.Blocks[2].Slot), fmt.Sprintf("%de+1", eA.Truth.Blocks[1].Slot), fmt.Sprintf("%d5e-1", eA.Truth.Blocks[1].Slot),
			// not integers, but within half an ulp of a stored slot as a float64
			fmt.Sprintf("%d.00000000001", eA.Truth.Blocks[1].Slot), fmt.Sprintf("%d.99999999999", eA.Truth.Blocks[1].Slot-1), fmt.Sprintf("%d0000000000000000000000001e-25", eA.Truth.Blocks[1].Slot)} {
			for _, method := range []string{"getBlock", "getBlockTime"} {
				opts := ""
				if method == "getBlock" {
					opts = `,{"encoding":"base64"}`
				}
				_, resp, pan := vkRPC(h, fmt.Sprintf(`{"jsonrpc":"2.0","id":1,"method":%q,"params":[%s%s]}`, method, lit, opts))
				R.Case(true, "")
				if pan != nil {
					viol("panic|"+method, fmt.Sprintf("%s(%s) panicked: %v", method, lit, pan), map[string]interface{}{"slot_literal": lit})
					continue
				}
				var m map[string]interface{}
				json.Unmarshal(resp, &m)
				if res, ok := m["result"]; ok && res != nil {
					viol(method+"|not-a-slot-number", fmt.Sprintf("JSON-RPC %s(%s): %s is not the number of a slot with a block, but the request was answered with %.120s", method, lit, lit, resp), map[string]interface{}{"slot_literal": lit})
				}
			}
		}
		vkDrain(goroutinesBefore)
		for _, ep := range eps {
			ep.Close()
		}
	}
}

func readFirstSig(tx []byte) (solana.Signature, error) {
	var s solana.Signature
	if len(tx) < 65 {
		return s, fmt.Errorf("short")
	}
	copy(s[:], tx[1:65])
	return s, nil
}
