//go:build verif

package main

import (
	"bytes"
	"context"
	"encoding/base64"
	"encoding/json"
	"fmt"
	"github.com/gagliardetto/solana-go"
	"os"
	"path/filepath"
	"runtime"
	"strconv"
	"strings"
	"testing"
	"time"

	"github.com/klauspost/compress/zstd"
	"github.com/mr-tron/base58"
	old_faithful_grpc "github.com/rpcpool/yellowstone-faithful/old-faithful-proto/old-faithful-grpc"
	"github.com/rpcpool/yellowstone-faithful/zzverif/cargen"
	"github.com/rpcpool/yellowstone-faithful/zzverif/vkit"
	"github.com/valyala/fasthttp"
)

// C02: RPC answers for archived slots and signatures reproduce the archive exactly.
//
// Three generated epochs (0 with genesis, 1, 2) x every non-empty subset loaded x search
// concurrency x for EVERY archived slot and signature: JSON-RPC getBlock / getTransaction /
// getBlockTime in each encoding and gRPC GetBlock / GetTransaction / GetBlockTime (direct and
// through the Get stream), requests issued in two orders (cold and warm cache).

func c02Shapes() []cargen.Shape {
	mk := func(epoch uint64, offs []int) cargen.Shape {
		s := cargen.Shape{Epoch: epoch, SubsetEvery: 3}
		for i, off := range offs {
			b := cargen.BlockShape{SlotOffset: off, Blocktime: int64(1_650_000_000 + int(epoch)*1000 + i)}
			switch i % 4 {
			case 0:
				b.Entries = [][]cargen.TxShape{{{Accounts: []int{0}}, {Accounts: []int{1}, Vote: true}}}
			case 1:
				// (the failed transaction's error: Custom(7), InvalidAccountData - an instruction error without payload - or
				// InsufficientFundsForFee, depending on the block and the epoch)
				b.Entries = [][]cargen.TxShape{{}, {{Accounts: []int{2}, Failed: true, FailKind: (i/4 + int(epoch)) % 3}}, {{Accounts: []int{0, 1}, Meta: cargen.PayloadShape{Pad: 700, FrameSize: 256, FanOut: 2}}, {Accounts: []int{1}, BigAmounts: true}}}
			case 2:
				b.Entries = [][]cargen.TxShape{{{Accounts: []int{1}, TxPad: 200, Meta: cargen.PayloadShape{Pad: 1500, FrameSize: 300, FanOut: 3, Checksum: "fnv"}},
					// transaction bytes AND metadata in linked frames (the first data frame still holds the signature)
					{Accounts: []int{0, 2}, TxPad: 600, Data: cargen.PayloadShape{FrameSize: 128, FanOut: 2}, Meta: cargen.PayloadShape{Pad: 500, FrameSize: 200}}}}
				b.Rewards = &cargen.PayloadShape{Pad: 400, FrameSize: 128, BigAmounts: true}
			case 3:
				b.Entries = [][]cargen.TxShape{{{Accounts: []int{2}, NoMeta: true}}, {{Accounts: []int{0}, Loaded: []int{2}}}}
				b.Rewards = &cargen.PayloadShape{}
			}
			s.Blocks = append(s.Blocks, b)
		}
		return s
	}
	e0 := mk(0, []int{0, 1, 2, 5, 9, 431_999})
	e1 := mk(1, []int{0, 3, 4, 10, 431_998})
	e2 := mk(2, []int{2, 3, 7, 8})
	p := uint64(431_999)
	e1.PrevSlot = &p // parent of the first block of epoch 1 is the last block of epoch 0
	q := uint64(432_000 + 431_998)
	e2.PrevSlot = &q
	// epoch 0 again, with slot 1 skipped: the block at slot 2 has parent slot 0 (same epoch)
	e0b := mk(0, []int{0, 2, 3, 431_999})
	return []cargen.Shape{e0, e1, e2, e0b}
}

type c02World struct {
	eps    []*vEpoch
	multi  *MultiEpoch
	h      func(*fasthttp.RequestCtx)
	dead   bool // a request got no answer: the rest of this configuration is skipped
	txOnly bool // only the transaction requests (no getBlock / getBlockTime before them)
}

func c02Decode(enc string, v interface{}) ([]byte, error) {
	arr, ok := v.([]interface{})
	if !ok || len(arr) != 2 {
		return nil, fmt.Errorf("transaction is not [data, encoding]: %v", v)
	}
	s, _ := arr[0].(string)
	switch enc {
	case "base58":
		return base58.Decode(s)
	case "base64":
		return base64.StdEncoding.DecodeString(s)
	case "base64+zstd":
		raw, err := base64.StdEncoding.DecodeString(s)
		if err != nil {
			return nil, err
		}
		d, err := zstd.NewReader(nil)
		if err != nil {
			return nil, err
		}
		defer d.Close()
		return d.DecodeAll(raw, nil)
	}
	return nil, fmt.Errorf("unknown encoding")
}

type c02Finding struct{ class, detail string }

func (w *c02World) checkTxJSON(tx *cargen.TxTruth, bt int64, enc string, got map[string]interface{}, where string) *c02Finding {
	if enc != "json" {
		raw, err := c02Decode(enc, got["transaction"])
		if err != nil || !bytes.Equal(raw, tx.TxBytes) {
			return &c02Finding{"tx-bytes", fmt.Sprintf("%s sig %s enc %s: decoded transaction differs from the archive (err=%v)", where, tx.Sig, enc, err)}
		}
	} else {
		t, _ := got["transaction"].(map[string]interface{})
		sigs, _ := t["signatures"].([]interface{})
		if len(sigs) == 0 || sigs[0] != tx.Sig.String() {
			return &c02Finding{"tx-json-signature", fmt.Sprintf("%s sig %s: json transaction carries signatures %v", where, tx.Sig, sigs)}
		}
	}
	if tx.MetaBytes != nil {
		m, _ := got["meta"].(map[string]interface{})
		if m == nil {
			return &c02Finding{"meta-missing", fmt.Sprintf("%s sig %s: archived metadata not returned (meta=%v)", where, tx.Sig, got["meta"])}
		}
		if c02Exact(m["fee"]) != strconv.FormatUint(tx.Fee, 10) {
			return &c02Finding{"meta-fee", fmt.Sprintf("%s sig %s: fee %v, archived %d", where, tx.Sig, m["fee"], tx.Fee)}
		}
		if c02Exact(m["preBalances"]) != c02U64s(tx.PreBalances) || c02Exact(m["postBalances"]) != c02U64s(tx.PostBalances) {
			return &c02Finding{"meta-balances", fmt.Sprintf("%s sig %s: preBalances %v postBalances %v, archived %v / %v", where, tx.Sig, m["preBalances"], m["postBalances"], tx.PreBalances, tx.PostBalances)}
		}
		if tx.TokenUiAmount != 0 {
			var ui interface{}
			if tbs, _ := m["preTokenBalances"].([]interface{}); len(tbs) > 0 {
				if tb, _ := tbs[0].(map[string]interface{}); tb != nil {
					if uta, _ := tb["uiTokenAmount"].(map[string]interface{}); uta != nil {
						ui = uta["uiAmount"]
					}
				}
			}
			if f, ok := ui.(float64); !ok || f != tx.TokenUiAmount {
				return &c02Finding{"meta-token-amount", fmt.Sprintf("%s sig %s: preTokenBalances[0].uiTokenAmount.uiAmount %v, archived %v", where, tx.Sig, ui, tx.TokenUiAmount)}
			}
		}
		logs, _ := m["logMessages"].([]interface{})
		if len(logs) != len(tx.Logs) {
			return &c02Finding{"meta-logs", fmt.Sprintf("%s sig %s: %d log messages, archived %d", where, tx.Sig, len(logs), len(tx.Logs))}
		}
		for i := range logs {
			if logs[i] != tx.Logs[i] {
				return &c02Finding{"meta-logs", fmt.Sprintf("%s sig %s: log %d differs", where, tx.Sig, i)}
			}
		}
		if failed := m["err"] != nil; failed != tx.Failed {
			return &c02Finding{"meta-err", fmt.Sprintf("%s sig %s: err=%v, archived failed=%v", where, tx.Sig, m["err"], tx.Failed)}
		}
	}
	return nil
}

func (w *c02World) rpc(method string, params string) (map[string]interface{}, string, *c02Finding) {
	body := fmt.Sprintf(`{"jsonrpc":"2.0","id":1,"method":%q,"params":%s}`, method, params)
	status, resp, pan := vkRPC(w.h, body)
	if na, ok := pan.(vkNoAnswer); ok {
		w.dead = true
		return nil, "", &c02Finding{"no-answer", fmt.Sprintf("%s %s: %s", method, params, na)}
	}
	if pan != nil {
		return nil, "", &c02Finding{"panic", fmt.Sprintf("%s %s panicked: %v", method, params, pan)}
	}
	var m map[string]interface{}
	dec := json.NewDecoder(bytes.NewReader(resp))
	dec.UseNumber()
	if err := dec.Decode(&m); err != nil {
		return nil, "", &c02Finding{"bad-json", fmt.Sprintf("%s %s: status %d body %q", method, params, status, resp)}
	}
	c02Numbers("", m)
	return m, string(resp), nil
}

// c02Numbers turns the decoded numbers into float64, except the 64-bit amounts (kept as json.Number: they are
// compared digit by digit, a float64 cannot hold them).
func c02Numbers(key string, v interface{}) interface{} {
	switch x := v.(type) {
	case map[string]interface{}:
		for k, e := range x {
			x[k] = c02Numbers(k, e)
		}
	case []interface{}:
		for i, e := range x {
			x[i] = c02Numbers(key, e)
		}
	case json.Number:
		switch key {
		case "fee", "preBalances", "postBalances", "computeUnitsConsumed", "lamports", "postBalance":
			return x
		}
		f, _ := x.Float64()
		return f
	}
	return v
}

func c02Exact(v interface{}) string {
	switch x := v.(type) {
	case json.Number:
		return x.String()
	case []interface{}:
		var out []string
		for _, e := range x {
			out = append(out, c02Exact(e))
		}
		return strings.Join(out, ",")
	}
	return fmt.Sprintf("<%v>", v)
}

func c02U64s(v []uint64) string {
	var out []string
	for _, e := range v {
		out = append(out, strconv.FormatUint(e, 10))
	}
	return strings.Join(out, ",")
}

// checkAll verifies every archived slot and signature of the loaded epochs. order = iteration direction.
func (w *c02World) checkAll(loaded []*vEpoch, reverse bool, encs []string, report func(c02Finding), count func(nontrivial bool)) {
	ctx := context.Background()
	type blockRef struct {
		e *vEpoch
		i int
	}
	var blocks []blockRef
	for _, e := range loaded {
		for i := range e.Truth.Blocks {
			blocks = append(blocks, blockRef{e, i})
		}
	}
	if reverse {
		for i, j := 0, len(blocks)-1; i < j; i, j = i+1, j-1 {
			blocks[i], blocks[j] = blocks[j], blocks[i]
		}
	}
	slotHas := func(e *vEpoch, slot uint64) *cargen.BlockTruth {
		for i := range e.Truth.Blocks {
			if e.Truth.Blocks[i].Slot == slot {
				return &e.Truth.Blocks[i]
			}
		}
		return nil
	}
	for _, br := range blocks {
		if w.dead {
			return
		}
		t := br.e.Truth
		b := &t.Blocks[br.i]
		wantBT := b.Blocktime
		func() {
			if w.txOnly {
				return // transactions-first passes: no block request warms the cache
			}
			// ---------- JSON-RPC getBlock ----------
			for _, enc := range encs {
				m, raw, f := w.rpc("getBlock", fmt.Sprintf(`[%d,{"encoding":%q,"maxSupportedTransactionVersion":0,"rewards":true}]`, b.Slot, enc))
				count(len(b.Txs) > 1)
				if f != nil {
					report(*f)
					if w.dead {
						return
					}
					continue
				}
				res, _ := m["result"].(map[string]interface{})
				if res == nil {
					report(c02Finding{"getBlock-failed", fmt.Sprintf("getBlock(%d,%s) for an archived slot answered %s", b.Slot, enc, raw)})
					continue
				}
				if ps, _ := res["parentSlot"].(float64); uint64(ps) != b.Parent && b.Slot != 0 {
					report(c02Finding{"parent-slot", fmt.Sprintf("getBlock(%d): parentSlot %v, archived %d", b.Slot, res["parentSlot"], b.Parent)})
				}
				if b.Slot != 0 && b.Blocktime != 0 {
					if bt, _ := res["blockTime"].(float64); int64(bt) != wantBT {
						report(c02Finding{"block-time", fmt.Sprintf("getBlock(%d): blockTime %v, archived %d", b.Slot, res["blockTime"], wantBT)})
					}
				}
				if b.HasHeight && b.Slot != 0 {
					if bh, _ := res["blockHeight"].(float64); uint64(bh) != b.Height {
						report(c02Finding{"block-height", fmt.Sprintf("getBlock(%d): blockHeight %v, archived %d", b.Slot, res["blockHeight"], b.Height)})
					}
				}
				if b.RewardsRaw != nil {
					rws, _ := res["rewards"].([]interface{})
					var first map[string]interface{}
					if len(rws) > 0 {
						first, _ = rws[0].(map[string]interface{})
					}
					if first == nil || c02Exact(first["lamports"]) != strconv.FormatInt(b.RewardLamports, 10) || c02Exact(first["postBalance"]) != strconv.FormatUint(b.RewardPostBalance, 10) {
						report(c02Finding{"rewards-amounts", fmt.Sprintf("getBlock(%d): first reward %v, archived lamports %d postBalance %d", b.Slot, first, b.RewardLamports, b.RewardPostBalance)})
					}
				}
				if bh, _ := res["blockhash"].(string); bh != base58.Encode(b.LastEntryHash) {
					report(c02Finding{"blockhash", fmt.Sprintf("getBlock(%d): blockhash %s, archived last entry hash %s", b.Slot, bh, base58.Encode(b.LastEntryHash))})
				}
				if pb := slotHas(br.e, b.Parent); pb != nil && b.Slot != 0 && pb.NumEntries > 0 && b.Parent != b.Slot {
					if ph, _ := res["previousBlockhash"].(string); ph != base58.Encode(pb.LastEntryHash) {
						report(c02Finding{"previous-blockhash", fmt.Sprintf("getBlock(%d): previousBlockhash %v, parent %d (same epoch) has %s", b.Slot, res["previousBlockhash"], b.Parent, base58.Encode(pb.LastEntryHash))})
					}
				}
				txs, _ := res["transactions"].([]interface{})
				if len(txs) != len(b.Txs) {
					report(c02Finding{"tx-count", fmt.Sprintf("getBlock(%d,%s): %d transactions, archived %d", b.Slot, enc, len(txs), len(b.Txs))})
					continue
				}
				for k, ti := range b.Txs {
					tx := &t.Txs[ti]
					got, _ := txs[k].(map[string]interface{})
					if f := w.checkTxJSON(tx, wantBT, enc, got, fmt.Sprintf("getBlock(%d)[%d]", b.Slot, k)); f != nil {
						f.class = "block-" + f.class
						report(*f)
						if w.dead {
							return
						}
					}
				}
			}
			// ---------- JSON-RPC getBlockTime ----------
			if b.Blocktime != 0 {
				m, raw, f := w.rpc("getBlockTime", fmt.Sprintf(`[%d]`, b.Slot))
				count(false)
				if f != nil {
					report(*f)
					if w.dead {
						return
					}
				} else if bt, ok := m["result"].(float64); !ok || int64(bt) != wantBT {
					report(c02Finding{"getBlockTime", fmt.Sprintf("getBlockTime(%d) answered %s, archived %d", b.Slot, raw, wantBT)})
				}
			}
			// ---------- gRPC GetBlock (direct and through the Get stream) ----------
			checkGrpcBlock := func(resp *old_faithful_grpc.BlockResponse, err error, via string) {
				count(len(b.Txs) > 1)
				if err != nil || resp == nil {
					report(c02Finding{"grpc-GetBlock-failed", fmt.Sprintf("%s GetBlock(%d): %v", via, b.Slot, err)})
					return
				}
				if resp.Slot != b.Slot || (b.Slot != 0 && resp.ParentSlot != b.Parent) {
					report(c02Finding{"grpc-slot", fmt.Sprintf("%s GetBlock(%d): slot %d parent %d, archived parent %d", via, b.Slot, resp.Slot, resp.ParentSlot, b.Parent)})
				}
				if b.Slot != 0 && resp.BlockTime != wantBT {
					report(c02Finding{"grpc-block-time", fmt.Sprintf("%s GetBlock(%d): block time %d, archived %d", via, b.Slot, resp.BlockTime, wantBT)})
				}
				if b.HasHeight && b.Slot != 0 && resp.BlockHeight != b.Height {
					report(c02Finding{"grpc-block-height", fmt.Sprintf("%s GetBlock(%d): height %d, archived %d", via, b.Slot, resp.BlockHeight, b.Height)})
				}
				if !bytes.Equal(resp.Blockhash, b.LastEntryHash) {
					report(c02Finding{"grpc-blockhash", fmt.Sprintf("%s GetBlock(%d): blockhash differs from the last entry hash", via, b.Slot)})
				}
				if pb := slotHas(br.e, b.Parent); pb != nil && b.Slot != 0 && pb.NumEntries > 0 && b.Parent != b.Slot && !bytes.Equal(resp.PreviousBlockhash, pb.LastEntryHash) {
					report(c02Finding{"grpc-previous-blockhash", fmt.Sprintf("%s GetBlock(%d): previous blockhash differs from parent %d", via, b.Slot, b.Parent)})
				}
				if b.RewardsRaw != nil && !bytes.Equal(resp.Rewards, b.RewardsRaw) {
					report(c02Finding{"grpc-rewards", fmt.Sprintf("%s GetBlock(%d): rewards payload (%d bytes) differs from the archive (%d bytes)", via, b.Slot, len(resp.Rewards), len(b.RewardsRaw))})
				}
				if len(resp.Transactions) != len(b.Txs) {
					report(c02Finding{"grpc-tx-count", fmt.Sprintf("%s GetBlock(%d): %d transactions, archived %d", via, b.Slot, len(resp.Transactions), len(b.Txs))})
					return
				}
				for k, ti := range b.Txs {
					tx := &t.Txs[ti]
					g := resp.Transactions[k]
					if !bytes.Equal(g.Transaction, tx.TxBytes) || !bytes.Equal(g.Meta, tx.MetaBytes) {
						report(c02Finding{"grpc-block-tx-bytes", fmt.Sprintf("%s GetBlock(%d)[%d]: transaction/meta bytes differ from the archive (position order?)", via, b.Slot, k)})
					}
					if g.Index == nil || int(*g.Index) != tx.Position {
						report(c02Finding{"grpc-block-tx-position", fmt.Sprintf("%s GetBlock(%d)[%d]: index %v, archived position %d", via, b.Slot, k, g.Index, tx.Position)})
					}
				}
			}
			func() {
				defer func() {
					if r := recover(); r != nil {
						report(c02Finding{"panic", fmt.Sprintf("gRPC GetBlock(%d) panicked: %v", b.Slot, r)})
					}
				}()
				resp, err := w.multi.GetBlock(ctx, &old_faithful_grpc.BlockRequest{Slot: b.Slot})
				checkGrpcBlock(resp, err, "gRPC")
				st := &vkGetStream{vkStreamBase: vkBase0(), In: []*old_faithful_grpc.GetRequest{
					{Id: 7, Request: &old_faithful_grpc.GetRequest_Block{Block: &old_faithful_grpc.BlockRequest{Slot: b.Slot}}},
					{Id: 8, Request: &old_faithful_grpc.GetRequest_BlockTime{BlockTime: &old_faithful_grpc.BlockTimeRequest{Slot: b.Slot}}},
				}}
				if err := w.multi.Get(st); err != nil || len(st.Got) != 2 {
					report(c02Finding{"grpc-get-stream", fmt.Sprintf("Get stream for slot %d: err=%v responses=%d", b.Slot, err, len(st.Got))})
				} else {
					checkGrpcBlock(st.Got[0].GetBlock(), nil, "Get-stream")
					if bt := st.Got[1].GetBlockTime(); bt == nil || bt.BlockTime != wantBT {
						report(c02Finding{"grpc-get-stream-blocktime", fmt.Sprintf("Get stream block time for slot %d: %v, archived %d", b.Slot, st.Got[1], wantBT)})
					}
				}
				bt, err := w.multi.GetBlockTime(ctx, &old_faithful_grpc.BlockTimeRequest{Slot: b.Slot})
				count(false)
				if err != nil || bt.BlockTime != wantBT {
					report(c02Finding{"grpc-GetBlockTime", fmt.Sprintf("gRPC GetBlockTime(%d): %v err=%v, archived %d", b.Slot, bt, err, wantBT)})
				}
			}()
		}()
		if w.dead {
			return
		}
		// ---------- transactions of this block ----------
		for _, ti := range b.Txs {
			if w.dead {
				return
			}
			tx := &t.Txs[ti]
			for _, enc := range encs {
				m, raw, f := w.rpc("getTransaction", fmt.Sprintf(`[%q,{"encoding":%q,"maxSupportedTransactionVersion":0}]`, tx.Sig.String(), enc))
				count(true)
				if f != nil {
					report(*f)
					if w.dead {
						return
					}
					continue
				}
				res, _ := m["result"].(map[string]interface{})
				if res == nil {
					report(c02Finding{"getTransaction-failed", fmt.Sprintf("getTransaction(%s,%s) for an archived signature answered %s", tx.Sig, enc, raw)})
					continue
				}
				if s, _ := res["slot"].(float64); uint64(s) != tx.Slot {
					report(c02Finding{"tx-slot", fmt.Sprintf("getTransaction(%s): slot %v, archived %d", tx.Sig, res["slot"], tx.Slot)})
				}
				if bt, _ := res["blockTime"].(float64); int64(bt) != wantBT {
					report(c02Finding{"tx-block-time", fmt.Sprintf("getTransaction(%s): blockTime %v, archived %d", tx.Sig, res["blockTime"], wantBT)})
				}
				if f := w.checkTxJSON(tx, wantBT, enc, res, "getTransaction"); f != nil {
					report(*f)
					if w.dead {
						return
					}
				}
			}
			func() {
				defer func() {
					if r := recover(); r != nil {
						report(c02Finding{"panic", fmt.Sprintf("gRPC GetTransaction(%s) panicked: %v", tx.Sig, r)})
					}
				}()
				check := func(resp *old_faithful_grpc.TransactionResponse, err error, via string) {
					count(true)
					if err != nil || resp == nil || resp.Transaction == nil {
						report(c02Finding{"grpc-GetTransaction-failed", fmt.Sprintf("%s GetTransaction(%s): %v", via, tx.Sig, err)})
						return
					}
					if resp.Slot != tx.Slot || resp.BlockTime != wantBT {
						report(c02Finding{"grpc-tx-slot-time", fmt.Sprintf("%s GetTransaction(%s): slot %d time %d, archived %d / %d", via, tx.Sig, resp.Slot, resp.BlockTime, tx.Slot, wantBT)})
					}
					if resp.Index == nil || int(*resp.Index) != tx.Position {
						report(c02Finding{"grpc-tx-position", fmt.Sprintf("%s GetTransaction(%s): index %v, archived %d", via, tx.Sig, resp.Index, tx.Position)})
					}
					if !bytes.Equal(resp.Transaction.Transaction, tx.TxBytes) {
						report(c02Finding{"grpc-tx-bytes", fmt.Sprintf("%s GetTransaction(%s): transaction bytes differ", via, tx.Sig)})
					}
					if !bytes.Equal(resp.Transaction.Meta, tx.MetaBytes) {
						report(c02Finding{"grpc-meta-bytes", fmt.Sprintf("%s GetTransaction(%s): metadata bytes differ (%d vs archived %d)", via, tx.Sig, len(resp.Transaction.Meta), len(tx.MetaBytes))})
					}
				}
				type txAnswer struct {
					resp *old_faithful_grpc.TransactionResponse
					err  error
				}
				ans := make(chan txAnswer, 2)
				if !vkWatch(func() {
					resp, err := w.multi.GetTransaction(ctx, &old_faithful_grpc.TransactionRequest{Signature: tx.Sig[:]})
					ans <- txAnswer{resp, err}
				}) {
					w.dead = true
					report(c02Finding{"no-answer", fmt.Sprintf("gRPC GetTransaction(%s): %s", tx.Sig, vkNoAnswer{vkRequestWatchdog})})
					return
				}
				a := <-ans
				check(a.resp, a.err, "gRPC")
				st := &vkGetStream{vkStreamBase: vkBase0(), In: []*old_faithful_grpc.GetRequest{
					{Id: 9, Request: &old_faithful_grpc.GetRequest_Transaction{Transaction: &old_faithful_grpc.TransactionRequest{Signature: tx.Sig[:]}}}}}
				if err := w.multi.Get(st); err != nil || len(st.Got) != 1 {
					report(c02Finding{"grpc-get-stream", fmt.Sprintf("Get stream for %s: err=%v responses=%d", tx.Sig, err, len(st.Got))})
				} else {
					check(st.Got[0].GetTransaction(), nil, "Get-stream")
				}
			}()
		}
	}
}

func TestVerif_C02(t *testing.T) {
	silenceKlog()
	R := vkit.New("C02")
	defer R.Finish()
	vkRequestWatchdog = 120 * time.Second // a request that never returns is a finding, not a worker timeout
	base := vkBase("c02")
	defer os.RemoveAll(base)
	R.Rule = "configuration = non-empty subset of 3 generated epochs (0 with genesis, 1, 2; skipped slots, multi-entry blocks, linked-frame metadata and rewards, vote/failed/no-metadata transactions, parents in the previous epoch, one signature of epoch 1 constructed to collide with a stored signature in epoch 2's sig-to-cid index) x epoch-search concurrency x request order (ascending on a cold cache, descending on the warm one, descending on a cold cache of a freshly loaded world, and the transaction requests alone in ascending and in descending order on cold caches), plus epoch 0 with slot 1 skipped (a block whose parent is slot 0), plus configurations that serve all epochs or only the middle one through the deprecated index formats (size-less cid-to-offset index, deprecated sig-exists index); under each configuration EVERY archived slot and signature is requested through JSON-RPC getBlock/getTransaction/getBlockTime in each encoding and gRPC GetBlock/GetTransaction/GetBlockTime (direct and through the Get stream) and compared with generator-side ground truth; non-trivial = request whose answer contains transaction payloads"
	R.Assume("generator constraints so that the oracle asks only what the statement fixes: every block has at least one entry, a non-zero block time, a position index on every transaction, and its parent is the previous archived block; slot 0's block time/height/parent are not compared (the server substitutes genesis values)")
	shapes := c02Shapes()
	altShape := shapes[3]
	shapes = shapes[:3]
	// One transaction of epoch 1 gets a signature that is constructed to collide (bucket and 24-bit hash, found with
	// the index's own hash functions) with a stored signature in the sig-to-cid index of epoch 2, the NEWEST epoch:
	// a signature search that trusted a hit in another epoch's sig-to-cid index would send the request there.
	// Epoch 2 does not depend on it, so it is built first (a probe copy) and searched.
	{
		probe, err := vkBuildEpoch(filepath.Join(base, "probe2"), shapes[2], false)
		if err != nil {
			R.Internal("cannot build epoch 2 (probe): %v", err)
			return
		}
		var keys [][]byte
		for _, tx := range probe.Truth.Txs {
			keys = append(keys, append([]byte{}, tx.Sig[:]...))
		}
		_, db, f, err := c03OpenBucketDomain(probe.Paths.SignatureToCid, keys[0])
		if err != nil {
			R.Internal("cannot open the sig-to-cid index of epoch 2: %v", err)
			return
		}
		cand, _, tries := c03FindCollider(db, keys, c03GenSig, 0, 200_000_000)
		f.Close()
		os.RemoveAll(probe.Dir)
		if cand == nil {
			R.Note("no colliding signature found in %d candidates: epoch 1 keeps its generated signatures", tries)
		} else {
			var sg solana.Signature
			copy(sg[:], cand)
			raw := [64]byte(sg)
			shapes[1].Blocks[1].Entries[2][1].Sig = &raw
			R.Bounds["colliding_signature_in_epoch_1"] = sg.String()
		}
	}
	var eps []*vEpoch
	for i, sh := range shapes {
		e, err := vkBuildEpoch(filepath.Join(base, fmt.Sprintf("e%d", i)), sh, false)
		if err != nil {
			R.Internal("cannot build epoch %d: %v", sh.Epoch, err)
			return
		}
		e.writeConfig(vkConfigOpts{NoGsfa: true})
		eps = append(eps, e)
	}
	alt0, err := vkBuildEpoch(filepath.Join(base, "e0b"), altShape, false)
	if err != nil {
		R.Internal("cannot build epoch 0 (slot 1 skipped): %v", err)
		return
	}
	alt0.writeConfig(vkConfigOpts{NoGsfa: true})
	concs := []int{-1, 1, 2, runtime.NumCPU()}
	encs := []string{"base58", "base64", "base64+zstd", "json"}
	subsets := []int{1, 2, 3, 4, 5, 6, 7}
	if !vkit.Thorough() {
		concs = []int{1, runtime.NumCPU()}
		subsets = []int{1, 2, 3, 6, 7}
	}
	R.Bounds["epochs"] = 3
	R.Bounds["subsets"] = len(subsets)
	R.Bounds["concurrency_values"] = concs
	R.Bounds["encodings"] = encs
	// legacy format: the same epochs served through configs that name the deprecated (size-less)
	// cid-to-offset index and the deprecated sig-exists index, built with the repository's legacy builders
	legacyCfg := map[*vEpoch]string{}
	for _, e := range eps {
		p, err := e.writeLegacyConfig(vkConfigOpts{NoGsfa: true})
		if err != nil {
			R.Internal("cannot build the legacy-format indexes of epoch %d: %v", e.Truth.Epoch, err)
			return
		}
		legacyCfg[e] = p
	}
	// remote serving: the same epochs with the CAR and every index file fetched over HTTP (loopback file server,
	// Range requests) through the remote-file reader, its range cache and the prefetching index readers
	remoteBase, stopRemote := vkServeFiles()
	defer stopRemote()
	remoteCfg := map[*vEpoch]string{}
	for _, e := range eps {
		saved := e.ConfigPath
		remoteCfg[e] = e.writeConfig(vkConfigOpts{Name: "config-remote", NoGsfa: true, RemoteBase: remoteBase})
		e.ConfigPath = saved
	}
	// from pieces: each epoch's CAR split by the real split-car action into pieces of at most a third of its size,
	// the pieces served over HTTP and reassembled by the split-CAR reader (config data.car.from_pieces)
	// The reassembled view (original header + block DAGs) has the offsets of the original CAR only when every
	// Subset / Epoch node follows all blocks, so these epochs are generated with one subset at the end (the other
	// configurations interleave subsets); their indexes are built on the original CAR as usual.
	piecesCfg := map[*vEpoch]string{}
	var flatEps []*vEpoch
	for i, sh := range shapes {
		sh.SubsetEvery = 0
		fe, err := vkBuildEpoch(filepath.Join(base, fmt.Sprintf("flat%d", i)), sh, false)
		if err != nil {
			R.Internal("cannot build epoch %d (single subset): %v", sh.Epoch, err)
			return
		}
		flatEps = append(flatEps, fe)
		p, n, err := fe.vkSplitAndConfig(int64(len(fe.Truth.Bytes)/3+200), remoteBase, vkConfigOpts{NoGsfa: true})
		if err != nil {
			R.Internal("cannot split epoch %d into pieces: %v", fe.Truth.Epoch, err)
			return
		}
		piecesCfg[fe] = p
		R.Bounds[fmt.Sprintf("pieces_of_epoch_%d", fe.Truth.Epoch)] = n
	}
	type c02Cfg struct {
		mask, conc int
		legacy     int // 0 = current formats, 1 = every epoch legacy, 2 = only the middle epoch legacy, 3 = every epoch served over HTTP, 4 = only the middle epoch over HTTP, 5 = every epoch's CAR from split pieces over HTTP, 6 = epoch 0 with slot 1 skipped
	}
	var cfgs []c02Cfg
	for _, mask := range subsets {
		for _, conc := range concs {
			cfgs = append(cfgs, c02Cfg{mask, conc, 0})
		}
	}
	legacyMasks := []int{2, 7}
	if vkit.Thorough() {
		legacyMasks = []int{1, 2, 4, 5, 7}
	}
	for _, mask := range legacyMasks {
		cfgs = append(cfgs, c02Cfg{mask, concs[len(concs)-1], 1})
	}
	cfgs = append(cfgs, c02Cfg{7, 1, 2})
	cfgs = append(cfgs, c02Cfg{7, concs[len(concs)-1], 3}, c02Cfg{2, 1, 3}, c02Cfg{7, 1, 4})
	cfgs = append(cfgs, c02Cfg{7, concs[len(concs)-1], 5}, c02Cfg{2, 1, 5})
	cfgs = append(cfgs, c02Cfg{1, 1, 6})
	R.Bounds["remote_http_configurations"] = 3
	R.Bounds["from_pieces_configurations"] = 2
	R.Bounds["legacy_format_configurations"] = len(legacyMasks) + 1
	idx := int64(0)
	for _, cf := range cfgs {
		{
			mask, conc := cf.mask, cf.conc
			mine := vkit.Mine(idx)
			idx++
			if !mine {
				continue
			}
			if R.Expired() {
				return
			}
			cfgName := fmt.Sprintf("epochs=%03b conc=%d", mask, conc)
			if cf.legacy != 0 {
				cfgName += []string{"", " legacy-format=all", " legacy-format=middle-epoch", " remote-http=all", " remote-http=middle-epoch", " car-from-split-pieces-over-http", " slot-1-skipped"}[cf.legacy]
			}
			var loaded []*vEpoch
			// two worlds per configuration, each with a cache of its own: passes 0 (ascending, cold) and 1
			// (descending, warm) share one; pass 2 walks a freshly loaded world in descending order, so that a
			// block is requested BEFORE its parent, the previous epoch's last block included (cold)
			for _, passes := range [][]int{{0, 1}, {2}, {3}, {4}} {
				cache := vkNewCache()
				loaded = nil
				goroutinesBefore := runtime.NumGoroutine()
				var real []*Epoch
				okLoad := true
				for i, e := range eps {
					if mask&(1<<i) == 0 {
						continue
					}
					if cf.legacy == 5 {
						e = flatEps[i]
					}
					if cf.legacy == 6 {
						e = alt0
					}
					cfgPath := e.ConfigPath
					if cf.legacy == 1 || (cf.legacy == 2 && i == 1) {
						cfgPath = legacyCfg[e]
					}
					if cf.legacy == 3 || (cf.legacy == 4 && i == 1) {
						cfgPath = remoteCfg[e]
					}
					if cf.legacy == 5 {
						cfgPath = piecesCfg[e]
					}
					ep, err := vkLoadEpoch(cfgPath, cache)
					if err != nil {
						R.Violation("C02|load-epoch", fmt.Sprintf("epoch %d built by the real indexer does not load: %v", e.Truth.Epoch, err), map[string]interface{}{"epoch": e.Truth.Epoch})
						okLoad = false
						break
					}
					loaded = append(loaded, e)
					real = append(real, ep)
				}
				if !okLoad {
					break
				}
				w := &c02World{eps: loaded, multi: vkNewMulti(conc, real...)}
				w.h = newMultiEpochHandler(w.multi, nil)
				for _, pass := range passes {
					if w.dead {
						break
					}
					pass := pass
					// passes 3 and 4: only the transaction requests, ascending / descending, each on a freshly loaded
					// world with a cold cache: every object of a transaction is located through the indexes (no
					// getBlock has put the block's objects into the cache), with the other epochs' lookups cached
					w.txOnly = pass >= 3
					w.checkAll(loaded, pass != 0 && pass != 3, encs, func(f c02Finding) {
						R.Violation("C02|"+f.class, fmt.Sprintf("[%s pass=%d] %s", cfgName, pass, f.detail), map[string]interface{}{"mask": mask, "conc": conc, "pass": pass, "legacy": cf.legacy})
					}, func(nt bool) { R.Case(nt, "") })
				}
				vkDrain(goroutinesBefore + 2*len(real)) // leftover search jobs must be gone before the epochs are closed
				for _, ep := range real {
					ep.Close()
				}
			}
			R.Outcome(cfgName + ":done")
			R.Sample(map[string]interface{}{"config": cfgName, "slots": func() (n int) {
				for _, e := range loaded {
					n += len(e.Truth.Blocks)
				}
				return
			}(), "signatures": func() (n int) {
				for _, e := range loaded {
					n += len(e.Truth.Txs)
				}
				return
			}()})
		}
	}
	R.Add("remote_http_requests_served", vkServedRequests.Load())
	_ = strings.TrimSpace
}
