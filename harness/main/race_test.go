//go:build verif

package main

import (
	"context"
	"errors"
	"fmt"
	"runtime"
	"sync"
	"testing"
	"time"

	"github.com/rpcpool/yellowstone-faithful/zzverif/vkit"
)

// Supplementary (sampling, not deciding) race-detector passes on the UN-instrumented package.

func TestVerif_C18_Race(t *testing.T) {
	silenceKlog()
	R := vkit.New("C18")
	defer R.Finish()
	R.Rule = "supplementary race-detector pass: free-running FirstSuccess over every outcome vector for n<=4 and every concurrency limit, jobs with small staggered delays, GOMAXPROCS 1..16"
	nf := errors.New("not found")
	for _, procs := range []int{1, 4, 16} {
		old := runtime.GOMAXPROCS(procs)
		for n := 1; n <= 4; n++ {
			total := 1
			for i := 0; i < n; i++ {
				total *= 3
			}
			for code := 0; code < total; code++ {
				for conc := -1; conc <= n; conc++ {
					code := code // jobs may outlive this iteration (FirstSuccess returns at the first success)
					var fns []JobFunc[int]
					c := code
					succ := map[int]bool{}
					for i := 0; i < n; i++ {
						o := c % 3
						c /= 3
						i := i
						if o == 0 {
							succ[i+1] = true
						}
						fns = append(fns, func(context.Context) (int, error) {
							time.Sleep(time.Duration((i*37+code)%5) * 20 * time.Microsecond)
							switch o {
							case 0:
								return i + 1, nil
							case 1:
								return 0, nf
							}
							return 0, fmt.Errorf("job %d", i)
						})
					}
					val, err := FirstSuccess(context.Background(), conc, fns...)
					R.Case(true, "")
					if len(succ) > 0 && (err != nil || !succ[val]) {
						R.Violation("C18|race-pass|miss", fmt.Sprintf("n=%d code=%d conc=%d: val=%d err=%v", n, code, conc, val, err), map[string]interface{}{"variant": "race"})
					}
					if len(succ) == 0 {
						if es, ok := err.(ErrorSlice); !ok || len(es) != n {
							R.Violation("C18|race-pass|errors", fmt.Sprintf("n=%d code=%d conc=%d: err=%v", n, code, conc, err), map[string]interface{}{"variant": "race"})
						}
					}
				}
			}
		}
		runtime.GOMAXPROCS(old)
	}
	R.Sample("all outcome vectors n<=4 x concurrency x GOMAXPROCS 1/4/16, -race")
}

func TestVerif_C09_Race(t *testing.T) {
	silenceKlog()
	R := vkit.New("C09")
	defer R.Finish()
	R.Rule = "supplementary race-detector pass: free-running query-side operations against add/replace/remove of another epoch on the un-instrumented MultiEpoch, with a watchdog for hangs (inconclusive, never a violation)"
	light := func(n uint64) *Epoch {
		cfg := &Config{}
		cfg.originalFilepath = fmt.Sprintf("cfg-%d", n)
		e := n
		cfg.Epoch = &e
		return &Epoch{epoch: n, config: cfg}
	}
	m := NewMultiEpoch(&Options{EpochSearchConcurrency: 2})
	m.AddEpoch(1, light(1))
	m.AddEpoch(3, light(3))
	done := make(chan struct{})
	var wg sync.WaitGroup
	for g := 0; g < 6; g++ {
		wg.Add(1)
		go func() {
			defer wg.Done()
			for i := 0; i < 3000; i++ {
				m.GetEpoch(1)
				nums := m.GetEpochNumbers()
				for k := 1; k < len(nums); k++ {
					if nums[k-1] <= nums[k] {
						R.Violation("C09|race-pass|unsorted-listing", fmt.Sprint(nums), map[string]interface{}{"variant": "race"})
					}
				}
				m.GetMostRecentAvailableEpoch()
				m.GetOldestAvailableEpoch()
				m.CountEpochs()
				m.getAllBucketteers()
				m.getGsfaReadersInEpochDescendingOrder()
				R.Case(true, "")
			}
		}()
	}
	wg.Add(1)
	go func() {
		defer wg.Done()
		for i := 0; i < 3000; i++ {
			m.AddEpoch(2, light(2))
			m.ReplaceOrAddEpoch(2, light(2))
			m.RemoveEpoch(2)
			m.ReplaceOrAddEpoch(4, light(4))
			m.RemoveEpochByConfigFilepath("cfg-4")
		}
	}()
	go func() { wg.Wait(); close(done) }()
	select {
	case <-done:
	case <-time.After(120 * time.Second):
		R.InconclusiveF("free-running queries vs reloads did not finish within 120 s (possible deadlock; the exploration decides)")
	}
	R.Sample("6 query goroutines x 3000 rounds vs 3000 reload rounds, -race")
}
