//go:build verif

package main

import (
	"context"
	"fmt"
	"os"
	"path/filepath"
	"strings"
	"testing"

	old_faithful_grpc "github.com/rpcpool/yellowstone-faithful/old-faithful-proto/old-faithful-grpc"
	"github.com/rpcpool/yellowstone-faithful/zzverif/cargen"
	"github.com/rpcpool/yellowstone-faithful/zzverif/explore"
	"github.com/rpcpool/yellowstone-faithful/zzverif/vkit"
	"github.com/rpcpool/yellowstone-faithful/zzverif/vsched"
	"google.golang.org/protobuf/proto"
)

// C02 (scheduled variant): getBlock assembles its answer from objects fetched by a tree of goroutines (two
// prefetch pairs, one goroutine per entry, one per transaction, results stored into shared slices under a
// mutex, errgroups with limits). multiepoch-getBlock.go, grpc-server.go and errgroup are instrumented from the
// current tree and every interleaving within the preemption bound is executed on the real handlers over a real
// epoch. Oracle per execution: the call returns without panic or deadlock and its answer is byte-identical to
// the answer of the same request computed without the scheduler (which the main variant compares with the
// archive): the answer must not depend on the completion order of the fetchers.

type c02sScenario struct {
	Name  string `json:"name"`
	API   string `json:"api"`   // json | grpc
	Block int    `json:"block"` // index into the epoch's blocks
	Enc   string `json:"encoding,omitempty"`
	Bound int    `json:"bound"`
}

func TestVerif_C02_Sched(t *testing.T) {
	silenceKlog()
	R := vkit.New("C02")
	defer R.Finish()
	base := vkBase("c02s")
	defer os.RemoveAll(base)
	R.Rule = "scheduled variant: scenario = one getBlock request (JSON-RPC base64 / json encodings, gRPC GetBlock) for a block with 1 entry x 2 transactions, 3 entries (0, 1, 2 transactions; linked-frame metadata) or 2 entries x 2 transactions with rewards; multiepoch-getBlock.go, grpc-server.go and errgroup instrumented from the current tree; every interleaving of the prefetch pairs, the per-entry and per-transaction fetchers and their errgroup limits within the preemption bound (stated in bounds; 1..3 in quick, 2..4 in thorough) with happens-before pruning; oracle = returns, and the answer is byte-identical to the answer computed without the scheduler; non-trivial = execution with at least one preemption"
	sh := cargen.Shape{Epoch: 1, SubsetEvery: 3}
	mkb := func(off int, es [][]cargen.TxShape) cargen.BlockShape {
		return cargen.BlockShape{SlotOffset: off, Blocktime: int64(1_650_000_000 + off), Entries: es}
	}
	sh.Blocks = []cargen.BlockShape{
		mkb(3, [][]cargen.TxShape{{{Accounts: []int{0}}, {Accounts: []int{1}, Vote: true}}}),
		mkb(4, [][]cargen.TxShape{{}, {{Accounts: []int{2}, Failed: true}}, {{Accounts: []int{0, 1}, Meta: cargen.PayloadShape{Pad: 700, FrameSize: 256, FanOut: 2}}, {Accounts: []int{1}}}}),
		mkb(7, [][]cargen.TxShape{{{Accounts: []int{1}}, {Accounts: []int{2}, NoMeta: true}}, {{Accounts: []int{0}, Loaded: []int{2}}, {Accounts: []int{0, 2}}}}),
	}
	sh.Blocks[2].Rewards = &cargen.PayloadShape{Pad: 300, FrameSize: 128}
	p := uint64(431_999)
	sh.PrevSlot = &p
	e, err := vkBuildEpoch(filepath.Join(base, "e1"), sh, false)
	if err != nil {
		R.Internal("build epoch: %v", err)
		return
	}
	e.writeConfig(vkConfigOpts{NoGsfa: true})
	ep, err := vkLoadEpoch(e.ConfigPath, vkNewCache())
	if err != nil {
		R.Internal("load epoch: %v", err)
		return
	}
	defer ep.Close()
	// preemption bounds: the one-entry block and the gRPC handler are cheap per execution; the JSON handler on the
	// multi-entry blocks is explored one preemption less deep in the quick tier
	small, grpcB, jsonB := 3, 1, 1
	if vkit.Thorough() {
		small, grpcB, jsonB = 4, 3, 2
	}
	R.Bounds["sched_preemption_bounds"] = fmt.Sprintf("one-entry block %d, gRPC on multi-entry blocks %d, JSON-RPC on multi-entry blocks %d", small, grpcB, jsonB)
	var scs []c02sScenario
	for b := range e.Truth.Blocks {
		jb, gb := jsonB, grpcB
		if b == 0 {
			jb, gb = small, small
		}
		scs = append(scs, c02sScenario{Name: fmt.Sprintf("json/base64/block%d", b), API: "json", Block: b, Enc: "base64", Bound: jb})
		scs = append(scs, c02sScenario{Name: fmt.Sprintf("grpc/block%d", b), API: "grpc", Block: b, Bound: gb})
	}
	scs = append(scs, c02sScenario{Name: "json/json/block1", API: "json", Block: 1, Enc: "json", Bound: jsonB})
	R.Bounds["sched_scenarios"] = len(scs)
	call := func(sc c02sScenario, m *MultiEpoch) (string, interface{}) {
		slot := e.Truth.Blocks[sc.Block].Slot
		if sc.API == "json" {
			h := newMultiEpochHandler(m, nil)
			_, resp, pan := vkRPC(h, fmt.Sprintf(`{"jsonrpc":"2.0","id":1,"method":"getBlock","params":[%d,{"encoding":%q,"maxSupportedTransactionVersion":0,"rewards":true}]}`, slot, sc.Enc))
			return string(resp), pan
		}
		resp, err := m.GetBlock(context.Background(), &old_faithful_grpc.BlockRequest{Slot: slot})
		if err != nil {
			return "error: " + err.Error(), nil
		}
		b, _ := proto.MarshalOptions{Deterministic: true}.Marshal(resp)
		return string(b), nil
	}
	// reference answers, computed without the scheduler (twice: they must be stable)
	ref := map[string]string{}
	for _, sc := range scs {
		a, pan := call(sc, vkNewMulti(2, ep))
		b, _ := call(sc, vkNewMulti(2, ep))
		if pan != nil {
			R.Violation("C02|sched|idle-server-panics|"+sc.API, fmt.Sprintf("[%s] the request for an archived block panicked on an idle server: %v", sc.Name, pan), map[string]interface{}{"scenario": sc})
			return
		}
		if a != b {
			R.Violation("C02|sched|unstable-answer|"+sc.API, fmt.Sprintf("[%s] two identical requests on an idle server were answered differently (%d vs %d bytes)", sc.Name, len(a), len(b)), map[string]interface{}{"scenario": sc})
			return
		}
		if strings.HasPrefix(a, "error: ") || (sc.API == "json" && !strings.Contains(a, `"result"`)) {
			// (the archive is intact and the block is in it: the other variants judge the content of the answer, here it
			// only has to be one)
			R.Violation("C02|sched|idle-server-fails|"+sc.API, fmt.Sprintf("[%s] the request for an archived block failed on an idle server: %.300s", sc.Name, a), map[string]interface{}{"scenario": sc})
			return
		}
		ref[sc.Name] = a
	}
	run := func(sc c02sScenario, c *explore.Ctx) explore.Result {
		var got string
		var pan interface{}
		returned := false
		s := vsched.Run(c, vsched.Options{Horizon: 20000, Drain: true}, func() {
			got, pan = call(sc, vkNewMulti(2, ep))
			returned = true
		})
		if c.Pruned {
			return explore.Result{}
		}
		res := explore.Result{NonTrivial: s.Preemptions > 0}
		bad := func(key, what string) {
			if res.Violation == nil {
				res.Violation = &explore.Violation{Key: "C02|sched|" + key, What: fmt.Sprintf("[%s] %s", sc.Name, what)}
			}
		}
		switch {
		case s.Panic != "":
			if strings.Contains(s.Panic, "replay divergence") {
				panic(s.Panic)
			}
			res.Outcome = "panic"
			bad("panic|"+c18PanicSite(s.Panic), "getBlock panicked: "+firstLine(s.Panic))
		case s.Deadlock:
			res.Outcome = "deadlock"
			bad("deadlock|"+sc.API, "getBlock never returns: "+s.DeadlockInfo)
		case s.HorizonHit:
			res.Outcome = "horizon"
		case pan != nil:
			res.Outcome = "handler-panic"
			bad("panic|"+sc.API, fmt.Sprintf("getBlock panicked: %v", pan))
		case !returned:
			res.Outcome = "no-return"
			bad("no-return|"+sc.API, "getBlock did not return")
		default:
			res.Outcome = vkit.Hash(got)
			if got != ref[sc.Name] {
				d := 0
				for d < len(got) && d < len(ref[sc.Name]) && got[d] == ref[sc.Name][d] {
					d++
				}
				lo := d - 60
				if lo < 0 {
					lo = 0
				}
				hi := d + 60
				if hi > len(got) {
					hi = len(got)
				}
				bad("answer-depends-on-schedule|"+sc.API, fmt.Sprintf("under this schedule the answer (%d bytes) differs from the idle-server answer (%d bytes) at byte %d: ...%q...", len(got), len(ref[sc.Name]), d, got[lo:hi]))
			}
		}
		return res
	}
	if rp := vkit.ReplayRequest(); rp != nil {
		var sc c02sScenario
		remarshal(rp["scenario"], &sc)
		if sc.Name == "" {
			R.Note("replay file describes a case of the other variant: nothing to do in this one")
			R.Case(false, "")
			return
		}
		if _, ok := ref[sc.Name]; !ok {
			R.Internal("replay: unknown scenario %q", sc.Name)
			return
		}
		choices := vkit.Ints(rp["choices"])
		res, _, err := explore.Replay(choices, func(c *explore.Ctx) explore.Result { return run(sc, c) })
		t.Logf("replay scenario=%s outcome=%s violation=%v err=%v", sc.Name, res.Outcome, res.Violation, err)
		R.Case(true, "")
		if res.Violation != nil {
			R.Violation(res.Violation.Key, res.Violation.What, map[string]interface{}{"scenario": sc, "choices": choices})
		}
		return
	}
	// one scenario per worker: the happens-before pruning works on one visited set per search
	for idx, sc := range scs {
		if !vkit.Mine(int64(idx)) {
			continue
		}
		if R.Expired() {
			R.Note("deadline reached at scheduled scenario %d", idx)
			break
		}
		sc := sc
		runf := func(c *explore.Ctx) explore.Result { return run(sc, c) }
		st := explore.Search(explore.Config{Bound: sc.Bound, Deadline: R.Deadline(), Prune: true}, runf)
		R.Evaluations += st.Executions
		R.NonTrivial += st.NonTrivial
		R.Transitions += st.Points
		R.TracesValidated += st.Executions
		R.States += st.States
		R.Add("sched_scenarios_done", 1)
		R.Add("sched_pruned_executions", st.Pruned)
		if st.CapHit {
			R.CapHit, R.Exhaustive = true, false
			R.Note("scenario %s: deadline reached inside the search (executions so far %d)", sc.Name, st.Executions)
		}
		for o := range st.Outcomes {
			R.Outcome(sc.Name + ":" + o)
		}
		seen := map[string]bool{}
		for _, f := range st.Violations {
			if seen[f.Violation.Key] {
				continue
			}
			seen[f.Violation.Key] = true
			if ok, why := explore.Confirm(f, 5, runf); !ok {
				R.InconclusiveF("violation %s in scenario %s did not reproduce: %s", f.Violation.Key, sc.Name, why)
				continue
			}
			R.Violation(f.Violation.Key, f.Violation.What, map[string]interface{}{"scenario": sc, "choices": f.Choices})
		}
		R.Sample(map[string]interface{}{"variant": "sched", "scenario": sc, "executions": st.Executions, "states": st.States, "distinct_outcomes": len(st.Outcomes)})
	}
}
