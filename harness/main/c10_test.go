//go:build verif

package main

import (
	"bytes"
	"context"
	"encoding/binary"
	"fmt"
	"os"
	"path/filepath"
	"runtime"
	"sort"
	"strings"
	"sync"
	"testing"

	"github.com/allegro/bigcache/v3"
	"github.com/gagliardetto/solana-go"
	"github.com/ipfs/go-cid"
	"github.com/multiformats/go-multihash"
	"github.com/rpcpool/yellowstone-faithful/blocktimeindex"
	"github.com/rpcpool/yellowstone-faithful/bucketteer"
	"github.com/rpcpool/yellowstone-faithful/gsfa"
	"github.com/rpcpool/yellowstone-faithful/gsfa/manifest"
	hugecache "github.com/rpcpool/yellowstone-faithful/huge-cache"
	"github.com/rpcpool/yellowstone-faithful/indexes"
	"github.com/rpcpool/yellowstone-faithful/indexmeta"
	"github.com/rpcpool/yellowstone-faithful/zzverif/cargen"
	"github.com/rpcpool/yellowstone-faithful/zzverif/vkit"
)

// C10: an epoch is served only from indexes built for that epoch and CAR.
//
// Two generated epochs A and B of the same shape (same object offsets and sizes - the worst case for
// confusing the files) are indexed by the real indexers. For A's configuration every index role gets,
// singly and in all pairs, a file whose identity (kind, epoch, root CID) is foreign. Foreign-identity files
// are written by the repository's own writers from A's data, so that their contents stay valid for A's CAR.

const c10Rule = "case = configuration of epoch A in which 0, 1 or 2 index roles (cid_to_offset_and_size, slot_to_cid, sig_to_cid, sig_exists, gsfa, slot_to_blocktime) carry a fault; " +
	"fault menu per role: epoch (file written by the repository's writer from A's data with B's epoch number), root (…with B's root CID), epoch+root (both), whole-B (B's real index), " +
	"kind<-X (the file of every other role X, and the gsfa directory's inner pubkey index, configured in this role); all singles and ALL pairs of faults on two different roles, plus A's gsfa directory with only its inner pubkey index, or only its manifest, replaced by one that records B's epoch, B's root, both, or is B's own, " +
	"plus: every root-carrying index with B's root (they agree with each other), all indexes from B with A's CAR, A's indexes with B's CAR (local file and ReaderAt), B's configuration with A's CAR, gsfa left out. " +
	"Oracle: NewEpochFromConfig fails whenever some configured file is of the wrong kind, records an epoch other than the configured one, or records a root CID that differs from another configured index; the fault-free configuration loads; " +
	"whenever loading succeeds every GetNodeByCid of the epoch's archived objects fails or returns exactly that CID's bytes. " +
	"Read-back: every writer (4 typed compact indexes, sig-exists, gsfa manifest / gsfa directory, slot-to-blocktime) x epoch {0,1,A,B,2^32+7,2^64-1} x root CID {A, B, sha2-512 CID} x network {mainnet,testnet,devnet}: the reader's Meta()/accessors return what was written and the kind the writer is for. " +
	"Non-trivial = at least one fault / any read-back case."

var c10Roles = []string{"cid_to_offset_and_size", "slot_to_cid", "sig_to_cid", "sig_exists", "gsfa", "slot_to_blocktime"}

type c10Ident struct {
	Epoch uint64
	Root  cid.Cid
	Net   indexes.Network
}

// c10Set = the six index files of one identity.
type c10Set map[string]string // role -> path

func c10NewCache() *hugecache.Cache {
	conf := bigcache.DefaultConfig(0)
	conf.CleanWindow = 0
	conf.Verbose = false
	conf.Shards = 2
	conf.MaxEntriesInWindow = 256
	conf.MaxEntrySize = 256
	conf.HardMaxCacheSize = 8
	c, err := hugecache.NewWithConfig(context.Background(), conf)
	if err != nil {
		panic(err)
	}
	return c
}

func c10Meta(id c10Ident) indexmeta.Meta {
	// exactly what createAllIndexes / `index gsfa` put into the sig-exists file and the gsfa manifest
	meta := indexmeta.Meta{}
	meta.AddUint64(indexmeta.MetadataKey_Epoch, id.Epoch)
	meta.AddCid(indexmeta.MetadataKey_RootCid, id.Root)
	meta.AddString(indexmeta.MetadataKey_Network, string(id.Net))
	return meta
}

// c10WriteSet writes the indexes of truth t with identity id through the repository's writers
// (the same calls as createAllIndexes and `index gsfa`). roles limits what is written.
func c10WriteSet(dir, tmp string, t *cargen.Truth, id c10Ident, roles map[string]bool) (c10Set, error) {
	os.MkdirAll(dir, 0o755)
	os.MkdirAll(tmp, 0o755)
	ctx := context.Background()
	out := c10Set{}
	if roles["cid_to_offset_and_size"] {
		w, err := NewBuilder_CidToOffset(id.Epoch, id.Root, id.Net, tmp, uint64(len(t.Objects)))
		if err != nil {
			return nil, err
		}
		for _, o := range t.Objects {
			if err := w.Put(o.Cid, o.Offset, o.SectionLen); err != nil {
				return nil, err
			}
		}
		if err := w.Seal(ctx, dir); err != nil {
			return nil, err
		}
		out["cid_to_offset_and_size"] = w.GetFilepath()
		w.Close()
	}
	if roles["slot_to_cid"] {
		w, err := NewBuilder_SlotToCid(id.Epoch, id.Root, id.Net, tmp, uint64(len(t.Blocks)))
		if err != nil {
			return nil, err
		}
		for _, b := range t.Blocks {
			if err := w.Put(b.Slot, b.Cid); err != nil {
				return nil, err
			}
		}
		if err := w.Seal(ctx, dir); err != nil {
			return nil, err
		}
		out["slot_to_cid"] = w.GetFilepath()
		w.Close()
	}
	if roles["sig_to_cid"] {
		w, err := NewBuilder_SignatureToCid(id.Epoch, id.Root, id.Net, tmp, uint64(len(t.Txs)))
		if err != nil {
			return nil, err
		}
		for _, tx := range t.Txs {
			if err := w.Put(tx.Sig, tx.Cid); err != nil {
				return nil, err
			}
		}
		if err := w.Seal(ctx, dir); err != nil {
			return nil, err
		}
		out["sig_to_cid"] = w.GetFilepath()
		w.Close()
	}
	if roles["sig_exists"] {
		p := formatSigExistsIndexFilePath(dir, id.Epoch, id.Root, id.Net)
		os.Remove(p)
		w, err := bucketteer.NewWriter(p)
		if err != nil {
			return nil, err
		}
		for _, tx := range t.Txs {
			w.Put(tx.Sig)
		}
		if _, err := w.Seal(c10Meta(id)); err != nil {
			return nil, err
		}
		if err := w.Close(); err != nil {
			return nil, err
		}
		out["sig_exists"] = p
	}
	if roles["slot_to_blocktime"] {
		idx := blocktimeindex.NewForEpoch(id.Epoch)
		for _, b := range t.Blocks {
			slot := id.Epoch*cargen.SlotsPerEpoch + (b.Slot - t.Epoch*cargen.SlotsPerEpoch)
			if err := idx.Set(slot, b.Blocktime); err != nil {
				return nil, err
			}
		}
		p := filepath.Join(dir, blocktimeindex.FormatFilename(id.Epoch, id.Root, id.Net))
		f, err := os.Create(p)
		if err != nil {
			return nil, err
		}
		if _, err := idx.WriteTo(f); err != nil {
			return nil, err
		}
		f.Close()
		out["slot_to_blocktime"] = p
	}
	if roles["gsfa"] {
		gdir := filepath.Join(dir, formatIndexDirname_gsfa(id.Epoch, id.Root, id.Net))
		os.RemoveAll(gdir)
		if err := os.Mkdir(gdir, 0o755); err != nil {
			return nil, err
		}
		gtmp := filepath.Join(tmp, fmt.Sprintf("gsfa-%d-%s", id.Epoch, id.Root))
		os.MkdirAll(gtmp, 0o755)
		w, err := gsfa.NewGsfaWriter(gdir, c10Meta(id), id.Epoch, id.Root, id.Net, gtmp)
		if err != nil {
			return nil, err
		}
		for _, tx := range t.Txs {
			o := t.Objects[tx.Obj]
			if err := w.Push(o.Offset, o.SectionLen, tx.Slot, solana.PublicKeySlice(append([]solana.PublicKey{}, tx.Accounts...)), tx.MetaBytes != nil, !tx.Failed, tx.Vote); err != nil {
				return nil, err
			}
		}
		if err := w.Close(); err != nil {
			return nil, err
		}
		out["gsfa"] = gdir
	}
	return out, nil
}

type c10World struct {
	A, B       *vEpoch
	AA         c10Set            // A's real indexes
	BBr        c10Set            // B's real indexes
	V          map[string]c10Set // "epoch" (B's epoch, A's root), "root" (A's epoch, B's root), "epoch+root"
	innerPk    string            // the pubkey index inside A's gsfa directory
	remoteBase string            // loopback file server (cases with Remote)
}

func c10RealSet(e *vEpoch) c10Set {
	return c10Set{"cid_to_offset_and_size": e.Paths.CidToOffsetAndSize, "slot_to_cid": e.Paths.SlotToCid, "sig_to_cid": e.Paths.SignatureToCid,
		"sig_exists": e.Paths.SignatureExists, "gsfa": e.GsfaDir, "slot_to_blocktime": e.Paths.SlotToBlocktime}
}

func c10Shape(epoch uint64) cargen.Shape {
	sh := cargen.SimpleShape(epoch, 10, 4, 2)
	sh.Blocks[1].Entries[0][0].Meta = cargen.PayloadShape{Pad: 500, FrameSize: 200, FanOut: 2}
	sh.Blocks[2].Rewards = &cargen.PayloadShape{Pad: 60}
	return sh
}

func c10Build(base string) (*c10World, error) {
	w := &c10World{V: map[string]c10Set{}}
	var err error
	if w.A, err = vkBuildEpoch(filepath.Join(base, "A"), c10Shape(5), true); err != nil {
		return nil, fmt.Errorf("epoch A: %w", err)
	}
	if w.B, err = vkBuildEpoch(filepath.Join(base, "B"), c10Shape(6), true); err != nil {
		return nil, fmt.Errorf("epoch B: %w", err)
	}
	if w.A.Truth.Root.Equals(w.B.Truth.Root) {
		return nil, fmt.Errorf("A and B have the same root CID")
	}
	w.AA, w.BBr = c10RealSet(w.A), c10RealSet(w.B)
	w.innerPk = filepath.Join(w.A.GsfaDir, string(indexes.Kind_PubkeyToOffsetAndSize)+".index")
	all := map[string]bool{}
	for _, r := range c10Roles {
		all[r] = true
	}
	ids := map[string]c10Ident{
		"epoch":      {w.B.Truth.Epoch, w.A.Truth.Root, indexes.NetworkMainnet},
		"root":       {w.A.Truth.Epoch, w.B.Truth.Root, indexes.NetworkMainnet},
		"epoch+root": {w.B.Truth.Epoch, w.B.Truth.Root, indexes.NetworkMainnet},
	}
	var mu sync.Mutex
	var wg sync.WaitGroup
	var firstErr error
	for name, id := range ids {
		name, id := name, id
		wg.Add(1)
		go func() { // the gsfa writer waits >= 1 s in its background goroutine: build the three variants side by side
			defer wg.Done()
			set, err := c10WriteSet(filepath.Join(base, "V-"+strings.ReplaceAll(name, "+", "-")), filepath.Join(base, "tmp-"+strings.ReplaceAll(name, "+", "-")), w.A.Truth, id, all)
			mu.Lock()
			defer mu.Unlock()
			if err != nil && firstErr == nil {
				firstErr = fmt.Errorf("variant %s: %w", name, err)
			}
			w.V[name] = set
		}()
	}
	wg.Wait()
	if firstErr != nil {
		return nil, firstErr
	}
	return w, nil
}

// ---------- faults ----------

type c10Fault struct {
	Role  string `json:"role"`
	Field string `json:"field"` // epoch | root | epoch+root | whole-B | kind
	From  string `json:"from,omitempty"`
}

func (f c10Fault) String() string {
	if f.Field == "kind" {
		return f.Role + ".kind<-" + f.From
	}
	return f.Role + "." + f.Field
}

func c10Faults() []c10Fault {
	var out []c10Fault
	for _, r := range c10Roles {
		out = append(out, c10Fault{Role: r, Field: "epoch"})
		if r != "slot_to_blocktime" { // the block-time index records no root CID
			out = append(out, c10Fault{Role: r, Field: "root"}, c10Fault{Role: r, Field: "epoch+root"})
		}
		out = append(out, c10Fault{Role: r, Field: "whole-B"})
		for _, x := range append(append([]string{}, c10Roles...), "gsfa/pubkey-index") {
			if x != r {
				out = append(out, c10Fault{Role: r, Field: "kind", From: x})
			}
		}
	}
	return out
}

func (w *c10World) path(f c10Fault) string {
	switch f.Field {
	case "whole-B":
		return w.BBr[f.Role]
	case "kind":
		if f.From == "gsfa/pubkey-index" {
			return w.innerPk
		}
		return w.AA[f.From]
	default:
		if strings.HasPrefix(f.Field, "inner-") {
			return w.innerSwapped(strings.TrimPrefix(f.Field, "inner-"), string(indexes.Kind_PubkeyToOffsetAndSize)+".index")
		}
		if strings.HasPrefix(f.Field, "manifest-") {
			return w.innerSwapped(strings.TrimPrefix(f.Field, "manifest-"), "manifest")
		}
		return w.V[f.Field][f.Role]
	}
}

// innerSwapped returns a copy of A's gsfa directory (manifest and linked log untouched) in which one file (the inner pubkey index, or the manifest) is
// the one of the given variant ("epoch", "root", "epoch+root": written from A's ground truth with that identity;
// "whole-B": B's own). Only the identity recorded inside that one file tells it apart from A's.
func (w *c10World) innerSwapped(variant string, inner string) string {
	dst := w.A.GsfaDir + "-" + strings.TrimSuffix(inner, ".index") + "-" + strings.ReplaceAll(variant, "+", "-")
	if _, err := os.Stat(dst); err == nil {
		return dst
	}
	src := w.BBr["gsfa"]
	if variant != "whole-B" {
		src = w.V[variant]["gsfa"]
	}
	if err := os.MkdirAll(dst, 0o755); err != nil {
		panic(err)
	}
	ents, err := os.ReadDir(w.A.GsfaDir)
	if err != nil {
		panic(err)
	}
	for _, e := range ents {
		from := filepath.Join(w.A.GsfaDir, e.Name())
		if e.Name() == inner {
			from = filepath.Join(src, inner)
		}
		b, err := os.ReadFile(from)
		if err != nil {
			panic(err)
		}
		if err := os.WriteFile(filepath.Join(dst, e.Name()), b, 0o644); err != nil {
			panic(err)
		}
	}
	return dst
}

type c10Case struct {
	Name   string     `json:"name,omitempty"`
	Faults []c10Fault `json:"faults"`
	Car    string     `json:"car,omitempty"`    // "" = A's CAR; "B"
	Config string     `json:"config,omitempty"` // "" = A's; "B" = B's configuration
	NoGsfa bool       `json:"no_gsfa,omitempty"`
	Remote bool       `json:"remote,omitempty"` // the CAR and every index file are served over HTTP (loopback)
}

func (c c10Case) label() string {
	var p []string
	for _, f := range c.Faults {
		p = append(p, f.String())
	}
	s := strings.Join(p, " + ")
	if c.Name != "" {
		s = c.Name + " " + s
	}
	if c.Remote {
		s += " [files over HTTP]"
	}
	return strings.TrimSpace(s)
}

// c10Load writes the configuration of the case and loads it. Returns the epoch (nil on failure), the error, a panic.
func (w *c10World) load(c c10Case, tag string) (ep *Epoch, err error, pan string) {
	e := w.A
	car := w.A.CarPath
	if c.Config == "B" {
		e = w.B
		car = w.B.CarPath
	}
	switch c.Car {
	case "A":
		car = w.A.CarPath
	case "B":
		car = w.B.CarPath
	}
	over := map[string]string{}
	for _, f := range c.Faults {
		over[f.Role] = w.path(f)
	}
	remoteBase := ""
	if c.Remote {
		remoteBase = w.remoteBase
	}
	cfg := e.writeConfig(vkConfigOpts{Name: "c10-" + tag, Overrides: over, CarURI: car, NoGsfa: c.NoGsfa, RemoteBase: remoteBase})
	func() {
		defer func() {
			if x := recover(); x != nil {
				pan = fmt.Sprint(x) + " @ " + c10Frame()
			}
		}()
		ep, err = vkLoadEpoch(cfg, c10NewCache())
	}()
	return
}

func c10Frame() string {
	pcs := make([]uintptr, 64)
	n := runtime.Callers(3, pcs)
	fr := runtime.CallersFrames(pcs[:n])
	for {
		f, more := fr.Next()
		if strings.HasPrefix(f.Function, "github.com/rpcpool/yellowstone-faithful") && !strings.Contains(f.Function, "zzverif") &&
			!strings.Contains(f.File, "zz_verif_") && !strings.Contains(f.File, "/verif/harness/") {
			fn := strings.TrimPrefix(f.Function, "github.com/rpcpool/yellowstone-faithful")
			if strings.HasPrefix(fn, ".") {
				return "main" + fn
			}
			return strings.TrimPrefix(fn, "/")
		}
		if !more {
			break
		}
	}
	return "unknown-frame"
}

// c10Fetch checks part two on a loaded epoch: every object of truth t fails or comes back with exactly its bytes.
func c10Fetch(R *vkit.Report, ep *Epoch, t *cargen.Truth, key, what string, replay interface{}) (exact, failed int) {
	ctx := context.Background()
	for i := range t.Objects {
		o := &t.Objects[i]
		var data []byte
		var err error
		var pan string
		func() {
			defer func() {
				if x := recover(); x != nil {
					pan = fmt.Sprint(x) + " @ " + c10Frame()
				}
			}()
			data, err = ep.GetNodeByCid(ctx, o.Cid)
		}()
		R.Case(true, "")
		switch {
		case pan != "":
			R.Violation("C10|panic|GetNodeByCid|"+key, fmt.Sprintf("%s: GetNodeByCid(%s) panicked: %s", what, o.Cid, pan), replay)
		case err != nil:
			failed++
		case bytes.Equal(data, o.Data):
			exact++
		default:
			R.Violation("C10|other-bytes|"+key, fmt.Sprintf("%s: GetNodeByCid(%s) returned %d bytes that are not the %d bytes archived under this CID", what, o.Cid, len(data), len(o.Data)), replay)
		}
	}
	return
}

// ---------- read-back ----------

type c10RB struct {
	Writer string `json:"writer"`
	Epoch  uint64 `json:"epoch"`
	Root   string `json:"root"`
	Net    string `json:"network"`
}

func c10Sha512Cid() cid.Cid {
	c, err := cid.Prefix{Version: 1, Codec: cid.DagCBOR, MhType: multihash.SHA2_512, MhLength: -1}.Sum([]byte("c10-long-root"))
	if err != nil {
		panic(err)
	}
	return c
}

func (w *c10World) readBack(R *vkit.Report, base string, take func() bool) {
	epochs := []uint64{0, 1, w.A.Truth.Epoch, w.B.Truth.Epoch, 1<<32 + 7, 1<<64 - 1}
	roots := []cid.Cid{w.A.Truth.Root, w.B.Truth.Root, c10Sha512Cid()}
	nets := []indexes.Network{indexes.NetworkMainnet, indexes.NetworkTestnet, indexes.NetworkDevnet}
	writers := []string{"cid_to_offset_and_size", "slot_to_cid", "sig_to_cid", "pubkey_to_offset_and_size", "sig_exists", "gsfa_manifest", "slot_to_blocktime"}
	t := w.A.Truth
	ctx := context.Background()
	n := 0
	for _, wr := range writers {
		for _, e := range epochs {
			for _, rc := range roots {
				for _, net := range nets {
					if wr == "slot_to_blocktime" && (e == 1<<64-1 || !rc.Equals(roots[0]) || net != nets[0]) {
						continue // records the epoch only; epoch*432000 must fit
					}
					if !take() {
						continue
					}
					n++
					cs := c10RB{wr, e, rc.String(), string(net)}
					dir := filepath.Join(base, fmt.Sprintf("rb-%d", n))
					tmp := filepath.Join(dir, "tmp")
					os.MkdirAll(tmp, 0o755)
					want := fmt.Sprintf("epoch=%d root=%s network=%s", e, rc, net)
					got, kind, wantKind := "", "", ""
					var err error
					var pan string
					func() {
						defer func() {
							if x := recover(); x != nil {
								pan = fmt.Sprint(x) + " @ " + c10Frame()
							}
						}()
						fm := func(m *indexes.Metadata) {
							got = fmt.Sprintf("epoch=%d root=%s network=%s", m.Epoch, m.RootCid, m.Network)
							kind = string(m.IndexKind)
						}
						switch wr {
						case "cid_to_offset_and_size":
							wantKind = string(indexes.Kind_CidToOffsetAndSize)
							var x *indexes.CidToOffsetAndSize_Writer
							if x, err = indexes.NewWriter_CidToOffsetAndSize(e, rc, net, tmp, 1); err != nil {
								return
							}
							x.Put(t.Objects[0].Cid, 7, 9)
							if err = x.Seal(ctx, dir); err != nil {
								return
							}
							x.Close()
							var rd *indexes.CidToOffsetAndSize_Reader
							if rd, err = indexes.Open_CidToOffsetAndSize(x.GetFilepath()); err != nil {
								return
							}
							fm(rd.Meta())
							rd.Close()
						case "slot_to_cid":
							wantKind = string(indexes.Kind_SlotToCid)
							var x *indexes.SlotToCid_Writer
							if x, err = indexes.NewWriter_SlotToCid(e, rc, net, tmp, 1); err != nil {
								return
							}
							x.Put(7, t.Objects[0].Cid)
							if err = x.Seal(ctx, dir); err != nil {
								return
							}
							x.Close()
							var rd *indexes.SlotToCid_Reader
							if rd, err = indexes.Open_SlotToCid(x.GetFilepath()); err != nil {
								return
							}
							fm(rd.Meta())
							rd.Close()
						case "sig_to_cid":
							wantKind = string(indexes.Kind_SigToCid)
							var x *indexes.SigToCid_Writer
							if x, err = indexes.NewWriter_SigToCid(e, rc, net, tmp, 1); err != nil {
								return
							}
							x.Put(t.Txs[0].Sig, t.Objects[0].Cid)
							if err = x.Seal(ctx, dir); err != nil {
								return
							}
							x.Close()
							var rd *indexes.SigToCid_Reader
							if rd, err = indexes.Open_SigToCid(x.GetFilepath()); err != nil {
								return
							}
							fm(rd.Meta())
							rd.Close()
						case "pubkey_to_offset_and_size":
							wantKind = string(indexes.Kind_PubkeyToOffsetAndSize)
							var x *indexes.PubkeyToOffsetAndSize_Writer
							if x, err = indexes.NewWriter_PubkeyToOffsetAndSize(e, rc, net, tmp); err != nil {
								return
							}
							x.Put(t.Txs[0].Accounts[0], 7, 9)
							if err = x.Seal(ctx, dir); err != nil {
								return
							}
							x.Close()
							var rd *indexes.PubkeyToOffsetAndSize_Reader
							if rd, err = indexes.Open_PubkeyToOffsetAndSize(x.GetFilepath()); err != nil {
								return
							}
							fm(rd.Meta())
							rd.Close()
						case "sig_exists":
							p := filepath.Join(dir, "sig-exists.index")
							var x *bucketteer.Writer
							if x, err = bucketteer.NewWriter(p); err != nil {
								return
							}
							x.Put(t.Txs[0].Sig)
							if _, err = x.Seal(c10Meta(c10Ident{e, rc, net})); err != nil {
								return
							}
							x.Close()
							var rd *bucketteer.Reader
							if rd, err = bucketteer.Open(p); err != nil {
								return
							}
							m := rd.Meta()
							ge, _ := m.GetUint64(indexmeta.MetadataKey_Epoch)
							gc, _ := m.GetCid(indexmeta.MetadataKey_RootCid)
							gn, _ := m.GetString(indexmeta.MetadataKey_Network)
							got = fmt.Sprintf("epoch=%d root=%s network=%s", ge, gc, gn)
							rd.Close()
						case "gsfa_manifest":
							p := filepath.Join(dir, "manifest")
							var x *manifest.Manifest
							if x, err = manifest.NewManifest(p, c10Meta(c10Ident{e, rc, net})); err != nil {
								return
							}
							x.Put(1, 2)
							x.Close()
							if x, err = manifest.NewManifest(p, indexmeta.Meta{}); err != nil {
								return
							}
							m := x.Meta()
							ge, _ := m.GetUint64(indexmeta.MetadataKey_Epoch)
							gc, _ := m.GetCid(indexmeta.MetadataKey_RootCid)
							gn, _ := m.GetString(indexmeta.MetadataKey_Network)
							got = fmt.Sprintf("epoch=%d root=%s network=%s", ge, gc, gn)
							x.Close()
						case "slot_to_blocktime":
							idx := blocktimeindex.NewForEpoch(e)
							var b []byte
							if b, err = idx.MarshalBinary(); err != nil {
								return
							}
							var rd *blocktimeindex.Index
							if rd, err = blocktimeindex.FromBytes(b); err != nil {
								return
							}
							got = fmt.Sprintf("epoch=%d root=%s network=%s", rd.Epoch(), rc, net)
						}
					}()
					os.RemoveAll(dir)
					R.Case(true, "")
					rp := map[string]interface{}{"readback": cs}
					switch {
					case pan != "":
						R.Outcome("readback|" + wr + "|panic")
						R.Violation("C10|panic|readback|"+wr, fmt.Sprintf("write/read of %+v panicked: %s", cs, pan), rp)
					case err != nil:
						// a writer may refuse an identity; it must not store a different one
						R.Outcome("readback|" + wr + "|refused")
						R.Note("read-back %+v refused: %v", cs, err)
					case got != want:
						R.Outcome("readback|" + wr + "|DIFFERENT")
						field := "epoch"
						if strings.Split(got, " ")[0] == strings.Split(want, " ")[0] {
							field = "root-or-network"
						}
						R.Violation("C10|readback|"+wr+"|"+field, fmt.Sprintf("%s written with %s reads back %s", wr, want, got), rp)
					case kind != wantKind:
						R.Outcome("readback|" + wr + "|KIND")
						R.Violation("C10|readback|"+wr+"|kind", fmt.Sprintf("%s reads back kind %q, writer is for %q", wr, kind, wantKind), rp)
					default:
						R.Outcome("readback|" + wr + "|same")
					}
					if n%40 == 0 {
						R.Sample(rp)
					}
				}
			}
		}
	}
}

func TestVerif_C10(t *testing.T) {
	silenceKlog()
	R := vkit.New("C10")
	defer R.Finish()
	base := vkBase("c10")
	defer os.RemoveAll(base)
	R.Rule = c10Rule
	w, err := c10Build(base)
	if err != nil {
		R.Internal("cannot build the epochs: %v", err)
		return
	}
	R.Assume("the generated CARs and their ground truth (cargen) are correct; foreign-identity files are produced by the repository's own writers (NewBuilder_CidToOffset/SlotToCid/SignatureToCid, bucketteer.Writer, blocktimeindex, gsfa.GsfaWriter) from A's ground truth")
	R.Bounds["roles"] = len(c10Roles)
	R.Bounds["objects_per_epoch"] = len(w.A.Truth.Objects)
	faults := c10Faults()
	R.Bounds["fault_menu"] = len(faults)

	// ---- enumerate cases ----
	var cases []c10Case
	cases = append(cases, c10Case{Name: "control: fault-free"})
	cases = append(cases, c10Case{Name: "control: gsfa left out", NoGsfa: true})
	for _, f := range faults {
		cases = append(cases, c10Case{Faults: []c10Fault{f}})
	}
	// the same controls and single faults with every file fetched over HTTP (remote index files are opened, and may be
	// validated, through another path than local ones)
	remoteBase, stopRemote := vkServeFiles()
	defer stopRemote()
	w.remoteBase = remoteBase
	cases = append(cases, c10Case{Name: "control: fault-free", Remote: true})
	for _, f := range faults {
		cases = append(cases, c10Case{Faults: []c10Fault{f}, Remote: true})
	}
	nSingles := len(cases)
	for i := range faults {
		for j := i + 1; j < len(faults); j++ {
			if faults[i].Role == faults[j].Role {
				continue
			}
			cases = append(cases, c10Case{Faults: []c10Fault{faults[i], faults[j]}})
		}
	}
	R.Bounds["single_fault_cases"] = fmt.Sprintf("%d with local files + %d with every file over HTTP", len(faults), len(faults))
	R.Bounds["pair_cases"] = len(cases) - nSingles
	if vkit.Thorough() {
		// all triples of identity faults (no role swaps) on three different roles
		var idf []c10Fault
		for _, f := range faults {
			if f.Field != "kind" {
				idf = append(idf, f)
			}
		}
		n0 := len(cases)
		for i := range idf {
			for j := i + 1; j < len(idf); j++ {
				for k := j + 1; k < len(idf); k++ {
					if idf[i].Role == idf[j].Role || idf[j].Role == idf[k].Role || idf[i].Role == idf[k].Role {
						continue
					}
					cases = append(cases, c10Case{Faults: []c10Fault{idf[i], idf[j], idf[k]}})
				}
			}
		}
		R.Bounds["triple_cases(identity faults)"] = len(cases) - n0
	}
	special := func(name, field string, roles []string, car, config string) {
		c := c10Case{Name: name, Car: car, Config: config}
		for _, r := range roles {
			c.Faults = append(c.Faults, c10Fault{Role: r, Field: field})
		}
		cases = append(cases, c)
	}
	rootRoles := []string{"cid_to_offset_and_size", "slot_to_cid", "sig_to_cid", "sig_exists", "gsfa"}
	for _, v := range []string{"epoch", "root", "epoch+root", "whole-B"} {
		special("gsfa directory of A whose inner pubkey index records another identity:", "inner-"+v, []string{"gsfa"}, "", "")
		special("gsfa directory of A whose manifest records another identity:", "manifest-"+v, []string{"gsfa"}, "", "")
	}
	special("every root-carrying index records B's root", "root", rootRoles, "", "")
	special("all indexes from B, CAR from A", "whole-B", c10Roles, "", "")
	special("indexes from A, CAR from B", "", nil, "B", "")
	special("B's configuration, CAR from A", "", nil, "A", "B")
	for k := 1; k < len(rootRoles); k++ { // every proper prefix / suffix of the comparison chain with B's root
		special(fmt.Sprintf("first %d root-carrying indexes record B's root", k), "root", rootRoles[:k], "", "")
		special(fmt.Sprintf("last %d root-carrying indexes record B's root", k), "root", rootRoles[len(rootRoles)-k:], "", "")
	}

	judge := func(c c10Case, idx int) {
		rp := map[string]interface{}{"case": c}
		ep, err, pan := w.load(c, "case")
		R.Case(len(c.Faults) > 0 || c.Car != "" || c.Config != "", "")
		truth := w.A.Truth
		if c.Config == "B" {
			truth = w.B.Truth
		}
		// does the statement demand failure?
		demand := false
		roots := map[string]bool{}
		for _, r := range rootRoles {
			roots[r] = false // false = A's root
		}
		for _, f := range c.Faults {
			switch f.Field {
			case "kind", "epoch", "epoch+root", "whole-B", "inner-epoch", "inner-root", "inner-epoch+root", "inner-whole-B", "manifest-epoch", "manifest-root", "manifest-epoch+root", "manifest-whole-B":
				demand = true // (inner-root: the other files record A's root, so the files disagree)
			case "root":
				roots[f.Role] = true
			}
		}
		nB := 0
		for _, b := range roots {
			if b {
				nB++
			}
		}
		if nB > 0 && nB < len(roots) {
			demand = true
		}
		switch {
		case pan != "":
			R.Outcome("load|panic")
			R.Violation("C10|panic|NewEpochFromConfig|"+strings.SplitN(pan, " @ ", 2)[len(strings.SplitN(pan, " @ ", 2))-1], fmt.Sprintf("[%s] loading panicked: %s", c.label(), pan), rp)
			return
		case err != nil && len(c.Faults) == 0 && c.Car == "" && c.Config == "":
			R.Outcome("load|CONTROL-REJECTED")
			R.Violation("C10|rejected|"+strings.ReplaceAll(c.Name, " ", "-"), fmt.Sprintf("[%s] the epoch's own files are rejected: %v", c.label(), err), rp)
			return
		case err != nil:
			if demand {
				R.Outcome("load|rejected(demanded)")
			} else {
				R.Outcome("load|rejected(not demanded)")
			}
			return
		}
		defer ep.Close()
		if demand {
			R.Outcome("load|ACCEPTED")
			// blame: the faults that the statement names; a pair is keyed by both
			var names []string
			for _, f := range c.Faults {
				if f.Field == "kind" {
					names = append(names, f.Role+"|kind<-"+f.From)
				} else {
					names = append(names, f.Role+"|"+f.Field)
				}
			}
			sort.Strings(names)
			key := "C10|accepted|" + strings.Join(names, "+")
			if c.Name != "" {
				key = "C10|accepted|" + strings.ReplaceAll(c.Name, " ", "-")
			}
			R.Violation(key, fmt.Sprintf("[%s] NewEpochFromConfig succeeded although the configuration of epoch %d contains a file of foreign identity", c.label(), truth.Epoch), rp)
		} else {
			R.Outcome("load|accepted(allowed)")
		}
		// part two: whatever was accepted must never hand out another object's bytes
		keyName := strings.ReplaceAll(c.Name, " ", "-")
		if keyName == "" {
			keyName = "faulty-config-accepted"
		}
		exact, failed := c10Fetch(R, ep, truth, keyName+"|local-car", "["+c.label()+"] local CAR", rp)
		R.Outcome(fmt.Sprintf("fetch|%s|exact=%v failed=%v", keyName, exact > 0, failed > 0))
		if c.Car != "" || c.Config != "" {
			// the same through the ReaderAt CAR path
			carBytes := w.A.Truth.Bytes
			if (c.Car == "B") || (c.Car == "" && c.Config == "B") {
				carBytes = w.B.Truth.Bytes
			}
			ep.localCarReader = nil
			ep.remoteCarReader = &readCloserWrapper{rac: &c10Mem{Reader: bytes.NewReader(carBytes)}, name: "epoch.car", size: int64(len(carBytes))}
			hs, n := binary.Uvarint(carBytes)
			ep.carHeaderSize = uint64(n) + hs
			ep.allCache = c10NewCache()
			c10Fetch(R, ep, truth, keyName+"|readerat-car", "["+c.label()+"] ReaderAt CAR", rp)
			ep.remoteCarReader = nil
		}
		if idx%97 == 0 {
			R.Sample(rp)
		}
	}

	if rp := vkit.ReplayRequest(); rp != nil {
		if rb, ok := rp["readback"]; ok {
			var want c10RB
			remarshal(rb, &want)
			t.Logf("replay read-back %+v", want)
			w.readBack(R, base, func() bool { return true }) // small: run all of them
		} else {
			var c c10Case
			remarshal(rp["case"], &c)
			t.Logf("replay %s", c.label())
			judge(c, 1)
		}
		for k, v := range R.Violations {
			t.Logf("replay: %s: %s", k, v.What)
		}
		return
	}
	idx := int64(0)
	take := func() bool {
		i := idx
		idx++
		return vkit.Mine(i)
	}
	for i, c := range cases {
		if !take() {
			continue
		}
		if R.Expired() {
			R.Note("deadline reached at case %d", i)
			return
		}
		judge(c, i)
	}
	w.readBack(R, base, take)
	// the gsfa directories written with a foreign identity read back through the directory reader
	for name, set := range w.V {
		if !take() {
			continue
		}
		g, err := gsfa.NewGsfaReader(set["gsfa"])
		R.Case(true, "")
		if err != nil {
			R.Violation("C10|readback|gsfa-dir|open", fmt.Sprintf("gsfa directory written by GsfaWriter (variant %s) does not open: %v", name, err), nil)
			continue
		}
		m := g.Meta()
		ge, _ := m.GetUint64(indexmeta.MetadataKey_Epoch)
		gc, _ := m.GetCid(indexmeta.MetadataKey_RootCid)
		we, wc := w.A.Truth.Epoch, w.A.Truth.Root
		if strings.Contains(name, "epoch") {
			we = w.B.Truth.Epoch
		}
		if strings.Contains(name, "root") {
			wc = w.B.Truth.Root
		}
		if ge != we || !gc.Equals(wc) {
			R.Violation("C10|readback|gsfa-dir|identity", fmt.Sprintf("gsfa directory written with epoch=%d root=%s reads back epoch=%d root=%s", we, wc, ge, gc), nil)
		}
		R.Outcome("readback|gsfa-dir|same")
		g.Close()
	}
}

type c10Mem struct{ *bytes.Reader }

func (c *c10Mem) Close() error { return nil }
