//go:build verif

package main

import (
	"fmt"
	"os"
	"path/filepath"
	"runtime/debug"
	"strings"
	"testing"

	"github.com/rpcpool/yellowstone-faithful/zzverif/cargen"
	"github.com/rpcpool/yellowstone-faithful/zzverif/vkit"
)

// C09 (reload-cuts variant): the --watch reload reads the configuration file when the file system reports a
// write - which may be while the writer is still at it. The watcher's sequence (LoadConfig, then
// NewEpochFromConfig; cmd-rpc.go, the fsnotify Write and Create cases) is run on the configuration file cut at
// EVERY byte offset (the crash points of the writer), in its YAML and in its JSON form, with and without an
// address index. Oracle: every such reload completes - with an error or with an epoch; a panic in the watcher
// goroutine is not recovered anywhere and ends the server with every query in flight.
func TestVerif_C09_ReloadCuts(t *testing.T) {
	silenceKlog()
	R := vkit.New("C09")
	defer R.Finish()
	base := vkBase("c09c")
	defer os.RemoveAll(base)
	R.Rule = "reload-cuts variant: case = the configuration file of a served epoch (YAML and JSON form, with and without address index) cut at every byte offset; the watcher's reload sequence LoadConfig -> NewEpochFromConfig is run on it; oracle = the reload completes with an error or an epoch, never a panic (the watcher goroutine has no recover); non-trivial = cut file that still parses"
	e, err := vkBuildEpoch(filepath.Join(base, "e"), cargen.SimpleShape(3, 5, 2, 1), true)
	if err != nil {
		R.Internal("build: %v", err)
		return
	}
	var forms []struct {
		name string
		data []byte
		ext  string
	}
	for _, noGsfa := range []bool{false, true} {
		p := e.writeConfig(vkConfigOpts{Name: fmt.Sprintf("cfg-gsfa-%v", !noGsfa), NoGsfa: noGsfa})
		y, err := os.ReadFile(p)
		if err != nil {
			R.Internal("%v", err)
			return
		}
		forms = append(forms, struct {
			name string
			data []byte
			ext  string
		}{fmt.Sprintf("yaml,gsfa=%v", !noGsfa), y, ".yml"})
		// the same configuration as JSON (LoadConfig picks the parser by the extension)
		cfg, err := LoadConfig(p)
		if err != nil {
			R.Internal("LoadConfig of the uncut file: %v", err)
			return
		}
		if j, err := fasterJson.Marshal(cfg); err == nil {
			forms = append(forms, struct {
				name string
				data []byte
				ext  string
			}{fmt.Sprintf("json,gsfa=%v", !noGsfa), j, ".json"})
		}
	}
	R.Bounds["config_forms"] = len(forms)
	cache := vkNewCache()
	idx := int64(0)
	for _, f := range forms {
		R.Bounds["bytes:"+f.name] = len(f.data)
		for cut := 0; cut <= len(f.data); cut++ {
			mine := vkit.Mine(idx)
			idx++
			if !mine {
				continue
			}
			p := filepath.Join(base, fmt.Sprintf("cut-%d%s", idx, f.ext))
			if err := os.WriteFile(p, f.data[:cut], 0o644); err != nil {
				R.Internal("%v", err)
				return
			}
			outcome := ""
			func() {
				defer func() {
					if r := recover(); r != nil {
						outcome = "panic"
						site := "?"
						for _, ln := range strings.Split(string(debug.Stack()), "\n") {
							if strings.HasPrefix(ln, "github.com/rpcpool/yellowstone-faithful") && !strings.Contains(ln, "TestVerif") {
								site = strings.TrimPrefix(strings.SplitN(ln, "(", 2)[0], "github.com/rpcpool/yellowstone-faithful")
								break
							}
						}
						R.Violation("C09|reload-cuts|panic|"+site, fmt.Sprintf("configuration (%s) cut to %d of %d bytes: the watcher's reload (LoadConfig + NewEpochFromConfig) panicked: %v", f.name, cut, len(f.data), r),
							map[string]interface{}{"variant": "reload-cuts", "form": f.name, "cut": cut})
					}
				}()
				cfg, err := LoadConfig(p)
				if err != nil {
					outcome = "load-error"
					return
				}
				ep, err := NewEpochFromConfig(cfg, vkCliContext(), cache, nil)
				if err != nil {
					outcome = "epoch-error"
					return
				}
				outcome = "epoch"
				ep.Close()
			}()
			os.Remove(p)
			R.Case(outcome != "load-error", "")
			R.Outcome(strings.SplitN(f.name, ",", 2)[0] + ":" + outcome)
		}
	}
}
