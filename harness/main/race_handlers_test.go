//go:build verif

package main

import (
	"context"
	"fmt"
	"os"
	"path/filepath"
	"runtime"
	"sync"
	"testing"

	old_faithful_grpc "github.com/rpcpool/yellowstone-faithful/old-faithful-proto/old-faithful-grpc"
	"github.com/rpcpool/yellowstone-faithful/zzverif/cargen"
	"github.com/rpcpool/yellowstone-faithful/zzverif/vkit"
)

// Supplementary race-detector pass on the UN-instrumented server: several clients issue every kind of request
// against two loaded epochs (shared cache, address index) at the same time, while another goroutine adds,
// replaces and removes a third epoch. The answers of the requests addressed to the two stable epochs are
// compared with the idle server's; a race report kills the worker and is reported by the driver as
// C09|worker-crash|data race @ <function>.
func TestVerif_C09_RaceHandlers(t *testing.T) {
	silenceKlog()
	R := vkit.New("C09")
	defer R.Finish()
	base := vkBase("c09race")
	defer os.RemoveAll(base)
	R.Rule = "supplementary race-detector pass: 8 clients x every request kind (JSON-RPC getBlock / getTransaction / getBlockTime / getSignaturesForAddress / getSlot / getFirstAvailableBlock, gRPC GetBlock / GetTransaction / StreamBlocks / StreamTransactions with and without the address index) on two stable epochs, concurrently with add / replace / remove of a third one, free-running under -race with GOMAXPROCS 4 and 16; answers compared with the idle server's"
	sh1 := cargen.SimpleShape(1, 5, 4, 3)
	sh1.Blocks[1].Entries = append(sh1.Blocks[1].Entries, []cargen.TxShape{{Accounts: []int{0, 1}, Meta: cargen.PayloadShape{Pad: 600, FrameSize: 200}}, {Accounts: []int{2}}})
	e1, err := vkBuildEpoch(filepath.Join(base, "e1"), sh1, true)
	if err != nil {
		R.Internal("build e1: %v", err)
		return
	}
	e2, err := vkBuildEpoch(filepath.Join(base, "e2"), cargen.SimpleShape(2, 3, 3, 2), true)
	if err != nil {
		R.Internal("build e2: %v", err)
		return
	}
	e3, err := vkBuildEpoch(filepath.Join(base, "e3"), cargen.SimpleShape(4, 7, 2, 1), false)
	if err != nil {
		R.Internal("build e3: %v", err)
		return
	}
	e1.writeConfig(vkConfigOpts{})
	e2.writeConfig(vkConfigOpts{})
	e3.writeConfig(vkConfigOpts{NoGsfa: true})
	cache := vkNewCache()
	ep1, err := vkLoadEpoch(e1.ConfigPath, cache)
	if err != nil {
		R.Internal("load e1: %v", err)
		return
	}
	defer ep1.Close()
	ep2, err := vkLoadEpoch(e2.ConfigPath, cache)
	if err != nil {
		R.Internal("load e2: %v", err)
		return
	}
	defer ep2.Close()
	ctx := context.Background()
	type query struct {
		name string
		run  func(m *MultiEpoch) string
	}
	rpc := func(body string) func(m *MultiEpoch) string {
		return func(m *MultiEpoch) string {
			_, resp, pan := vkRPC(newMultiEpochHandler(m, nil), body)
			if pan != nil {
				return fmt.Sprintf("panic: %v", pan)
			}
			return string(resp)
		}
	}
	var qs []query
	for _, e := range []*vEpoch{e1, e2} {
		e := e
		for bi := range e.Truth.Blocks {
			slot := e.Truth.Blocks[bi].Slot
			qs = append(qs, query{fmt.Sprintf("getBlock(%d)", slot), rpc(fmt.Sprintf(`{"jsonrpc":"2.0","id":1,"method":"getBlock","params":[%d,{"encoding":"base64","maxSupportedTransactionVersion":0}]}`, slot))})
			qs = append(qs, query{fmt.Sprintf("getBlockTime(%d)", slot), rpc(fmt.Sprintf(`{"jsonrpc":"2.0","id":1,"method":"getBlockTime","params":[%d]}`, slot))})
			qs = append(qs, query{fmt.Sprintf("grpc:GetBlock(%d)", slot), func(m *MultiEpoch) string {
				r, err := m.GetBlock(ctx, &old_faithful_grpc.BlockRequest{Slot: slot})
				if err != nil {
					return "error: " + err.Error()
				}
				return fmt.Sprintf("%d/%d/%x", r.Slot, len(r.Transactions), r.Blockhash)
			}})
		}
		for ti := range e.Truth.Txs {
			sig := e.Truth.Txs[ti].Sig
			if ti%2 == 0 {
				qs = append(qs, query{"getTransaction", rpc(fmt.Sprintf(`{"jsonrpc":"2.0","id":1,"method":"getTransaction","params":[%q,{"encoding":"json","maxSupportedTransactionVersion":0}]}`, sig.String()))})
			} else {
				qs = append(qs, query{"grpc:GetTransaction", func(m *MultiEpoch) string {
					r, err := m.GetTransaction(ctx, &old_faithful_grpc.TransactionRequest{Signature: sig[:]})
					if err != nil {
						return "error: " + err.Error()
					}
					return fmt.Sprintf("%d/%x", r.Slot, r.Transaction.Transaction)
				}})
			}
		}
		first, last := e.Truth.Blocks[0].Slot, e.Truth.Blocks[len(e.Truth.Blocks)-1].Slot
		qs = append(qs, query{"grpc:StreamBlocks", func(m *MultiEpoch) string {
			st := &vkBlockStream{vkStreamBase: vkBase0()}
			err := m.StreamBlocks(&old_faithful_grpc.StreamBlocksRequest{StartSlot: first, EndSlot: &last}, st)
			return fmt.Sprintf("%d blocks err=%v", len(st.Got), err)
		}})
		for _, inc := range [][]string{nil, {cargen.Account(0).String()}, {cargen.Account(0).String(), cargen.Account(1).String(), cargen.Account(2).String()}} {
			inc := inc
			qs = append(qs, query{fmt.Sprintf("grpc:StreamTransactions(%d accounts)", len(inc)), func(m *MultiEpoch) string {
				st := &vkTxStream{vkStreamBase: vkBase0()}
				req := &old_faithful_grpc.StreamTransactionsRequest{StartSlot: first, EndSlot: &last}
				if inc != nil {
					req.Filter = &old_faithful_grpc.StreamTransactionsFilter{AccountInclude: inc}
				}
				err := m.StreamTransactions(req, st)
				out := fmt.Sprintf("err=%v", err)
				for _, g := range st.Got {
					if g.Transaction != nil {
						out += fmt.Sprintf(" %d:%x", g.Slot, g.Transaction.Transaction[1:9])
					}
				}
				return out
			}})
		}
	}
	// an address that occurs in e1 and e2 only (e3 has no address index)
	for a := 0; a < 3; a++ {
		qs = append(qs, query{"getSignaturesForAddress", rpc(fmt.Sprintf(`{"jsonrpc":"2.0","id":1,"method":"getSignaturesForAddress","params":[%q,{"limit":100}]}`, cargen.Account(a).String()))})
	}
	R.Bounds["request_kinds"] = len(qs)
	// idle answers (the third epoch present or not must not matter for requests addressed to e1/e2)
	idle := make([]string, len(qs))
	m0 := vkNewMulti(2, ep1, ep2)
	for i, q := range qs {
		idle[i] = q.run(m0)
	}
	for _, procs := range []int{4, 16} {
		if !vkit.Mine(int64(procs)) {
			continue
		}
		old := runtime.GOMAXPROCS(procs)
		m := vkNewMulti(2, ep1, ep2)
		stop := make(chan struct{})
		var wg sync.WaitGroup
		// reload thread: add / replace / remove the third epoch
		wg.Add(1)
		go func() {
			defer wg.Done()
			for round := 0; ; round++ {
				select {
				case <-stop:
					return
				default:
				}
				ep3, err := vkLoadEpoch(e3.ConfigPath, cache)
				if err != nil {
					return
				}
				switch round % 3 {
				case 0:
					m.AddEpoch(4, ep3)
					m.RemoveEpoch(4)
				case 1:
					m.ReplaceOrAddEpoch(4, ep3)
					m.RemoveEpochByConfigFilepath(e3.ConfigPath)
				case 2:
					m.AddEpoch(4, ep3)
					ep3b, err := vkLoadEpoch(e3.ConfigPath, cache)
					if err == nil {
						m.ReplaceOrAddEpoch(4, ep3b)
					}
					m.RemoveEpoch(4)
				}
				m.GetEpochNumbers()
			}
		}()
		var mu sync.Mutex
		wrong := map[string]string{}
		var cw sync.WaitGroup
		for c := 0; c < 8; c++ {
			cw.Add(1)
			go func(c int) {
				defer cw.Done()
				for round := 0; round < 3; round++ {
					for k := range qs {
						i := (k*7 + c*13 + round) % len(qs)
						got := qs[i].run(m)
						if got != idle[i] {
							mu.Lock()
							if _, ok := wrong[qs[i].name]; !ok {
								wrong[qs[i].name] = fmt.Sprintf("%.300s  (idle: %.300s)", got, idle[i])
							}
							mu.Unlock()
						}
					}
				}
			}(c)
		}
		cw.Wait()
		close(stop)
		wg.Wait()
		runtime.GOMAXPROCS(old)
		R.Case(true, "")
		R.Add("requests_issued", int64(8*3*len(qs)))
		for name, detail := range wrong {
			R.Violation("C09|race-pass|differs-from-idle|"+name, fmt.Sprintf("GOMAXPROCS %d: %s answered differently from the idle server while other requests and reloads of another epoch ran: %s", procs, name, detail), map[string]interface{}{"variant": "race-handlers", "procs": procs})
		}
		R.Outcome(fmt.Sprintf("procs=%d:wrong=%d", procs, len(wrong)))
	}
	R.Sample("8 clients x 3 rounds x every request kind, reload thread on a third epoch, -race")
}
