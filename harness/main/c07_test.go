//go:build verif

package main

import (
	"encoding/json"
	"fmt"
	"github.com/valyala/fasthttp"
	"os"
	"path/filepath"
	"testing"

	"github.com/gagliardetto/solana-go"
	"github.com/rpcpool/yellowstone-faithful/zzverif/cargen"
	"github.com/rpcpool/yellowstone-faithful/zzverif/explore"
	"github.com/rpcpool/yellowstone-faithful/zzverif/vkit"
	"github.com/rpcpool/yellowstone-faithful/zzverif/vsched"
)

// C07 (handler level): the JSON-RPC getSignaturesForAddress response lists the entries in exactly
// the newest-first order, for EVERY iteration order of the per-epoch result map (the `range` over
// that map in multiepoch-getSignaturesForAddress.go is rewritten to an explorer choice).

func c07Shapes() []cargen.Shape {
	mk := func(epoch uint64, accs [][]int) cargen.Shape {
		s := cargen.Shape{Epoch: epoch}
		for i, a := range accs {
			s.Blocks = append(s.Blocks, cargen.BlockShape{SlotOffset: 5 + 3*i, Blocktime: int64(1_670_000_000 + int(epoch)*100 + i),
				Entries: [][]cargen.TxShape{{{Accounts: a}, {Accounts: []int{9}}}}})
		}
		return s
	}
	// account 0 in all epochs, 1 in epochs 1 and 4, 2 only in epoch 2, 3 nowhere
	return []cargen.Shape{
		mk(1, [][]int{{0, 1}, {0}, {1}}),
		mk(2, [][]int{{0, 2}, {2}}),
		mk(4, [][]int{{1}, {0}, {0, 1}}),
	}
}

func TestVerif_C07_Handler(t *testing.T) {
	silenceKlog()
	R := vkit.New("C07")
	defer R.Finish()
	base := vkBase("c07")
	defer os.RemoveAll(base)
	R.Rule = "handler level: 3 generated epochs with real gsfa indexes; addresses present in all / two / one / no epoch; every loaded subset x (limit, before, until) drawn from the address history; for each request every iteration order of the per-epoch result map is enumerated and the JSON array must list the signatures in newest-first order"
	shapes := c07Shapes()
	var eps []*vEpoch
	for i, sh := range shapes {
		if !vkit.Mine(0) { // a single worker does the handler level (the space is small)
			return
		}
		e, err := vkBuildEpoch(filepath.Join(base, fmt.Sprintf("e%d", i)), sh, true)
		if err != nil {
			R.Internal("cannot build epoch %d: %v", sh.Epoch, err)
			return
		}
		e.writeConfig(vkConfigOpts{})
		eps = append(eps, e)
	}
	history := func(loaded []*vEpoch, acc int) []solana.Signature {
		var out []solana.Signature
		pk := cargen.Account(acc)
		for i := len(loaded) - 1; i >= 0; i-- { // newest epoch first
			txs := loaded[i].Truth.Txs
			for k := len(txs) - 1; k >= 0; k-- { // newest transaction first
				for _, a := range txs[k].Accounts {
					if a == pk {
						out = append(out, txs[k].Sig)
						break
					}
				}
			}
		}
		return out
	}
	for mask := 1; mask < 8; mask++ {
		cache := vkNewCache()
		var loaded []*vEpoch
		var real []*Epoch
		for i, e := range eps {
			if mask&(1<<i) == 0 {
				continue
			}
			ep, err := vkLoadEpoch(e.ConfigPath, cache)
			if err != nil {
				R.Internal("load: %v", err)
				return
			}
			loaded = append(loaded, e)
			real = append(real, ep)
		}
		multi := vkNewMulti(1, real...)
		handlers := []func(*fasthttp.RequestCtx){newMultiEpochHandler(multi, nil)}
		if mask == 7 || mask == 5 {
			// the --gsfa-only-signatures mode of the server: same order and paging, entries carry the signature only
			so := NewMultiEpoch(&Options{GsfaOnlySignatures: true, EpochSearchConcurrency: 1})
			for _, ep := range real {
				if err := so.AddEpoch(ep.Epoch(), ep); err != nil {
					R.Internal("AddEpoch: %v", err)
					return
				}
			}
			handlers = append(handlers, newMultiEpochHandler(so, nil))
		}
		for hi, h := range handlers {
			for acc := 0; acc <= 3; acc++ {
				H := history(loaded, acc)
				total := len(H)
				limits := []int{0, 1001}
				for l := 1; l <= total; l++ {
					limits = append(limits, l)
				}
				for _, limit := range limits {
					for b := -1; b < total; b++ {
						for u := -1; u < total; u++ {
							if R.Expired() {
								return
							}
							opts := map[string]interface{}{}
							if limit != 0 {
								opts["limit"] = limit
							}
							if b >= 0 {
								opts["before"] = H[b].String()
							}
							if u >= 0 {
								opts["until"] = H[u].String()
							}
							ob, _ := json.Marshal(opts)
							body := fmt.Sprintf(`{"jsonrpc":"2.0","id":1,"method":"getSignaturesForAddress","params":[%q,%s]}`, cargen.Account(acc).String(), ob)
							start := 0
							if b >= 0 {
								start = b + 1
							}
							end := total
							if u >= start {
								end = u + 1
							}
							want := H[start:end]
							eff := limit
							if eff <= 0 || eff > 1000 {
								eff = 1000
							}
							if len(want) > eff {
								want = want[:eff]
							}
							q := map[string]interface{}{"variant": "handler", "loaded_mask": mask, "account": acc, "options": opts, "signatures_only": hi == 1}
							st := explore.Search(explore.Config{Bound: -1}, func(c *explore.Ctx) explore.Result {
								vsched.SetFreeCtx(c)
								defer vsched.SetFreeCtx(nil)
								_, resp, pan := vkRPC(h, body)
								var res explore.Result
								if pan != nil {
									res.Violation = &explore.Violation{Key: "C07|panic|handler", What: fmt.Sprintf("getSignaturesForAddress panicked: %v", pan)}
									return res
								}
								var m struct {
									Result []map[string]interface{} `json:"result"`
									Error  interface{}              `json:"error"`
								}
								if err := json.Unmarshal(resp, &m); err != nil || m.Error != nil {
									res.Violation = &explore.Violation{Key: "C07|handler-error", What: fmt.Sprintf("request %s answered %s", body, resp)}
									return res
								}
								var got []string
								for _, r := range m.Result {
									s, _ := r["signature"].(string)
									got = append(got, s)
								}
								var w []string
								for _, s := range want {
									w = append(w, s.String())
								}
								res.Outcome = fmt.Sprint(got)
								if fmt.Sprint(got) != fmt.Sprint(w) {
									class := "json-content"
									if len(got) == len(w) {
										class = "json-order"
									}
									res.Violation = &explore.Violation{Key: "C07|" + class, What: fmt.Sprintf("account %d, epochs mask %03b, options %s: want %v got %v", acc, mask, ob, w, got)}
								}
								return res
							})
							R.Evaluations += st.Executions
							R.States++
							R.Transitions += st.Executions
							R.TracesValidated += st.Executions
							if len(want) > 1 {
								R.NonTrivial += st.Executions
							}
							R.Add("handler_requests", 1)
							R.Add("handler_map_orders_explored", st.Executions)
							for _, f := range st.Violations {
								q["choices"] = f.Choices
								R.Violation(f.Violation.Key, f.Violation.What, q)
								break
							}
						}
					}
				}
			}
		}
		for _, ep := range real {
			ep.Close()
		}
		R.Sample(map[string]interface{}{"variant": "handler", "loaded_mask": mask})
	}
}
