//go:build verif

package main

import (
	"encoding/json"
	"fmt"
	"github.com/valyala/fasthttp"
	"os"
	"path/filepath"
	"testing"

	"github.com/gagliardetto/solana-go"
	"github.com/rpcpool/yellowstone-faithful/indexes"
	"github.com/rpcpool/yellowstone-faithful/zzverif/cargen"
	"github.com/rpcpool/yellowstone-faithful/zzverif/explore"
	"github.com/rpcpool/yellowstone-faithful/zzverif/vkit"
	"github.com/rpcpool/yellowstone-faithful/zzverif/vsched"
)

// C07 (handler level): the JSON-RPC getSignaturesForAddress response lists the entries in exactly
// the newest-first order, for EVERY iteration order of the per-epoch result map (the `range` over
// that map in multiepoch-getSignaturesForAddress.go is rewritten to an explorer choice).

// extra (optional) is a further address that is a static key of every transaction that mentions account 1.
func c07Shapes(extra *solana.PublicKey) []cargen.Shape {
	mk := func(epoch uint64, accs [][]int) cargen.Shape {
		s := cargen.Shape{Epoch: epoch}
		for i, a := range accs {
			first := cargen.TxShape{Accounts: a}
			for _, x := range a {
				if x == 1 && extra != nil {
					first.Keys = [][32]byte{[32]byte(*extra)}
				}
			}
			s.Blocks = append(s.Blocks, cargen.BlockShape{SlotOffset: 5 + 3*i, Blocktime: int64(1_670_000_000 + int(epoch)*100 + i),
				Entries: [][]cargen.TxShape{{first, {Accounts: []int{9}}}}})
		}
		return s
	}
	// account 0 in all epochs, 1 in epochs 1 and 4, 2 only in epoch 2, 3 nowhere
	return []cargen.Shape{
		mk(1, [][]int{{0, 1}, {0}, {1}}),
		mk(2, [][]int{{0, 2}, {2}}),
		mk(4, [][]int{{1}, {0}, {0, 1}}),
	}
}

func TestVerif_C07_Handler(t *testing.T) {
	silenceKlog()
	R := vkit.New("C07")
	defer R.Finish()
	base := vkBase("c07")
	defer os.RemoveAll(base)
	R.Rule = "handler level: 3 generated epochs with real gsfa indexes; addresses present in all / two / one / no epoch, plus an address present in the oldest and the newest epoch that collides (bucket and 24-bit hash) with a stored address in the middle epoch's address index; every loaded subset x (limit, before, until) drawn from the address history; for each request every iteration order of the per-epoch result map is enumerated and the JSON array must list the signatures in newest-first order"
	if !vkit.Mine(0) { // a single worker does the handler level (the space is small)
		return
	}
	// account "4" = an address constructed so that, in the MIDDLE epoch's address index (where it has no history),
	// its bucket and 24-bit hash equal those of a stored address; it has history in the oldest and the newest epoch
	// (next to account 1). The middle epoch is built first, the address is searched in its index.
	var collider *solana.PublicKey
	{
		e, err := vkBuildEpoch(filepath.Join(base, "probe"), c07Shapes(nil)[1], true)
		if err != nil {
			R.Internal("cannot build the middle epoch: %v", err)
			return
		}
		seen := map[solana.PublicKey]bool{}
		var keys [][]byte
		for _, tx := range e.Truth.Txs {
			for _, a := range tx.Accounts {
				if !seen[a] {
					seen[a] = true
					keys = append(keys, append([]byte{}, a[:]...))
				}
			}
		}
		_, db, f, err := c03OpenBucketDomain(filepath.Join(e.GsfaDir, string(indexes.Kind_PubkeyToOffsetAndSize)+".index"), keys[0])
		if err != nil {
			R.Internal("cannot open the middle epoch's pubkey index: %v", err)
			return
		}
		cand, _, tries := c03FindCollider(db, keys, c03GenAddr, 0, 1_500_000_000)
		f.Close()
		if cand == nil {
			R.Note("no colliding address found in %d candidates: account 4 is left out", tries)
		} else {
			pk := solana.PublicKeyFromBytes(cand)
			collider = &pk
			R.Add("collider_search_candidates", int64(tries))
		}
	}
	shapes := c07Shapes(collider)
	var eps []*vEpoch
	for i, sh := range shapes {
		e, err := vkBuildEpoch(filepath.Join(base, fmt.Sprintf("e%d", i)), sh, true)
		if err != nil {
			R.Internal("cannot build epoch %d: %v", sh.Epoch, err)
			return
		}
		e.writeConfig(vkConfigOpts{})
		eps = append(eps, e)
	}
	nAcc := 3
	if collider != nil {
		nAcc = 4
	}
	accKey := func(acc int) solana.PublicKey {
		if acc == 4 {
			return *collider
		}
		return cargen.Account(acc)
	}
	history := func(loaded []*vEpoch, acc int) []solana.Signature {
		var out []solana.Signature
		pk := accKey(acc)
		for i := len(loaded) - 1; i >= 0; i-- { // newest epoch first
			txs := loaded[i].Truth.Txs
			for k := len(txs) - 1; k >= 0; k-- { // newest transaction first
				for _, a := range txs[k].Accounts {
					if a == pk {
						out = append(out, txs[k].Sig)
						break
					}
				}
			}
		}
		return out
	}
	for mask := 1; mask < 8; mask++ {
		cache := vkNewCache()
		var loaded []*vEpoch
		var real []*Epoch
		for i, e := range eps {
			if mask&(1<<i) == 0 {
				continue
			}
			ep, err := vkLoadEpoch(e.ConfigPath, cache)
			if err != nil {
				R.Internal("load: %v", err)
				return
			}
			loaded = append(loaded, e)
			real = append(real, ep)
		}
		multi := vkNewMulti(1, real...)
		handlers := []func(*fasthttp.RequestCtx){newMultiEpochHandler(multi, nil)}
		if mask == 7 || mask == 5 {
			// the --gsfa-only-signatures mode of the server: same order and paging, entries carry the signature only
			so := NewMultiEpoch(&Options{GsfaOnlySignatures: true, EpochSearchConcurrency: 1})
			for _, ep := range real {
				if err := so.AddEpoch(ep.Epoch(), ep); err != nil {
					R.Internal("AddEpoch: %v", err)
					return
				}
			}
			handlers = append(handlers, newMultiEpochHandler(so, nil))
		}
		for hi, h := range handlers {
			for acc := 0; acc <= nAcc; acc++ {
				H := history(loaded, acc)
				total := len(H)
				limits := []int{0, 1001}
				for l := 1; l <= total; l++ {
					limits = append(limits, l)
				}
				for _, limit := range limits {
					for b := -1; b < total; b++ {
						for u := -1; u < total; u++ {
							if R.Expired() {
								return
							}
							opts := map[string]interface{}{}
							if limit != 0 {
								opts["limit"] = limit
							}
							if b >= 0 {
								opts["before"] = H[b].String()
							}
							if u >= 0 {
								opts["until"] = H[u].String()
							}
							ob, _ := json.Marshal(opts)
							body := fmt.Sprintf(`{"jsonrpc":"2.0","id":1,"method":"getSignaturesForAddress","params":[%q,%s]}`, accKey(acc).String(), ob)
							start := 0
							if b >= 0 {
								start = b + 1
							}
							end := total
							if u >= start {
								end = u + 1
							}
							want := H[start:end]
							eff := limit
							if eff <= 0 || eff > 1000 {
								eff = 1000
							}
							if len(want) > eff {
								want = want[:eff]
							}
							q := map[string]interface{}{"variant": "handler", "loaded_mask": mask, "account": acc, "options": opts, "signatures_only": hi == 1}
							st := explore.Search(explore.Config{Bound: -1}, func(c *explore.Ctx) explore.Result {
								vsched.SetFreeCtx(c)
								defer vsched.SetFreeCtx(nil)
								_, resp, pan := vkRPC(h, body)
								var res explore.Result
								if pan != nil {
									res.Violation = &explore.Violation{Key: "C07|panic|handler", What: fmt.Sprintf("getSignaturesForAddress panicked: %v", pan)}
									return res
								}
								var m struct {
									Result []map[string]interface{} `json:"result"`
									Error  interface{}              `json:"error"`
								}
								if err := json.Unmarshal(resp, &m); err != nil || m.Error != nil {
									res.Violation = &explore.Violation{Key: "C07|handler-error", What: fmt.Sprintf("request %s answered %s", body, resp)}
									return res
								}
								var got []string
								for _, r := range m.Result {
									s, _ := r["signature"].(string)
									got = append(got, s)
								}
								var w []string
								for _, s := range want {
									w = append(w, s.String())
								}
								res.Outcome = fmt.Sprint(got)
								if fmt.Sprint(got) != fmt.Sprint(w) {
									class := "json-content"
									if len(got) == len(w) {
										class = "json-order"
									}
									res.Violation = &explore.Violation{Key: "C07|" + class, What: fmt.Sprintf("account %d, epochs mask %03b, options %s: want %v got %v", acc, mask, ob, w, got)}
								}
								return res
							})
							R.Evaluations += st.Executions
							R.States++
							R.Transitions += st.Executions
							R.TracesValidated += st.Executions
							if len(want) > 1 {
								R.NonTrivial += st.Executions
							}
							R.Add("handler_requests", 1)
							R.Add("handler_map_orders_explored", st.Executions)
							for _, f := range st.Violations {
								q["choices"] = f.Choices
								R.Violation(f.Violation.Key, f.Violation.What, q)
								break
							}
						}
					}
				}
			}
		}
		for _, ep := range real {
			ep.Close()
		}
		R.Sample(map[string]interface{}{"variant": "handler", "loaded_mask": mask})
	}
}
