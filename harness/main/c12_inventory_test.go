//go:build verif

package main

// C12 inventory helper (not part of the check): for every violation key recorded in a replay directory it rebuilds
// the failing input, shrinks it (shortest prefix, then zeroing bytes, then shortest prefix again; the key must
// stay the same) and writes one JSON record per key. Run by hand:
//
//	C12_REPLAYS=/verif/replays/C12 C12_INVENTORY=/verif/findings/C12/inventory.json <test binary> -test.run '^TestVerif_C12_Inventory$'

import (
	"encoding/hex"
	"encoding/json"
	"fmt"
	"os"
	"path/filepath"
	"runtime"
	"sort"
	"strings"
	"testing"
)

type c12InvRec struct {
	Key       string `json:"key"`
	Entry     string `json:"entry"`
	Site      string `json:"site"`
	Where     string `json:"where,omitempty"`
	Class     string `json:"class"`
	Family    string `json:"family"`
	Deviation string `json:"deviation"`
	InputLen  int    `json:"input_len"`
	MinLen    int    `json:"min_len"`
	MinHex    string `json:"min_hex,omitempty"`
	MinNote   string `json:"min_note,omitempty"`
	Message   string `json:"message"`
	Shrunk    bool   `json:"shrunk"`
	FromDeath bool   `json:"from_worker_death"`
}

func (x *c12Exec) runRaw(f *c12Fam, in []byte) map[string]c12Viol {
	x.fam, x.in = f, in
	x.dev = c12NoDev("raw")
	x.sig = x.sig[:0]
	x.viols = x.viols[:0]
	x.seen = map[string]int64{}
	f.Run(x, in)
	out := map[string]c12Viol{}
	for _, v := range x.viols {
		out[v.Key] = v
	}
	return out
}

func TestVerif_C12_Inventory(t *testing.T) {
	dir, outPath := os.Getenv("C12_REPLAYS"), os.Getenv("C12_INVENTORY")
	if dir == "" || outPath == "" {
		t.Skip("C12_REPLAYS / C12_INVENTORY not set")
	}
	c12SilenceKlog()
	runtime.MemProfileRate = 1 << 20
	scratch, err := os.MkdirTemp(c12ScratchRoot(), "c12inv-")
	if err != nil {
		t.Fatal(err)
	}
	defer os.RemoveAll(scratch)
	fams := c12Families(filepath.Join(scratch, "build"), false)
	byName := map[string]*c12Fam{}
	for _, f := range fams {
		byName[f.Name] = f
	}
	x := c12NewExec(filepath.Join(scratch, "x"))
	os.MkdirAll(x.scratch, 0o755)
	files, _ := filepath.Glob(filepath.Join(dir, "*.json"))
	sort.Strings(files)
	var recs []c12InvRec
	for _, fp := range files {
		b, err := os.ReadFile(fp)
		if err != nil {
			continue
		}
		var rf struct {
			Key    string `json:"key"`
			What   string `json:"what"`
			Replay struct {
				Family    string `json:"family"`
				Dev       c12Dev `json:"dev"`
				Entry     string `json:"entry"`
				Deviation string `json:"deviation"`
				Site      string `json:"site"`
				Where     string `json:"where"`
				Panic     string `json:"panic"`
				Stderr    string `json:"stderr_head"`
			} `json:"replay"`
		}
		if json.Unmarshal(b, &rf) != nil || rf.Key == "" {
			continue
		}
		f := byName[rf.Replay.Family]
		if f == nil {
			t.Logf("skip %s: unknown family %q", rf.Key, rf.Replay.Family)
			continue
		}
		parts := strings.Split(rf.Key, "|")
		rec := c12InvRec{Key: rf.Key, Entry: rf.Replay.Entry, Site: rf.Replay.Site, Where: rf.Replay.Where, Family: f.Name, Deviation: rf.Replay.Deviation, Message: rf.What}
		rec.Class = parts[1]
		if len(parts) >= 5 {
			rec.Class = parts[1] + ": " + parts[4]
		}
		if rec.Site == "" && len(parts) >= 4 {
			rec.Site = parts[3]
		}
		in0, restore := f.apply(rf.Replay.Dev)
		in := append([]byte{}, in0...)
		restore()
		rec.InputLen = len(in)
		cur := in
		rec.FromDeath = rf.Replay.Stderr != ""
		if !rec.FromDeath {
			has := func(b []byte) bool {
				_, ok := x.runRaw(f, b)[rf.Key]
				return ok
			}
			if has(cur) {
				cur = c12Shrink(cur, has)
				rec.Shrunk = true
			} else {
				rec.MinNote = "not reproduced in-process by the inventory helper; original input kept"
			}
		} else {
			rec.MinNote = "kills the process (out of memory): not shrunk"
		}
		rec.MinLen = len(cur)
		if len(cur) <= 400 {
			rec.MinHex = hex.EncodeToString(cur)
		} else {
			rec.MinNote = strings.TrimSpace(rec.MinNote + fmt.Sprintf(" input of %d bytes = seed [%s] with: %s; first 48 bytes %s", len(cur), f.Name, rf.Replay.Deviation, hex.EncodeToString(cur[:48])))
		}
		recs = append(recs, rec)
		t.Logf("%s: %d -> %d bytes", rf.Key, rec.InputLen, rec.MinLen)
	}
	sort.Slice(recs, func(i, j int) bool { return recs[i].Key < recs[j].Key })
	ob, _ := json.MarshalIndent(recs, "", " ")
	if err := os.WriteFile(outPath, ob, 0o644); err != nil {
		t.Fatal(err)
	}
}

// c12Shrink: shortest prefix that still shows the key, then zero every byte that can be zero, then prefix again.
func c12Shrink(in []byte, has func([]byte) bool) []byte {
	prefix := func(b []byte) []byte {
		if len(b) <= 8192 {
			for l := 0; l < len(b); l++ {
				if has(b[:l:l]) {
					return append([]byte{}, b[:l]...)
				}
			}
			return b
		}
		// large input: gallop, then bisect (assumes monotonicity; the result is verified)
		lo, hi := 0, len(b)
		for l := 64; l < len(b); l *= 2 {
			if has(b[:l:l]) {
				hi = l
				break
			}
			lo = l
		}
		for hi-lo > 1 {
			mid := (lo + hi) / 2
			if has(b[:mid:mid]) {
				hi = mid
			} else {
				lo = mid
			}
		}
		if has(b[:hi:hi]) {
			return append([]byte{}, b[:hi]...)
		}
		return b
	}
	cur := prefix(in)
	if len(cur) <= 8192 {
		for i := len(cur) - 1; i >= 0; i-- {
			if cur[i] == 0 {
				continue
			}
			old := cur[i]
			cur[i] = 0
			if !has(cur) {
				cur[i] = old
			}
		}
		cur = prefix(cur)
	}
	return cur
}
