//go:build verif

package main

import (
	"context"
	"fmt"
	"go/ast"
	"go/parser"
	"go/token"
	"os"
	"sort"
	"strings"
	"testing"

	"github.com/gagliardetto/solana-go"
	"github.com/rpcpool/yellowstone-faithful/gsfa"
	"github.com/rpcpool/yellowstone-faithful/zzverif/explore"
	"github.com/rpcpool/yellowstone-faithful/zzverif/vkit"
	"github.com/rpcpool/yellowstone-faithful/zzverif/vsched"
)

// C09 (family 1): the epoch-set lock protocol. multiepoch.go is compiled with its `sync` import
// rewritten to the vsched model (RWMutex with Go's writer preference); every other file of the
// package reaches the lock through the field, so all users of the lock are covered.
//
// Scenario = 2..3 threads, each performing one operation of the alphabet on a MultiEpoch that
// starts with epochs {1,3}. ALL interleavings are enumerated (no preemption bound). Oracle:
//   - every operation returns (no deadlock),
//   - an epoch listing is strictly descending (sorted newest first, duplicate free),
//   - the observations and the final epoch set equal those of SOME sequential order of the same
//     operations run on a fresh instance (linearizability by brute force over <=3! orders).

type c09Op struct {
	Name   string
	Writer bool
	Do     func(m *MultiEpoch) string
}

func c09LightEpoch(n uint64, tag string) *Epoch {
	cfg := &Config{}
	cfg.originalFilepath = fmt.Sprintf("cfg-%d%s", n, tag)
	cfg.hashOfConfigFile = fmt.Sprintf("hash-%d%s", n, tag)
	e := n
	cfg.Epoch = &e
	return &Epoch{epoch: n, config: cfg}
}

func c09EpochName(e *Epoch) string {
	if e == nil {
		return "nil"
	}
	return e.config.originalFilepath
}

func c09Ops() []c09Op {
	ctx := context.Background()
	return []c09Op{
		{"GetEpoch(1)", false, func(m *MultiEpoch) string { e, err := m.GetEpoch(1); return fmt.Sprint(c09EpochName(e), err != nil) }},
		{"HasEpoch(2)", false, func(m *MultiEpoch) string { return fmt.Sprint(m.HasEpoch(2)) }},
		{"CountEpochs", false, func(m *MultiEpoch) string { return fmt.Sprint(m.CountEpochs()) }},
		{"GetEpochNumbers", false, func(m *MultiEpoch) string { return fmt.Sprint(m.GetEpochNumbers()) }},
		{"GetMostRecentAvailableEpoch", false, func(m *MultiEpoch) string {
			e, err := m.GetMostRecentAvailableEpoch()
			return fmt.Sprint(c09EpochName(e), err != nil)
		}},
		{"GetOldestAvailableEpoch", false, func(m *MultiEpoch) string {
			e, err := m.GetOldestAvailableEpoch()
			return fmt.Sprint(c09EpochName(e), err != nil)
		}},
		{"GetMostRecentAvailableEpochNumber", false, func(m *MultiEpoch) string {
			n, err := m.GetMostRecentAvailableEpochNumber()
			return fmt.Sprint(n, err != nil)
		}},
		{"getAllBucketteers", false, func(m *MultiEpoch) string { return fmt.Sprint(len(m.getAllBucketteers())) }},
		{"getGsfaReadersDesc", false, func(m *MultiEpoch) string {
			r, n := m.getGsfaReadersInEpochDescendingOrder()
			return fmt.Sprint(len(r), n)
		}},
		{"getGsfaReadersWithTheirEpochs", false, func(m *MultiEpoch) string {
			// (through an interface: the method is younger than the oldest tree this harness must compile against)
			if g, ok := interface{}(m).(interface {
				getGsfaReadersWithTheirEpochs() ([]*gsfa.GsfaReader, map[uint64]*Epoch)
			}); ok {
				r, owners := g.getGsfaReadersWithTheirEpochs()
				var ns []uint64
				for n := range owners {
					ns = append(ns, n)
				}
				sort.Slice(ns, func(i, j int) bool { return ns[i] > ns[j] })
				return fmt.Sprint(len(r), ns)
			}
			r, n := m.getGsfaReadersInEpochDescendingOrder()
			return fmt.Sprint(len(r), n)
		}},
		{"getGsfaReadersDescForSlotRange", false, func(m *MultiEpoch) string {
			_, n := m.getGsfaReadersInEpochDescendingOrderForSlotRange(ctx, 432000, 4*432000)
			return fmt.Sprint(n)
		}},
		{"HasEpochWithSameHashAsFile", false, func(m *MultiEpoch) string {
			return fmt.Sprint(m.HasEpochWithSameHashAsFile("/nonexistent/verif-c09"))
		}},
		{"findEpochNumberFromSignature", false, func(m *MultiEpoch) string {
			n, err := m.findEpochNumberFromSignature(ctx, solana.Signature{1, 2, 3})
			return fmt.Sprint(n, err != nil)
		}},
		{"AddEpoch(2)", true, func(m *MultiEpoch) string { return fmt.Sprint(m.AddEpoch(2, c09LightEpoch(2, "")) != nil) }},
		{"ReplaceOrAddEpoch(1)", true, func(m *MultiEpoch) string { return fmt.Sprint(m.ReplaceOrAddEpoch(1, c09LightEpoch(1, "'")) != nil) }},
		{"ReplaceOrAddEpoch(4)", true, func(m *MultiEpoch) string { return fmt.Sprint(m.ReplaceOrAddEpoch(4, c09LightEpoch(4, "")) != nil) }},
		{"ReplaceEpoch(3)", true, func(m *MultiEpoch) string { return fmt.Sprint(m.ReplaceEpoch(3, c09LightEpoch(3, "'")) != nil) }},
		{"RemoveEpoch(3)", true, func(m *MultiEpoch) string { return fmt.Sprint(m.RemoveEpoch(3) != nil) }},
		{"RemoveEpochByConfigFilepath(cfg-1)", true, func(m *MultiEpoch) string {
			n, err := m.RemoveEpochByConfigFilepath("cfg-1")
			return fmt.Sprint(n, err != nil)
		}},
		{"Close", true, func(m *MultiEpoch) string { return fmt.Sprint(m.Close() != nil) }},
	}
}

func c09Fresh() *MultiEpoch { return c09FreshFrom("") }

// c09FreshFrom: start "" = epochs 1 and 3 loaded; "empty" = no epoch loaded yet (a server that has just started, or
// whose last epoch was removed)
func c09FreshFrom(start string) *MultiEpoch {
	conc := 1 // the parallel search itself is C18's subject; here its jobs only matter as lock users
	if vkit.Thorough() {
		conc = 2
	}
	// set up through the public API only (an implementation may keep derived state next to the map)
	m := NewMultiEpoch(&Options{EpochSearchConcurrency: conc})
	if start == "empty" {
		return m
	}
	if err := m.AddEpoch(1, c09LightEpoch(1, "")); err != nil {
		panic(err)
	}
	if err := m.AddEpoch(3, c09LightEpoch(3, "")); err != nil {
		panic(err)
	}
	return m
}

// c09Final observes the final epoch set through the public accessors: the listing, and the
// epoch object behind every listed number.
func c09Final(m *MultiEpoch) string {
	nums := m.GetEpochNumbers()
	parts := []string{fmt.Sprintf("list=%v count=%d", nums, m.CountEpochs())}
	for _, n := range nums {
		e, err := m.GetEpoch(n)
		if err != nil {
			parts = append(parts, fmt.Sprintf("%d=<listed but not loaded>", n))
			continue
		}
		parts = append(parts, fmt.Sprintf("%d=%s", n, c09EpochName(e)))
	}
	return strings.Join(parts, ",")
}

// c09FinalProblem checks the final listing on its own: strictly descending, every listed epoch loaded,
// count consistent (the statement's "duplicate-free and sorted newest first").
func c09FinalProblem(final string) string {
	i := strings.Index(final, "list=[")
	j := strings.Index(final, "] count=")
	if i < 0 || j < 0 {
		return ""
	}
	list := "[" + final[i+6:j] + "]"
	if !c09StrictlyDescending(list) {
		return "final epoch listing not strictly descending: " + list
	}
	if strings.Contains(final, "<listed but not loaded>") {
		return "an epoch is listed but cannot be fetched: " + final
	}
	var cnt int
	fmt.Sscanf(final[j+len("] count="):], "%d", &cnt)
	if n := len(strings.Fields(strings.Trim(list, "[]"))); n != cnt {
		return fmt.Sprintf("listing has %d entries but CountEpochs says %d", n, cnt)
	}
	return ""
}

type c09Scenario struct {
	Ops   []int  `json:"ops"` // indices into c09Ops, one per thread
	Name  string `json:"name"`
	Start string `json:"start,omitempty"` // "" = two epochs loaded, "empty" = none
}

func c09StrictlyDescending(obs string) bool {
	// obs looks like "[3 2 1]"
	f := strings.Fields(strings.Trim(obs, "[]"))
	prev := ^uint64(0)
	for i, s := range f {
		var v uint64
		fmt.Sscan(s, &v)
		if i > 0 && v >= prev {
			return false
		}
		prev = v
	}
	return true
}

// sequential reference: the real object, run sequentially, for every order of the operations.
// sequentialStuck runs the operations one after the other (every order) under the scheduler, where an operation that
// blocks for ever is seen as a deadlock instead of hanging the harness. Returns a description of the first order
// that does not complete.
func (sc c09Scenario) sequentialStuck(ops []c09Op) string {
	idx := make([]int, len(sc.Ops))
	for i := range idx {
		idx[i] = i
	}
	problem := ""
	var perm func(k int)
	perm = func(k int) {
		if problem != "" {
			return
		}
		if k == len(idx) {
			order := append([]int{}, idx...)
			at := ""
			_, _, err := explore.Replay(nil, func(c *explore.Ctx) explore.Result {
				s := vsched.Run(c, vsched.Options{Horizon: 4000, Drain: true, Canonical: true}, func() {
					m := c09FreshFrom(sc.Start)
					for _, t := range order {
						at = ops[sc.Ops[t]].Name
						ops[sc.Ops[t]].Do(m)
					}
					at = ""
				})
				if s.Deadlock || s.HorizonHit {
					var names []string
					for _, t := range order {
						names = append(names, ops[sc.Ops[t]].Name)
					}
					problem = fmt.Sprintf("run one after the other in the order %v, %s never completes (%s)", names, at, s.DeadlockInfo)
				}
				return explore.Result{}
			})
			if err != nil && problem == "" {
				problem = "internal: " + err.Error()
			}
			return
		}
		for i := k; i < len(idx); i++ {
			idx[k], idx[i] = idx[i], idx[k]
			perm(k + 1)
			idx[k], idx[i] = idx[i], idx[k]
		}
	}
	perm(0)
	return problem
}

func (sc c09Scenario) sequentialOutcomes(ops []c09Op) map[string]bool {
	out := map[string]bool{}
	idx := make([]int, len(sc.Ops))
	for i := range idx {
		idx[i] = i
	}
	var perm func(k int)
	perm = func(k int) {
		if k == len(idx) {
			m := c09FreshFrom(sc.Start)
			obs := make([]string, len(sc.Ops))
			for _, t := range idx {
				obs[t] = ops[sc.Ops[t]].Do(m)
			}
			out[strings.Join(obs, " | ")+" || "+c09Final(m)] = true
			return
		}
		for i := k; i < len(idx); i++ {
			idx[k], idx[i] = idx[i], idx[k]
			perm(k + 1)
			idx[k], idx[i] = idx[i], idx[k]
		}
	}
	perm(0)
	return out
}

func (sc c09Scenario) run(c *explore.Ctx, ops []c09Op, seq map[string]bool) explore.Result {
	obs := make([]string, len(sc.Ops))
	var m *MultiEpoch
	s := vsched.Run(c, vsched.Options{Horizon: 4000, Drain: true, Canonical: true}, func() {
		m = c09FreshFrom(sc.Start)
		done := make(chan int, len(sc.Ops))
		for t := range sc.Ops {
			t := t
			vsched.Go(func() {
				obs[t] = ops[sc.Ops[t]].Do(m)
				vsched.Send(done, t)
			})
		}
		for range sc.Ops {
			vsched.Recv(done)
		}
	})
	if c.Pruned {
		return explore.Result{}
	}
	res := explore.Result{NonTrivial: s.Switches > len(sc.Ops)}
	bad := func(key, what string) {
		if res.Violation == nil {
			res.Violation = &explore.Violation{Key: "C09|" + key, What: what}
		}
	}
	switch {
	case s.Panic != "":
		if strings.Contains(s.Panic, "replay divergence") {
			panic(s.Panic)
		}
		res.Outcome = "panic"
		bad("panic|"+c18PanicSite(s.Panic), "operation panicked: "+firstLine(s.Panic))
	case s.Deadlock:
		res.Outcome = "deadlock"
		var names []string
		for _, o := range sc.Ops {
			names = append(names, ops[o].Name)
		}
		sort.Strings(names)
		bad("deadlock|"+c09DeadlockClass(sc, ops, s, m), fmt.Sprintf("deadlock: operations %v never complete (%s)", names, s.DeadlockInfo))
	case s.HorizonHit:
		res.Outcome = "horizon"
	default:
		final := c09Final(m)
		got := strings.Join(obs, " | ") + " || " + final
		res.Outcome = got
		if p := c09FinalProblem(final); p != "" {
			bad("inconsistent-epoch-set", p)
		}
		for t, o := range sc.Ops {
			if ops[o].Name == "GetEpochNumbers" && !c09StrictlyDescending(obs[t]) {
				bad("unsorted-listing", "epoch listing not strictly descending: "+obs[t])
			}
		}
		if !seq[got] {
			bad("not-linearizable|"+sc.Name, fmt.Sprintf("observations %q match no sequential order of the operations (sequential outcomes: %v)", got, keysOf(seq)))
		}
	}
	return res
}

// c09DeadlockClass names a deadlock by the reader operations involved (writers are interchangeable:
// any pending writer makes a re-entrant read lock block).
func c09DeadlockClass(sc c09Scenario, ops []c09Op, s *vsched.Sched, m *MultiEpoch) string {
	var rs []string
	seen := map[string]bool{}
	if m != nil {
		// culprits: threads blocked in RLock while already holding the read lock (thread t+1 runs op t)
		for _, id := range m.mu.ReentrantBlocked(s) {
			if id >= 1 && id <= len(sc.Ops) {
				n := ops[sc.Ops[id-1]].Name
				if !seen[n] {
					seen[n] = true
					rs = append(rs, n)
				}
			}
		}
	}
	if len(rs) == 0 {
		for _, o := range sc.Ops {
			if !seen[ops[o].Name] {
				seen[ops[o].Name] = true
				rs = append(rs, ops[o].Name)
			}
		}
	}
	sort.Strings(rs)
	return strings.Join(rs, "+")
}

func keysOf(m map[string]bool) []string {
	var k []string
	for s := range m {
		k = append(k, s)
	}
	sort.Strings(k)
	return k
}

// c09DiscoverLockUsers scans the package source for *MultiEpoch methods that touch the lock
// (directly or through another such method) so that the evidence can say whether the alphabet
// still covers them all.
func c09DiscoverLockUsers() (direct []string, err error) {
	fset := token.NewFileSet()
	ents, err := os.ReadDir(".")
	if err != nil {
		return nil, err
	}
	for _, e := range ents {
		n := e.Name()
		if !strings.HasSuffix(n, ".go") || strings.HasSuffix(n, "_test.go") {
			continue
		}
		f, err := parser.ParseFile(fset, n, nil, parser.SkipObjectResolution)
		if err != nil {
			continue
		}
		for _, d := range f.Decls {
			fd, ok := d.(*ast.FuncDecl)
			if !ok || fd.Recv == nil || fd.Body == nil || len(fd.Recv.List) != 1 {
				continue
			}
			st, ok := fd.Recv.List[0].Type.(*ast.StarExpr)
			if !ok {
				continue
			}
			if id, ok := st.X.(*ast.Ident); !ok || id.Name != "MultiEpoch" {
				continue
			}
			uses := false
			recvName := ""
			if len(fd.Recv.List[0].Names) == 1 {
				recvName = fd.Recv.List[0].Names[0].Name
			}
			ast.Inspect(fd.Body, func(n ast.Node) bool {
				if se, ok := n.(*ast.SelectorExpr); ok {
					if inner, ok := se.X.(*ast.SelectorExpr); ok && inner.Sel.Name == "mu" {
						if id, ok := inner.X.(*ast.Ident); !ok || id.Name != recvName {
							return true
						}
						switch se.Sel.Name {
						case "Lock", "RLock":
							uses = true
						}
					}
				}
				return true
			})
			if uses {
				direct = append(direct, fd.Name.Name)
			}
		}
	}
	sort.Strings(direct)
	return direct, nil
}

var c09Covered = map[string]bool{
	"GetEpoch": true, "HasEpoch": true, "AddEpoch": true, "RemoveEpoch": true, "RemoveEpochByConfigFilepath": true,
	"ReplaceEpoch": true, "ReplaceOrAddEpoch": true, "HasEpochWithSameHashAsFile": true, "CountEpochs": true,
	"GetEpochNumbers": true, "GetMostRecentAvailableEpoch": true, "GetOldestAvailableEpoch": true, "Close": true,
	"getAllBucketteers": true, "getGsfaReadersInEpochDescendingOrder": true, "getGsfaReadersInEpochDescendingOrderForSlotRange": true,
	"getGsfaReadersWithTheirEpochs": true,
}

func c09Scenarios(ops []c09Op) []c09Scenario {
	var readers, writers []int
	for i, o := range ops {
		if o.Writer {
			writers = append(writers, i)
		} else {
			readers = append(readers, i)
		}
	}
	var out []c09Scenario
	add := func(ix ...int) {
		var names []string
		for _, i := range ix {
			names = append(names, ops[i].Name)
		}
		out = append(out, c09Scenario{Ops: append([]int{}, ix...), Name: strings.Join(names, " || ")})
	}
	for _, r := range readers {
		for _, w := range writers {
			add(r, w)
		}
	}
	for i, w1 := range writers {
		for _, w2 := range writers[i:] {
			add(w1, w2)
		}
	}
	// the same pairs on a server without any epoch (the readers take their "nothing loaded" paths)
	for _, r := range readers {
		for _, w := range writers {
			add(r, w)
			out[len(out)-1].Start = "empty"
			out[len(out)-1].Name += " (no epoch loaded)"
		}
	}
	// triples: reader, reader, writer  and  reader, writer, writer.
	// findEpochNumberFromSignature spawns the parallel-search goroutines (3 more threads), which makes
	// its triples ~100x larger: quick keeps it to the pair scenarios above.
	heavy := func(i int) bool { return ops[i].Name == "findEpochNumberFromSignature" }
	for i, r1 := range readers {
		for _, r2 := range readers[i:] {
			for _, w := range writers {
				if !vkit.Thorough() && (heavy(r1) || heavy(r2) || (r1+r2+w)%2 != 0) {
					continue
				}
				add(r1, r2, w)
			}
		}
	}
	for _, r := range readers {
		for i, w1 := range writers {
			for _, w2 := range writers[i:] {
				if !vkit.Thorough() && (heavy(r) || (r+w1+w2)%2 != 0) {
					continue
				}
				add(r, w1, w2)
			}
		}
	}
	return out
}

func TestVerif_C09(t *testing.T) {
	silenceKlog()
	R := vkit.New("C09")
	defer R.Finish()
	R.Rule = "scenario = 2..3 threads x one operation each from {12 query-side, 7 reload-side operations} on a MultiEpoch holding epochs {1,3}, and every query/reload pair on one holding no epoch; every interleaving of the lock operations is executed on the real methods (multiepoch.go compiled against the RWMutex model, happens-before state pruning); oracle = no deadlock, listings strictly descending, observations+final set equal to some sequential order run on the real object; non-trivial = execution in which threads actually interleave (more context switches than threads)"
	R.Assume("sync.RWMutex is modelled with Go's documented writer preference (validated against the real primitive by kit/vsched/conform_test.go)")
	R.Assume("code between two lock operations runs atomically (no other synchronisation exists in the instrumented file)")
	ops := c09Ops()
	if rp := vkit.ReplayRequest(); rp != nil {
		var sc c09Scenario
		remarshal(rp["scenario"], &sc)
		if p := sc.sequentialStuck(ops); p != "" {
			R.Violation("C09|deadlock|sequential|"+sc.Name, fmt.Sprintf("[%s] %s", sc.Name, p), rp)
			return
		}
		seq := sc.sequentialOutcomes(ops)
		res, _, err := explore.Replay(vkit.Ints(rp["choices"]), func(c *explore.Ctx) explore.Result { return sc.run(c, ops, seq) })
		t.Logf("replay scenario=%s outcome=%s violation=%+v err=%v", sc.Name, res.Outcome, res.Violation, err)
		if res.Violation != nil {
			R.Violation(res.Violation.Key, res.Violation.What, rp)
		}
		R.Case(true, "")
		return
	}
	if direct, err := c09DiscoverLockUsers(); err == nil {
		var missing []string
		for _, n := range direct {
			if !c09Covered[n] {
				missing = append(missing, n)
			}
		}
		R.Bounds["lock_acquiring_methods_found"] = direct
		if len(missing) > 0 {
			R.Note("methods that acquire the epoch-set lock but are not in the alphabet: %v", missing)
			R.Exhaustive = false
		}
	}
	scs := c09Scenarios(ops)
	R.Bounds["scenarios_total"] = len(scs)
	R.Bounds["preemption_bound"] = "none (all interleavings)"
	for idx, sc := range scs {
		if !vkit.Mine(int64(idx)) {
			continue
		}
		if R.Expired() {
			R.Note("deadline reached before scenario %d", idx)
			break
		}
		sc := sc
		if p := sc.sequentialStuck(ops); p != "" {
			if strings.HasPrefix(p, "internal: ") {
				R.Internal("scenario %s: %s", sc.Name, p)
				break
			}
			R.Violation("C09|deadlock|sequential|"+sc.Name, fmt.Sprintf("[%s] %s", sc.Name, p), map[string]interface{}{"scenario": sc, "choices": []int{}})
			R.Add("scenarios", 1)
			continue
		}
		seq := sc.sequentialOutcomes(ops)
		runf := func(c *explore.Ctx) explore.Result { return sc.run(c, ops, seq) }
		st := explore.Search(explore.Config{Bound: -1, Deadline: R.Deadline(), Prune: true}, runf)
		R.Evaluations += st.Executions
		R.NonTrivial += st.NonTrivial
		R.Transitions += st.Points
		R.TracesValidated += st.Executions
		R.States += st.States
		R.Add("scenarios", 1)
		R.Add("pruned_executions", st.Pruned)
		if st.Executions+st.Pruned > 200000 {
			R.Note("large scenario %s: %d executions, %d pruned, %d states", sc.Name, st.Executions, st.Pruned, st.States)
		}
		if st.CapHit {
			R.CapHit, R.Exhaustive = true, false
		}
		for o := range st.Outcomes {
			R.Outcome(o)
		}
		if idx%41 == 0 && len(st.Samples) > 0 {
			R.Sample(map[string]interface{}{"scenario": sc.Name, "executions": st.Executions, "states": st.States, "a_schedule": st.Samples[len(st.Samples)-1]})
		}
		seenKeys := map[string]bool{}
		for _, f := range st.Violations {
			if seenKeys[f.Violation.Key] {
				continue
			}
			seenKeys[f.Violation.Key] = true
			ok, why := explore.Confirm(f, 5, runf)
			if !ok {
				R.InconclusiveF("violation %s in %s did not reproduce 5x: %s", f.Violation.Key, sc.Name, why)
				continue
			}
			R.Violation(f.Violation.Key, f.Violation.What+" [scenario: "+sc.Name+"]", map[string]interface{}{"scenario": sc, "choices": f.Choices})
		}
	}
}
