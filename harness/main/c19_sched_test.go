//go:build verif

package main

import (
	"fmt"
	"os"
	"path/filepath"
	"strings"
	"testing"

	old_faithful_grpc "github.com/rpcpool/yellowstone-faithful/old-faithful-proto/old-faithful-grpc"
	"github.com/rpcpool/yellowstone-faithful/zzverif/cargen"
	"github.com/rpcpool/yellowstone-faithful/zzverif/explore"
	"github.com/rpcpool/yellowstone-faithful/zzverif/vkit"
	"github.com/rpcpool/yellowstone-faithful/zzverif/vsched"
)

// C19 (scheduled variant): the index-accelerated StreamTransactions path starts one goroutine per included
// account; they fill a shared ordered buffer (txBuffer), report errors over a channel, are throttled by a
// semaphore channel and joined by a WaitGroup, while each of them looks the epochs up under the epoch-set lock.
// grpc-server.go and multiepoch.go are instrumented from the current tree and EVERY interleaving of those
// goroutines (unbounded with happens-before pruning for 2 accounts, preemption-bounded for 3) is executed on the
// real handler with real epochs and a real address index. Oracle per execution: the call returns, without
// panic or deadlock, and the streamed signatures are exactly the reference selection in ascending slot and
// position order - whatever the completion order of the per-account workers.

type c19sScenario struct {
	Name    string `json:"name"`
	Include int    `json:"include_mask"`
	Exclude int    `json:"exclude_mask"`
	Req     int    `json:"required_mask"`
	Vote    int    `json:"vote"`   // 0 absent, 1 true, 2 false
	Failed  int    `json:"failed"` // 0 absent, 1 true, 2 false
	Range   int    `json:"range"`  // 0 whole window, 1 inner window
	Bound   int    `json:"bound"`
}

func TestVerif_C19_Sched(t *testing.T) {
	silenceKlog()
	R := vkit.New("C19")
	defer R.Finish()
	base := vkBase("c19s")
	defer os.RemoveAll(base)
	R.Rule = "scheduled variant: scenario = StreamTransactions over two epochs with an address index loaded x include list of 2..3 accounts (one goroutine per account) x exclude/required/vote/failed variants x 2 ranges; grpc-server.go and multiepoch.go instrumented from the current tree; every interleaving of the per-account workers, the shared ordered buffer, the error channel, the semaphore and the WaitGroup is executed (2 accounts: unbounded with happens-before pruning; 3 accounts: preemption bound 2, thorough 3); oracle per execution = returns without panic/deadlock and streams exactly the reference selection in ascending slot/position order; non-trivial = execution with at least one preemption"
	s1, s2 := c19Shapes()
	// the 120-transaction block is not needed here and would only lengthen every execution
	s2.Blocks = s2.Blocks[:4]
	e1, err := vkBuildEpoch(filepath.Join(base, "e1"), s1, true)
	if err != nil {
		R.Internal("build e1: %v", err)
		return
	}
	e2, err := vkBuildEpoch(filepath.Join(base, "e2"), s2, true)
	if err != nil {
		R.Internal("build e2: %v", err)
		return
	}
	all, blockSlots := c19Truth(e1, e2)
	nU := 3
	cache := vkNewCache()
	ep1, err := vkLoadEpoch(e1.writeConfig(vkConfigOpts{Name: "idx"}), cache)
	if err != nil {
		R.Internal("load e1: %v", err)
		return
	}
	defer ep1.Close()
	ep2, err := vkLoadEpoch(e2.writeConfig(vkConfigOpts{Name: "idx"}), cache)
	if err != nil {
		R.Internal("load e2: %v", err)
		return
	}
	defer ep2.Close()
	first, last := blockSlots[0], blockSlots[len(blockSlots)-1]
	ranges := [][2]uint64{{first, last}, {blockSlots[1], blockSlots[len(blockSlots)-2]}}
	// preemption bounds by the number of per-account workers (-1 = unbounded)
	bound2, bound3 := 2, 1
	if vkit.Thorough() {
		bound2, bound3 = 4, 2
	}
	if v := os.Getenv("C19S_BOUND2"); v != "" {
		fmt.Sscan(v, &bound2)
	}
	var scs []c19sScenario
	add := func(name string, inc, exc, req, vote, failed int) {
		for r := range ranges {
			b := bound2
			n := 0
			for i := 0; i < nU; i++ {
				if inc&(1<<i) != 0 {
					n++
				}
			}
			if n >= 3 {
				b = bound3
			}
			scs = append(scs, c19sScenario{Name: fmt.Sprintf("%s/range%d", name, r), Include: inc, Exclude: exc, Req: req, Vote: vote, Failed: failed, Range: r, Bound: b})
		}
	}
	add("include{0,1}", 3, 0, 0, 0, 0)
	add("include{0,2}", 5, 0, 0, 0, 0)
	add("include{1,2}", 6, 0, 0, 0, 0)
	add("include{0,1}+exclude{2}", 3, 4, 0, 0, 0)
	add("include{1,2}+required{0}", 6, 0, 1, 0, 0)
	add("include{0,2}+vote=false+failed=false", 5, 0, 0, 2, 2)
	add("include{0,1,2}", 7, 0, 0, 0, 0)
	if vkit.Thorough() {
		add("include{0,1,2}+failed=false", 7, 0, 0, 0, 2)
		add("include{0,1}+required{1}", 3, 0, 2, 0, 0)
	}
	R.Bounds["sched_scenarios"] = len(scs)
	R.Bounds["sched_preemption_bound_3_accounts"] = bound3
	tr, fa := true, false
	bp := []*bool{nil, &tr, &fa}
	sigOf := func(txBytes []byte) string {
		if len(txBytes) < 65 {
			return "?"
		}
		var s [64]byte
		copy(s[:], txBytes[1:65])
		for _, tx := range all {
			if tx.Sig == s {
				return tx.Sig.String()[:8]
			}
		}
		return "foreign"
	}
	run := func(sc c19sScenario, c *explore.Ctx) explore.Result {
		rg := ranges[sc.Range]
		end := rg[1]
		f := c19Filter{Vote: sc.Vote, Failed: sc.Failed, Include: sc.Include, Exclude: sc.Exclude, Req: sc.Req}
		req := wire(&old_faithful_grpc.StreamTransactionsRequest{StartSlot: rg[0], EndSlot: &end,
			Filter: &old_faithful_grpc.StreamTransactionsFilter{Vote: bp[sc.Vote], Failed: bp[sc.Failed],
				AccountInclude: c19Accounts(sc.Include, nU), AccountExclude: c19Accounts(sc.Exclude, nU), AccountRequired: c19Accounts(sc.Req, nU)}}).(*old_faithful_grpc.StreamTransactionsRequest)
		wantSets := map[string]bool{}
		for _, vn := range []bool{true, false} {
			for _, fn := range []bool{true, false} {
				var w []string
				for _, tx := range all {
					if tx.Slot >= rg[0] && tx.Slot <= rg[1] && f.keep(tx, nU, vn, fn) {
						w = append(w, tx.Sig.String()[:8])
					}
				}
				wantSets[fmt.Sprint(w)] = true
			}
		}
		st := &vkTxStream{vkStreamBase: vkBase0()}
		var serr error
		returned := false
		s := vsched.Run(c, vsched.Options{Horizon: 20000, Drain: true, Canonical: sc.Bound < 0}, func() {
			m := vkNewMulti(2, ep1, ep2)
			serr = m.StreamTransactions(req, st)
			returned = true
		})
		if c.Pruned {
			return explore.Result{}
		}
		res := explore.Result{NonTrivial: s.Preemptions > 0 || s.Switches > 0}
		bad := func(key, what string) {
			if res.Violation == nil {
				res.Violation = &explore.Violation{Key: "C19|sched|" + key, What: fmt.Sprintf("[%s] %s", sc.Name, what)}
			}
		}
		switch {
		case s.Panic != "":
			if strings.Contains(s.Panic, "replay divergence") {
				panic(s.Panic)
			}
			res.Outcome = "panic"
			bad("panic|"+c18PanicSite(s.Panic), "StreamTransactions panicked: "+firstLine(s.Panic))
		case s.Deadlock:
			res.Outcome = "deadlock"
			bad("deadlock", "StreamTransactions never returns: "+s.DeadlockInfo)
		case s.HorizonHit:
			res.Outcome = "horizon"
		case !returned:
			res.Outcome = "no-return"
			bad("no-return", "StreamTransactions did not return")
		default:
			var got []string
			for _, r := range st.Got {
				if r.Transaction != nil && len(r.Transaction.Transaction) > 0 {
					got = append(got, sigOf(r.Transaction.Transaction))
				}
			}
			res.Outcome = vkit.Hash(fmt.Sprint(got), serr != nil)
			if serr != nil {
				bad("error", fmt.Sprintf("StreamTransactions failed under this schedule: %v", serr))
			} else if !wantSets[fmt.Sprint(got)] {
				bad("wrong-stream", fmt.Sprintf("streamed %v, the reference selections are %v", got, keysOfBool(wantSets)))
			}
		}
		return res
	}
	if rp := vkit.ReplayRequest(); rp != nil {
		var sc c19sScenario
		remarshal(rp["scenario"], &sc)
		if sc.Name == "" {
			R.Note("replay file describes a case of the other variant: nothing to do in this one")
			R.Case(false, "")
			return
		}
		choices := vkit.Ints(rp["choices"])
		res, _, err := explore.Replay(choices, func(c *explore.Ctx) explore.Result { return run(sc, c) })
		t.Logf("replay scenario=%s outcome=%s violation=%v err=%v", sc.Name, res.Outcome, res.Violation, err)
		R.Case(true, "")
		if res.Violation != nil {
			R.Violation(res.Violation.Key, res.Violation.What, map[string]interface{}{"scenario": sc, "choices": choices})
		}
		return
	}
	for idx, sc := range scs {
		if !vkit.Mine(int64(idx)) {
			continue
		}
		if R.Expired() {
			R.Note("deadline reached at scheduled scenario %d", idx)
			break
		}
		sc := sc
		runf := func(c *explore.Ctx) explore.Result { return run(sc, c) }
		st := explore.Search(explore.Config{Bound: sc.Bound, Deadline: R.Deadline(), Prune: true}, runf)
		R.Evaluations += st.Executions
		R.NonTrivial += st.NonTrivial
		R.Transitions += st.Points
		R.TracesValidated += st.Executions
		R.States += st.States
		R.Add("sched_scenarios_done", 1)
		R.Add("sched_pruned_executions", st.Pruned)
		if st.CapHit {
			R.CapHit, R.Exhaustive = true, false
			R.Note("scenario %s: deadline reached inside the search (executions so far %d)", sc.Name, st.Executions)
		}
		for o, n := range st.Outcomes {
			_ = n
			R.Outcome(sc.Name + ":" + o)
		}
		seen := map[string]bool{}
		for _, f := range st.Violations {
			if seen[f.Violation.Key] {
				continue
			}
			seen[f.Violation.Key] = true
			if ok, why := explore.Confirm(f, 5, runf); !ok {
				R.InconclusiveF("violation %s in scenario %s did not reproduce: %s", f.Violation.Key, sc.Name, why)
				continue
			}
			R.Violation(f.Violation.Key, f.Violation.What, map[string]interface{}{"scenario": sc, "choices": f.Choices})
		}
		if idx%3 == 0 {
			R.Sample(map[string]interface{}{"scenario": sc, "executions": st.Executions, "states": st.States, "distinct_outcomes": len(st.Outcomes)})
		}
	}
	_ = cargen.Account
}

func keysOfBool(m map[string]bool) []string {
	var out []string
	for k := range m {
		out = append(out, k)
	}
	return out
}
