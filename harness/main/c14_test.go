//go:build verif

package main

// C14 (part 2 of 3): the server's transaction path. getTransactionAndMetaFromNode and
// parseTransactionAndMetaFromNode (storage.go) reassemble the transaction bytes and the metadata
// of a Transaction node whose `data` and/or `metadata` payload is split into linked frames; the
// frames are served by a getter that mirrors Epoch.GetDataFrameByCid (stored bytes ->
// iplddecoders.DecodeDataFrame). Fault-free: exactly the original bytes / the original parsed
// values. Under EVERY single fault: an error or the original - never something else.
// Plus one real epoch (CAR + real indexes + Epoch.GetTransactionByCid/GetDataFrameByCid), fault-free.

import (
	"bytes"
	"context"
	"crypto/sha512"
	"encoding/json"
	"fmt"
	"hash/crc64"
	"hash/fnv"
	"os"
	"path/filepath"
	"reflect"
	"regexp"
	"runtime"
	"runtime/debug"
	"strings"
	"testing"

	bin "github.com/gagliardetto/binary"
	"github.com/gagliardetto/solana-go"
	"github.com/ipfs/go-cid"
	"github.com/ipld/go-ipld-prime"
	"github.com/ipld/go-ipld-prime/codec/dagcbor"
	cidlink "github.com/ipld/go-ipld-prime/linking/cid"
	"github.com/klauspost/compress/zstd"
	"github.com/multiformats/go-multihash"
	"github.com/rpcpool/yellowstone-faithful/ipld/ipldbindcode"
	"github.com/rpcpool/yellowstone-faithful/iplddecoders"
	"github.com/rpcpool/yellowstone-faithful/third_party/solana_proto/confirmed_block"
	"github.com/rpcpool/yellowstone-faithful/tooling"
	"github.com/rpcpool/yellowstone-faithful/zzverif/cargen"
	"github.com/rpcpool/yellowstone-faithful/zzverif/vkit"
	"google.golang.org/protobuf/proto"
)

// ---------------------------------------------------------------------------------------------
// frame-chain core (same model as harness/tooling/c14_test.go, but the store holds encoded bytes)

type c14Shape struct {
	Len       int    `json:"len"`
	FrameSize int    `json:"frame_size"`
	FanOut    int    `json:"fan_out"`
	Sum       string `json:"sum"`
	Perm      []int  `json:"perm,omitempty"` // Perm[p-1] = frame index stored at layout position p
}

type c14Fault struct {
	Kind string `json:"kind"`
	I    int    `json:"i"`
	J    int    `json:"j,omitempty"`
	V    int    `json:"v,omitempty"`
}

const c14Null = -1 << 40

func c14Payload(n int, seed int) []byte {
	x := uint64(seed)*0x9E3779B97F4A7C15 + uint64(n)*0xBF58476D1CE4E5B9 + 0x1234567
	out := make([]byte, n)
	for i := range out {
		x ^= x << 13
		x ^= x >> 7
		x ^= x << 17
		out[i] = byte(x >> 24)
	}
	return out
}

func c14Chunks(payload []byte, fs int) [][]byte {
	if fs <= 0 || len(payload) <= fs {
		return [][]byte{payload}
	}
	var out [][]byte
	for off := 0; off < len(payload); off += fs {
		end := off + fs
		if end > len(payload) {
			end = len(payload)
		}
		out = append(out, payload[off:end])
	}
	return out
}

func c14NumFrames(s c14Shape) int {
	if s.FrameSize <= 0 || s.Len <= s.FrameSize {
		return 1
	}
	return (s.Len + s.FrameSize - 1) / s.FrameSize
}

func c14Sum(kind string, b []byte) uint64 {
	if kind == "fnv" {
		h := fnv.New64a()
		h.Write(b)
		return h.Sum64()
	}
	return crc64.Checksum(b, crc64.MakeTable(crc64.ISO))
}

func c14pp(v int) **int { p := &v; return &p }

func c14Children(p, n, F int) []int {
	if p != 0 && p%F != 0 {
		return nil
	}
	var out []int
	for j := p + 1; j <= p+F && j < n; j++ {
		out = append(out, j)
	}
	return out
}

func c14EncodeFrame(df *ipldbindcode.DataFrame) []byte {
	raw, err := ipld.Marshal(dagcbor.Encode, df, ipldbindcode.Prototypes.DataFrame.Type())
	if err != nil {
		panic(fmt.Errorf("reference encoder: %w", err))
	}
	return raw
}

func c14CidOf(raw []byte) cid.Cid {
	c, err := cid.Prefix{Version: 1, Codec: cid.DagCBOR, MhType: multihash.SHA2_256, MhLength: -1}.Sum(raw)
	if err != nil {
		panic(err)
	}
	return c
}

type c14Chain struct {
	Shape   c14Shape
	Payload []byte
	N       int
	Typed   []ipldbindcode.DataFrame // by layout position
	Cids    []cid.Cid
	Parent  []int
	IndexAt []int
	Hash    uint64
}

func c14Build(s c14Shape, payload []byte) *c14Chain {
	chunks := c14Chunks(payload, s.FrameSize)
	n := len(chunks)
	F := s.FanOut
	if F <= 0 {
		F = 5
	}
	c := &c14Chain{Shape: s, Payload: payload, N: n, Typed: make([]ipldbindcode.DataFrame, n), Cids: make([]cid.Cid, n), Parent: make([]int, n), IndexAt: make([]int, n)}
	for p := 1; p < n; p++ {
		c.IndexAt[p] = p
		if s.Perm != nil {
			c.IndexAt[p] = s.Perm[p-1]
		}
	}
	c.Hash = c14Sum(s.Sum, payload)
	for p := n - 1; p >= 0; p-- {
		df := ipldbindcode.DataFrame{Kind: int(iplddecoders.KindDataFrame), Data: chunks[c.IndexAt[p]], Index: c14pp(c.IndexAt[p]), Total: c14pp(n), Hash: c14pp(int(c.Hash))}
		nl := ipldbindcode.List__Link{}
		for _, ch := range c14Children(p, n, F) {
			nl = append(nl, cidlink.Link{Cid: c.Cids[ch]})
			c.Parent[ch] = p
		}
		pnl := &nl
		df.Next = &pnl
		c.Typed[p] = df
		c.Cids[p] = c14CidOf(c14EncodeFrame(&df))
	}
	return c
}

func c14Faults(s c14Shape) []c14Fault {
	n := c14NumFrames(s)
	F := s.FanOut
	out := []c14Fault{{Kind: "none"}}
	chunkLen := func(idx int) int {
		if n == 1 {
			return s.Len
		}
		if idx == n-1 {
			return s.Len - (n-1)*s.FrameSize
		}
		return s.FrameSize
	}
	indexAt := func(p int) int {
		if p == 0 || s.Perm == nil {
			return p
		}
		return s.Perm[p-1]
	}
	parent := func(p int) int {
		if p <= F {
			return 0
		}
		return ((p - 1) / F) * F
	}
	for p := 1; p < n; p++ {
		out = append(out, c14Fault{Kind: "drop-getter", I: p}, c14Fault{Kind: "drop-link", I: p}, c14Fault{Kind: "dup-link", I: p})
		if parent(p) != 0 {
			out = append(out, c14Fault{Kind: "dup-link-root", I: p})
		}
	}
	for p := 0; p < n; p++ {
		l := chunkLen(indexAt(p))
		if l <= 4 {
			for b := 0; b < 8*l; b++ {
				out = append(out, c14Fault{Kind: "bitflip", I: p, V: b})
			}
		} else {
			for by := 0; by < l; by++ {
				out = append(out, c14Fault{Kind: "bitflip", I: p, V: by*8 + by%8})
			}
		}
	}
	for p := 0; p < n; p++ {
		for j := 0; j < n; j++ {
			out = append(out, c14Fault{Kind: "swap-data", I: p, J: j})
			if p >= 1 && j >= 1 {
				out = append(out, c14Fault{Kind: "swap-node", I: p, J: j})
			}
		}
	}
	for p := 0; p < n; p++ {
		own := indexAt(p)
		for v := -1; v <= n; v++ {
			if v != own {
				out = append(out, c14Fault{Kind: "index", I: p, V: v})
			}
		}
		out = append(out, c14Fault{Kind: "index", I: p, V: c14Null})
		seenT := map[int]bool{n: true}
		for _, v := range []int{0, 1, n - 1, n + 1, c14Null} {
			if !seenT[v] {
				seenT[v] = true
				out = append(out, c14Fault{Kind: "total", I: p, V: v})
			}
		}
		for _, v := range []int{1, 2, c14Null} {
			out = append(out, c14Fault{Kind: "hash", I: p, V: v})
		}
	}
	return out
}

func c14WithNext(f ipldbindcode.DataFrame, edit func(l ipldbindcode.List__Link) ipldbindcode.List__Link) ipldbindcode.DataFrame {
	var cur ipldbindcode.List__Link
	if l, ok := f.GetNext(); ok {
		cur = append(cur, l...)
	}
	nl := edit(cur)
	pnl := &nl
	f.Next = &pnl
	return f
}

// c14Apply returns the (typed) first frame and the byte store (CID -> encoded node; nil = missing) of chain a under fault f.
func c14Apply(a, b *c14Chain, f c14Fault) (ipldbindcode.DataFrame, map[cid.Cid][]byte) {
	st := map[cid.Cid][]byte{}
	for p := 1; p < a.N; p++ {
		st[a.Cids[p]] = c14EncodeFrame(&a.Typed[p])
	}
	first := a.Typed[0]
	put := func(p int, fr ipldbindcode.DataFrame) {
		if p == 0 {
			first = fr
		} else {
			st[a.Cids[p]] = c14EncodeFrame(&fr)
		}
	}
	switch f.Kind {
	case "none":
	case "drop-getter":
		delete(st, a.Cids[f.I])
	case "drop-link":
		par := a.Parent[f.I]
		put(par, c14WithNext(a.Typed[par], func(l ipldbindcode.List__Link) ipldbindcode.List__Link {
			out := ipldbindcode.List__Link{}
			for _, x := range l {
				if x.(cidlink.Link).Cid != a.Cids[f.I] {
					out = append(out, x)
				}
			}
			return out
		}))
	case "dup-link":
		par := a.Parent[f.I]
		put(par, c14WithNext(a.Typed[par], func(l ipldbindcode.List__Link) ipldbindcode.List__Link {
			out := ipldbindcode.List__Link{}
			for _, x := range l {
				out = append(out, x)
				if x.(cidlink.Link).Cid == a.Cids[f.I] {
					out = append(out, x)
				}
			}
			return out
		}))
	case "dup-link-root":
		put(0, c14WithNext(a.Typed[0], func(l ipldbindcode.List__Link) ipldbindcode.List__Link {
			return append(l, cidlink.Link{Cid: a.Cids[f.I]})
		}))
	case "bitflip":
		cp := a.Typed[f.I]
		d := append([]byte{}, cp.Data...)
		d[f.V/8] ^= 1 << uint(f.V%8)
		cp.Data = d
		put(f.I, cp)
	case "swap-data":
		cp := a.Typed[f.I]
		cp.Data = c14Chunks(b.Payload, b.Shape.FrameSize)[f.J]
		put(f.I, cp)
	case "swap-node":
		for p := 1; p < b.N; p++ {
			st[b.Cids[p]] = c14EncodeFrame(&b.Typed[p])
		}
		put(f.I, b.Typed[f.J])
	case "index":
		cp := a.Typed[f.I]
		if f.V == c14Null {
			cp.Index = nil
		} else {
			cp.Index = c14pp(f.V)
		}
		put(f.I, cp)
	case "total":
		cp := a.Typed[f.I]
		if f.V == c14Null {
			cp.Total = nil
		} else {
			cp.Total = c14pp(f.V)
		}
		put(f.I, cp)
	case "hash":
		cp := a.Typed[f.I]
		switch f.V {
		case 1:
			cp.Hash = c14pp(int(a.Hash ^ 1))
		case 2:
			cp.Hash = c14pp(int(b.Hash))
		default:
			cp.Hash = nil
		}
		put(f.I, cp)
	default:
		panic("unknown fault " + f.Kind)
	}
	return first, st
}

func c14Perms(n int) [][]int {
	cur := make([]int, n)
	for i := range cur {
		cur[i] = i + 1
	}
	var out [][]int
	for {
		out = append(out, append([]int{}, cur...))
		i := n - 2
		for i >= 0 && cur[i] > cur[i+1] {
			i--
		}
		if i < 0 {
			return out
		}
		j := n - 1
		for cur[j] < cur[i] {
			j--
		}
		cur[i], cur[j] = cur[j], cur[i]
		for l, r := i+1, n-1; l < r; l, r = l+1, r-1 {
			cur[l], cur[r] = cur[r], cur[l]
		}
	}
}

var c14Digits = regexp.MustCompile(`[0-9]+|baf[a-z0-9]+`)

func c14ErrClass(err error) string {
	s := err.Error()
	if len(s) > 90 {
		s = s[:90]
	}
	return c14Digits.ReplaceAllString(s, "#")
}

func c14PanicSite(stack []byte) string {
	lines := strings.Split(string(stack), "\n")
	for i := 0; i+1 < len(lines); i++ {
		fn := strings.TrimSpace(lines[i])
		loc := strings.TrimSpace(lines[i+1])
		if !strings.HasPrefix(fn, "github.com/rpcpool/yellowstone-faithful") || strings.Contains(loc, "zz_verif_") || strings.Contains(fn, "/zzverif/") {
			continue
		}
		if j := strings.LastIndex(fn, "("); j > 0 {
			fn = fn[:j]
		}
		if j := strings.Index(loc, " "); j > 0 {
			loc = loc[:j]
		}
		return strings.TrimPrefix(fn, "github.com/rpcpool/yellowstone-faithful/") + "@" + filepath.Base(loc)
	}
	return "unknown-site"
}

// ---------------------------------------------------------------------------------------------
// payload material

var c14ZstdEnc = func() *zstd.Encoder {
	e, err := zstd.NewWriter(nil, zstd.WithEncoderLevel(zstd.SpeedDefault))
	if err != nil {
		panic(err)
	}
	return e
}()

func c14Zstd(b []byte) []byte { return c14ZstdEnc.EncodeAll(b, nil) }

// c14Tx returns the wire bytes of a well-formed transaction whose content depends on seed.
func c14Tx(seed int) []byte {
	var sig solana.Signature
	h := sha512.Sum512([]byte(fmt.Sprintf("c14-sig-%d", seed)))
	copy(sig[:], h[:])
	var bh solana.Hash
	copy(bh[:], h[20:52])
	keys := []solana.PublicKey{cargen.Account(seed), cargen.Account(seed + 1), solana.SystemProgramID}
	tx := solana.Transaction{
		Signatures: []solana.Signature{sig},
		Message: solana.Message{
			Header:          solana.MessageHeader{NumRequiredSignatures: 1, NumReadonlyUnsignedAccounts: 1},
			AccountKeys:     keys,
			RecentBlockhash: bh,
			Instructions:    []solana.CompiledInstruction{{ProgramIDIndex: 2, Accounts: []uint16{0, 1}, Data: append([]byte{2, 0, 0, 0}, h[:8]...)}},
		},
	}
	b, err := tx.MarshalBinary()
	if err != nil {
		panic(err)
	}
	return b
}

// c14Meta returns an uncompressed protobuf TransactionStatusMeta carrying `pad` incompressible bytes.
func c14Meta(seed, pad int) []byte {
	m := &confirmed_block.TransactionStatusMeta{Fee: uint64(5000 + seed%7), PreBalances: []uint64{10, 5}, PostBalances: []uint64{5, 5}}
	rnd := c14Payload(pad, seed)
	for len(rnd) > 0 {
		k := 32
		if len(rnd) < k {
			k = len(rnd)
		}
		m.LoadedWritableAddresses = append(m.LoadedWritableAddresses, rnd[:k])
		rnd = rnd[k:]
	}
	b, err := proto.Marshal(m)
	if err != nil {
		panic(err)
	}
	return b
}

// c14SameLen searches (constructively, deterministically) a second value whose stored form has the same length.
func c14SameLen(want int, gen func(seed int) []byte, from int) []byte {
	for s := from; s < from+2000; s++ {
		if b := gen(s); len(b) == want {
			return b
		}
	}
	panic("c14: no second payload of equal stored length")
}

func c14Single(payload []byte) ipldbindcode.DataFrame {
	nl := ipldbindcode.List__Link{}
	pnl := &nl
	return ipldbindcode.DataFrame{Kind: int(iplddecoders.KindDataFrame), Hash: c14pp(int(c14Sum("crc64", payload))), Index: c14pp(0), Total: c14pp(1), Data: payload, Next: &pnl}
}

// ---------------------------------------------------------------------------------------------
// cases

type c14mCase struct {
	Func  string   `json:"func"`  // get | parse
	Field string   `json:"field"` // data | meta : the payload that is split (and faulted)
	Other string   `json:"other"` // single | multi : layout of the other payload
	Kind  string   `json:"kind"`  // raw | tx | zstd-raw | zstd-meta : what the split payload holds
	Pad   int      `json:"pad"`   // size parameter of the split payload's content
	Shape c14Shape `json:"shape"`
	Fault c14Fault `json:"fault"`
}

type c14mGroup struct { // everything but the fault
	Func, Field, Other, Kind string
	Pad                      int
	Shape                    c14Shape
}

// material returns the stored payload (A and B of equal length) and the expected uncompressed content of A.
type c14mMat struct{ a, b, plain []byte }

var c14mMatCache = map[string]c14mMat{}

func (g c14mGroup) material() (a, b, plainA []byte) {
	key := fmt.Sprintf("%s|%d|%d", g.Kind, g.Pad, g.Shape.Len)
	if g.Kind != "raw" {
		key = fmt.Sprintf("%s|%d", g.Kind, g.Pad)
	}
	if m, ok := c14mMatCache[key]; ok {
		return m.a, m.b, m.plain
	}
	a, b, plainA = g.material0()
	c14mMatCache[key] = c14mMat{a, b, plainA}
	return
}

func (g c14mGroup) material0() (a, b, plainA []byte) {
	switch g.Kind {
	case "raw":
		return c14Payload(g.Shape.Len, 1), c14Payload(g.Shape.Len, 1001), nil
	case "tx":
		return c14Tx(1), c14Tx(1001), nil
	case "zstd-raw":
		if g.Pad == 0 {
			return []byte{}, []byte{}, nil
		}
		plain := c14Payload(g.Pad, 7)
		a = c14Zstd(plain)
		b = c14SameLen(len(a), func(s int) []byte { return c14Zstd(c14Payload(g.Pad, s)) }, 1007)
		return a, b, plain
	case "zstd-meta":
		plain := c14Meta(7, g.Pad)
		a = c14Zstd(plain)
		b = c14SameLen(len(a), func(s int) []byte { return c14Zstd(c14Meta(s, g.Pad)) }, 1007)
		return a, b, plain
	}
	panic("kind")
}

type c14mBuilt struct {
	g            c14mGroup
	a, b         *c14Chain
	otherChain   *c14Chain // when Other == multi
	otherPayload []byte
	otherPlain   []byte
	plain        []byte
}

func c14mBuild(g c14mGroup) *c14mBuilt {
	pa, pb, plain := g.material()
	s := g.Shape
	s.Len = len(pa)
	bt := &c14mBuilt{g: g, a: c14Build(s, pa), b: c14Build(s, pb), plain: plain}
	// the other payload
	if g.Field == "data" {
		bt.otherPlain = c14Meta(3, 40)
		bt.otherPayload = c14Zstd(bt.otherPlain)
	} else {
		bt.otherPayload = c14Tx(3)
	}
	if g.Other == "multi" {
		bt.otherChain = c14Build(c14Shape{Len: len(bt.otherPayload), FrameSize: (len(bt.otherPayload) + 2) / 3, FanOut: 2, Sum: "crc64"}, bt.otherPayload)
	}
	return bt
}

type c14mResult struct {
	Err      error
	Pan      string
	Site     string
	DataOK   bool
	MetaOK   bool
	Describe string
}

func c14mMetaEqual(got interface{}, wantPlain []byte) (bool, string) {
	if len(wantPlain) == 0 {
		return got == nil || reflect.ValueOf(got).IsNil(), fmt.Sprintf("%T", got)
	}
	want, err := parseAnyMetaForTest(wantPlain)
	if err != nil {
		return false, "harness: expected metadata does not parse: " + err.Error()
	}
	gm, ok1 := got.(proto.Message)
	wm, ok2 := want.(proto.Message)
	if ok1 && ok2 {
		return proto.Equal(gm, wm), fmt.Sprintf("%T", got)
	}
	return reflect.DeepEqual(got, want), fmt.Sprintf("%T", got)
}

// c14mRun executes one case against the real functions.
func c14mRun(bt *c14mBuilt, f c14Fault) (res c14mResult) {
	first, store := c14Apply(bt.a, bt.b, f)
	node := ipldbindcode.Transaction{Kind: int(iplddecoders.KindTransaction), Slot: 1234, Index: c14pp(0)}
	var other ipldbindcode.DataFrame
	if bt.otherChain != nil {
		of, ost := c14Apply(bt.otherChain, bt.otherChain, c14Fault{Kind: "none"})
		other = of
		for k, v := range ost {
			store[k] = v
		}
	} else {
		other = c14Single(bt.otherPayload)
	}
	var wantData, wantMetaPlain []byte
	if bt.g.Field == "data" {
		node.Data, node.Metadata = first, other
		wantData, wantMetaPlain = bt.a.Payload, bt.otherPlain
	} else {
		node.Data, node.Metadata = other, first
		wantData, wantMetaPlain = bt.otherPayload, bt.plain
	}
	raw, err := ipld.Marshal(dagcbor.Encode, &node, ipldbindcode.Prototypes.Transaction.Type())
	if err != nil {
		panic(fmt.Errorf("reference encoder (transaction): %w", err))
	}
	getter := func(ctx context.Context, c cid.Cid) (*ipldbindcode.DataFrame, error) {
		// mirrors Epoch.GetDataFrameByCid: stored bytes -> DecodeDataFrame
		data, ok := store[c]
		if !ok {
			return nil, fmt.Errorf("failed to find node by cid %s: not found", c)
		}
		return iplddecoders.DecodeDataFrame(data)
	}
	defer func() {
		if r := recover(); r != nil {
			res.Pan, res.Site = fmt.Sprint(r), c14PanicSite(debug.Stack())
		}
	}()
	decoded, err := iplddecoders.DecodeTransaction(raw) // as Epoch.GetTransactionByCid does
	if err != nil {
		res.Err = fmt.Errorf("decode transaction: %w", err)
		return
	}
	switch bt.g.Func {
	case "get":
		txb, meta, err := getTransactionAndMetaFromNode(decoded, getter)
		res.Err = err
		if err == nil {
			res.DataOK = bytes.Equal(txb, wantData)
			res.MetaOK = bytes.Equal(meta, wantMetaPlain)
			res.Describe = fmt.Sprintf("tx %d bytes (want %d), meta %d bytes (want %d)", len(txb), len(wantData), len(meta), len(wantMetaPlain))
		}
	case "parse":
		tx, meta, err := parseTransactionAndMetaFromNode(decoded, getter)
		res.Err = err
		if err == nil {
			var want solana.Transaction
			if e := bin.UnmarshalBin(&want, wantData); e != nil {
				panic("harness: expected tx does not parse: " + e.Error())
			}
			gb, e1 := tx.MarshalBinary()
			res.DataOK = e1 == nil && bytes.Equal(gb, wantData)
			var d string
			res.MetaOK, d = c14mMetaEqual(meta, wantMetaPlain)
			res.Describe = fmt.Sprintf("tx re-marshals to %d bytes (want %d), meta %s", len(gb), len(wantData), d)
		}
	}
	return
}

func c14mGroups(thorough bool, R *vkit.Report) []c14mGroup {
	const fs = 4
	maxN, maxF, permN := 8, 4, 5
	if thorough {
		maxN, maxF, permN = 20, 10, 6
	}
	var out []c14mGroup
	seen := map[string]bool{}
	add := func(g c14mGroup) {
		k := fmt.Sprintf("%+v", g)
		if !seen[k] {
			seen[k] = true
			out = append(out, g)
		}
	}
	withPerms := func(g c14mGroup, n int) {
		add(g)
		if n >= 3 && n <= permN {
			for _, pm := range c14Perms(n - 1)[1:] {
				gp := g
				gp.Shape.Perm = pm
				add(gp)
			}
		}
	}
	sums := []string{"crc64", "fnv"}
	// (1) get / data: arbitrary transaction bytes, small scope
	lens := []int{0, 1, fs - 1, fs, fs + 1, 3*fs + 2}
	for n := 1; n <= maxN; n++ {
		lens = append(lens, fs*(n-1)+1, fs*n)
	}
	for _, sum := range sums {
		for F := 1; F <= maxF; F++ {
			for _, l := range lens {
				s := c14Shape{Len: l, FrameSize: fs, FanOut: F, Sum: sum}
				withPerms(c14mGroup{Func: "get", Field: "data", Other: "single", Kind: "raw", Shape: s}, c14NumFrames(s))
			}
		}
	}
	// (2) split payloads of fixed content (a real transaction, zstd blobs) cut into n = 1..maxN frames
	byCount := func(fn, field, kind string, pad int, other string) {
		g0 := c14mGroup{Func: fn, Field: field, Other: other, Kind: kind, Pad: pad}
		a, _, _ := g0.material()
		L := len(a)
		for _, sum := range sums {
			for F := 1; F <= maxF; F++ {
				for n := 1; n <= maxN; n++ {
					f := (L + n - 1) / n
					if f < 1 {
						f = 1
					}
					s := c14Shape{Len: L, FrameSize: f, FanOut: F, Sum: sum}
					g := g0
					g.Shape = s
					withPerms(g, c14NumFrames(s))
				}
			}
		}
	}
	byCount("get", "meta", "zstd-raw", 60, "single")
	byCount("parse", "data", "tx", 0, "single")
	byCount("parse", "meta", "zstd-meta", 64, "single")
	if thorough {
		byCount("get", "meta", "zstd-meta", 64, "single")
		byCount("get", "data", "tx", 0, "single")
	}
	// small-scope frames (size 4) over a short zstd blob, empty metadata, and both payloads split
	for _, sum := range sums {
		for _, F := range []int{1, 2, 4} {
			g := c14mGroup{Func: "get", Field: "meta", Other: "single", Kind: "zstd-raw", Pad: 3}
			a, _, _ := g.material()
			g.Shape = c14Shape{Len: len(a), FrameSize: fs, FanOut: F, Sum: sum}
			add(g)
			g = c14mGroup{Func: "get", Field: "meta", Other: "multi", Kind: "zstd-raw", Pad: 60}
			a, _, _ = g.material()
			g.Shape = c14Shape{Len: len(a), FrameSize: (len(a) + 3) / 4, FanOut: F, Sum: sum}
			add(g)
			g = c14mGroup{Func: "get", Field: "data", Other: "multi", Kind: "raw", Shape: c14Shape{Len: 3*fs + 2, FrameSize: fs, FanOut: F, Sum: sum}}
			add(g)
			g = c14mGroup{Func: "parse", Field: "data", Other: "multi", Kind: "tx"}
			a, _, _ = g.material()
			g.Shape = c14Shape{Len: len(a), FrameSize: (len(a) + 3) / 4, FanOut: F, Sum: sum}
			add(g)
			g = c14mGroup{Func: "parse", Field: "meta", Other: "multi", Kind: "zstd-meta", Pad: 64}
			a, _, _ = g.material()
			g.Shape = c14Shape{Len: len(a), FrameSize: (len(a) + 3) / 4, FanOut: F, Sum: sum}
			add(g)
		}
	}
	for _, fn := range []string{"get", "parse"} {
		add(c14mGroup{Func: fn, Field: "meta", Other: "single", Kind: "zstd-raw", Pad: 0, Shape: c14Shape{Len: 0, FrameSize: fs, FanOut: 1, Sum: "crc64"}})
	}
	R.Bounds["main:frame_counts"] = fmt.Sprintf("1..%d", maxN)
	R.Bounds["main:fan_out"] = fmt.Sprintf("1..%d", maxF)
	R.Bounds["main:link_orders"] = fmt.Sprintf("all (n-1)! for n<=%d", permN)
	R.Bounds["main:groups"] = len(out)
	return out
}

func c14LoadRewards(rn *ipldbindcode.Rewards, ep *Epoch) ([]byte, error) {
	return tooling.LoadDataFromDataFrames(&rn.Data, ep.GetDataFrameByCid)
}

func parseAnyMetaForTest(b []byte) (interface{}, error) {
	var m confirmed_block.TransactionStatusMeta
	if err := proto.Unmarshal(b, &m); err != nil {
		return nil, err
	}
	return &m, nil
}

func c14mEval(R *vkit.Report, bt *c14mBuilt, f c14Fault) {
	g := bt.g
	cs := c14mCase{Func: g.Func, Field: g.Field, Other: g.Other, Kind: g.Kind, Pad: g.Pad, Shape: g.Shape, Fault: f}
	rp := map[string]interface{}{"variant": "main", "case": cs}
	fn := map[string]string{"get": "getTransactionAndMetaFromNode", "parse": "parseTransactionAndMetaFromNode"}[g.Func]
	res := c14mRun(bt, f)
	R.Case(f.Kind != "none" || bt.a.N > 1, "")
	tag := g.Func + "/" + g.Field + ":" + f.Kind
	switch {
	case res.Pan != "":
		R.Outcome(tag + ":panic")
		R.Violation(fmt.Sprintf("C14|panic|%s|%s|%s", f.Kind, fn, res.Site), fmt.Sprintf("%s panicked (%s) on %+v: %s", fn, res.Site, cs, res.Pan), rp)
	case f.Kind == "none" && res.Err != nil:
		R.Outcome(tag + ":error")
		R.Violation("C14|fault-free-error|"+fn, fmt.Sprintf("fault-free %s payload in %d frames (%+v) is rejected: %v", g.Field, bt.a.N, g.Shape, res.Err), rp)
	case res.Err != nil:
		R.Outcome(tag + ":error:" + c14ErrClass(res.Err))
	case res.DataOK && res.MetaOK:
		R.Outcome(tag + ":original")
	case f.Kind == "none":
		R.Outcome(tag + ":wrong")
		R.Violation("C14|fault-free-wrong-bytes|"+fn, fmt.Sprintf("fault-free %s payload in %d frames (%+v): %s", g.Field, bt.a.N, g.Shape, res.Describe), rp)
	default:
		R.Outcome(tag + ":wrong")
		R.Violation(fmt.Sprintf("C14|wrong-bytes|%s|%s", f.Kind, fn), fmt.Sprintf("%+v: no error but %s", cs, res.Describe), rp)
	}
}

// c14mRealEpoch: fault-free reassembly through a real epoch (CAR, real indexes, Epoch getters).
func c14mRealEpoch(R *vkit.Report, base string) {
	mk := func(ps cargen.PayloadShape) cargen.TxShape { return cargen.TxShape{Accounts: []int{1}, Meta: ps} }
	shape := cargen.Shape{Epoch: 3, Blocks: []cargen.BlockShape{
		{SlotOffset: 10, Blocktime: 1_600_000_010, Entries: [][]cargen.TxShape{{
			mk(cargen.PayloadShape{Pad: 300, FrameSize: 200}),
			mk(cargen.PayloadShape{Pad: 900, FrameSize: 200, FanOut: 2}),
			mk(cargen.PayloadShape{Pad: 1300, FrameSize: 200, FanOut: 1}),
		}}, Rewards: &cargen.PayloadShape{Pad: 700, FrameSize: 150, FanOut: 2}},
		{SlotOffset: 11, Blocktime: 1_600_000_011, Entries: [][]cargen.TxShape{{
			mk(cargen.PayloadShape{Pad: 1700, FrameSize: 200, FanOut: 4, Checksum: "fnv"}),
			mk(cargen.PayloadShape{Pad: 2400, FrameSize: 100, FanOut: 3}),
			mk(cargen.PayloadShape{}),
			{Accounts: []int{2}, NoMeta: true},
		}}},
	}}
	dir := filepath.Join(base, "real-epoch")
	defer os.RemoveAll(dir)
	e, err := vkBuildEpoch(dir, shape, false)
	if err != nil {
		R.Internal("real epoch: %v", err)
		return
	}
	e.writeConfig(vkConfigOpts{Name: "c14", NoGsfa: true})
	ep, err := vkLoadEpoch(e.ConfigPath, nil)
	if err != nil {
		R.Internal("real epoch: load: %v", err)
		return
	}
	defer ep.Close()
	ctx := context.Background()
	for i, tt := range e.Truth.Txs {
		rp := map[string]interface{}{"variant": "main", "real_epoch_tx": i}
		func() {
			defer func() {
				if r := recover(); r != nil {
					R.Violation("C14|panic|none|real-epoch|"+c14PanicSite(debug.Stack()), fmt.Sprintf("real epoch tx %d: panic %v", i, r), rp)
				}
			}()
			node, err := ep.GetTransactionByCid(ctx, tt.Cid)
			if err != nil {
				R.Violation("C14|fault-free-error|Epoch.GetTransactionByCid", fmt.Sprintf("real epoch tx %d: %v", i, err), rp)
				return
			}
			txb, meta, err := getTransactionAndMetaFromNode(node, ep.GetDataFrameByCid)
			R.Case(true, "")
			switch {
			case err != nil:
				R.Outcome("real-epoch:error")
				R.Violation("C14|fault-free-error|getTransactionAndMetaFromNode", fmt.Sprintf("real epoch tx %d (%d stored metadata bytes): %v", i, len(tt.MetaZstd), err), rp)
			case !bytes.Equal(txb, tt.TxBytes) || !bytes.Equal(meta, tt.MetaBytes):
				R.Outcome("real-epoch:wrong")
				R.Violation("C14|fault-free-wrong-bytes|getTransactionAndMetaFromNode", fmt.Sprintf("real epoch tx %d: tx %d/%d bytes, meta %d/%d bytes", i, len(txb), len(tt.TxBytes), len(meta), len(tt.MetaBytes)), rp)
			default:
				R.Outcome("real-epoch:original")
			}
			tx, pm, err := parseTransactionAndMetaFromNode(node, ep.GetDataFrameByCid)
			R.Case(true, "")
			if err != nil {
				R.Violation("C14|fault-free-error|parseTransactionAndMetaFromNode", fmt.Sprintf("real epoch tx %d: %v", i, err), rp)
				return
			}
			gb, _ := tx.MarshalBinary()
			ok, d := c14mMetaEqual(pm, tt.MetaBytes)
			if !bytes.Equal(gb, tt.TxBytes) || !ok {
				R.Violation("C14|fault-free-wrong-bytes|parseTransactionAndMetaFromNode", fmt.Sprintf("real epoch tx %d: tx equal=%v meta equal=%v (%s)", i, bytes.Equal(gb, tt.TxBytes), ok, d), rp)
			}
		}()
	}
	// rewards of block 0 through the same getter
	for bi, bt := range e.Truth.Blocks {
		if len(bt.Rewards) == 0 {
			continue
		}
		rn, err := ep.GetRewardsByCid(ctx, bt.RewardsCid)
		if err != nil {
			R.Violation("C14|fault-free-error|Epoch.GetRewardsByCid", fmt.Sprintf("block %d: %v", bi, err), nil)
			continue
		}
		got, err := c14LoadRewards(rn, ep)
		R.Case(true, "")
		if err != nil {
			R.Violation("C14|fault-free-error|LoadDataFromDataFrames(rewards)", fmt.Sprintf("block %d: %v", bi, err), nil)
		} else if !bytes.Equal(got, bt.Rewards) {
			R.Violation("C14|fault-free-wrong-bytes|LoadDataFromDataFrames(rewards)", fmt.Sprintf("block %d: %d/%d bytes", bi, len(got), len(bt.Rewards)), nil)
		} else {
			R.Outcome("real-epoch:rewards-original")
		}
	}
}

func TestVerif_C14_Main(t *testing.T) {
	silenceKlog()
	R := vkit.New("C14")
	defer R.Finish()
	runtime.GOMAXPROCS(2)
	R.Rule = "case = (function: getTransactionAndMetaFromNode | parseTransactionAndMetaFromNode) x (split payload: transaction data | metadata; content raw bytes, a real transaction, zstd blobs) x (shape: frame count x fan-out x checksum x link order) x (no fault | one single fault); frames are stored as reference-encoded bytes and fetched by a getter equal to Epoch.GetDataFrameByCid; plus one real epoch served by the real Epoch getters; non-trivial = a fault is injected or the payload has more than one frame"
	groups := c14mGroups(vkit.Thorough(), R)

	if rp := vkit.ReplayRequest(); rp != nil {
		if v, _ := rp["variant"].(string); v != "main" {
			R.Note("replay file belongs to variant %q: nothing to do in this one", v)
			return
		}
		if _, ok := rp["real_epoch_tx"]; ok {
			base := vkBase("c14")
			defer os.RemoveAll(base)
			c14mRealEpoch(R, base)
			return
		}
		var cs c14mCase
		b, _ := json.Marshal(rp["case"])
		if err := json.Unmarshal(b, &cs); err != nil || cs.Func == "" {
			R.Internal("replay: cannot decode case: %v", err)
			return
		}
		bt := c14mBuild(c14mGroup{Func: cs.Func, Field: cs.Field, Other: cs.Other, Kind: cs.Kind, Pad: cs.Pad, Shape: cs.Shape})
		c14mEval(R, bt, cs.Fault)
		t.Logf("replay %+v: %d violations", cs, R.NumViolations())
		return
	}

	idx := int64(0)
	for gi, g := range groups {
		a, _, _ := g.material()
		s := g.Shape
		s.Len = len(a)
		faults := c14Faults(s)
		var bt *c14mBuilt
		for fi, f := range faults {
			mine := vkit.Mine(idx)
			idx++
			if !mine {
				continue
			}
			if idx%128 == 0 && R.Expired() {
				R.Note("deadline reached at group %d/%d", gi, len(groups))
				return
			}
			if bt == nil {
				bt = c14mBuild(g)
			}
			c14mEval(R, bt, f)
			if gi%53 == 0 && fi == len(faults)/3 {
				R.Sample(c14mCase{Func: g.Func, Field: g.Field, Other: g.Other, Kind: g.Kind, Pad: g.Pad, Shape: g.Shape, Fault: f})
			}
		}
	}
	if vkit.Mine(idx) {
		base := vkBase("c14")
		defer os.RemoveAll(base)
		c14mRealEpoch(R, base)
	}
}
