//go:build verif

package main

import (
	"context"
	"fmt"
	"os"
	"path/filepath"
	"strings"
	"testing"

	old_faithful_grpc "github.com/rpcpool/yellowstone-faithful/old-faithful-proto/old-faithful-grpc"
	"github.com/rpcpool/yellowstone-faithful/zzverif/cargen"
	"github.com/rpcpool/yellowstone-faithful/zzverif/explore"
	"github.com/rpcpool/yellowstone-faithful/zzverif/vkit"
	vmmap "github.com/rpcpool/yellowstone-faithful/zzverif/vmmap"
	"github.com/rpcpool/yellowstone-faithful/zzverif/vsched"
)

// C09 (unmap variant): "every operation completes" while the epoch a query is addressed to is replaced or removed.
//
// The epoch's CAR and index files are memory-mapped; ReplaceOrAddEpoch / RemoveEpoch / RemoveEpochByConfigFilepath
// close the old Epoch object (munmap) while request handlers that obtained it from GetEpoch may still be copying
// out of the mapping. In the real process that is a SIGSEGV ("fatal error: fault"), which ends the server and
// every request with it. Here multiepoch.go, epoch.go and storage.go are instrumented from the current tree, and
// golang.org/x/exp/mmap and go-car/v2 (as far as these files use them) are replaced by stand-ins that read the
// real mapping but put a scheduling point in the middle of every copy and record a fault when Close runs while a
// copy is in flight (kit/vmmap, kit/vcarv2). Every execution loads E2 with the real NewEpochFromConfig, so the
// real Close of the real object runs. All interleavings of one query addressed to E2 with one reload operation
// within the preemption bound; oracle: no fault, no panic, no deadlock, both operations return. (What the query
// answers is not compared: E2 does not stay loaded.)

type c09uScenario struct {
	Query  string `json:"query"`
	Writer string `json:"writer"`
}

func TestVerif_C09_Unmap(t *testing.T) {
	silenceKlog()
	R := vkit.New("C09")
	defer R.Finish()
	base := vkBase("c09u")
	defer os.RemoveAll(base)
	bound := 1
	if vkit.Thorough() {
		bound = 2
	}
	R.Rule = "unmap variant: scenario = one request addressed to epoch E2 (JSON-RPC getBlock / getTransaction / getBlockTime, gRPC GetBlock / GetTransaction; control: getBlock addressed to E1) x one reload operation on E2 (ReplaceOrAddEpoch, RemoveEpoch, RemoveEpochByConfigFilepath); E2 loaded by the real NewEpochFromConfig (two objects: the one served and the one replacing it), a copy with the real closers per execution; multiepoch.go, epoch.go, storage.go instrumented, mmap and CAR readers replaced by stand-ins with a scheduling point inside every copy out of a mapping; all interleavings within the preemption bound (quick 1, thorough 2) with happens-before pruning; oracle = no unmap under a read in flight (SIGSEGV in the real process), no panic, no deadlock, both operations return; the replacement is another version of the epoch (other CIDs at the same slots) and the shared cache is the real one: a probe request is told the CID of the version it was given, and once a replacement and the concurrent request have both returned, the slot resolves to the new version's block"
	R.Bounds["unmap_preemption_bound"] = bound
	e1, err := vkBuildEpoch(filepath.Join(base, "e1"), cargen.SimpleShape(1, 5, 2, 1), true)
	if err != nil {
		R.Internal("build e1: %v", err)
		return
	}
	e2, err := vkBuildEpoch(filepath.Join(base, "e2"), cargen.SimpleShape(2, 3, 2, 2), true)
	if err != nil {
		R.Internal("build e2: %v", err)
		return
	}
	// no address index: its files are not memory-mapped, and every closer of the loaded objects is then a mapping
	// stand-in, so that one loaded object can be closed in every execution (see Retain)
	e1.writeConfig(vkConfigOpts{NoGsfa: true})
	e2.writeConfig(vkConfigOpts{NoGsfa: true})
	cache := vkNewCache()
	vmmap.Retain(true)
	ep1, err := vkLoadEpoch(e1.ConfigPath, cache)
	if err != nil {
		R.Internal("load e1: %v", err)
		return
	}
	// E2 is loaded twice by the real NewEpochFromConfig (the object that is served at the start, and the one that
	// replaces it). Every execution works on shallow copies (each with the real list of closers), and the mapping
	// models are reset (ReopenAll) before it: loading afresh costs 20 ms, mostly decoding the block-time index.
	masterOld, err := vkLoadEpoch(e2.ConfigPath, cache)
	if err != nil {
		R.Internal("load e2: %v", err)
		return
	}
	// the replacement is ANOTHER VERSION of epoch 2: the same slots, one transaction less per block, hence other
	// blocks and CIDs (a re-generated CAR with its own indexes)
	e2v2, err := vkBuildEpoch(filepath.Join(base, "e2v2"), cargen.SimpleShape(2, 3, 2, 1), true)
	if err != nil {
		R.Internal("build e2v2: %v", err)
		return
	}
	e2v2.writeConfig(vkConfigOpts{NoGsfa: true})
	masterNew, err := vkLoadEpoch(e2v2.ConfigPath, cache)
	if err != nil {
		R.Internal("load e2v2: %v", err)
		return
	}
	probeSlot := e2.Truth.Blocks[1].Slot
	cidOld, cidNew := e2.Truth.Blocks[1].Cid.String(), e2v2.Truth.Blocks[1].Cid.String()
	if cidOld == cidNew || e2v2.Truth.Blocks[1].Slot != probeSlot {
		R.Internal("generator: the two versions of epoch 2 do not differ as intended")
		return
	}
	queries := []string{"getBlock@E2", "getTransaction@E2", "grpc:GetBlock@E2", "grpc:GetTransaction@E2", "getBlockTime@E2", "probe:GetEpoch+FindCidFromSlot@E2", "getBlock@E1"}
	writers := []string{"ReplaceOrAddEpoch", "RemoveEpoch", "RemoveEpochByConfigFilepath"}
	var scs []c09uScenario
	for _, q := range queries {
		for _, w := range writers {
			if (q == "getBlock@E1" || strings.HasPrefix(q, "probe:")) && w != "ReplaceOrAddEpoch" {
				continue // one control scenario, one probe scenario
			}
			scs = append(scs, c09uScenario{q, w})
		}
	}
	R.Bounds["unmap_scenarios"] = len(scs)
	var probeFrom *Epoch // which object the probe query was given (set per execution)
	ask := func(q string, m *MultiEpoch) (out string, pan interface{}) {
		defer func() {
			if r := recover(); r != nil {
				pan = r
			}
		}()
		h := newMultiEpochHandler(m, nil)
		ctx := context.Background()
		switch q {
		case "probe:GetEpoch+FindCidFromSlot@E2":
			// what every handler does first: get the epoch object, then the slot's CID through it
			ep, err := m.GetEpoch(2)
			if err != nil {
				return "rpc error: " + err.Error(), nil
			}
			probeFrom = ep
			vsched.Yield("handler-work")
			c, err := ep.FindCidFromSlot(ctx, probeSlot)
			if err != nil {
				return "rpc error: " + err.Error(), nil
			}
			return "cid:" + c.String(), nil
		case "getBlock@E2", "getBlock@E1":
			slot := e2.Truth.Blocks[1].Slot
			if q == "getBlock@E1" {
				slot = e1.Truth.Blocks[1].Slot
			}
			_, r, p := vkRPCh(h, fmt.Sprintf(`{"jsonrpc":"2.0","id":1,"method":"getBlock","params":[%d,{"encoding":"base64"}]}`, slot))
			return string(r), p
		case "getTransaction@E2":
			_, r, p := vkRPCh(h, fmt.Sprintf(`{"jsonrpc":"2.0","id":1,"method":"getTransaction","params":[%q,{"encoding":"base64"}]}`, e2.Truth.Txs[1].Sig.String()))
			return string(r), p
		case "getBlockTime@E2":
			_, r, p := vkRPCh(h, fmt.Sprintf(`{"jsonrpc":"2.0","id":1,"method":"getBlockTime","params":[%d]}`, e2.Truth.Blocks[1].Slot))
			return string(r), p
		case "grpc:GetBlock@E2":
			_, err := m.GetBlock(ctx, &old_faithful_grpc.BlockRequest{Slot: e2.Truth.Blocks[0].Slot})
			return fmt.Sprint(err), nil
		case "grpc:GetTransaction@E2":
			_, err := m.GetTransaction(ctx, &old_faithful_grpc.TransactionRequest{Signature: e2.Truth.Txs[0].Sig[:]})
			return fmt.Sprint(err), nil
		}
		return "unknown query", nil
	}
	run := func(sc c09uScenario, c *explore.Ctx) explore.Result {
		// (through an interface: the method is younger than the harness' oldest supported tree)
		if r, ok := interface{}(cache).(interface{ Reset() error }); ok {
			r.Reset()
		}
		vmmap.ReopenAll()
		oldCopy, newCopy := *masterOld, *masterNew
		old, fresh := &oldCopy, &newCopy
		var out string
		var pan interface{}
		returned, wrote := false, false
		probeFrom = nil
		afterAsked, afterCid := false, ""
		var afterErr error
		s := vsched.Run(c, vsched.Options{Horizon: 6000, Drain: true}, func() {
			m := vkNewMulti(2, ep1, old)
			done := make(chan struct{}, 2)
			vsched.Go(func() {
				out, pan = ask(sc.Query, m)
				returned = true
				vsched.Send(done, struct{}{})
			})
			vsched.Go(func() {
				switch sc.Writer {
				case "ReplaceOrAddEpoch":
					m.ReplaceOrAddEpoch(2, fresh)
				case "RemoveEpoch":
					m.RemoveEpoch(2)
				case "RemoveEpochByConfigFilepath":
					m.RemoveEpochByConfigFilepath(e2.ConfigPath)
				}
				wrote = true
				vsched.Send(done, struct{}{})
			})
			vsched.Recv(done)
			vsched.Recv(done)
			if sc.Writer == "ReplaceOrAddEpoch" {
				// both have returned: the new version is loaded and stays loaded; what does a request learn now?
				afterAsked = true
				if ep, err := m.GetEpoch(2); err != nil {
					afterErr = err
				} else if c, err := ep.FindCidFromSlot(context.Background(), probeSlot); err != nil {
					afterErr = err
				} else {
					afterCid = c.String()
				}
			}
		})
		faults := vmmap.Faults()
		if c.Pruned {
			return explore.Result{}
		}
		res := explore.Result{NonTrivial: s.Preemptions > 0}
		bad := func(key, what string) {
			if res.Violation == nil {
				res.Violation = &explore.Violation{Key: "C09|unmap|" + key, What: fmt.Sprintf("[%s during %s] %s", sc.Query, sc.Writer, what)}
			}
		}
		answer := "answered"
		if strings.Contains(out, `"error"`) || strings.Contains(out, "rpc error") {
			answer = "error-reply"
		}
		switch {
		case s.Panic != "":
			if strings.Contains(s.Panic, "replay divergence") {
				panic(s.Panic)
			}
			res.Outcome = "panic"
			bad("panic|"+c18PanicSite(s.Panic), "panic: "+firstLine(s.Panic))
		case s.Deadlock:
			res.Outcome = "deadlock"
			bad("deadlock", "an operation never returns: "+s.DeadlockInfo)
		case s.HorizonHit:
			res.Outcome = "horizon"
		case pan != nil:
			res.Outcome = "handler-panic"
			bad("panic|handler", fmt.Sprintf("the request panicked: %v", pan))
		case !returned || !wrote:
			res.Outcome = "no-return"
			bad("no-return", "an operation did not return")
		case afterAsked && (afterErr != nil || afterCid != cidNew):
			res.Outcome = "stale-after-reload"
			bad("stale-after-the-reload-returned", fmt.Sprintf("after the reload and the request had both returned, GetEpoch(2) + FindCidFromSlot(%d) answered %q err=%v; the loaded version's block is %s (old version: %s)", probeSlot, afterCid, afterErr, cidNew, cidOld))
		case strings.HasPrefix(out, "cid:") && ((probeFrom == fresh && out != "cid:"+cidNew) || (probeFrom == old && out != "cid:"+cidOld)):
			res.Outcome = "cid-of-the-other-version"
			bad("cid-of-the-other-version", fmt.Sprintf("the request was given the %s version of epoch 2 and learnt %s through it; old version's block %s, new version's block %s", map[bool]string{true: "new", false: "old"}[probeFrom == fresh], out, cidOld, cidNew))
		case len(faults) > 0:
			res.Outcome = "fault"
			file := "an index file"
			if strings.HasSuffix(strings.Fields(faults[0])[0], ".car") {
				file = "the CAR file"
			}
			bad("unmapped-under-a-read|"+file, "the old epoch was closed while the request was reading from it: "+faults[0])
		default:
			res.Outcome = answer
		}
		return res
	}
	if rp := vkit.ReplayRequest(); rp != nil {
		var sc c09uScenario
		remarshal(rp["unmap_scenario"], &sc)
		if sc.Query == "" {
			R.Note("replay file describes a case of another variant: nothing to do in this one")
			R.Case(false, "")
			return
		}
		choices := vkit.Ints(rp["choices"])
		res, _, err := explore.Replay(choices, func(c *explore.Ctx) explore.Result { return run(sc, c) })
		t.Logf("replay scenario=%+v outcome=%s violation=%v err=%v", sc, res.Outcome, res.Violation, err)
		R.Case(true, "")
		if res.Violation != nil {
			R.Violation(res.Violation.Key, res.Violation.What, map[string]interface{}{"unmap_scenario": sc, "choices": choices})
		}
		return
	}
	for idx, sc := range scs {
		if !vkit.Mine(int64(idx)) {
			continue
		}
		if R.Expired() {
			R.Note("deadline reached at unmap scenario %d", idx)
			break
		}
		sc := sc
		runf := func(c *explore.Ctx) explore.Result { return run(sc, c) }
		st := explore.Search(explore.Config{Bound: bound, Deadline: R.Deadline(), Prune: true}, runf)
		R.Evaluations += st.Executions
		R.NonTrivial += st.NonTrivial
		R.Transitions += st.Points
		R.TracesValidated += st.Executions
		R.States += st.States
		R.Add("unmap_scenarios_done", 1)
		R.Add("unmap_pruned_executions", st.Pruned)
		if st.CapHit {
			R.CapHit, R.Exhaustive = true, false
			R.Note("unmap scenario %+v: deadline reached inside the search (executions so far %d)", sc, st.Executions)
		}
		for o := range st.Outcomes {
			R.Outcome("unmap:" + sc.Query + ":" + o)
		}
		seen := map[string]bool{}
		for _, f := range st.Violations {
			if seen[f.Violation.Key] {
				continue
			}
			seen[f.Violation.Key] = true
			if ok, why := explore.Confirm(f, 5, runf); !ok {
				R.InconclusiveF("violation %s in unmap scenario %+v did not reproduce: %s", f.Violation.Key, sc, why)
				continue
			}
			R.Violation(f.Violation.Key, f.Violation.What, map[string]interface{}{"unmap_scenario": sc, "choices": f.Choices})
		}
		R.Sample(map[string]interface{}{"variant": "unmap", "scenario": sc, "executions": st.Executions, "states": st.States, "distinct_outcomes": len(st.Outcomes)})
	}
}
