//go:build verif

package main

import (
	"context"
	"fmt"
	"os"
	"path/filepath"
	"runtime/debug"
	"sort"
	"strings"
	"testing"
	"time"

	"github.com/gagliardetto/solana-go"
	old_faithful_grpc "github.com/rpcpool/yellowstone-faithful/old-faithful-proto/old-faithful-grpc"
	"github.com/rpcpool/yellowstone-faithful/zzverif/cargen"
	"github.com/rpcpool/yellowstone-faithful/zzverif/vkit"
)

// C19: streaming a slot range returns exactly the archived items matching the filter.
//
// Two adjacent generated epochs (last slots of epoch 1, first slots of epoch 2) with skipped
// slots, an empty block, vote / non-vote and failed / successful transactions, accounts of a
// small universe as static keys and as address-table loaded keys. StreamBlocks: all ranges x
// account-filter subsets. StreamTransactions: ranges x vote x failed x include x exclude x
// required subsets x address index loaded or not. Reference predicate over generator truth.

type c19Tx struct {
	Sig      solana.Signature
	Slot     uint64
	Pos      int
	Vote     bool
	Failed   bool
	Mentions map[solana.PublicKey]bool
	Static   map[solana.PublicKey]bool
}

func c19Shapes() (cargen.Shape, cargen.Shape) {
	t := func(static []int, loaded []int, vote, failed bool) cargen.TxShape {
		return cargen.TxShape{Accounts: static, Loaded: loaded, Vote: vote, Failed: failed}
	}
	blk := func(off int, entries ...[]cargen.TxShape) cargen.BlockShape {
		return cargen.BlockShape{SlotOffset: off, Blocktime: int64(1_680_000_000 + off%1000), Entries: entries}
	}
	e1 := cargen.Shape{Epoch: 1, Blocks: []cargen.BlockShape{
		blk(431_990, []cargen.TxShape{t([]int{0}, nil, false, false), t([]int{1}, nil, true, false)}),
		blk(431_992), // block without entries
		blk(431_995, []cargen.TxShape{t([]int{0, 1}, nil, false, true)}, []cargen.TxShape{t([]int{2}, []int{0}, false, false), t(nil, nil, true, true)}),
		blk(431_999, []cargen.TxShape{t([]int{1}, []int{2}, false, false),
			// failed with an instruction error that has no payload, and with a transaction error that has none
			{Accounts: []int{0}, Failed: true, FailKind: 1}, {Accounts: []int{2}, Failed: true, FailKind: 2}, {Accounts: []int{1}, Failed: true, FailKind: 3}}),
	}}
	e2 := cargen.Shape{Epoch: 2, Blocks: []cargen.BlockShape{
		blk(0, []cargen.TxShape{t([]int{2}, nil, false, false), t([]int{0}, nil, true, false)}),
		blk(1, []cargen.TxShape{t(nil, []int{1}, false, false)}),
		blk(4, []cargen.TxShape{t([]int{0, 2}, nil, false, true), t([]int{1, 2}, nil, false, false), t([]int{0, 1, 2}, nil, false, false)}),
		// old archives carry no position index: three such transactions in one slot, two of them for account 1
		blk(6, []cargen.TxShape{t([]int{9}, nil, false, false), {Accounts: []int{1}, NoIndex: true}, {Accounts: []int{0}, NoIndex: true}, {Accounts: []int{1, 2}, NoIndex: true}}),
		blk(8, func() []cargen.TxShape {
			var out []cargen.TxShape
			for i := 0; i < 120; i++ { // more than the 100-per-account batch of the address-index path
				out = append(out, t([]int{7}, nil, false, false))
			}
			return out
		}()),
	}}
	p := uint64(432_000 + 431_999)
	e2.PrevSlot = &p
	p0 := uint64(431_999) // the first block's parent lies in the previous epoch, as in a real epoch CAR
	e1.PrevSlot = &p0
	return e1, e2
}

func c19Truth(eps ...*vEpoch) ([]c19Tx, []uint64) {
	var txs []c19Tx
	var slots []uint64
	for _, e := range eps {
		for _, b := range e.Truth.Blocks {
			slots = append(slots, b.Slot)
		}
		for _, tx := range e.Truth.Txs {
			m := map[solana.PublicKey]bool{}
			for _, a := range tx.Accounts {
				m[a] = true
			}
			st := map[solana.PublicKey]bool{}
			for _, a := range tx.Static {
				st[a] = true
			}
			txs = append(txs, c19Tx{Sig: tx.Sig, Slot: tx.Slot, Pos: tx.Position, Vote: tx.Vote, Failed: tx.Failed, Mentions: m, Static: st})
		}
	}
	sort.Slice(txs, func(i, j int) bool {
		if txs[i].Slot != txs[j].Slot {
			return txs[i].Slot < txs[j].Slot
		}
		return txs[i].Pos < txs[j].Pos
	})
	return txs, slots
}

type c19Filter struct {
	Vote, Failed          int // 0 absent, 1 true, 2 false
	Include, Exclude, Req int // bit masks over the universe
	NoFilter              bool
}

func c19Accounts(mask, n int) []string {
	var out []string
	for i := 0; i < n; i++ {
		if mask&(1<<i) != 0 {
			out = append(out, cargen.Account(i).String())
		}
	}
	return out
}

func (f c19Filter) keep(t c19Tx, n int, voteNil, failedNil bool) bool {
	if f.NoFilter {
		return true
	}
	vote := f.Vote == 1 || (f.Vote == 0 && voteNil)
	failed := f.Failed == 1 || (f.Failed == 0 && failedNil)
	if !vote && t.Vote {
		return false
	}
	if !failed && t.Failed {
		return false
	}
	if f.Include != 0 {
		any := false
		for i := 0; i < n; i++ {
			if f.Include&(1<<i) != 0 && t.Mentions[cargen.Account(i)] {
				any = true
			}
		}
		if !any {
			return false
		}
	}
	for i := 0; i < n; i++ {
		if f.Exclude&(1<<i) != 0 && t.Mentions[cargen.Account(i)] {
			return false
		}
		if f.Req&(1<<i) != 0 && !t.Mentions[cargen.Account(i)] {
			return false
		}
	}
	return true
}

// c19Dims names only which filter dimensions are active (for stable, coarse violation keys).
func c19Dims(f c19Filter) string {
	if f.NoFilter {
		return "no-filter"
	}
	var parts []string
	if f.Vote == 2 {
		parts = append(parts, "vote=false")
	}
	if f.Failed == 2 {
		parts = append(parts, "failed=false")
	}
	if f.Include != 0 {
		parts = append(parts, "include")
	}
	if f.Exclude != 0 {
		parts = append(parts, "exclude")
	}
	if f.Req != 0 {
		parts = append(parts, "required")
	}
	if len(parts) == 0 {
		return "flags-only"
	}
	return strings.Join(parts, ",")
}

func c19Key(f c19Filter) string {
	if f.NoFilter {
		return "no-filter"
	}
	var parts []string
	parts = append(parts, fmt.Sprintf("vote=%s", []string{"absent", "true", "false"}[f.Vote]), fmt.Sprintf("failed=%s", []string{"absent", "true", "false"}[f.Failed]))
	if f.Include != 0 {
		parts = append(parts, "include")
	}
	if f.Exclude != 0 {
		parts = append(parts, "exclude")
	}
	if f.Req != 0 {
		parts = append(parts, "required")
	}
	return strings.Join(parts, ",")
}

func TestVerif_C19(t *testing.T) {
	silenceKlog()
	R := vkit.New("C19")
	vkRequestWatchdog = 120 * time.Second // a request that never returns is a finding, not a worker timeout
	defer R.Finish()
	base := vkBase("c19")
	defer os.RemoveAll(base)
	R.Rule = "StreamBlocks: every (start,end) over the boundary slots of a window spanning the end of epoch 1 and the start of epoch 2 (end absent too) x account filter subset; StreamTransactions: ranges x vote{absent,true,false} x failed{absent,true,false} x include/exclude/required subsets of the account universe x address index loaded or not, plus no filter object; oracle = reference predicate over generator ground truth (mentions = static keys + address-table loaded keys), ascending slot then position, equality between index-loaded and not; placeholder messages without a transaction are ignored; an absent vote/failed flag may mean either value; non-trivial = expected result non-empty and not everything"
	s1, s2 := c19Shapes()
	e1, err := vkBuildEpoch(filepath.Join(base, "e1"), s1, true)
	if err != nil {
		R.Internal("build e1: %v", err)
		return
	}
	e2, err := vkBuildEpoch(filepath.Join(base, "e2"), s2, true)
	if err != nil {
		R.Internal("build e2: %v", err)
		return
	}
	all, blockSlots := c19Truth(e1, e2)
	nU := 3
	R.Bounds["account_universe"] = nU
	mkWorld := func(withIndex bool) (*MultiEpoch, func()) {
		cache := vkNewCache()
		name := "noidx"
		if withIndex {
			name = "idx"
		}
		ep1, err := vkLoadEpoch(e1.writeConfig(vkConfigOpts{Name: name, NoGsfa: !withIndex}), cache)
		if err != nil {
			panic(err)
		}
		ep2, err := vkLoadEpoch(e2.writeConfig(vkConfigOpts{Name: name, NoGsfa: !withIndex}), cache)
		if err != nil {
			panic(err)
		}
		return vkNewMulti(2, ep1, ep2), func() { ep1.Close(); ep2.Close() }
	}
	mIdx, c1 := mkWorld(true)
	defer c1()
	mNo, c2 := mkWorld(false)
	defer c2()
	// ranges over boundary slots
	bset := map[uint64]bool{}
	for _, s := range blockSlots {
		bset[s], bset[s+1] = true, true
		if s > 0 {
			bset[s-1] = true
		}
	}
	var bs []uint64
	for s := range bset {
		bs = append(bs, s)
	}
	sort.Slice(bs, func(i, j int) bool { return bs[i] < bs[j] })
	type rng struct{ start, end uint64 }
	var ranges []rng
	for i, a := range bs {
		for _, b := range bs[i:] {
			if b-a <= 120 {
				ranges = append(ranges, rng{a, b})
			}
		}
	}
	if !vkit.Thorough() {
		// quick: a fixed selection that still crosses the epoch boundary, skipped slots and the empty block
		first, last := blockSlots[0], blockSlots[len(blockSlots)-1]
		ranges = []rng{{first, last}, {first + 1, last - 1}, {blockSlots[2], blockSlots[5]}, {blockSlots[3], blockSlots[4]}, {blockSlots[1], blockSlots[1]},
			{blockSlots[1] + 1, blockSlots[2] - 1}, {blockSlots[4], blockSlots[6]}, {first - 1, first + 3}}
	}
	R.Bounds["ranges"] = len(ranges)
	sigOf := func(txBytes []byte) solana.Signature {
		var s solana.Signature
		if len(txBytes) >= 65 {
			copy(s[:], txBytes[1:65])
		}
		return s
	}
	caseIdx := int64(0)
	guard := func(what string, q map[string]interface{}, f func()) (ok bool) {
		defer func() {
			if r := recover(); r != nil {
				R.Violation(fmt.Sprintf("C19|panic|%s|%s", what, c08PanicSiteC19(string(debug.Stack()))), fmt.Sprintf("%s panicked: %v (%v)", what, r, q), q)
				ok = false
			}
		}()
		f()
		return true
	}
	// ---------- StreamBlocks ----------
	for _, rg := range ranges {
		for mask := 0; mask < 1<<nU; mask++ {
			mine := vkit.Mine(caseIdx)
			caseIdx++
			if !mine {
				continue
			}
			var want []uint64
			for _, s := range blockSlots {
				if s < rg.start || s > rg.end {
					continue
				}
				if mask != 0 {
					hit := false
					for _, tx := range all {
						if tx.Slot != s {
							continue
						}
						for i := 0; i < nU; i++ {
							if mask&(1<<i) != 0 && tx.Mentions[cargen.Account(i)] {
								hit = true
							}
						}
					}
					if !hit {
						continue
					}
				}
				want = append(want, s)
			}
			end := rg.end
			req := &old_faithful_grpc.StreamBlocksRequest{StartSlot: rg.start, EndSlot: &end}
			if mask != 0 {
				req.Filter = &old_faithful_grpc.StreamBlocksFilter{AccountInclude: c19Accounts(mask, nU)}
			}
			req = wire(req).(*old_faithful_grpc.StreamBlocksRequest)
			q := map[string]interface{}{"rpc": "StreamBlocks", "start": rg.start, "end": rg.end, "account_mask": mask}
			st := &vkBlockStream{vkStreamBase: vkBase0()}
			var serr error
			if !guard("StreamBlocks", q, func() { serr = mNo.StreamBlocks(req, st) }) {
				continue
			}
			var got []uint64
			for _, b := range st.Got {
				got = append(got, b.Slot)
			}
			R.Case(len(want) > 0 && len(want) < len(blockSlots), "")
			if serr != nil || fmt.Sprint(got) != fmt.Sprint(want) {
				class := "blocks"
				if mask != 0 {
					class = "blocks-account-filter"
				}
				R.Violation("C19|StreamBlocks|"+class, fmt.Sprintf("StreamBlocks[%d,%d] accounts=%v: want slots %v got %v err=%v", rg.start, rg.end, c19Accounts(mask, nU), want, got, serr), q)
			}
		}
	}
	// ---------- StreamTransactions ----------
	var filters []c19Filter
	filters = append(filters, c19Filter{NoFilter: true})
	for v := 0; v < 3; v++ {
		for f := 0; f < 3; f++ {
			for inc := 0; inc < 1<<nU; inc++ {
				for exc := 0; exc < 1<<nU; exc++ {
					for req := 0; req < 1<<nU; req++ {
						filters = append(filters, c19Filter{Vote: v, Failed: f, Include: inc, Exclude: exc, Req: req})
					}
				}
			}
		}
	}
	R.Bounds["transaction_filters"] = len(filters)
	tr, fa := true, false
	bp := []*bool{nil, &tr, &fa}
	for _, rg := range ranges {
		for _, f := range filters {
			mine := vkit.Mine(caseIdx)
			caseIdx++
			if !mine {
				continue
			}
			if R.Expired() {
				return
			}
			end := rg.end
			req := &old_faithful_grpc.StreamTransactionsRequest{StartSlot: rg.start, EndSlot: &end}
			if !f.NoFilter {
				req.Filter = &old_faithful_grpc.StreamTransactionsFilter{Vote: bp[f.Vote], Failed: bp[f.Failed],
					AccountInclude: c19Accounts(f.Include, nU), AccountExclude: c19Accounts(f.Exclude, nU), AccountRequired: c19Accounts(f.Req, nU)}
			}
			req = wire(req).(*old_faithful_grpc.StreamTransactionsRequest)
			// acceptable expectations: an absent flag may mean true or false
			wantSets := map[string]bool{}
			var wantAny []string
			for _, vn := range []bool{true, false} {
				for _, fn := range []bool{true, false} {
					var w []string
					for _, tx := range all {
						if tx.Slot >= rg.start && tx.Slot <= rg.end && f.keep(tx, nU, vn, fn) {
							w = append(w, tx.Sig.String()[:8])
						}
					}
					wantSets[fmt.Sprint(w)] = true
					wantAny = w
				}
			}
			inRange := 0
			for _, tx := range all {
				if tx.Slot >= rg.start && tx.Slot <= rg.end {
					inRange++
				}
			}
			results := map[bool]string{}
			for _, withIdx := range []bool{false, true} {
				m := mNo
				if withIdx {
					m = mIdx
				}
				q := map[string]interface{}{"rpc": "StreamTransactions", "start": rg.start, "end": rg.end, "filter": c19Key(f), "filter_detail": f, "index_loaded": withIdx}
				st := &vkTxStream{vkStreamBase: vkBase0()}
				var serr error
				if !guard("StreamTransactions", q, func() { serr = m.StreamTransactions(req, st) }) {
					continue
				}
				var got []string
				placeholders, badMsg := 0, ""
				for _, r := range st.Got {
					if r.Transaction == nil || len(r.Transaction.Transaction) == 0 {
						placeholders++ // the "nothing found" marker
						continue
					}
					sg := sigOf(r.Transaction.Transaction)
					got = append(got, sg.String()[:8])
					// the message says in which slot and at which position its transaction is archived
					for _, tx := range all {
						if tx.Sig == sg && badMsg == "" {
							if r.Slot != tx.Slot {
								badMsg = fmt.Sprintf("transaction %s is archived in slot %d, its message says slot %d", sg.String()[:8], tx.Slot, r.Slot)
							} else if r.Index != nil && *r.Index != uint64(tx.Pos) {
								badMsg = fmt.Sprintf("transaction %s is archived at position %d, its message says %d", sg.String()[:8], tx.Pos, *r.Index)
							}
						}
					}
				}
				path0 := "scan"
				if withIdx && !f.NoFilter && f.Include != 0 {
					path0 = "index"
				}
				if serr == nil && badMsg != "" {
					R.Violation(fmt.Sprintf("C19|StreamTransactions|%s|message-slot-or-position", path0), fmt.Sprintf("StreamTransactions[%d,%d] filter={%s} index_loaded=%v: %s", rg.start, rg.end, c19Key(f), withIdx, badMsg), q)
				}
				if serr == nil && placeholders > 0 && len(got) > 0 {
					R.Violation(fmt.Sprintf("C19|StreamTransactions|%s|empty-message-next-to-transactions", path0), fmt.Sprintf("StreamTransactions[%d,%d] filter={%s} index_loaded=%v: %d transactions were streamed and %d message(s) without a transaction (the marker for 'nothing found')", rg.start, rg.end, c19Key(f), withIdx, len(got), placeholders), q)
				}
				results[withIdx] = fmt.Sprint(got)
				R.Case(len(wantAny) > 0 && len(wantAny) < inRange, "")
				if serr != nil || !wantSets[fmt.Sprint(got)] {
					path := "scan"
					if withIdx && !f.NoFilter && f.Include != 0 {
						path = "index"
					}
					class := "wrong-set"
					if len(got) == 0 && len(wantAny) > 0 {
						class = "nothing-streamed"
					} else if len(got) > len(wantAny) {
						class = "too-many"
					} else if len(got) < len(wantAny) {
						class = "too-few"
					}
					loadedOnly := false
					for _, tx := range all {
						if tx.Slot < rg.start || tx.Slot > rg.end {
							continue
						}
						for i := 0; i < nU; i++ {
							if (f.Include|f.Exclude|f.Req)&(1<<i) != 0 && tx.Mentions[cargen.Account(i)] && !tx.Static[cargen.Account(i)] {
								loadedOnly = true
							}
						}
					}
					dims := c19Dims(f)
					if loadedOnly {
						dims += ",loaded-account-in-range"
					}
					R.Violation(fmt.Sprintf("C19|StreamTransactions|%s|%s|%s", path, class, dims),
						fmt.Sprintf("StreamTransactions[%d,%d] filter={%s inc=%v exc=%v req=%v} index_loaded=%v: want %v got %v err=%v", rg.start, rg.end, c19Key(f),
							c19Accounts(f.Include, nU), c19Accounts(f.Exclude, nU), c19Accounts(f.Req, nU), withIdx, wantAny, got, serr), q)
				}
			}
			if a, ok1 := results[false]; ok1 {
				if b, ok2 := results[true]; ok2 && a != b && wantSets[a] != wantSets[b] {
					_ = b // the per-path violations above already carry the details
				}
			}
		}
	}
	// ---------- slot-to-cid and sig-to-cid in the deprecated file format ----------
	// The readers still detect and serve the old compactindex36 files; a slot without a block must be skipped by the
	// streams there too.
	{
		var cfgs []string
		for _, e := range []*vEpoch{e1, e2} {
			s2c, g2c, err := vkBuildLegacy36(e.Dir, e.Truth)
			if err != nil {
				R.Internal("cannot build the deprecated slot-to-cid / sig-to-cid indexes: %v", err)
				return
			}
			saved := e.ConfigPath
			cfgs = append(cfgs, e.writeConfig(vkConfigOpts{Name: "legacy36", NoGsfa: true, Overrides: map[string]string{"slot_to_cid": s2c, "sig_to_cid": g2c}}))
			e.ConfigPath = saved
		}
		cache := vkNewCache()
		la, err1 := vkLoadEpoch(cfgs[0], cache)
		lb, err2 := vkLoadEpoch(cfgs[1], cache)
		if err1 != nil || err2 != nil {
			R.Note("the epochs do not load with deprecated slot-to-cid / sig-to-cid files: %v %v", err1, err2)
			R.Exhaustive = false
		} else {
			mLegacy := vkNewMulti(2, la, lb)
			for _, rg := range ranges {
				mine := vkit.Mine(caseIdx)
				caseIdx++
				if !mine {
					continue
				}
				end := rg.end
				var wantB []uint64
				for _, sl := range blockSlots {
					if sl >= rg.start && sl <= rg.end {
						wantB = append(wantB, sl)
					}
				}
				q := map[string]interface{}{"scenario": "deprecated-slot-to-cid", "start": rg.start, "end": rg.end}
				sb := &vkBlockStream{vkStreamBase: vkBase0()}
				var berr error
				if guard("StreamBlocks", q, func() {
					berr = mLegacy.StreamBlocks(wire(&old_faithful_grpc.StreamBlocksRequest{StartSlot: rg.start, EndSlot: &end}).(*old_faithful_grpc.StreamBlocksRequest), sb)
				}) {
					var gotB []uint64
					for _, b := range sb.Got {
						gotB = append(gotB, b.Slot)
					}
					R.Case(len(wantB) > 0, "")
					if berr != nil || fmt.Sprint(gotB) != fmt.Sprint(wantB) {
						R.Violation("C19|StreamBlocks|deprecated-slot-to-cid", fmt.Sprintf("StreamBlocks[%d,%d] with the slot-to-cid index in the deprecated format: want slots %v got %v err=%v", rg.start, rg.end, wantB, gotB, berr), q)
					}
				}
				var wantT []string
				for _, tx := range all {
					if tx.Slot >= rg.start && tx.Slot <= rg.end {
						wantT = append(wantT, tx.Sig.String()[:8])
					}
				}
				st := &vkTxStream{vkStreamBase: vkBase0()}
				var terr error
				if guard("StreamTransactions", q, func() {
					terr = mLegacy.StreamTransactions(wire(&old_faithful_grpc.StreamTransactionsRequest{StartSlot: rg.start, EndSlot: &end}).(*old_faithful_grpc.StreamTransactionsRequest), st)
				}) {
					var gotT []string
					for _, r := range st.Got {
						if r.Transaction != nil && len(r.Transaction.Transaction) > 0 {
							gotT = append(gotT, sigOf(r.Transaction.Transaction).String()[:8])
						}
					}
					R.Case(len(wantT) > 0, "")
					if terr != nil || fmt.Sprint(gotT) != fmt.Sprint(wantT) {
						R.Violation("C19|StreamTransactions|deprecated-slot-to-cid", fmt.Sprintf("StreamTransactions[%d,%d] (no filter) with the slot-to-cid index in the deprecated format: want %v got %v err=%v", rg.start, rg.end, wantT, gotT, terr), q)
					}
				}
			}
			la.Close()
			lb.Close()
		}
	}
	// ---------- only one of the two epochs has an address index ----------
	// "The set of transactions streamed does not depend on whether an address index is loaded": that includes a
	// range that crosses an epoch with an index and one without.
	for mi, which := range []string{"index-for-epoch-1-only", "index-for-epoch-2-only"} {
		cache := vkNewCache()
		ea, err1 := vkLoadEpoch(e1.writeConfig(vkConfigOpts{Name: "mixed-" + which, NoGsfa: mi == 1}), cache)
		eb, err2 := vkLoadEpoch(e2.writeConfig(vkConfigOpts{Name: "mixed-" + which, NoGsfa: mi == 0}), cache)
		if err1 != nil || err2 != nil {
			R.Internal("load mixed world: %v %v", err1, err2)
			return
		}
		mMixed := vkNewMulti(2, ea, eb)
		for _, rg := range ranges {
			for inc := 1; inc < 1<<nU; inc++ {
				mine := vkit.Mine(caseIdx)
				caseIdx++
				if !mine {
					continue
				}
				end := rg.end
				req := wire(&old_faithful_grpc.StreamTransactionsRequest{StartSlot: rg.start, EndSlot: &end,
					Filter: &old_faithful_grpc.StreamTransactionsFilter{AccountInclude: c19Accounts(inc, nU)}}).(*old_faithful_grpc.StreamTransactionsRequest)
				var want []string
				for _, tx := range all {
					if tx.Slot >= rg.start && tx.Slot <= rg.end && (c19Filter{Include: inc}).keep(tx, nU, true, true) {
						want = append(want, tx.Sig.String()[:8])
					}
				}
				q := map[string]interface{}{"rpc": "StreamTransactions", "scenario": "mixed-index", "which": which, "start": rg.start, "end": rg.end, "include": inc}
				st := &vkTxStream{vkStreamBase: vkBase0()}
				var serr error
				if !guard("StreamTransactions", q, func() { serr = mMixed.StreamTransactions(req, st) }) {
					continue
				}
				var got []string
				for _, r := range st.Got {
					if r.Transaction != nil && len(r.Transaction.Transaction) > 0 {
						got = append(got, sigOf(r.Transaction.Transaction).String()[:8])
					}
				}
				R.Case(len(want) > 0, "")
				if serr != nil || fmt.Sprint(got) != fmt.Sprint(want) {
					R.Violation("C19|StreamTransactions|mixed-index|"+which, fmt.Sprintf("StreamTransactions[%d,%d] include=%v with %s: want %v got %v err=%v", rg.start, rg.end, c19Accounts(inc, nU), which, want, got, serr), q)
				}
			}
		}
		ea.Close()
		eb.Close()
	}
	// ---------- more matching transactions than one batch of the address-index path ----------
	if vkit.Mine(caseIdx) {
		last := blockSlots[len(blockSlots)-1]
		end := last
		req := wire(&old_faithful_grpc.StreamTransactionsRequest{StartSlot: last - 2, EndSlot: &end,
			Filter: &old_faithful_grpc.StreamTransactionsFilter{AccountInclude: []string{cargen.Account(7).String()}}}).(*old_faithful_grpc.StreamTransactionsRequest)
		var want []string
		for _, tx := range all {
			if tx.Slot >= last-2 && tx.Slot <= last && tx.Mentions[cargen.Account(7)] {
				want = append(want, tx.Sig.String()[:8])
			}
		}
		for _, withIdx := range []bool{false, true} {
			m := mNo
			if withIdx {
				m = mIdx
			}
			q := map[string]interface{}{"rpc": "StreamTransactions", "scenario": "more-than-100-matches", "index_loaded": withIdx}
			st := &vkTxStream{vkStreamBase: vkBase0()}
			var serr error
			if !guard("StreamTransactions", q, func() { serr = m.StreamTransactions(req, st) }) {
				continue
			}
			var got []string
			for _, r := range st.Got {
				if r.Transaction != nil && len(r.Transaction.Transaction) > 0 {
					got = append(got, sigOf(r.Transaction.Transaction).String()[:8])
				}
			}
			R.Case(true, "")
			if serr != nil || fmt.Sprint(got) != fmt.Sprint(want) {
				path := "scan"
				if withIdx {
					path = "index"
				}
				R.Violation(fmt.Sprintf("C19|StreamTransactions|%s|more-than-100-matches-per-account", path),
					fmt.Sprintf("an account with %d matching transactions in the range: %d streamed (index_loaded=%v, err=%v)", len(want), len(got), withIdx, serr), q)
			}
		}
	}
	caseIdx++
	// ---------- ranges whose end is far beyond the archive (a client asking for "everything from here on") ----------
	// Scanning such a range slot by slot cannot finish, so the client hangs up after 3 s; what was streamed
	// until then is compared: the address-index path answers at once and must stream exactly the matching
	// transactions; the scan path must stream them in order (an unfinished prefix is only noted).
	for _, end := range []uint64{^uint64(0), ^uint64(0) - 1, 1 << 62, 1000 * 432000} {
		for _, inc := range []int{0, 1, 3} {
			mine := vkit.Mine(caseIdx)
			caseIdx++
			if !mine {
				continue
			}
			start, end := blockSlots[1], end
			req := &old_faithful_grpc.StreamTransactionsRequest{StartSlot: start, EndSlot: &end}
			if inc != 0 {
				req.Filter = &old_faithful_grpc.StreamTransactionsFilter{AccountInclude: c19Accounts(inc, nU)}
			}
			req = wire(req).(*old_faithful_grpc.StreamTransactionsRequest)
			var want []string
			for _, tx := range all {
				if tx.Slot < start {
					continue
				}
				ok := inc == 0
				for i := 0; i < nU; i++ {
					if inc&(1<<i) != 0 && tx.Mentions[cargen.Account(i)] {
						ok = true
					}
				}
				if ok {
					want = append(want, tx.Sig.String()[:8])
				}
			}
			for _, withIdx := range []bool{false, true} {
				m := mNo
				if withIdx {
					m = mIdx
				}
				q := map[string]interface{}{"rpc": "StreamTransactions", "scenario": "open-ended-range", "start": start, "end": end, "include": inc, "index_loaded": withIdx}
				cctx, cancel := context.WithTimeout(context.Background(), 3*time.Second)
				st := &vkTxStream{vkStreamBase: vkStreamBase{ctx: cctx}}
				var serr error
				okCall := guard("StreamTransactions", q, func() { serr = m.StreamTransactions(req, st) })
				cancel()
				if !okCall {
					continue
				}
				var got []string
				for _, r := range st.Got {
					if r.Transaction != nil && len(r.Transaction.Transaction) > 0 {
						got = append(got, sigOf(r.Transaction.Transaction).String()[:8])
					}
				}
				R.Case(len(want) > 0, "")
				path := "scan"
				if withIdx && inc != 0 {
					path = "index"
				}
				isPrefix := len(got) <= len(want) && fmt.Sprint(got) == fmt.Sprint(want[:len(got)])
				switch {
				case fmt.Sprint(got) == fmt.Sprint(want):
					R.Outcome("open-ended:" + path + ":complete")
				case isPrefix && serr != nil && path == "scan":
					R.Note("open-ended range [%d,%d] on the scan path: the client hung up after %d of %d transactions (err=%v); not judged", start, end, len(got), len(want), serr)
				default:
					class := "wrong-set"
					if len(got) == 0 {
						class = "nothing-streamed"
					}
					R.Violation(fmt.Sprintf("C19|StreamTransactions|%s|open-ended-range|%s", path, class),
						fmt.Sprintf("StreamTransactions[%d,%d] include=%v index_loaded=%v: want %v got %v err=%v", start, end, c19Accounts(inc, nU), withIdx, want, got, serr), q)
				}
			}
		}
	}
	// ---------- StreamBlocks up to the last possible slot: nothing outside the range, and the loop must not wrap ----------
	for _, start := range []uint64{^uint64(0) - 3, ^uint64(0), blockSlots[len(blockSlots)-2]} {
		mine := vkit.Mine(caseIdx)
		caseIdx++
		if !mine {
			continue
		}
		end := ^uint64(0)
		var want []uint64
		for _, sl := range blockSlots {
			if sl >= start {
				want = append(want, sl)
			}
		}
		for _, withIdx := range []bool{false, true} {
			m := mNo
			if withIdx {
				m = mIdx
			}
			q := map[string]interface{}{"rpc": "StreamBlocks", "scenario": "range-ends-at-the-last-slot", "start": start, "index_loaded": withIdx}
			cctx, cancel := context.WithTimeout(context.Background(), 3*time.Second)
			sb := &vkBlockStream{vkStreamBase: vkStreamBase{ctx: cctx}}
			var serr error
			okCall := guard("StreamBlocks", q, func() {
				serr = m.StreamBlocks(wire(&old_faithful_grpc.StreamBlocksRequest{StartSlot: start, EndSlot: &end}).(*old_faithful_grpc.StreamBlocksRequest), sb)
			})
			cancel()
			if !okCall {
				continue
			}
			var got []uint64
			for _, b := range sb.Got {
				got = append(got, b.Slot)
			}
			R.Case(true, "")
			outside := 0
			for _, g := range got {
				if g < start {
					outside++
				}
			}
			if outside > 0 || (serr == nil && fmt.Sprint(got) != fmt.Sprint(want)) {
				R.Violation("C19|StreamBlocks|range-ends-at-the-last-slot", fmt.Sprintf("StreamBlocks[%d, MaxUint64] index_loaded=%v: want slots %v, got %v (%d of them below the start slot) err=%v", start, withIdx, want, got, outside, serr), q)
			}
		}
	}
	R.Sample(map[string]interface{}{"archived_transactions": len(all), "block_slots": blockSlots})
}

func c08PanicSiteC19(stack string) string {
	for _, ln := range strings.Split(stack, "\n") {
		if strings.HasPrefix(ln, "github.com/rpcpool/yellowstone-faithful") && !strings.Contains(ln, "zzverif") && !strings.Contains(ln, "TestVerif") && !strings.Contains(ln, ".vk") {
			if i := strings.LastIndexByte(ln, '('); i > 0 {
				ln = ln[:i]
			}
			return strings.TrimPrefix(ln, "github.com/rpcpool/yellowstone-faithful")
		}
	}
	return "?"
}
