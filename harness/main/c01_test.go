//go:build verif

package main

import (
	"bytes"
	"context"
	"encoding/json"
	"fmt"
	"io"
	"os"
	"path/filepath"
	"testing"

	"github.com/rpcpool/yellowstone-faithful/bucketteer"
	"github.com/rpcpool/yellowstone-faithful/indexes"
	"github.com/rpcpool/yellowstone-faithful/zzverif/cargen"
	"github.com/rpcpool/yellowstone-faithful/zzverif/vkit"
)

// C01: every archived object, slot and signature resolves through the generated indexes.
// Deviation-bounded enumeration of epoch shapes around a base epoch; ground truth comes from the
// generator's own counters.

type c01Dev struct {
	Name  string
	Apply func(s *cargen.Shape)
}

func c01Base() cargen.Shape {
	return cargen.Shape{Epoch: 1, Blocks: []cargen.BlockShape{
		{SlotOffset: 10, Blocktime: 1_600_000_010, Entries: [][]cargen.TxShape{{{Accounts: []int{0}}}}},
		{SlotOffset: 12, Blocktime: 1_600_000_012, Entries: [][]cargen.TxShape{{{Accounts: []int{1}}}}},
	}}
}

func c01Devs() []c01Dev {
	blocks := func(n int) func(*cargen.Shape) {
		return func(s *cargen.Shape) {
			s.Blocks = nil
			for b := 0; b < n; b++ {
				s.Blocks = append(s.Blocks, cargen.BlockShape{SlotOffset: 10 + 2*b, Blocktime: int64(1_600_000_010 + b), Entries: [][]cargen.TxShape{{{Accounts: []int{b % 3}}}}})
			}
		}
	}
	entries := func(n int) func(*cargen.Shape) {
		return func(s *cargen.Shape) {
			var es [][]cargen.TxShape
			for e := 0; e < n; e++ {
				es = append(es, []cargen.TxShape{{Accounts: []int{e % 3}}})
			}
			s.Blocks[0].Entries = es
		}
	}
	txs := func(n int) func(*cargen.Shape) {
		return func(s *cargen.Shape) {
			var ts []cargen.TxShape
			for k := 0; k < n; k++ {
				ts = append(ts, cargen.TxShape{Accounts: []int{k % 3}})
			}
			s.Blocks[0].Entries = [][]cargen.TxShape{ts}
		}
	}
	tx0 := func(f func(*cargen.TxShape)) func(*cargen.Shape) {
		return func(s *cargen.Shape) { f(&s.Blocks[0].Entries[0][0]) }
	}
	devs := []c01Dev{
		{"blocks=1", blocks(1)}, {"blocks=3", blocks(3)}, {"blocks=6", blocks(6)},
		{"entries=0(block1)", func(s *cargen.Shape) { s.Blocks[1].Entries = nil }}, {"entries=2", entries(2)}, {"entries=3", entries(3)},
		{"entry-without-tx", func(s *cargen.Shape) { s.Blocks[1].Entries = append(s.Blocks[1].Entries, []cargen.TxShape{}) }},
		{"txs=2", txs(2)}, {"txs=5", txs(5)},
		{"tx-section>=128(pad)", tx0(func(t *cargen.TxShape) { t.TxPad = 40 })},
		{"tx-pad-300", tx0(func(t *cargen.TxShape) { t.TxPad = 300 })},
		{"tx-section>=16384", tx0(func(t *cargen.TxShape) { t.TxPad = 900; t.Meta.Pad = 16000 })},
		{"tx-section>=65536", tx0(func(t *cargen.TxShape) { t.TxPad = 900; t.Meta.Pad = 70000 })},
		{"meta-empty", tx0(func(t *cargen.TxShape) { t.NoMeta = true })},
		{"meta-2-frames", tx0(func(t *cargen.TxShape) { t.Meta = cargen.PayloadShape{Pad: 300, FrameSize: 200} })},
		{"meta-5-frames-fanout2", tx0(func(t *cargen.TxShape) { t.Meta = cargen.PayloadShape{Pad: 900, FrameSize: 200, FanOut: 2} })},
		{"meta-7-frames-fanout1", tx0(func(t *cargen.TxShape) { t.Meta = cargen.PayloadShape{Pad: 1300, FrameSize: 200, FanOut: 1} })},
		{"meta-9-frames-fanout4-fnv", tx0(func(t *cargen.TxShape) {
			t.Meta = cargen.PayloadShape{Pad: 1700, FrameSize: 200, FanOut: 4, Checksum: "fnv"}
		})},
		{"meta-bare-frame", tx0(func(t *cargen.TxShape) { t.Meta = cargen.PayloadShape{Bare: true} })},
		{"rewards-one-frame", func(s *cargen.Shape) { s.Blocks[0].Rewards = &cargen.PayloadShape{Pad: 50} }},
		{"rewards-linked-frames", func(s *cargen.Shape) { s.Blocks[1].Rewards = &cargen.PayloadShape{Pad: 700, FrameSize: 150, FanOut: 2} }},
		{"first-slot-of-epoch", func(s *cargen.Shape) { s.Blocks[0].SlotOffset = 0 }},
		{"last-slot-of-epoch", func(s *cargen.Shape) { s.Blocks[1].SlotOffset = cargen.SlotsPerEpoch - 1 }},
		{"epoch=0(genesis)", func(s *cargen.Shape) { s.Epoch = 0 }},
		{"epoch=700", func(s *cargen.Shape) { s.Epoch = 700 }},
		{"root-sha512(longer-header)", func(s *cargen.Shape) { s.RootSha512 = true }},
		{"block-cid-sha512(68-byte-cid:must-fail-or-be-right)", func(s *cargen.Shape) { s.Blocks[0].CidSha512 = true }},
		{"tx-cid-sha512(68-byte-cid:must-fail-or-be-right)", tx0(func(t *cargen.TxShape) { t.CidSha512 = true })},
		{"block-cid-sha1(24-byte-cid)", func(s *cargen.Shape) { s.Blocks[0].CidShort = true }},
		{"tx-cid-sha1(24-byte-cid)", tx0(func(t *cargen.TxShape) { t.CidShort = true })},
		{"header-version-as-2-byte-int", func(s *cargen.Shape) { s.HeaderWide = "header-wide-int" }},
		{"two-subsets", func(s *cargen.Shape) { s.SubsetEvery = 1 }},
		{"no-position-index", tx0(func(t *cargen.TxShape) { t.NoIndex = true })},
		{"no-height", func(s *cargen.Shape) { s.Blocks[0].NoHeight = true }},
		{"blocktime=0", func(s *cargen.Shape) { s.Blocks[0].Blocktime = 0 }},
		{"blocktime=2^32-1", func(s *cargen.Shape) { s.Blocks[0].Blocktime = 1<<32 - 1 }},
		{"blocktime=2^32(must-fail-or-be-right)", func(s *cargen.Shape) { s.Blocks[0].Blocktime = 1 << 32 }},
		{"blocktime=-1(must-fail-or-be-right)", func(s *cargen.Shape) { s.Blocks[0].Blocktime = -1 }},
		{"vote+failed-tx", tx0(func(t *cargen.TxShape) { t.Vote, t.Failed = true, true })},
		{"loaded-accounts", tx0(func(t *cargen.TxShape) { t.Loaded = []int{2} })},
	}
	// signatures whose two-byte sig-exists prefix is the first / the last bucket of the table, or differs
	// only in byte order from another one
	for _, pfx := range [][2]byte{{0x00, 0x00}, {0xff, 0xff}, {0x00, 0x01}, {0x01, 0x00}} {
		pfx := pfx
		devs = append(devs, c01Dev{fmt.Sprintf("sig-prefix=%02x%02x", pfx[0], pfx[1]), tx0(func(t *cargen.TxShape) {
			var sg [64]byte
			for i := range sg {
				sg[i] = byte(0xA5 ^ i*29)
			}
			sg[0], sg[1] = pfx[0], pfx[1]
			t.Sig = &sg
		})})
	}
	// exact section payload sizes (CID + data) on both sides of the varint-width boundaries: the pad that
	// produces each size is found by generating the transaction object and measuring it
	for _, target := range []int{127, 128, 129, 16383, 16384, 16385, 16511, 16512} {
		target := target
		if pad, ok := c01PadForPayload(target); ok {
			devs = append(devs, c01Dev{fmt.Sprintf("tx-section-payload=%d", target), tx0(func(t *cargen.TxShape) { t.TxPad = pad; t.NoMeta = true })})
		}
	}
	return devs
}

// c01PadForPayload searches the instruction-data padding for which the first transaction object's section
// payload (CID bytes + node bytes) is exactly target bytes.
func c01PadForPayload(target int) (int, bool) {
	measure := func(pad int) int {
		s := c01Base()
		s.Blocks[0].Entries[0][0].TxPad = pad
		s.Blocks[0].Entries[0][0].NoMeta = true
		t := cargen.Generate(s)
		o := t.Objects[t.Txs[0].Obj]
		return len(o.Cid.Bytes()) + len(o.Data)
	}
	base := measure(0)
	if base > target {
		return 0, false
	}
	pad := target - base
	for tries := 0; tries < 40 && pad >= 0; tries++ {
		got := measure(pad)
		if got == target {
			return pad, true
		}
		pad -= got - target
	}
	return 0, false
}

type c01Case struct {
	Devs   []string `json:"deviations"`
	Access string   `json:"access"` // file | readerat
	Count  int      `json:"count,omitempty"`
}

// c01CheckEpoch verifies every ground-truth lookup on a built epoch. Returns the first violation.
func c01CheckEpoch(e *vEpoch, access string) (class, detail string) {
	t := e.Truth
	// raw index: every object's (offset, size)
	c2o, err := indexes.Open_CidToOffsetAndSize(e.Paths.CidToOffsetAndSize)
	if err != nil {
		return "open-cid-index", err.Error()
	}
	defer c2o.Close()
	for i, o := range t.Objects {
		got, err := c2o.Get(o.Cid)
		if err != nil {
			return "cid-lookup-missing", fmt.Sprintf("object %d (%s, kind %d): %v", i, o.Cid, o.Kind, err)
		}
		if got.Offset != o.Offset || got.Size != o.SectionLen {
			return "cid-lookup-wrong", fmt.Sprintf("object %d (%s): index says offset=%d size=%d, file has offset=%d size=%d", i, o.Cid, got.Offset, got.Size, o.Offset, o.SectionLen)
		}
	}
	s2c, err := indexes.Open_SlotToCid(e.Paths.SlotToCid)
	if err != nil {
		return "open-slot-index", err.Error()
	}
	defer s2c.Close()
	g2c, err := indexes.Open_SigToCid(e.Paths.SignatureToCid)
	if err != nil {
		return "open-sig-index", err.Error()
	}
	defer g2c.Close()
	sx, err := bucketteer.Open(e.Paths.SignatureExists)
	if err != nil {
		return "open-sig-exists", err.Error()
	}
	defer sx.Close()
	for _, b := range t.Blocks {
		c, err := s2c.Get(b.Slot)
		if err != nil || !c.Equals(b.Cid) {
			return "slot-lookup", fmt.Sprintf("slot %d: got %v err=%v, want %s", b.Slot, c, err, b.Cid)
		}
	}
	for _, tx := range t.Txs {
		c, err := g2c.Get(tx.Sig)
		if err != nil || !c.Equals(tx.Cid) {
			return "sig-lookup", fmt.Sprintf("signature %s: got %v err=%v, want %s", tx.Sig, c, err, tx.Cid)
		}
		has, err := sx.Has(tx.Sig)
		if err != nil || !has {
			return "sig-exists", fmt.Sprintf("signature %s: has=%v err=%v", tx.Sig, has, err)
		}
	}
	// through the server's epoch object
	e.writeConfig(vkConfigOpts{Name: "c01", NoGsfa: true})
	ep, err := vkLoadEpoch(e.ConfigPath, nil)
	if err != nil {
		return "load-epoch", err.Error()
	}
	defer ep.Close()
	if access == "readerat" {
		// serve the same CAR through the ReaderAt path
		f, err := os.Open(e.CarPath)
		if err != nil {
			return "internal", err.Error()
		}
		st, _ := f.Stat()
		ep.localCarReader = nil
		// (a conforming ReaderAt of the kind that reports io.EOF together with the last bytes of the file; the
		// other convention is what the memory-mapped file of the "file" access and C02's HTTP reader follow)
		ep.remoteCarReader = &readCloserWrapper{rac: c01EagerEOF{f, st.Size()}, name: e.CarPath, size: st.Size()}
		// the ReaderAt path derives the header size from the leading uvarint
		hb := make([]byte, 10)
		f.ReadAt(hb, 0)
		hs, n := uvarint(hb)
		ep.carHeaderSize = uint64(n) + hs
	}
	ctx := context.Background()
	var held [][]byte
	for i, o := range t.Objects {
		got, err := ep.GetNodeByCid(ctx, o.Cid)
		if err != nil {
			return "fetch-by-cid", fmt.Sprintf("[%s] object %d (%s): %v", access, i, o.Cid, err)
		}
		if !bytes.Equal(got, o.Data) {
			return "fetch-by-cid-bytes", fmt.Sprintf("[%s] object %d (%s): %d bytes returned, %d stored, differ", access, i, o.Cid, len(got), len(o.Data))
		}
		held = append(held, got)
	}
	// fetched again (and a third time): the later fetches are answered with the help of the look-up cache
	for round := 2; round <= 3; round++ {
		for i, o := range t.Objects {
			got, err := ep.GetNodeByCid(ctx, o.Cid)
			if err != nil {
				return "fetch-by-cid-again", fmt.Sprintf("[%s] object %d (%s), fetch number %d: %v", access, i, o.Cid, round, err)
			}
			if !bytes.Equal(got, o.Data) {
				return "fetch-by-cid-again-bytes", fmt.Sprintf("[%s] object %d (%s), fetch number %d: %d bytes returned, %d stored, differ", access, i, o.Cid, round, len(got), len(o.Data))
			}
		}
	}
	// the caller keeps what it was given: the bytes of an object must not change when other objects are fetched
	for i, o := range t.Objects {
		if !bytes.Equal(held[i], o.Data) {
			return "fetch-by-cid-bytes-changed-later", fmt.Sprintf("[%s] object %d (%s): the bytes returned for it held its data, and hold something else after the other objects were fetched", access, i, o.Cid)
		}
	}
	for _, b := range t.Blocks {
		c, err := ep.FindCidFromSlot(ctx, b.Slot)
		if err != nil || !c.Equals(b.Cid) {
			return "epoch-slot-lookup", fmt.Sprintf("slot %d: %v %v", b.Slot, c, err)
		}
		bt, err := ep.GetBlocktime(b.Slot)
		if err != nil || bt != b.Blocktime {
			return "blocktime", fmt.Sprintf("slot %d: block time %d err=%v, archived %d", b.Slot, bt, err, b.Blocktime)
		}
	}
	for _, tx := range t.Txs {
		c, err := ep.FindCidFromSignature(ctx, tx.Sig)
		if err != nil || !c.Equals(tx.Cid) {
			return "epoch-sig-lookup", fmt.Sprintf("sig %s: %v %v", tx.Sig, c, err)
		}
	}
	return "", ""
}

func uvarint(b []byte) (uint64, int) {
	var x uint64
	var s uint
	for i, c := range b {
		if c < 0x80 {
			return x | uint64(c)<<s, i + 1
		}
		x |= uint64(c&0x7f) << s
		s += 7
	}
	return 0, 0
}

func TestVerif_C01(t *testing.T) {
	silenceKlog()
	R := vkit.New("C01")
	defer R.Finish()
	base := vkBase("c01")
	defer os.RemoveAll(base)
	R.Rule = "case = epoch shape within k deviations of a 2-block base epoch (deviation menu: block/entry/tx counts, section-length varint widths, metadata/rewards frame layouts, epoch numbers, header length, subsets, optional fields, block-time edge values) x CAR served from the local file or through a ReaderAt; the real `index all` builds the indexes and every ground-truth object/slot/signature is looked up (raw index files and the server's Epoch object); non-trivial = shape with at least one deviation"
	devs := c01Devs()
	R.Bounds["deviation_menu"] = len(devs)
	k := 2
	if vkit.Thorough() {
		k = 3
	}
	R.Bounds["deviation_bound"] = k
	var cases [][]int
	cases = append(cases, nil)
	for i := range devs {
		cases = append(cases, []int{i})
	}
	if k >= 2 {
		for i := range devs {
			for j := i + 1; j < len(devs); j++ {
				cases = append(cases, []int{i, j})
			}
		}
	}
	if k >= 3 {
		for i := range devs {
			for j := i + 1; j < len(devs); j++ {
				for l := j + 1; l < len(devs); l++ {
					cases = append(cases, []int{i, j, l})
				}
			}
		}
	}
	// item-count boundaries of the compact index (10 000 entries per bucket): total items, transactions, blocks
	txCounts := []int{9996, 9997, 10000, 10001}
	blockCounts := []int{}
	if vkit.Thorough() {
		txCounts = []int{9995, 9996, 9997, 9998, 9999, 10000, 10001, 19996, 19997, 20000, 20001}
		blockCounts = []int{4998, 4999, 9999, 10000, 10001}
	}
	for _, n := range txCounts {
		n := n
		devs = append(devs, c01Dev{fmt.Sprintf("count:txs=%d", n), func(s *cargen.Shape) {
			s.Blocks = s.Blocks[:1]
			var es [][]cargen.TxShape
			for len(es)*100 < n {
				m := 100
				if rest := n - len(es)*100; rest < m {
					m = rest
				}
				es = append(es, make([]cargen.TxShape, m))
			}
			s.Blocks[0].Entries = es
		}})
		cases = append(cases, []int{len(devs) - 1})
	}
	for _, n := range blockCounts {
		n := n
		devs = append(devs, c01Dev{fmt.Sprintf("count:blocks=%d", n), func(s *cargen.Shape) {
			s.Blocks = nil
			for b := 0; b < n; b++ {
				s.Blocks = append(s.Blocks, cargen.BlockShape{SlotOffset: 3 * b, Blocktime: int64(1_600_000_000 + b), Entries: [][]cargen.TxShape{{}}})
			}
			s.Blocks[0].Entries = [][]cargen.TxShape{{{Accounts: []int{1}}}}
		}})
		cases = append(cases, []int{len(devs) - 1})
	}
	runCase := func(ix []int, access string) (string, string, c01Case) {
		s := c01Base()
		cs := c01Case{Access: access}
		for _, i := range ix {
			func() {
				defer func() { recover() }() // a deviation that no longer applies to the mutated shape is skipped
				devs[i].Apply(&s)
			}()
			cs.Devs = append(cs.Devs, devs[i].Name)
		}
		dir := filepath.Join(base, fmt.Sprintf("case-%s", vkit.Hash(cs.Devs, access)))
		defer os.RemoveAll(dir)
		e, err := vkBuildEpoch(dir, s, false)
		if err != nil {
			// index generation reported failure: nothing else is demanded
			return "", "index-generation-failed: " + err.Error(), cs
		}
		class, detail := c01CheckEpoch(e, access)
		if class == "" && access == "file" {
			// differential observation (not demanded by the statement): the repository's own verification pass
			// (`index all --verify`, `verify-index all`) must agree that these indexes are right
			verr := func() (err error) {
				defer func() {
					if r := recover(); r != nil {
						err = fmt.Errorf("panic: %v", r)
					}
				}()
				return verifyAllIndexes(context.Background(), e.CarPath, e.Paths, 0)
			}()
			R.Add("verify_pass_runs", 1)
			if verr != nil {
				R.Add("verify_pass_rejects_indexes_whose_every_lookup_is_right", 1)
				R.Note("%v: every lookup is right, but the repository's verification pass fails: %v", cs.Devs, verr)
			}
		}
		return class, detail, cs
	}
	if rp := vkit.ReplayRequest(); rp != nil {
		var cs c01Case
		remarshal(rp["case"], &cs)
		var ix []int
		for _, n := range cs.Devs {
			for i, d := range devs {
				if d.Name == n {
					ix = append(ix, i)
				}
			}
		}
		class, detail, _ := runCase(ix, cs.Access)
		t.Logf("replay %+v: class=%q detail=%s", cs, class, detail)
		if class != "" {
			R.Violation("C01|"+class, detail, rp)
		}
		R.Case(true, "")
		return
	}
	idx := int64(0)
	for _, ix := range cases {
		for _, access := range []string{"file", "readerat"} {
			mine := vkit.Mine(idx)
			idx++
			if !mine {
				continue
			}
			if R.Expired() {
				R.Note("deadline reached at case %d", idx)
				return
			}
			class, detail, cs := runCase(ix, access)
			R.Case(len(ix) > 0, "")
			if class == "" && detail != "" {
				R.Outcome("rejected")
				R.Note("%v: %s", cs.Devs, detail)
			} else {
				R.Outcome("ok:" + class)
			}
			if idx%29 == 0 {
				b, _ := json.Marshal(cs)
				R.Sample(json.RawMessage(b))
			}
			if class != "" {
				R.Violation("C01|"+class, fmt.Sprintf("%v [%s]: %s", cs.Devs, access, detail), map[string]interface{}{"case": cs})
			}
		}
	}
}

type c01EagerEOF struct {
	f    *os.File
	size int64
}

func (r c01EagerEOF) ReadAt(p []byte, off int64) (int, error) {
	n, err := r.f.ReadAt(p, off)
	if err == nil && off+int64(n) == r.size {
		err = io.EOF
	}
	return n, err
}

func (r c01EagerEOF) Close() error { return r.f.Close() }
