//go:build verif

package main

import (
	"context"
	"encoding/json"
	"fmt"
	"net/http"
	"net/http/httptest"
	"os"
	"path/filepath"
	"runtime"
	"strings"
	"sync"
	"testing"

	old_faithful_grpc "github.com/rpcpool/yellowstone-faithful/old-faithful-proto/old-faithful-grpc"
	"github.com/rpcpool/yellowstone-faithful/zzverif/cargen"
	"github.com/rpcpool/yellowstone-faithful/zzverif/vkit"
	"google.golang.org/protobuf/proto"
)

// C02 (remote-faults variant): an epoch whose CAR and index files are fetched over HTTP. For every request of a
// fixed list (getBlock / getTransaction / getBlockTime over JSON-RPC, GetBlock / GetTransaction over gRPC, for every
// block and transaction of the epoch) the number K of range requests it causes on a freshly loaded epoch is
// measured; then, for every k in 1..K and every faulty behaviour of the file server, the epoch is loaded afresh, the
// k-th range request is answered with the fault, and the request is issued. Oracle: the answer is either the
// reference answer (the idle, healthy server's) or an error answer - never a different successful answer and never
// "not found" for an archived key - and the same request repeated against the healthy server gives the reference
// answer (nothing of the faulty reply was kept in a cache).

type c02rFault struct {
	Name  string
	serve func(w http.ResponseWriter, r *http.Request, healthy http.Handler)
}

func c02rFaults() []c02rFault {
	page := strings.Repeat("<html><body>service unavailable</body></html>", 400) // 18 KB: longer than any single read here
	return []c02rFault{
		{"503-with-page", func(w http.ResponseWriter, r *http.Request, _ http.Handler) {
			w.WriteHeader(http.StatusServiceUnavailable)
			w.Write([]byte(page))
		}},
		{"404-with-page", func(w http.ResponseWriter, r *http.Request, _ http.Handler) {
			w.WriteHeader(http.StatusNotFound)
			w.Write([]byte(page))
		}},
		{"200-whole-file", func(w http.ResponseWriter, r *http.Request, healthy http.Handler) {
			r2 := r.Clone(r.Context())
			r2.Header.Del("Range")
			healthy.ServeHTTP(w, r2)
		}},
		{"connection-closed", func(w http.ResponseWriter, r *http.Request, _ http.Handler) {
			if hj, ok := w.(http.Hijacker); ok {
				if c, _, err := hj.Hijack(); err == nil {
					c.Close()
					return
				}
			}
			w.WriteHeader(http.StatusInternalServerError)
		}},
	}
}

type c02rServer struct {
	mu      sync.Mutex
	healthy http.Handler
	fault   *c02rFault
	failAt  int // 1-based index of the range request (since arm) to answer with the fault; 0 = none
	seen    int
	fired   bool
}

func (s *c02rServer) ServeHTTP(w http.ResponseWriter, r *http.Request) {
	if r.Method != "GET" || r.Header.Get("Range") == "" {
		s.healthy.ServeHTTP(w, r)
		return
	}
	s.mu.Lock()
	s.seen++
	hit := s.failAt > 0 && s.seen == s.failAt && s.fault != nil
	f := s.fault
	if hit {
		s.fired = true
	}
	s.mu.Unlock()
	if hit {
		f.serve(w, r, s.healthy)
		return
	}
	s.healthy.ServeHTTP(w, r)
}

func (s *c02rServer) arm(f *c02rFault, at int) {
	s.mu.Lock()
	s.fault, s.failAt, s.seen, s.fired = f, at, 0, false
	s.mu.Unlock()
}

func (s *c02rServer) count() (int, bool) {
	s.mu.Lock()
	defer s.mu.Unlock()
	return s.seen, s.fired
}

type c02rRequest struct {
	Name string
	run  func(m *MultiEpoch) (answer string, isError, notFound bool)
}

type c02rCase struct {
	Request string `json:"request"`
	Fault   string `json:"fault"`
	At      int    `json:"kth_range_request"`
}

func TestVerif_C02_RemoteFaults(t *testing.T) {
	silenceKlog()
	R := vkit.New("C02")
	defer R.Finish()
	base := vkBase("c02r")
	defer os.RemoveAll(base)
	R.Rule = "remote-faults variant: epoch with CAR and index files over HTTP (loopback); case = (request: getBlock / getBlockTime / gRPC GetBlock for every block, getTransaction / gRPC GetTransaction for every transaction) x (k = 1..K, the k-th range request this request causes on a freshly loaded epoch) x (fault answering that range request: 503 page, 404 page, 200 whole file, connection closed; a server that answers 206 with other bytes than the file's cannot be told from a healthy one and is outside the alphabet); oracle = the reference answer or an error answer, never another successful answer or 'not found' for an archived key; the same request against the healthy server afterwards gives the reference answer; non-trivial = the fault was reached"
	sh := cargen.Shape{Epoch: 1, SubsetEvery: 0}
	mkb := func(off int, es [][]cargen.TxShape) cargen.BlockShape {
		return cargen.BlockShape{SlotOffset: off, Blocktime: int64(1_650_000_000 + off), Entries: es}
	}
	sh.Blocks = []cargen.BlockShape{
		mkb(3, [][]cargen.TxShape{{{Accounts: []int{0}}, {Accounts: []int{1}, Vote: true}}}),
		mkb(4, [][]cargen.TxShape{{}, {{Accounts: []int{2}, Failed: true}}, {{Accounts: []int{0, 1}, Meta: cargen.PayloadShape{Pad: 700, FrameSize: 256, FanOut: 2}}, {Accounts: []int{1}}}}),
		mkb(9, [][]cargen.TxShape{{{Accounts: []int{1}}, {Accounts: []int{2}, NoMeta: true}}}),
	}
	sh.Blocks[2].Rewards = &cargen.PayloadShape{Pad: 300, FrameSize: 128}
	p := uint64(431_999)
	sh.PrevSlot = &p
	e, err := vkBuildEpoch(filepath.Join(base, "e1"), sh, false)
	if err != nil {
		R.Internal("build epoch: %v", err)
		return
	}
	srv := &c02rServer{healthy: http.FileServer(http.Dir("/"))}
	ts := httptest.NewServer(srv)
	defer ts.Close()
	cfg := e.writeConfig(vkConfigOpts{Name: "config-remote", NoGsfa: true, RemoteBase: ts.URL})
	ctx := context.Background()
	rpcReq := func(body string) func(m *MultiEpoch) (string, bool, bool) {
		return func(m *MultiEpoch) (string, bool, bool) {
			_, resp, pan := vkRPC(newMultiEpochHandler(m, nil), body)
			if pan != nil {
				return fmt.Sprintf("panic: %v", pan), false, false
			}
			var mm map[string]interface{}
			if err := json.Unmarshal(resp, &mm); err != nil {
				return string(resp), false, false
			}
			if mm["error"] != nil {
				return string(resp), true, false
			}
			if res, ok := mm["result"]; ok && res == nil {
				return string(resp), false, true
			}
			return string(resp), false, false
		}
	}
	var reqs []c02rRequest
	for bi := range e.Truth.Blocks {
		slot := e.Truth.Blocks[bi].Slot
		reqs = append(reqs, c02rRequest{fmt.Sprintf("getBlock(%d)", slot), rpcReq(fmt.Sprintf(`{"jsonrpc":"2.0","id":1,"method":"getBlock","params":[%d,{"encoding":"base64","maxSupportedTransactionVersion":0,"rewards":true}]}`, slot))})
		reqs = append(reqs, c02rRequest{fmt.Sprintf("getBlockTime(%d)", slot), rpcReq(fmt.Sprintf(`{"jsonrpc":"2.0","id":1,"method":"getBlockTime","params":[%d]}`, slot))})
		reqs = append(reqs, c02rRequest{fmt.Sprintf("grpc:GetBlock(%d)", slot), func(m *MultiEpoch) (string, bool, bool) {
			r, err := m.GetBlock(ctx, &old_faithful_grpc.BlockRequest{Slot: slot})
			if err != nil {
				return "error: " + err.Error(), true, false
			}
			b, _ := proto.MarshalOptions{Deterministic: true}.Marshal(r)
			return vkit.Hash(string(b)), false, false
		}})
	}
	for ti := range e.Truth.Txs {
		sig := e.Truth.Txs[ti].Sig
		reqs = append(reqs, c02rRequest{fmt.Sprintf("getTransaction(#%d)", ti), rpcReq(fmt.Sprintf(`{"jsonrpc":"2.0","id":1,"method":"getTransaction","params":[%q,{"encoding":"base64","maxSupportedTransactionVersion":0}]}`, sig.String()))})
		reqs = append(reqs, c02rRequest{fmt.Sprintf("grpc:GetTransaction(#%d)", ti), func(m *MultiEpoch) (string, bool, bool) {
			r, err := m.GetTransaction(ctx, &old_faithful_grpc.TransactionRequest{Signature: sig[:]})
			if err != nil {
				return "error: " + err.Error(), true, false
			}
			b, _ := proto.MarshalOptions{Deterministic: true}.Marshal(r)
			return vkit.Hash(string(b)), false, false
		}})
	}
	R.Bounds["requests"] = len(reqs)
	faults := c02rFaults()
	R.Bounds["faults"] = len(faults)
	// fresh loads an epoch with cold caches; the faults are armed only after loading
	fresh := func() (*MultiEpoch, *Epoch, error) {
		srv.arm(nil, 0)
		ep, err := vkLoadEpoch(cfg, vkNewCache())
		if err != nil {
			return nil, nil, err
		}
		return vkNewMulti(2, ep), ep, nil
	}
	closeEp := func(ep *Epoch, before int) {
		vkDrain(before)
		ep.Close()
	}
	idx := int64(0)
	for _, rq := range reqs {
		mine := vkit.Mine(idx)
		idx++
		if !mine {
			continue
		}
		if R.Expired() {
			R.Note("deadline reached at request %s", rq.Name)
			break
		}
		// reference answer and K on a healthy server
		g0 := runtime.NumGoroutine()
		m, ep, err := fresh()
		if err != nil {
			// the server is healthy here and the files are the ones the real indexer wrote
			R.Violation("C02|remote-faults|load-epoch", fmt.Sprintf("the epoch served over HTTP by a healthy server does not load: %v", err), map[string]interface{}{"request": rq.Name})
			return
		}
		srv.arm(nil, 0)
		ref, refErr, refNF := rq.run(m)
		K, _ := srv.count()
		closeEp(ep, g0)
		if refErr || refNF || strings.HasPrefix(ref, "panic") {
			R.Violation("C02|remote|healthy-request-fails", fmt.Sprintf("%s against a healthy remote epoch answered %.300s", rq.Name, ref), map[string]interface{}{"variant": "remote-faults", "request": rq.Name})
			continue
		}
		R.Add("range_requests_per_request_total", int64(K))
		for fi := range faults {
			f := &faults[fi]
			for k := 1; k <= K; k++ {
				c := c02rCase{rq.Name, f.Name, k}
				g1 := runtime.NumGoroutine()
				m, ep, err := fresh()
				if err != nil {
					R.Violation("C02|remote-faults|load-epoch", fmt.Sprintf("the epoch served over HTTP by a healthy server does not load: %v", err), map[string]interface{}{"request": rq.Name})
					return
				}
				srv.arm(f, k)
				got, isErr, nf := rq.run(m)
				_, fired := srv.count()
				R.Case(fired, "")
				viol := func(class, what string) {
					R.Violation("C02|remote|"+class+"|"+f.Name, fmt.Sprintf("%s, range request #%d of %d answered with %s: %s", rq.Name, k, K, f.Name, what), map[string]interface{}{"variant": "remote-faults", "case": c})
				}
				switch {
				case strings.HasPrefix(got, "panic"):
					viol("panic", got)
				case nf:
					viol("archived-key-not-found", fmt.Sprintf("answered 'not found' (%.200s)", got))
				case !isErr && got != ref:
					viol("wrong-answer", fmt.Sprintf("a successful answer that differs from the healthy server's (%d vs %d bytes)", len(got), len(ref)))
				}
				R.Outcome(fmt.Sprintf("%s:err=%v", f.Name, isErr))
				// afterwards, healthy: the reference answer again
				srv.arm(nil, 0)
				again, aErr, aNF := rq.run(m)
				if aErr || aNF || again != ref {
					viol("poisoned-after-fault", fmt.Sprintf("the same request against the healthy server afterwards answered %.200s", again))
				}
				closeEp(ep, g1)
			}
		}
		R.Sample(map[string]interface{}{"variant": "remote-faults", "request": rq.Name, "range_requests_on_a_cold_epoch": K})
	}
}
