//go:build verif

package main

// C12: parsers of external data return errors, never crash, on arbitrary bytes.
//
// Engine: deviation-bounded exhaustive enumeration. For every seed (a valid instance of a format, produced
// by the repository's own writers / the reference encoder) the complete set of inputs within k deviations
// is enumerated deterministically: every truncation length, every byte offset x a fixed 7-value alphabet,
// every located length/count field x a fixed value set, and for small seeds all PAIRS of byte deviations.
// Nothing is sampled at random; there is no feedback from coverage. The families (seeds + entry points)
// are in c12_families_test.go.
//
// Process layout: bin/check starts N shard processes. Each shard process ("parent") runs NO case itself;
// it re-executes the test binary as a worker ("child", env C12_JOB) under RLIMIT_AS, which runs the batches
// owned by the shard and publishes the id of the case it is about to run in a shared memory-mapped file
// BEFORE running it. Panics are recovered in the child. A child that dies (fatal error) or stalls identifies
// its case; the parent re-runs that single case alone 3x and reports it only if it reproduces every time.

import (
	"bufio"
	"bytes"
	"crypto/sha256"
	"encoding/binary"
	"encoding/hex"
	"encoding/json"
	"fmt"
	"hash/fnv"
	"os"
	"os/exec"
	"path/filepath"
	"regexp"
	"runtime"
	"runtime/debug"
	"runtime/metrics"
	"sort"
	"strings"
	"syscall"
	"testing"
	"time"

	"github.com/rpcpool/yellowstone-faithful/zzverif/vkit"
)

const (
	c12Mod          = "github.com/rpcpool/yellowstone-faithful"
	c12AllocBase    = 64 << 20 // allowed TotalAlloc growth per call: 64 MiB + 1000 x len(input)
	c12AllocPerByte = 1000
	c12MemLimit     = 3276 << 20 // RLIMIT_AS of a worker, 3.2 GiB (see the note at Setrlimit)
	c12HangLimit    = 20 * time.Second
	c12SetupLimit   = 120 * time.Second
)

// ---------------------------------------------------------------------------------------------
// entry point registry
// ---------------------------------------------------------------------------------------------

var c12Entries []string

var c12Start = time.Now()

var c12Debug = os.Getenv("C12_DEBUG") != ""

func c12E(name string) int {
	c12Entries = append(c12Entries, name)
	return len(c12Entries) - 1
}

// ---------------------------------------------------------------------------------------------
// deviations
// ---------------------------------------------------------------------------------------------

// c12Field is a length / count / size field located in a seed by the seed's builder.
type c12Field struct {
	Name  string
	Off   int      // offset of the encoded field in the seed
	Len   int      // encoded length in the seed
	Enc   string   // u8 u16le u24le u32le u48le u64le uvarint cbor
	Major byte     // cbor major type
	Cur   uint64   // the consistent value
	Extra []uint64 // further values worth trying, known to the seed's builder (e.g. the smallest value the parser's own check accepts)
	Big   bool     // a 32/64-bit byte or element count: pairs that rewrite one of its upper bytes (index >= 2) are not run (see staticSkip)
}

func (f c12Field) max() uint64 {
	switch f.Enc {
	case "u8":
		return 1<<8 - 1
	case "u16le":
		return 1<<16 - 1
	case "u24le":
		return 1<<24 - 1
	case "u32le":
		return 1<<32 - 1
	case "u48le":
		return 1<<48 - 1
	}
	return 1<<64 - 1
}

func (f c12Field) encode(v uint64) []byte {
	le := func(n int) []byte {
		var b [8]byte
		binary.LittleEndian.PutUint64(b[:], v)
		return append([]byte{}, b[:n]...)
	}
	switch f.Enc {
	case "u8":
		return le(1)
	case "u16le":
		return le(2)
	case "u24le":
		return le(3)
	case "u32le":
		return le(4)
	case "u48le":
		return le(6)
	case "u64le":
		return le(8)
	case "uvarint":
		return binary.AppendUvarint(nil, v)
	case "cbor":
		m := f.Major << 5
		switch {
		case v < 24:
			return []byte{m | byte(v)}
		case v < 1<<8:
			return []byte{m | 24, byte(v)}
		case v < 1<<16:
			return []byte{m | 25, byte(v >> 8), byte(v)}
		case v < 1<<32:
			return []byte{m | 26, byte(v >> 24), byte(v >> 16), byte(v >> 8), byte(v)}
		default:
			out := []byte{m | 27, 0, 0, 0, 0, 0, 0, 0, 0}
			binary.BigEndian.PutUint64(out[1:], v)
			return out
		}
	}
	panic("c12: unknown field encoding " + f.Enc)
}

// c12FieldVals: {0, 1, 2, max-1, max, consistent-1, consistent+1} (thorough: plus powers of two around the
// 16/24/31/32/63-bit edges), without the consistent value itself, in a fixed order.
func c12FieldVals(f c12Field, thorough bool) []uint64 {
	max := f.max()
	cand := []uint64{0, 1, 2, max - 1, max}
	if f.Cur > 0 {
		cand = append(cand, f.Cur-1)
	}
	if f.Cur < max {
		cand = append(cand, f.Cur+1)
	}
	cand = append(cand, f.Extra...)
	if thorough {
		cand = append(cand, 1<<16, 1<<24, 1<<31-1, 1<<31, 1<<32-1, 1<<32, 1<<63-1, 1<<63, 255, 256, 65535)
		for v := uint64(3); v <= 64; v++ { // every small value
			cand = append(cand, v)
		}
	}
	var out []uint64
	seen := map[uint64]bool{f.Cur: true}
	for _, v := range cand {
		if v > max || seen[v] {
			continue
		}
		seen[v] = true
		out = append(out, v)
	}
	return out
}

type c12Dev struct {
	Kind  string    `json:"kind"`           // identity | trunc | byte | byte2 | field | field2
	Trunc int       `json:"trunc"`          // new length, -1 = not truncated
	Off   [2]int    `json:"off"`            // byte edits (-1 = unused)
	Val   [2]int    `json:"val"`            //
	Fld   [2]int    `json:"fld"`            // field edits (-1 = unused)
	FVal  [2]uint64 `json:"fval"`           //
	Desc  string    `json:"desc,omitempty"` // human description (not used for replay)
}

func c12NoDev(kind string) c12Dev {
	return c12Dev{Kind: kind, Trunc: -1, Off: [2]int{-1, -1}, Fld: [2]int{-1, -1}}
}

// the byte alphabet: 0x00 0x01 0x7f 0x80 0xff b^0x01 b^0x80 (slots that repeat an earlier slot or equal b are skipped)
func c12ByteVal(b byte, slot int) (byte, bool) {
	vals := [7]byte{0x00, 0x01, 0x7f, 0x80, 0xff, b ^ 0x01, b ^ 0x80}
	v := vals[slot]
	if v == b {
		return v, false
	}
	for t := 0; t < slot; t++ {
		if vals[t] == v {
			return v, false
		}
	}
	return v, true
}

type c12FieldCase struct {
	F int
	V uint64
}

// c12Fam = one seed + the entry points that consume it.
type c12Fam struct {
	Name    string
	Format  string
	Seed    []byte
	Fields  []c12Field
	K       int   // 2 = all pairs of byte deviations as well
	Offsets []int // nil = every offset (small seeds); else the offsets that get byte deviations (large files)
	Truncs  []int // nil = every length 0..len-1; else the lengths tried
	Run     func(x *c12Exec, in []byte)
	Bounds  string // description of the offsets covered (for the evidence)

	offs, truncs          []int
	fcases                []c12FieldCase
	fvals                 [][]uint64
	nTrunc, nByte, nField int
	nPair, nFieldPair     int
	work                  []byte
	seedSig               string
	fcaseIdx              map[[2]uint64]int
	bigByte               map[int]bool // offsets of the upper bytes (index >= 2) of Big fields
}

// member keys identify ONE deviation of a pair (for the skip list of deviations that alone kill a worker)
func c12ByteMember(off, val int) int64 { return int64(off)<<8 | int64(val) }
func c12FieldMember(fcase int) int64   { return -int64(fcase) - 1 }

func (f *c12Fam) members(d c12Dev) []int64 {
	var out []int64
	switch d.Kind {
	case "byte", "byte2":
		for k := 0; k < 2; k++ {
			if d.Off[k] >= 0 {
				out = append(out, c12ByteMember(d.Off[k], d.Val[k]))
			}
		}
	case "field", "field2":
		for k := 0; k < 2; k++ {
			if d.Fld[k] >= 0 {
				out = append(out, c12FieldMember(f.fcaseIdx[[2]uint64{uint64(d.Fld[k]), d.FVal[k]}]))
			}
		}
	}
	return out
}

// staticSkip: a pair is not run when one of its members rewrites an upper byte (index >= 2) of a 32/64-bit byte or
// element count (or sets such a field to 2^16 or more). Every such deviation is run alone (k = 1); alone it asks the parser
// for 512 KiB .. exabytes, i.e. it is slow, an allocation violation, or fatal to the worker, for every partner.
func (f *c12Fam) staticSkip(d c12Dev) bool {
	switch d.Kind {
	case "byte2":
		return f.bigByte[d.Off[0]] || f.bigByte[d.Off[1]]
	case "field2":
		for k := 0; k < 2; k++ {
			if f.Fields[d.Fld[k]].Big && d.FVal[k] >= 1<<16 {
				return true
			}
		}
	}
	return false
}

func (f *c12Fam) memberDev(m int64) c12Dev {
	if m >= 0 {
		d := c12NoDev("byte")
		d.Off[0], d.Val[0] = int(m>>8), int(m&0xff)
		return d
	}
	fc := f.fcases[int(-m-1)]
	d := c12NoDev("field")
	d.Fld[0], d.FVal[0] = fc.F, fc.V
	return d
}

func (f *c12Fam) prepare(thorough bool) {
	n := len(f.Seed)
	f.offs = f.Offsets
	if f.offs == nil {
		f.offs = make([]int, n)
		for i := range f.offs {
			f.offs[i] = i
		}
	}
	f.truncs = f.Truncs
	if f.truncs == nil {
		f.truncs = make([]int, n)
		for i := range f.truncs {
			f.truncs[i] = i
		}
	}
	f.fcases, f.fvals = nil, nil
	f.fcaseIdx = map[[2]uint64]int{}
	f.bigByte = map[int]bool{}
	for _, fl := range f.Fields {
		if fl.Big {
			for o := fl.Off + 2; o < fl.Off+fl.Len; o++ {
				f.bigByte[o] = true
			}
		}
	}
	for fi, fl := range f.Fields {
		vs := c12FieldVals(fl, thorough)
		f.fvals = append(f.fvals, vs)
		for _, v := range vs {
			f.fcaseIdx[[2]uint64{uint64(fi), v}] = len(f.fcases)
			f.fcases = append(f.fcases, c12FieldCase{fi, v})
		}
	}
	f.nTrunc = len(f.truncs)
	f.nByte = len(f.offs) * 7
	f.nField = len(f.fcases)
	f.nPair, f.nFieldPair = 0, 0
	if f.K >= 2 {
		m := len(f.offs)
		f.nPair = m * (m - 1) / 2 * 49
		c := len(f.fcases)
		f.nFieldPair = c * (c - 1) / 2 // pairs on the same field are skipped at run time
	}
	f.work = append([]byte{}, f.Seed...)
}

func (f *c12Fam) total() int { return 1 + f.nTrunc + f.nByte + f.nField + f.nPair + f.nFieldPair }

func c12PairAt(p, m int) (int, int) {
	a := 0
	for {
		row := m - 1 - a
		if p < row {
			return a, a + 1 + p
		}
		p -= row
		a++
	}
}

// caseAt maps a case number of this family to its deviation; ok=false = a no-op/duplicate slot (skipped, not counted).
func (f *c12Fam) caseAt(i int) (c12Dev, bool) {
	if i == 0 {
		return c12NoDev("identity"), true
	}
	i--
	if i < f.nTrunc {
		d := c12NoDev("trunc")
		d.Trunc = f.truncs[i]
		return d, true
	}
	i -= f.nTrunc
	if i < f.nByte {
		off := f.offs[i/7]
		v, ok := c12ByteVal(f.Seed[off], i%7)
		d := c12NoDev("byte")
		d.Off[0], d.Val[0] = off, int(v)
		return d, ok
	}
	i -= f.nByte
	if i < f.nField {
		fc := f.fcases[i]
		d := c12NoDev("field")
		d.Fld[0], d.FVal[0] = fc.F, fc.V
		return d, true
	}
	i -= f.nField
	if i < f.nPair {
		a, b := c12PairAt(i/49, len(f.offs))
		s := i % 49
		o1, o2 := f.offs[a], f.offs[b]
		v1, ok1 := c12ByteVal(f.Seed[o1], s/7)
		v2, ok2 := c12ByteVal(f.Seed[o2], s%7)
		d := c12NoDev("byte2")
		d.Off, d.Val = [2]int{o1, o2}, [2]int{int(v1), int(v2)}
		return d, ok1 && ok2
	}
	i -= f.nPair
	a, b := c12PairAt(i, len(f.fcases))
	ca, cb := f.fcases[a], f.fcases[b]
	d := c12NoDev("field2")
	d.Fld, d.FVal = [2]int{ca.F, cb.F}, [2]uint64{ca.V, cb.V}
	return d, ca.F != cb.F
}

// apply builds the deviated input. Byte edits are made in place in the family's work buffer (restore undoes
// them); truncations are length- and capacity-limited views of the work buffer; field edits splice a copy.
func (f *c12Fam) apply(d c12Dev) (in []byte, restore func()) {
	nop := func() {}
	switch d.Kind {
	case "identity":
		return f.work[:len(f.work):len(f.work)], nop
	case "trunc":
		return f.work[:d.Trunc:d.Trunc], nop
	case "byte", "byte2":
		for k := 0; k < 2; k++ {
			if d.Off[k] >= 0 {
				f.work[d.Off[k]] = byte(d.Val[k])
			}
		}
		return f.work[:len(f.work):len(f.work)], func() {
			for k := 0; k < 2; k++ {
				if d.Off[k] >= 0 {
					f.work[d.Off[k]] = f.Seed[d.Off[k]]
				}
			}
		}
	case "field", "field2":
		type ed struct {
			off, ln int
			enc     []byte
		}
		var eds []ed
		for k := 0; k < 2; k++ {
			if d.Fld[k] >= 0 {
				fl := f.Fields[d.Fld[k]]
				eds = append(eds, ed{fl.Off, fl.Len, fl.encode(d.FVal[k])})
			}
		}
		sort.Slice(eds, func(i, j int) bool { return eds[i].off < eds[j].off })
		out := make([]byte, 0, len(f.Seed)+16)
		pos := 0
		for _, e := range eds {
			if e.off < pos {
				continue // overlapping fields: keep the first
			}
			out = append(out, f.Seed[pos:e.off]...)
			out = append(out, e.enc...)
			pos = e.off + e.ln
		}
		out = append(out, f.Seed[pos:]...)
		return out[:len(out):len(out)], nop
	}
	panic("c12: unknown deviation kind " + d.Kind)
}

func (f *c12Fam) describe(d c12Dev) string {
	switch d.Kind {
	case "identity":
		return "unchanged seed"
	case "trunc":
		return fmt.Sprintf("truncated to %d of %d bytes", d.Trunc, len(f.Seed))
	case "byte":
		return fmt.Sprintf("byte @%d: %#02x -> %#02x", d.Off[0], f.Seed[d.Off[0]], d.Val[0])
	case "byte2":
		return fmt.Sprintf("bytes @%d: %#02x -> %#02x, @%d: %#02x -> %#02x", d.Off[0], f.Seed[d.Off[0]], d.Val[0], d.Off[1], f.Seed[d.Off[1]], d.Val[1])
	case "field":
		fl := f.Fields[d.Fld[0]]
		return fmt.Sprintf("field %s (%s @%d, consistent value %d) set to %d", fl.Name, fl.Enc, fl.Off, fl.Cur, d.FVal[0])
	case "field2":
		f0, f1 := f.Fields[d.Fld[0]], f.Fields[d.Fld[1]]
		return fmt.Sprintf("field %s (@%d, %d) set to %d and field %s (@%d, %d) set to %d", f0.Name, f0.Off, f0.Cur, d.FVal[0], f1.Name, f1.Off, f1.Cur, d.FVal[1])
	}
	return d.Kind
}

// c12Region: offsets for large files = every offset of the header region, the first/last 64 bytes of every
// structure, plus a fixed stride through everything.
func c12Region(n int, headerEnd int, spans [][2]int, stride int) []int {
	mark := make(map[int]struct{})
	add := func(lo, hi int) {
		if lo < 0 {
			lo = 0
		}
		if hi > n {
			hi = n
		}
		for i := lo; i < hi; i++ {
			mark[i] = struct{}{}
		}
	}
	add(0, headerEnd)
	for _, s := range spans {
		if s[1]-s[0] <= 128 {
			add(s[0], s[1])
		} else {
			add(s[0], s[0]+64)
			add(s[1]-64, s[1])
		}
	}
	for i := 0; i < n; i += stride {
		mark[i] = struct{}{}
	}
	add(n-64, n)
	out := make([]int, 0, len(mark))
	for i := range mark {
		out = append(out, i)
	}
	sort.Ints(out)
	return out
}

// ---------------------------------------------------------------------------------------------
// executing one case: guards, oracle
// ---------------------------------------------------------------------------------------------

type c12Panic struct {
	Msg   string
	Site  string // innermost repository function
	Where string // file:line of that frame
	Stack []string
}

type c12Viol struct {
	Key    string                 `json:"key"`
	What   string                 `json:"what"`
	Replay map[string]interface{} `json:"replay"`
}

type c12Exec struct {
	fam      *c12Fam
	dev      c12Dev
	in       []byte
	prog     []byte // shared progress page (nil in the parent)
	sig      []byte
	quiet    bool // seed-signature runs: no violations, no counting
	calls    int64
	outcomes map[string]int64
	viols    []c12Viol // new keys of this process, in order of discovery
	seen     map[string]int64
	problems []string // seeds that are not accepted by their own parser (harness bug)
	incon    []string
	scratch  string
	state    map[string]interface{} // per-process state of families (open log files, ...)
	nCase    int64
}

func c12NewExec(scratch string) *c12Exec {
	return &c12Exec{outcomes: map[string]int64{}, seen: map[string]int64{}, scratch: scratch, state: map[string]interface{}{}}
}

var c12AllocSample = []metrics.Sample{{Name: "/gc/heap/allocs:bytes"}}

func c12AllocNow() uint64 {
	metrics.Read(c12AllocSample)
	return c12AllocSample[0].Value.Uint64()
}

func c12Call(f func() error) (err error, pn *c12Panic) {
	defer func() {
		if r := recover(); r != nil {
			pn = c12MakePanic(r)
		}
	}()
	return f(), nil
}

func c12IsHarnessFrame(fn string) bool {
	return strings.Contains(fn, ".c12") || strings.Contains(fn, "TestVerif") || strings.Contains(fn, "/zzverif/")
}

func c12TrimMod(fn string) string {
	fn = strings.TrimPrefix(fn, c12Mod)
	if strings.HasPrefix(fn, "/") {
		return fn[1:]
	}
	if strings.HasPrefix(fn, ".") {
		return "main" + fn
	}
	return fn
}

func c12SiteOf(pcs []uintptr) (site, where string, stack []string) {
	fr := runtime.CallersFrames(pcs)
	for {
		f, more := fr.Next()
		if f.Function != "" && len(stack) < 14 && !strings.HasPrefix(f.Function, "runtime.") {
			stack = append(stack, fmt.Sprintf("%s (%s:%d)", c12TrimMod(f.Function), filepath.Base(f.File), f.Line))
		}
		if site == "" && strings.HasPrefix(f.Function, c12Mod) && !c12IsHarnessFrame(f.Function) {
			site = c12TrimMod(f.Function)
			where = fmt.Sprintf("%s:%d", filepath.Base(f.File), f.Line)
		}
		if !more {
			break
		}
	}
	if site == "" {
		site = "?"
	}
	return
}

func c12MakePanic(r interface{}) *c12Panic {
	pcs := make([]uintptr, 96)
	n := runtime.Callers(3, pcs)
	p := &c12Panic{Msg: fmt.Sprint(r)}
	p.Site, p.Where, p.Stack = c12SiteOf(pcs[:n])
	return p
}

var c12Digits = regexp.MustCompile(`[0-9]+`)

func c12PanicClass(msg string) string {
	for _, c := range []string{"index out of range", "slice bounds out of range", "nil pointer dereference", "interface conversion",
		"makeslice: len out of range", "makeslice: cap out of range", "integer divide by zero", "makemap: size out of range",
		"negative shift amount", "out of memory", "stack overflow"} {
		if strings.Contains(msg, c) {
			return c
		}
	}
	s := c12Digits.ReplaceAllString(msg, "N")
	if len(s) > 60 {
		s = s[:60]
	}
	return s
}

func (x *c12Exec) replay(entry int, extra map[string]interface{}) map[string]interface{} {
	m := map[string]interface{}{"family": x.fam.Name, "dev": x.dev, "entry": c12Entries[entry], "deviation": x.fam.describe(x.dev), "input_len": len(x.in)}
	if len(x.in) <= 2048 {
		m["input_hex"] = hex.EncodeToString(x.in)
	} else {
		h := sha256.Sum256(x.in)
		m["input_sha256"] = hex.EncodeToString(h[:])
	}
	for k, v := range extra {
		m[k] = v
	}
	return m
}

func (x *c12Exec) violation(key, what string, replay map[string]interface{}) {
	x.seen[key]++
	if x.seen[key] == 1 {
		x.viols = append(x.viols, c12Viol{key, what, replay})
	}
}

// Guard runs one entry point call under the oracle. f must be re-runnable (it is run again to confirm an
// allocation finding). Returns true iff f returned nil.
func (x *c12Exec) Guard(entry int, f func() error) bool {
	x.calls++
	if x.prog != nil {
		binary.LittleEndian.PutUint64(x.prog[8:], uint64(entry))
	}
	before := c12AllocNow()
	err, pn := c12Call(f)
	growth := c12AllocNow() - before
	name := c12Entries[entry]
	outcome := "ok"
	switch {
	case pn != nil:
		outcome = "panic"
		x.sig = append(x.sig, byte(entry), 2)
	case err != nil:
		outcome = "error"
		h := fnv.New32a()
		h.Write(c12Digits.ReplaceAll([]byte(err.Error()), []byte("N")))
		x.sig = append(x.sig, byte(entry), 1)
		x.sig = h.Sum(x.sig)
	default:
		x.sig = append(x.sig, byte(entry), 0)
	}
	if x.quiet {
		return outcome == "ok"
	}
	if c12Debug && x.dev.Kind == "identity" && outcome != "ok" {
		fmt.Fprintf(os.Stderr, "c12 debug: [%s] %s on the unchanged seed: %v %v\n", x.fam.Name, name, err, pn)
	}
	x.outcomes[x.fam.Format+" "+name+": "+outcome]++
	if pn != nil {
		key := fmt.Sprintf("C12|panic|%s|%s|%s", name, pn.Site, c12PanicClass(pn.Msg))
		what := fmt.Sprintf("%s panics on [%s] %s: %q at %s (%s)", name, x.fam.Name, x.fam.describe(x.dev), pn.Msg, pn.Site, pn.Where)
		x.violation(key, what, x.replay(entry, map[string]interface{}{"panic": pn.Msg, "site": pn.Site, "where": pn.Where, "stack": pn.Stack}))
	}
	limit := uint64(c12AllocBase + c12AllocPerByte*len(x.in))
	if growth > limit {
		x.allocFinding(entry, f, growth, limit)
	}
	return outcome == "ok"
}

// allocFinding reports TotalAlloc growth above the limit. To name the allocating repository function the call is
// run a second time between two heap-profile snapshots (the worker runs with MemProfileRate = 1 MiB, so every
// allocation of tens of MiB is sampled with certainty; each snapshot is preceded by three collections, so the first
// run's block is free again before the second run allocates). The record that grew most is the allocation site.
func (x *c12Exec) allocFinding(entry int, f func() error, growth, limit uint64) {
	name := c12Entries[entry]
	before := c12ProfSnap()
	a0 := c12AllocNow()
	c12Call(f)
	again := c12AllocNow() - a0
	after := c12ProfSnap()
	if again <= limit {
		x.incon = append(x.incon, fmt.Sprintf("%s on [%s] %s: allocation of %d bytes (limit %d) seen once but only %d bytes on the confirming run", name, x.fam.Name, x.fam.describe(x.dev), growth, limit, again))
		return
	}
	site, where := c12ProfSite(before, after)
	key := fmt.Sprintf("C12|alloc|%s|%s", name, site)
	what := fmt.Sprintf("%s allocates %d bytes (limit 64 MiB + 1000 x %d input bytes = %d) on [%s] %s; largest allocation in %s (%s)", name, growth, len(x.in), limit, x.fam.Name, x.fam.describe(x.dev), site, where)
	x.violation(key, what, x.replay(entry, map[string]interface{}{"total_alloc_growth": growth, "limit": limit, "site": site, "where": where}))
	x.outcomes[x.fam.Format+" "+name+": alloc"]++
	if growth > 256<<20 {
		debug.FreeOSMemory()
	}
}

type c12ProfRec struct{ bytes, objects int64 }

func c12ProfSnap() map[[32]uintptr]c12ProfRec {
	for i := 0; i < 3; i++ {
		runtime.GC()
	}
	out := map[[32]uintptr]c12ProfRec{}
	n, _ := runtime.MemProfile(nil, true)
	recs := make([]runtime.MemProfileRecord, n+200)
	n, ok := runtime.MemProfile(recs, true)
	if !ok {
		return out
	}
	for _, r := range recs[:n] {
		c := out[r.Stack0]
		c.bytes += r.AllocBytes
		c.objects += r.AllocObjects
		out[r.Stack0] = c
	}
	return out
}

func c12ProfSite(before, after map[[32]uintptr]c12ProfRec) (site, where string) {
	keys := make([][32]uintptr, 0, len(after))
	for k := range after {
		keys = append(keys, k)
	}
	sort.Slice(keys, func(i, j int) bool {
		for t := 0; t < 32; t++ {
			if keys[i][t] != keys[j][t] {
				return keys[i][t] < keys[j][t]
			}
		}
		return false
	})
	var best [32]uintptr
	var bestDelta int64
	for _, k := range keys {
		if d := after[k].bytes - before[k].bytes; d > bestDelta {
			best, bestDelta = k, d
		}
	}
	if bestDelta < 1<<20 {
		return "?", ""
	}
	n := 0
	for n < 32 && best[n] != 0 {
		n++
	}
	site, where, _ = c12SiteOf(best[:n])
	return
}

// SeedOK records a harness problem when the unchanged seed is not accepted by its own parser.
func (x *c12Exec) SeedOK(cond bool, what string) {
	if x.dev.Kind == "identity" && !cond {
		x.problems = append(x.problems, fmt.Sprintf("[%s] seed not accepted: %s", x.fam.Name, what))
	}
}

func (x *c12Exec) runCase(f *c12Fam, d c12Dev) string {
	in, restore := f.apply(d)
	x.fam, x.dev, x.in = f, d, in
	x.sig = x.sig[:0]
	x.nCase++
	f.Run(x, in)
	restore()
	return string(x.sig)
}

// ---------------------------------------------------------------------------------------------
// batches, jobs, worker protocol
// ---------------------------------------------------------------------------------------------

type c12Batch struct{ Fam, Lo, Hi int }

func c12BatchSize() int {
	return 1000
}

func c12Batches(fams []*c12Fam) []c12Batch {
	var out []c12Batch
	bs := c12BatchSize()
	for fi, f := range fams {
		t := f.total()
		for lo := 0; lo < t; lo += bs {
			hi := lo + bs
			if hi > t {
				hi = t
			}
			out = append(out, c12Batch{fi, lo, hi})
		}
	}
	return out
}

type c12Job struct {
	Mode       string             `json:"mode"` // range | single
	Shard      string             `json:"shard"`
	Tier       string             `json:"tier"`
	StartBatch int                `json:"start_batch"`
	StartCase  int                `json:"start_case"` // case number inside the family of StartBatch (-1 = batch start)
	Family     string             `json:"family"`
	Dev        c12Dev             `json:"dev"`
	Out        string             `json:"out"`
	Prog       string             `json:"prog"`
	Scratch    string             `json:"scratch"`
	SeedHash   string             `json:"seed_hash"`
	DeadlineNs int64              `json:"deadline_ns"`
	NoLimit    bool               `json:"no_limit"`
	SeedCache  string             `json:"seed_cache"`
	Skip       map[string][]int64 `json:"skip,omitempty"` // per family: deviations that alone kill a worker
}

type c12Line struct {
	T             string           `json:"t"` // viol | batch | done | deadline | error | incon | problem
	Viol          *c12Viol         `json:"viol,omitempty"`
	Batch         int              `json:"batch,omitempty"`
	Evals         int64            `json:"evals,omitempty"`
	NonTriv       int64            `json:"nontriv,omitempty"`
	Calls         int64            `json:"calls,omitempty"`
	Outcomes      map[string]int64 `json:"outcomes,omitempty"`
	Counts        map[string]int64 `json:"counts,omitempty"`
	Msg           string           `json:"msg,omitempty"`
	Skipped       int64            `json:"skipped,omitempty"`
	SkippedStatic int64            `json:"skipped_static,omitempty"`
	Ns            int64            `json:"ns,omitempty"`
	Fam           string           `json:"fam,omitempty"`
}

func c12SeedHash(fams []*c12Fam) string {
	h := sha256.New()
	for _, f := range fams {
		fmt.Fprintf(h, "%s|%d|%d|", f.Name, len(f.Seed), f.total())
		h.Write(f.Seed)
	}
	return hex.EncodeToString(h.Sum(nil))[:24]
}

const c12ProgSize = 64

// progress page: [0:8] family<<40|case about to run (^0 = setting up), [8:16] entry point id, [16:24] evaluations of
// the running batch so far, [24:32] non-trivial ones, [32:40] batch number
func c12MapProg(path string, create bool) ([]byte, error) {
	flags := os.O_RDWR
	if create {
		flags |= os.O_CREATE | os.O_TRUNC
	}
	f, err := os.OpenFile(path, flags, 0o644)
	if err != nil {
		return nil, err
	}
	defer f.Close()
	if create {
		init := make([]byte, c12ProgSize)
		binary.LittleEndian.PutUint64(init, ^uint64(0))
		if _, err := f.Write(init); err != nil {
			return nil, err
		}
	}
	return syscall.Mmap(int(f.Fd()), 0, c12ProgSize, syscall.PROT_READ|syscall.PROT_WRITE, syscall.MAP_SHARED)
}

// c12ChildMain is the worker process.
func c12ChildMain(t *testing.T, jobPath string) {
	b, err := os.ReadFile(jobPath)
	if err != nil {
		t.Fatalf("c12 worker: %v", err)
	}
	var job c12Job
	if err := json.Unmarshal(b, &job); err != nil {
		t.Fatalf("c12 worker: %v", err)
	}
	out, err := os.OpenFile(job.Out, os.O_WRONLY|os.O_CREATE|os.O_APPEND, 0o644)
	if err != nil {
		t.Fatalf("c12 worker: %v", err)
	}
	defer out.Close()
	emit := func(l c12Line) {
		lb, _ := json.Marshal(l)
		out.Write(append(lb, '\n'))
	}
	os.Setenv("VERIF_TIER", job.Tier)
	os.Setenv("VERIF_SHARD", job.Shard)
	runtime.MemProfileRate = 1 << 20 // every allocation of tens of MiB is sampled with certainty
	debug.SetMemoryLimit(256 << 20)  // keep garbage from piling up towards RLIMIT_AS
	prog, err := c12MapProg(job.Prog, false)
	if err != nil {
		emit(c12Line{T: "error", Msg: "map progress page: " + err.Error()})
		return
	}
	if err := os.MkdirAll(job.Scratch, 0o755); err != nil {
		emit(c12Line{T: "error", Msg: err.Error()})
		return
	}
	c12SeedCacheDir = job.SeedCache
	fams := c12Families(filepath.Join(job.Scratch, "build"), job.Tier == "thorough")
	if got := c12SeedHash(fams); got != job.SeedHash {
		emit(c12Line{T: "error", Msg: fmt.Sprintf("seeds differ between parent and worker (%s vs %s): seed construction is not deterministic", job.SeedHash, got)})
		return
	}
	x := c12NewExec(job.Scratch)
	// signatures of the unchanged seeds (for the non-triviality rule), before the memory limit
	x.quiet = true
	for _, f := range fams {
		f.seedSig = x.runCase(f, c12NoDev("identity"))
	}
	x.quiet = false
	if c12Debug {
		fmt.Fprintf(os.Stderr, "c12 debug: worker setup took %s\n", time.Since(c12Start))
		if mp, err := os.ReadFile("/proc/self/maps"); err == nil {
			for _, l := range strings.Split(string(mp), "\n") {
				var lo, hi uint64
				if n, _ := fmt.Sscanf(l, "%x-%x", &lo, &hi); n == 2 && hi-lo >= 32<<20 {
					fmt.Fprintf(os.Stderr, "c12 debug: map %d MiB: %s\n", (hi-lo)>>20, l)
				}
			}
		}
		st, _ := os.ReadFile("/proc/self/status")
		for _, l := range strings.Split(string(st), "\n") {
			if strings.HasPrefix(l, "VmSize") || strings.HasPrefix(l, "VmRSS") {
				fmt.Fprintln(os.Stderr, "c12 debug: worker after setup:", l)
			}
		}
	}
	// RLIMIT_AS: a worker (MALLOC_ARENA_MAX=1, GOMAXPROCS=2) has ~1.4 GiB of address space mapped after setup. With
	// 3.2 GiB every single request of 2 GiB or more fails at once (fatal error: out of memory) instead of being
	// zero-filled page by page, and requests up to ~1.2 GiB succeed. Both outcomes are reported under the SAME key
	// C12|alloc|<entry>|<allocating function> (for a dead worker the function is read from the crash trace), so the
	// key set does not depend on where exactly the limit lies or on collector timing.
	if !job.NoLimit {
		lim := syscall.Rlimit{Cur: c12MemLimit, Max: c12MemLimit}
		if err := syscall.Setrlimit(syscall.RLIMIT_AS, &lim); err != nil {
			emit(c12Line{T: "error", Msg: "setrlimit: " + err.Error()})
			return
		}
	}
	x.prog = prog
	flushViols := func() {
		for i := range x.viols {
			emit(c12Line{T: "viol", Viol: &x.viols[i]})
		}
		x.viols = x.viols[:0]
		for _, p := range x.problems {
			emit(c12Line{T: "problem", Msg: p})
		}
		x.problems = nil
		for _, p := range x.incon {
			emit(c12Line{T: "incon", Msg: p})
		}
		x.incon = nil
	}
	runOne := func(fi int, f *c12Fam, ci int, d c12Dev, evals, nontriv *int64) {
		binary.LittleEndian.PutUint64(prog[16:], uint64(*evals))
		binary.LittleEndian.PutUint64(prog[24:], uint64(*nontriv))
		binary.LittleEndian.PutUint64(prog[8:], ^uint64(0)) // no entry point running yet
		binary.LittleEndian.PutUint64(prog[0:], uint64(fi)<<40|uint64(ci))
		sig := x.runCase(f, d)
		*evals++
		if sig != f.seedSig {
			*nontriv++
		}
		if len(x.viols) > 0 || len(x.problems) > 0 || len(x.incon) > 0 {
			flushViols()
		}
	}
	if job.Mode == "single" {
		for fi, f := range fams {
			if f.Name == job.Family {
				var e, n int64
				runOne(fi, f, 0, job.Dev, &e, &n)
				emit(c12Line{T: "batch", Batch: -1, Evals: e, NonTriv: n, Calls: x.calls, Outcomes: x.outcomes, Counts: x.seen})
				emit(c12Line{T: "done"})
				return
			}
		}
		emit(c12Line{T: "error", Msg: "unknown family " + job.Family})
		return
	}
	batches := c12Batches(fams)
	skipSets := map[string]map[int64]bool{}
	for name, ms := range job.Skip {
		skipSets[name] = map[int64]bool{}
		for _, m := range ms {
			skipSets[name][m] = true
		}
	}
	for bi := job.StartBatch; bi < len(batches); bi++ {
		if !vkit.Mine(int64(bi)) {
			continue
		}
		bt := batches[bi]
		f := fams[bt.Fam]
		lo := bt.Lo
		if bi == job.StartBatch && job.StartCase >= 0 {
			lo = job.StartCase
		}
		binary.LittleEndian.PutUint64(prog[32:], uint64(bi))
		var evals, nontriv, skipped, skippedStatic int64
		t0 := time.Now()
		x.calls = 0
		x.outcomes = map[string]int64{}
		x.seen = map[string]int64{}
		skip := skipSets[f.Name]
		for ci := lo; ci < bt.Hi; ci++ {
			d, ok := f.caseAt(ci)
			if !ok {
				continue
			}
			if f.staticSkip(d) {
				skippedStatic++
				continue
			}
			if len(skip) > 0 && (d.Kind == "byte2" || d.Kind == "field2") {
				ms := f.members(d)
				if skip[ms[0]] || skip[ms[1]] {
					skipped++
					continue
				}
			}
			runOne(bt.Fam, f, ci, d, &evals, &nontriv)
			if job.DeadlineNs > 0 && evals%16 == 0 && time.Now().UnixNano() > job.DeadlineNs {
				emit(c12Line{T: "batch", Batch: bi, Evals: evals, NonTriv: nontriv, Calls: x.calls, Outcomes: x.outcomes, Counts: x.seen, Skipped: skipped, SkippedStatic: skippedStatic, Ns: int64(time.Since(t0)), Fam: f.Name})
				binary.LittleEndian.PutUint64(prog[0:], ^uint64(0))
				emit(c12Line{T: "deadline", Batch: bi})
				return
			}
		}
		if !bytes.Equal(f.work, f.Seed) {
			emit(c12Line{T: "incon", Msg: fmt.Sprintf("[%s] the code under test modified its input buffer during batch %d; buffer restored", f.Name, bi)})
			copy(f.work, f.Seed)
		}
		emit(c12Line{T: "batch", Batch: bi, Evals: evals, NonTriv: nontriv, Calls: x.calls, Outcomes: x.outcomes, Counts: x.seen, Skipped: skipped, SkippedStatic: skippedStatic, Ns: int64(time.Since(t0)), Fam: f.Name})
		if job.DeadlineNs > 0 && time.Now().UnixNano() > job.DeadlineNs {
			binary.LittleEndian.PutUint64(prog[0:], ^uint64(0))
			emit(c12Line{T: "deadline", Batch: bi})
			return
		}
	}
	binary.LittleEndian.PutUint64(prog[0:], ^uint64(0))
	emit(c12Line{T: "done"})
}

// ---------------------------------------------------------------------------------------------
// parent side
// ---------------------------------------------------------------------------------------------

type c12Parent struct {
	R             *vkit.Report
	dir           string
	fams          []*c12Fam
	batches       []c12Batch
	seedHash      string
	counts        map[string]int64
	confirmed     map[string]bool
	calls         int64
	deaths        int
	seq           int
	skipped       int64
	skippedStatic int64
	famNs         map[string]int64
	famEv         map[string]int64
	deathNs       int64
	skip          map[string][]int64        // per family: deviations that alone kill a worker (3/3)
	probed        map[string]map[int64]bool // per family: member -> kills alone?
}

type c12ChildResult struct {
	lines    []c12Line
	finished bool // done or deadline line seen
	deadline bool
	hung     bool
	setupErr string
	progCase uint64
	progEnt  uint64
	progEv   uint64
	progNT   uint64
	progBat  uint64
	stderr   string
	waitErr  string
}

func (p *c12Parent) spawn(job c12Job, hangLimit time.Duration) c12ChildResult {
	p.seq++
	tag := fmt.Sprintf("w%d", p.seq)
	job.Out = filepath.Join(p.dir, tag+".out")
	job.Prog = filepath.Join(p.dir, tag+".prog")
	job.Scratch = filepath.Join(p.dir, tag+".scratch")
	job.SeedHash = p.seedHash
	job.SeedCache = c12SeedCacheDir
	job.Tier = vkit.Tier()
	job.Shard = os.Getenv("VERIF_SHARD")
	var res c12ChildResult
	prog, err := c12MapProg(job.Prog, true)
	if err != nil {
		res.setupErr = err.Error()
		return res
	}
	defer syscall.Munmap(prog)
	jb, _ := json.Marshal(job)
	jobPath := filepath.Join(p.dir, tag+".job")
	os.WriteFile(jobPath, jb, 0o644)
	errPath := filepath.Join(p.dir, tag+".err")
	ef, _ := os.Create(errPath)
	cmd := exec.Command(os.Args[0], "-test.run", "^TestVerif_C12$", "-test.timeout", "0")
	env := []string{}
	for _, e := range os.Environ() {
		if strings.HasPrefix(e, "VERIF_OUT=") || strings.HasPrefix(e, "VERIF_REPLAY=") || strings.HasPrefix(e, "C12_JOB=") {
			continue
		}
		env = append(env, e)
	}
	cmd.Env = append(env, "C12_JOB="+jobPath, "MALLOC_ARENA_MAX=1", "GOMAXPROCS=2")
	cmd.Stdout, cmd.Stderr = ef, ef
	cmd.SysProcAttr = &syscall.SysProcAttr{Pdeathsig: syscall.SIGKILL}
	runtime.LockOSThread() // Pdeathsig is tied to the spawning thread
	err = cmd.Start()
	if err != nil {
		runtime.UnlockOSThread()
		ef.Close()
		res.setupErr = err.Error()
		return res
	}
	done := make(chan error, 1)
	go func() { done <- cmd.Wait() }()
	last := ^uint64(0)
	lastEnt := uint64(0)
	lastChange := time.Now()
	tick := time.NewTicker(25 * time.Millisecond)
	defer tick.Stop()
	var werr error
loop:
	for {
		select {
		case werr = <-done:
			break loop
		case <-tick.C:
			cur := binary.LittleEndian.Uint64(prog[0:])
			ent := binary.LittleEndian.Uint64(prog[8:])
			if cur != last || ent != lastEnt {
				last, lastEnt, lastChange = cur, ent, time.Now()
				continue
			}
			lim := hangLimit
			if cur == ^uint64(0) {
				lim = c12SetupLimit
			}
			if time.Since(lastChange) > lim {
				res.hung = true
				cmd.Process.Kill()
				werr = <-done
				break loop
			}
		}
	}
	runtime.UnlockOSThread()
	ef.Close()
	if werr != nil {
		res.waitErr = werr.Error()
	}
	res.progCase = binary.LittleEndian.Uint64(prog[0:])
	res.progEnt = binary.LittleEndian.Uint64(prog[8:])
	res.progEv = binary.LittleEndian.Uint64(prog[16:])
	res.progNT = binary.LittleEndian.Uint64(prog[24:])
	res.progBat = binary.LittleEndian.Uint64(prog[32:])
	if eb, err := os.ReadFile(errPath); err == nil {
		if len(eb) > 1<<20 {
			eb = eb[:1<<20]
		}
		res.stderr = string(eb)
		if c12Debug {
			for _, l := range strings.Split(res.stderr, "\n") {
				if strings.HasPrefix(l, "c12 debug") {
					fmt.Fprintln(os.Stderr, l)
				}
			}
		}
	}
	if of, err := os.Open(job.Out); err == nil {
		sc := bufio.NewScanner(of)
		sc.Buffer(make([]byte, 1<<20), 64<<20)
		for sc.Scan() {
			var l c12Line
			if json.Unmarshal(sc.Bytes(), &l) == nil {
				res.lines = append(res.lines, l)
				switch l.T {
				case "done":
					res.finished = true
				case "deadline":
					res.finished, res.deadline = true, true
				case "error":
					res.setupErr = l.Msg
				}
			}
		}
		of.Close()
	}
	os.RemoveAll(job.Scratch)
	for _, f := range []string{job.Out, job.Prog, jobPath, errPath} {
		os.Remove(f)
	}
	return res
}

func (p *c12Parent) merge(res c12ChildResult) {
	R := p.R
	for _, l := range res.lines {
		switch l.T {
		case "viol":
			R.Violation(l.Viol.Key, l.Viol.What, l.Viol.Replay)
		case "batch":
			R.Evaluations += l.Evals
			R.NonTrivial += l.NonTriv
			p.calls += l.Calls
			for k, v := range l.Outcomes {
				R.Outcomes[k] += v
			}
			for k, v := range l.Counts {
				p.counts[k] += v
			}
			p.skipped += l.Skipped
			p.skippedStatic += l.SkippedStatic
			p.famNs[l.Fam] += l.Ns
			p.famEv[l.Fam] += l.Evals
		case "incon":
			R.InconclusiveF("%s", l.Msg)
		case "problem":
			R.Internal("%s", l.Msg)
		}
	}
}

var c12OomRe = regexp.MustCompile(`runtime: out of memory: cannot allocate [0-9]+-byte block`)

var c12FatalRe = regexp.MustCompile(`(?m)^(fatal error: .*|panic: .*|runtime: out of memory.*|SIG[A-Z]+: .*)$`)

func c12FatalLine(res c12ChildResult) string {
	if m := c12FatalRe.FindAllString(res.stderr, -1); len(m) > 0 {
		line := m[0]
		for _, l := range m {
			if strings.HasPrefix(l, "fatal error:") {
				line = l
				break
			}
		}
		if strings.Contains(line, "out of memory") || strings.Contains(line, "cannot allocate memory") {
			return "fatal error: out of memory"
		}
		line = c12Digits.ReplaceAllString(line, "N")
		if len(line) > 90 {
			line = line[:90]
		}
		return line
	}
	return "worker exit without a fatal line (" + c12Digits.ReplaceAllString(res.waitErr, "N") + ")"
}

func (p *c12Parent) entryName(id uint64) string {
	if id < uint64(len(c12Entries)) {
		return c12Entries[id]
	}
	return "(outside an entry point)"
}

// c12CrashSite: innermost repository function on the stack of the crashing goroutine in a Go crash report.
func c12CrashSite(stderr string) string {
	i := strings.Index(stderr, "\ngoroutine ")
	if i < 0 {
		return "?"
	}
	block := stderr[i+1:]
	if j := strings.Index(block, "\n\n"); j >= 0 {
		block = block[:j]
	}
	for _, l := range strings.Split(block, "\n") {
		if !strings.HasPrefix(l, c12Mod) {
			continue
		}
		if k := strings.LastIndex(l, "("); k > 0 {
			l = l[:k]
		}
		if c12IsHarnessFrame(l) {
			continue
		}
		return c12TrimMod(l)
	}
	return "?"
}

// deathKey classifies a worker that did not finish: stall, out of memory (same key as an allocation finding), other fatal error.
func (p *c12Parent) deathKey(r c12ChildResult) string {
	entry := p.entryName(r.progEnt)
	switch {
	case r.setupErr != "":
		return "setup error: " + r.setupErr
	case r.hung:
		return "C12|hang|" + entry
	case r.finished:
		return "completed normally"
	}
	line := c12FatalLine(r)
	if line == "fatal error: out of memory" {
		return "C12|alloc|" + entry + "|" + c12CrashSite(r.stderr)
	}
	return "C12|fatal|" + entry + "|" + line
}

// died handles a worker that died or stalled while running a case: the case is re-run alone 3x and reported only
// if it ends the same way every time. Afterwards the members of a pair are probed alone (see probe).
func (p *c12Parent) died(res c12ChildResult, f *c12Fam, d c12Dev) {
	R := p.R
	p.deaths++
	td := time.Now()
	defer func() { p.deathNs += int64(time.Since(td)) }()
	entry := p.entryName(res.progEnt)
	key := p.deathKey(res)
	if c12Debug {
		fmt.Fprintf(os.Stderr, "c12 debug: death %s on [%s] %s\n", key, f.Name, f.describe(d))
	}
	desc := fmt.Sprintf("[%s] %s", f.Name, f.describe(d))
	defer p.probe(f, d)
	p.loadShared()
	if p.confirmed[key] {
		p.counts[key]++
		return
	}
	in, restore := f.apply(d)
	replay := map[string]interface{}{"family": f.Name, "dev": d, "entry": entry, "deviation": f.describe(d), "input_len": len(in)}
	if len(in) <= 2048 {
		replay["input_hex"] = hex.EncodeToString(in)
	}
	restore()
	same := 0
	var seen []string
	for i := 0; i < 3; i++ {
		r := p.spawn(c12Job{Mode: "single", Family: f.Name, Dev: d}, c12HangLimit)
		p.mergeViolsOnly(r)
		k := p.deathKey(r)
		seen = append(seen, k)
		if k == key {
			same++
		}
	}
	if same != 3 {
		R.InconclusiveF("worker died/stalled (%s) on %s but re-running the case alone 3x gave %v: not reported as a violation", key, desc, seen)
		return
	}
	p.confirmed[key] = true
	p.counts[key]++
	p.shareConfirmed(key)
	if res.hung {
		R.Violation(key, fmt.Sprintf("%s does not return within %s on %s (worker killed; reproduced 3/3 alone)", entry, c12HangLimit, desc), replay)
		return
	}
	head := res.stderr
	if len(head) > 1500 {
		head = head[:1500]
	}
	replay["stderr_head"] = head
	detail := c12FatalLine(res)
	if m := c12OomRe.FindString(res.stderr); m != "" {
		detail = m
	}
	R.Violation(key, fmt.Sprintf("%s kills the process on %s: %s (worker under RLIMIT_AS %d MiB; reproduced 3/3 alone)", entry, desc, detail, c12MemLimit>>20), replay)
}

// Shards of one bin/check run share the keys they have confirmed 3/3 (a file under $VERIF_SHM): a shard that sees a
// worker die with a key another shard has already confirmed and reported only counts it. This saves re-running the
// same kind of fatal case three more times in each of the 16 shards; it cannot add or remove a key.
func (p *c12Parent) sharedPath() string {
	if os.Getenv("VERIF_SHM") == "" {
		return ""
	}
	return filepath.Join(os.Getenv("VERIF_SHM"), "c12-confirmed-"+p.seedHash)
}

func (p *c12Parent) loadShared() {
	if sp := p.sharedPath(); sp != "" {
		if b, err := os.ReadFile(sp); err == nil {
			for _, l := range strings.Split(string(b), "\n") {
				if l != "" {
					p.confirmed[l] = true
				}
			}
		}
	}
}

func (p *c12Parent) shareConfirmed(key string) {
	if sp := p.sharedPath(); sp != "" {
		if f, err := os.OpenFile(sp, os.O_WRONLY|os.O_CREATE|os.O_APPEND, 0o644); err == nil {
			f.WriteString(key + "\n")
			f.Close()
		}
	}
}

// probe: after a death on a deviation, find out which single deviation kills a worker on its own (one run each,
// cached). Pairs that contain such a deviation are not run afterwards (they are counted): without this every
// fatal single deviation would cost one worker per pair partner.
func (p *c12Parent) probe(f *c12Fam, d c12Dev) {
	if f.K < 2 {
		return // no pairs in this family
	}
	ms := f.members(d)
	if p.probed[f.Name] == nil {
		p.probed[f.Name] = map[int64]bool{}
	}
	for _, m := range ms {
		if _, done := p.probed[f.Name][m]; done {
			continue
		}
		r := p.spawn(c12Job{Mode: "single", Family: f.Name, Dev: f.memberDev(m)}, c12HangLimit)
		p.mergeViolsOnly(r)
		kills := r.setupErr == "" && !r.finished
		p.probed[f.Name][m] = kills
		if kills {
			p.skip[f.Name] = append(p.skip[f.Name], m)
		}
	}
}

func (p *c12Parent) mergeViolsOnly(res c12ChildResult) {
	for _, l := range res.lines {
		if l.T == "viol" {
			p.R.Violation(l.Viol.Key, l.Viol.What, l.Viol.Replay)
		}
	}
}

func (p *c12Parent) runRange() {
	R := p.R
	job := c12Job{Mode: "range", StartBatch: 0, StartCase: -1}
	if d := R.Deadline(); !d.IsZero() {
		job.DeadlineNs = d.UnixNano()
	}
	for {
		job.Skip = p.skip
		res := p.spawn(job, c12HangLimit)
		p.merge(res)
		if res.setupErr != "" {
			R.Internal("C12 worker could not start: %s\n%s", res.setupErr, c12Tail(res.stderr, 2000))
			return
		}
		if res.finished {
			if res.deadline {
				R.Expired()
				R.CapHit, R.Exhaustive = true, false
				R.Note("deadline reached in batch %d of %d", res.progBat, len(p.batches))
			}
			return
		}
		if res.progCase == ^uint64(0) {
			R.Internal("C12 worker died outside a case (%s):\n%s", res.waitErr, c12Tail(res.stderr, 3000))
			return
		}
		// the worker died or stalled inside a case
		fi, ci := int(res.progCase>>40), int(res.progCase&(1<<40-1))
		f := p.fams[fi]
		d, _ := f.caseAt(ci)
		R.Evaluations += int64(res.progEv) + 1
		R.NonTrivial += int64(res.progNT) + 1
		p.died(res, f, d)
		if p.deaths > 400 {
			R.Internal("more than 400 worker deaths in one shard; giving up")
			return
		}
		// resume after the case
		bi := int(res.progBat)
		job.StartBatch, job.StartCase = bi, ci+1
		if ci+1 >= p.batches[bi].Hi {
			job.StartBatch, job.StartCase = bi+1, -1
		}
		if R.Expired() {
			R.Note("deadline reached after a worker death in batch %d", bi)
			return
		}
	}
}

func c12Tail(s string, n int) string {
	if len(s) > n {
		return s[len(s)-n:]
	}
	return s
}

func c12ScratchRoot() string {
	root := os.Getenv("VERIF_SHM")
	if root == "" {
		root = os.TempDir()
	}
	return root
}

func TestVerif_C12(t *testing.T) {
	c12SilenceKlog()
	if jp := os.Getenv("C12_JOB"); jp != "" {
		c12ChildMain(t, jp)
		return
	}
	R := vkit.New("C12")
	defer R.Finish()
	R.Rule = "Seeds = one valid instance of every external format, produced by the repository's own writers / the reference encoder. Cases = the COMPLETE set of inputs within the deviation bound of a seed, enumerated in a fixed order: the unchanged seed, every truncation length, every offset x {0x00,0x01,0x7f,0x80,0xff,b^0x01,b^0x80}, every located length/count/size field x {0,1,2,max-1,max,consistent-1,consistent+1}, and for seeds <= 100 bytes (thorough 200) every PAIR of byte deviations and every pair of field deviations; large files: every offset of the header region and of the first/last 64 bytes of every structure plus a fixed stride (stated in bounds). Every case is run through all entry points of its format in a worker subprocess under RLIMIT_AS; oracle per call: returns (value or error) - a recovered panic, TotalAlloc growth above 64 MiB + 1000 x len(input), a fatal error or a stall of 20 s that reproduce 3/3 alone are violations. One evaluation = one deviated input through all entry points of its family; non-trivial = the sequence of (entry point, ok/error class/panic) differs from that of the unchanged seed, i.e. the deviation was noticed by the parser."
	dir, err := os.MkdirTemp(c12ScratchRoot(), "c12-")
	if err != nil {
		R.Internal("scratch: %v", err)
		return
	}
	defer os.RemoveAll(dir)
	c12SeedCacheDir = filepath.Join(dir, "seedcache")
	fams := c12Families(filepath.Join(dir, "build"), vkit.Thorough())
	p := &c12Parent{R: R, dir: dir, fams: fams, batches: c12Batches(fams), seedHash: c12SeedHash(fams), counts: map[string]int64{}, confirmed: map[string]bool{}, skip: map[string][]int64{}, probed: map[string]map[int64]bool{}, famNs: map[string]int64{}, famEv: map[string]int64{}}

	// the unchanged seeds must be accepted (harness sanity), checked in-process
	x := c12NewExec(filepath.Join(dir, "parent"))
	os.MkdirAll(x.scratch, 0o755)
	for _, f := range fams {
		x.runCase(f, c12NoDev("identity"))
	}
	for _, pr := range x.problems {
		R.Internal("%s", pr)
	}
	if len(x.problems) > 0 {
		return
	}

	if rp := vkit.ReplayRequest(); rp != nil {
		name, _ := rp["family"].(string)
		var d c12Dev
		db, _ := json.Marshal(rp["dev"])
		if err := json.Unmarshal(db, &d); err != nil || name == "" {
			R.Internal("bad replay file: %v", err)
			return
		}
		for _, f := range fams {
			if f.Name != name {
				continue
			}
			res := p.spawn(c12Job{Mode: "single", Family: name, Dev: d}, c12HangLimit)
			p.merge(res)
			if res.setupErr != "" {
				R.Internal("replay worker: %s", res.setupErr)
			} else if !res.finished {
				p.died(res, f, d)
			}
			t.Logf("replayed [%s] %s: violations=%d", name, f.describe(d), R.NumViolations())
			return
		}
		R.Internal("replay: unknown family %q", name)
		return
	}

	p.runRange()

	for k, n := range p.counts {
		if v, ok := R.Violations[k]; ok && n > int64(v.Count) {
			v.Count = int(n)
		}
	}
	if c12Debug {
		var names []string
		for n := range p.famNs {
			names = append(names, n)
		}
		sort.Slice(names, func(i, j int) bool { return p.famNs[names[i]] > p.famNs[names[j]] })
		for _, n := range names {
			fmt.Fprintf(os.Stderr, "c12 debug: time %8.2fs %8d evals  %s\n", float64(p.famNs[n])/1e9, p.famEv[n], n)
		}
		fmt.Fprintf(os.Stderr, "c12 debug: time %8.2fs in death handling (%d deaths)\n", float64(p.deathNs)/1e9, p.deaths)
	}
	R.Counters["entry_point_calls"] = p.calls
	R.Counters["worker_deaths_or_stalls"] = int64(p.deaths)
	R.Counters["pairs_not_run_because_one_member_alone_kills_the_worker"] = p.skipped
	R.Counters["pairs_not_run_because_one_member_rewrites_an_upper_byte_of_a_32or64bit_count_field"] = p.skippedStatic
	// bounds
	total := 0
	small, large := 0, 0
	var famDesc []string
	for _, f := range fams {
		total += f.total()
		if f.K >= 2 {
			small++
		}
		if f.Offsets != nil {
			large++
		}
		d := fmt.Sprintf("%s: %dB k=%d fields=%d cases=%d", f.Name, len(f.Seed), f.K, len(f.Fields), f.total())
		if f.Bounds != "" {
			d += " (" + f.Bounds + ")"
		}
		famDesc = append(famDesc, d)
	}
	R.Bounds["families"] = famDesc
	R.Bounds["case_slots_total_all_shards"] = total
	R.Bounds["k2_size_limit_bytes"] = c12K2Limit(vkit.Thorough())
	R.Bounds["families_with_k2"] = small
	R.Bounds["large_file_families"] = large
	R.Bounds["byte_alphabet"] = "0x00 0x01 0x7f 0x80 0xff b^0x01 b^0x80"
	R.Bounds["field_values"] = "0 1 2 max-1 max consistent-1 consistent+1 (+ compact-index header length: 12, the smallest value its check accepts)" + map[bool]string{true: " 3..64 255 256 65535 2^16 2^24 2^31-1 2^31 2^32-1 2^32 2^63-1 2^63", false: ""}[vkit.Thorough()]
	R.Bounds["alloc_limit"] = "64 MiB + 1000 x len(input)"
	R.Bounds["worker_rlimit_as_bytes"] = c12MemLimit
	R.Bounds["stall_limit_s"] = int(c12HangLimit / time.Second)
	R.Bounds["entry_points"] = c12Entries
	si, sn := vkit.Shard()
	for i, b := range p.batches {
		if i%sn == si && i%(sn*13) == si {
			f := fams[b.Fam]
			if d, ok := f.caseAt(b.Lo + (b.Hi-b.Lo)/2); ok {
				R.Sample(map[string]interface{}{"family": f.Name, "case": b.Lo + (b.Hi-b.Lo)/2, "deviation": f.describe(d)})
			}
		}
	}
	R.Assume("a ReaderAt over the deviated bytes stands for the file / HTTP range source; manifest and linked-log entry points read a real file holding the deviated bytes")
	R.Assume("RLIMIT_AS of 3.2 GiB stands for 'the machine's memory': a single request the worker cannot satisfy kills it (fatal error: out of memory); when that reproduces 3/3 it is reported under the same key as an allocation finding, C12|alloc|<entry>|<allocating function>")
	R.Assume("runtime/metrics /gc/heap/allocs:bytes is read around every call; it is the same counter as runtime.MemStats.TotalAlloc without the stop-the-world of ReadMemStats")
	R.Assume("pairs of deviations in which one member rewrites an upper byte of a 32/64-bit count field, or in which one member alone kills the worker, are not run (counted in counters); every such deviation is run alone")
}
