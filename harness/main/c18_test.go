//go:build verif

package main

import (
	"context"
	"errors"
	"fmt"
	"sort"
	"strings"
	"testing"

	"github.com/rpcpool/yellowstone-faithful/zzverif/explore"
	"github.com/rpcpool/yellowstone-faithful/zzverif/vkit"
	"github.com/rpcpool/yellowstone-faithful/zzverif/vsched"
)

// C18: parallel epoch search (FirstSuccess) returns a hit whenever one exists.
//
// Scenario = (n jobs, outcome vector in {success(i), ErrNotFound, other, context-wrapped}^n, concurrency limit);
// a successful job i returns the value i, so job 0's hit is the zero value of T.
// For every scenario ALL interleavings of the real FirstSuccess (first-success.go and errgroup,
// both instrumented from the current tree) are enumerated by the explorer; n<=3 without a
// preemption bound, larger n with a bound.

var errC18NotFound = errors.New("c18: not found")

type c18Scenario struct {
	N        int    `json:"n"`
	Outcomes []int  `json:"outcomes"` // 0 success, 1 not found, 2 other error, 3 error wrapping context.DeadlineExceeded
	Conc     int    `json:"concurrency"`
	Bound    int    `json:"bound"`
	Name     string `json:"name"`
}

func (sc c18Scenario) run(c *explore.Ctx) (explore.Result, *vsched.Sched) {
	var val int
	var err error
	returned := false
	jobErrs := make([]error, sc.N)
	fns := make([]JobFunc[int], sc.N)
	for i := 0; i < sc.N; i++ {
		i := i
		switch sc.Outcomes[i] {
		case 1:
			jobErrs[i] = errC18NotFound
		case 2:
			jobErrs[i] = fmt.Errorf("c18: job %d failed", i)
		case 3:
			// a job's own I/O timing out: an error that wraps a context error while the request context is live
			jobErrs[i] = fmt.Errorf("c18: job %d: remote index read: %w", i, context.DeadlineExceeded)
		}
		fns[i] = func(ctx context.Context) (int, error) {
			vsched.Yield("job")
			if jobErrs[i] != nil {
				return 0, jobErrs[i]
			}
			return i, nil // job 0's hit is the zero value of T (epoch 0 is a real epoch)
		}
	}
	s := vsched.Run(c, vsched.Options{Horizon: 5000, Drain: true, Canonical: sc.Bound < 0}, func() {
		val, err = FirstSuccess(context.Background(), sc.Conc, fns...)
		returned = true
	})
	res := explore.Result{NonTrivial: s.Switches > 0}
	bad := func(key, what string) {
		res.Violation = &explore.Violation{Key: "C18|" + key, What: what}
	}
	var got string
	switch {
	case s.Panic != "":
		if strings.Contains(s.Panic, "replay divergence") {
			panic(s.Panic)
		}
		got = "panic"
		bad("panic|"+c18PanicSite(s.Panic), "FirstSuccess panicked: "+firstLine(s.Panic))
	case s.Deadlock:
		got = "deadlock"
		bad("deadlock", "FirstSuccess never returns: all threads blocked ("+s.DeadlockInfo+")")
	case s.HorizonHit:
		got = "horizon"
	case !returned:
		got = "noreturn"
		bad("noreturn", "FirstSuccess did not return")
	default:
		anySuccess := false
		for _, o := range sc.Outcomes {
			if o == 0 {
				anySuccess = true
			}
		}
		if anySuccess {
			ok := err == nil && val >= 0 && val < sc.N && sc.Outcomes[val] == 0
			got = fmt.Sprintf("val=%d err=%v", val, err != nil)
			if !ok {
				bad("miss", fmt.Sprintf("a job succeeded but FirstSuccess returned val=%d err=%v", val, err))
			}
		} else {
			es, isSlice := err.(ErrorSlice)
			var gotE, wantE []string
			for _, e := range es {
				gotE = append(gotE, fmt.Sprint(e))
			}
			for _, e := range jobErrs {
				wantE = append(wantE, fmt.Sprint(e))
			}
			sort.Strings(gotE)
			sort.Strings(wantE)
			got = fmt.Sprintf("errs=%d", len(es))
			if !isSlice || strings.Join(gotE, ";") != strings.Join(wantE, ";") || val != 0 {
				bad("errors", fmt.Sprintf("no job succeeded: want the %d job errors %v, got val=%d err=%v", sc.N, wantE, val, err))
			}
		}
		if res.Violation == nil && len(s.Leaked) > 0 {
			// not part of the statement (FirstSuccess itself returned): recorded as an observation only
			got += " leaked-goroutines"
		}
	}
	res.Outcome = got
	return res, s
}

func firstLine(s string) string {
	if i := strings.IndexByte(s, '\n'); i >= 0 {
		return s[:i]
	}
	return s
}

func c18PanicSite(p string) string {
	for _, ln := range strings.Split(p, "\n") {
		if strings.HasPrefix(ln, "github.com/rpcpool/yellowstone-faithful") && !strings.Contains(ln, "zzverif") && !strings.Contains(ln, "zz_verif") {
			if i := strings.IndexByte(ln, '('); i > 0 {
				ln = ln[:i]
			}
			return strings.TrimPrefix(ln, "github.com/rpcpool/yellowstone-faithful")
		}
	}
	return "?"
}

func c18Scenarios() []c18Scenario {
	maxN, boundedN := 3, 3
	if vkit.Thorough() {
		boundedN = 5
	}
	var out []c18Scenario
	for n := 1; n <= boundedN; n++ {
		dims := make([]int, n)
		for i := range dims {
			dims[i] = 4
		}
		explore.Product(dims, func(ix []int) bool {
			concs := []int{-1, 0}
			for k := 1; k <= n; k++ {
				concs = append(concs, k)
			}
			for _, conc := range concs {
				bound := -1
				if n > maxN {
					bound = 2
					if n == 4 && vkit.Thorough() {
						bound = 3
					}
				}
				sc := c18Scenario{N: n, Outcomes: append([]int{}, ix...), Conc: conc, Bound: bound}
				sc.Name = fmt.Sprintf("n=%d outcomes=%v conc=%d bound=%d", n, ix, conc, bound)
				out = append(out, sc)
			}
			return true
		})
	}
	return out
}

func TestVerif_C18(t *testing.T) {
	silenceKlog()
	R := vkit.New("C18")
	defer R.Finish()
	R.Rule = "scenario = (n jobs, outcome vector in {success, not-found, error, error wrapping context.DeadlineExceeded}^n, concurrency limit); every interleaving of the instrumented FirstSuccess+errgroup is executed (unbounded for small n, preemption-bounded above); non-trivial = execution with at least one context switch between managed threads; states = distinct (scenario, outcome) pairs, transitions = scheduling points executed"
	if rp := vkit.ReplayRequest(); rp != nil {
		var sc c18Scenario
		remarshal(rp["scenario"], &sc)
		res, _, err := explore.Replay(vkit.Ints(rp["choices"]), func(c *explore.Ctx) explore.Result { r, _ := sc.run(c); return r })
		t.Logf("replay scenario=%s outcome=%s violation=%v err=%v", sc.Name, res.Outcome, res.Violation, err)
		if res.Violation != nil {
			R.Violation(res.Violation.Key, res.Violation.What, rp)
		}
		R.Case(true, "")
		return
	}
	// determinism self-test: one schedule replayed twice must give identical observations
	{
		sc := c18Scenario{N: 2, Outcomes: []int{1, 0}, Conc: 1, Bound: -1, Name: "selftest"}
		r1, s1 := sc.run(explore.NewCtx([]int{1, 0, 1}))
		r2, s2 := sc.run(explore.NewCtx([]int{1, 0, 1}))
		if r1.Outcome != r2.Outcome || s1.Steps() != s2.Steps() {
			R.Internal("nondeterministic replay: %q/%d vs %q/%d", r1.Outcome, s1.Steps(), r2.Outcome, s2.Steps())
			return
		}
	}
	scs := c18Scenarios()
	R.Bounds["scenarios_total"] = len(scs)
	R.Bounds["unbounded_up_to_n"] = 3
	for idx, sc := range scs {
		if !vkit.Mine(int64(idx)) {
			continue
		}
		if R.Expired() {
			R.Note("deadline reached before scenario %d (%s)", idx, sc.Name)
			break
		}
		sc := sc
		st := explore.Search(explore.Config{Bound: sc.Bound, Deadline: R.Deadline(), Prune: true}, func(c *explore.Ctx) explore.Result {
			r, _ := sc.run(c)
			return r
		})
		R.Evaluations += st.Executions
		R.NonTrivial += st.NonTrivial
		R.Transitions += st.Points
		R.TracesValidated += st.Executions
		R.States += st.States
		R.Add("pruned_executions", st.Pruned)
		R.Add("scenarios", 1)
		if st.CapHit {
			R.CapHit, R.Exhaustive = true, false
			R.Note("scenario %s stopped by the deadline after %d executions", sc.Name, st.Executions)
		}
		for o, n := range st.Outcomes {
			_ = n
			R.Outcome(fmt.Sprintf("n=%d:%s", sc.N, o))
		}
		if idx%37 == 0 && len(st.Samples) > 0 {
			R.Sample(map[string]interface{}{"scenario": sc.Name, "executions": st.Executions, "a_schedule": st.Samples[len(st.Samples)-1]})
		}
		if len(st.Violations) > 0 {
			f := st.Violations[0]
			ok, why := explore.Confirm(f, 5, func(c *explore.Ctx) explore.Result { r, _ := sc.run(c); return r })
			if !ok {
				R.InconclusiveF("violation %s in %s did not reproduce 5x: %s", f.Violation.Key, sc.Name, why)
				continue
			}
			R.Violation(f.Violation.Key, f.Violation.What+" ["+sc.Name+"]", map[string]interface{}{"scenario": sc, "choices": f.Choices})
		}
	}
}
