//go:build verif

package main

import (
	"context"
	"fmt"
	"os"
	"path/filepath"
	"runtime"
	"testing"

	"github.com/rpcpool/yellowstone-faithful/zzverif/cargen"
	"github.com/rpcpool/yellowstone-faithful/zzverif/vkit"
)

// Supplementary race-detector pass on the UN-instrumented `index all` (createAllIndexes seals its five indexes in
// five goroutines) and `index gsfa`: the cooperative scheduler of the other checks cannot see unsynchronised
// accesses, the race detector on free-running goroutines can. A race report kills the worker; the driver reports
// it as C01|worker-crash|data race @ <function>. The run itself also checks every lookup, as the main variant does.
func TestVerif_C01_Race(t *testing.T) {
	silenceKlog()
	R := vkit.New("C01")
	defer R.Finish()
	base := vkBase("c01race")
	defer os.RemoveAll(base)
	R.Rule = "supplementary race-detector pass: the real `index all` and `index gsfa` run free under -race with GOMAXPROCS 2, 8 and 16 on three small epochs; every ground-truth object, slot and signature is then looked up through the server's Epoch object; non-trivial = every run"
	shapes := []cargen.Shape{cargen.SimpleShape(1, 5, 4, 3), cargen.SimpleShape(0, 0, 3, 2), cargen.SimpleShape(700, 431_990, 6, 1)}
	idx := int64(0)
	for _, procs := range []int{2, 8, 16} {
		for si, sh := range shapes {
			mine := vkit.Mine(idx)
			idx++
			if !mine {
				continue
			}
			old := runtime.GOMAXPROCS(procs)
			dir := filepath.Join(base, fmt.Sprintf("p%d-s%d", procs, si))
			e, err := vkBuildEpoch(dir, sh, true)
			runtime.GOMAXPROCS(old)
			R.Case(true, "")
			if err != nil {
				R.Violation("C01|race-pass|index-error", fmt.Sprintf("index all / index gsfa failed on a well-formed epoch (GOMAXPROCS %d, shape %d): %v", procs, si, err), map[string]interface{}{"variant": "race", "procs": procs, "shape": si})
				continue
			}
			e.writeConfig(vkConfigOpts{})
			ep, err := vkLoadEpoch(e.ConfigPath, vkNewCache())
			if err != nil {
				R.Violation("C01|race-pass|load-error", fmt.Sprintf("the indexes written under GOMAXPROCS %d do not load: %v", procs, err), map[string]interface{}{"variant": "race", "procs": procs, "shape": si})
				continue
			}
			bad := 0
			for _, o := range e.Truth.Objects {
				data, err := ep.GetNodeByCid(context.Background(), o.Cid)
				if err != nil || string(data) != string(o.Data) {
					bad++
				}
			}
			ep.Close()
			if bad > 0 {
				R.Violation("C01|race-pass|cid-lookup-wrong", fmt.Sprintf("%d of %d objects are not fetched with their own bytes (GOMAXPROCS %d, shape %d)", bad, len(e.Truth.Objects), procs, si), map[string]interface{}{"variant": "race", "procs": procs, "shape": si})
			}
			R.Outcome(fmt.Sprintf("procs=%d:ok=%v", procs, bad == 0))
			os.RemoveAll(dir)
		}
	}
	R.Sample("index all + index gsfa on 3 small epochs x GOMAXPROCS 2/8/16, -race")
}
