//go:build verif

package main

import (
	"encoding/json"
	"flag"
	"io"

	"k8s.io/klog/v2"
)

var klogSilenced bool

func silenceKlog() {
	if klogSilenced {
		return
	}
	klogSilenced = true
	fs := flag.NewFlagSet("klog", flag.ContinueOnError)
	klog.InitFlags(fs)
	fs.Set("logtostderr", "false")
	fs.Set("alsologtostderr", "false")
	fs.Set("stderrthreshold", "FATAL")
	klog.SetOutput(io.Discard)
}

func remarshal(in interface{}, out interface{}) {
	b, err := json.Marshal(in)
	if err != nil {
		panic(err)
	}
	if err := json.Unmarshal(b, out); err != nil {
		panic(err)
	}
}
