//go:build verif

package main

import (
	"context"
	"encoding/json"
	"fmt"
	"io"
	"net/http"
	"net/http/httptest"
	"os"
	"path/filepath"
	"runtime/debug"
	"strings"
	"sync"
	"testing"
	"time"

	old_faithful_grpc "github.com/rpcpool/yellowstone-faithful/old-faithful-proto/old-faithful-grpc"
	"github.com/rpcpool/yellowstone-faithful/zzverif/cargen"
	"github.com/rpcpool/yellowstone-faithful/zzverif/vkit"
	"github.com/valyala/fasthttp"
	"google.golang.org/protobuf/proto"
)

// C08: no request can crash the server. A bounded request grammar is enumerated completely
// (JSON-RPC bodies from per-field alphabets, option objects within k deviations of "all absent",
// HTTP method/path alphabets, every truncation and single-byte substitution of valid bodies, gRPC
// messages over per-field alphabets, made wire-reachable by a marshal/unmarshal round trip)
// against 0, 1 and 2 loaded epochs. Oracle: the handler returns; a panic is a violation keyed by
// entry point and innermost repository frame.

func c08PanicSite(stack string) string {
	lines := strings.Split(stack, "\n")
	for _, ln := range lines {
		if strings.HasPrefix(ln, "github.com/rpcpool/yellowstone-faithful") && !strings.Contains(ln, "zzverif") && !strings.Contains(ln, "TestVerif") && !strings.Contains(ln, ".vk") && !strings.Contains(ln, ".c08") {
			if i := strings.LastIndexByte(ln, '('); i > 0 {
				ln = ln[:i]
			}
			ln = strings.TrimPrefix(ln, "github.com/rpcpool/yellowstone-faithful")
			// closures: main.(*MultiEpoch).foo.func1 -> keep
			return ln
		}
	}
	return "?"
}

func c08PanicClass(v interface{}) string {
	s := fmt.Sprint(v)
	for _, c := range []string{"nil pointer dereference", "index out of range", "slice bounds out of range", "interface conversion", "nil map", "invalid memory address", "makeslice", "divide by zero"} {
		if strings.Contains(s, c) {
			return c
		}
	}
	if len(s) > 60 {
		s = s[:60]
	}
	return s
}

type c08World struct {
	name  string
	multi *MultiEpoch
	h     func(*fasthttp.RequestCtx)
}

// c08Call runs f and converts a panic into (value, stack).
func c08Call(f func()) (pan interface{}, stack string) {
	defer func() {
		if r := recover(); r != nil {
			pan, stack = r, string(debug.Stack())
		}
	}()
	f()
	return nil, ""
}

func TestVerif_C08(t *testing.T) {
	silenceKlog()
	R := vkit.New("C08")
	defer R.Finish()
	base := vkBase("c08")
	defer os.RemoveAll(base)
	R.Rule = "request = element of a bounded grammar: JSON-RPC {method alphabet} x {params shape} x {first-argument alphabet} x {options object within k single-key deviations of 'all absent', per-key alphabets of legal, illegal and ill-typed values} x {id alphabet}; HTTP method x path alphabets; every truncation and every single-byte substitution (6 bytes) of 10 valid bodies; gRPC: every combination of per-field alphabets for the five RPCs and request sequences of length <=2 on the Get stream (messages round-tripped through the wire encoding); each against 0, 1 and 2 loaded epochs (address index present in one). Oracle: the handler returns; non-trivial = request that is not a plain valid one"
	// ---- worlds ----
	shA := cargen.SimpleShape(1, 5, 5, 2)
	shA.Blocks[1].Entries[0][0].Meta = cargen.PayloadShape{Pad: 400, FrameSize: 128}
	shA.Blocks[2].Entries[0][1].Vote = true
	shA.Blocks[3].Entries[0][0].Failed = true
	// archive content that is legal to store but that the handlers must survive: status metadata no parser
	// understands, and rewards whose commission strings are numeric, empty and not a number
	shA.Blocks[4].Entries[0][1].MetaGarbage = true
	shA.Blocks[2].Rewards = &cargen.PayloadShape{Commission: []string{"7", "", "n/a", "1e400", "0x10"}}
	eA, err := vkBuildEpoch(filepath.Join(base, "A"), shA, true)
	if err != nil {
		R.Internal("build A: %v", err)
		return
	}
	eB, err := vkBuildEpoch(filepath.Join(base, "B"), cargen.SimpleShape(2, 0, 3, 1), false)
	if err != nil {
		R.Internal("build B: %v", err)
		return
	}
	eA.writeConfig(vkConfigOpts{})
	eB.writeConfig(vkConfigOpts{NoGsfa: true})
	cache := vkNewCache()
	epA, err := vkLoadEpoch(eA.ConfigPath, cache)
	if err != nil {
		R.Internal("load A: %v", err)
		return
	}
	epB, err := vkLoadEpoch(eB.ConfigPath, cache)
	if err != nil {
		R.Internal("load B: %v", err)
		return
	}
	worlds := []*c08World{
		{name: "0-epochs", multi: vkNewMulti(2)},
		{name: "1-epoch+gsfa", multi: vkNewMulti(2, epA)},
		{name: "2-epochs", multi: vkNewMulti(2, epA, epB)},
	}
	for _, w := range worlds {
		w.h = newMultiEpochHandler(w.multi, nil)
	}
	validSlot := eA.Truth.Blocks[1].Slot
	validSig := eA.Truth.Txs[1].Sig.String()
	validAddr := cargen.Account(0).String()

	caseIdx := int64(0)
	doHTTP := func(nontrivial bool, method, uri string, body []byte, clen int, what string) {
		for _, w := range worlds {
			mine := vkit.Mine(caseIdx)
			caseIdx++
			if !mine {
				continue
			}
			var pan interface{}
			var stack string
			func() {
				defer func() {
					if r := recover(); r != nil {
						pan, stack = r, string(debug.Stack())
					}
				}()
				vkHTTPRaw(w.h, method, uri, body, clen)
			}()
			R.Case(nontrivial, "")
			if pan != nil {
				site := c08PanicSite(stack)
				b := string(body)
				if len(b) > 300 {
					b = b[:300] + "..."
				}
				R.Violation(fmt.Sprintf("C08|panic|http|%s|%s", site, c08PanicClass(pan)),
					fmt.Sprintf("[%s] %s %s %s panicked: %v (body %q)", w.name, method, uri, what, pan, b),
					map[string]interface{}{"kind": "http", "world": w.name, "method": method, "uri": uri, "body": string(body), "content_length": clen})
				R.Outcome("panic:" + site)
			}
		}
	}
	rpc := func(nontrivial bool, body string) { doHTTP(nontrivial, "POST", "/", []byte(body), -1, "json-rpc") }

	// ---- JSON-RPC grammar ----
	methods := []string{"getBlock", "getTransaction", "getSignaturesForAddress", "getBlockTime", "getGenesisHash", "getFirstAvailableBlock", "getSlot", "getVersion", "noSuchMethod", ""}
	firsts := []string{fmt.Sprint(validSlot), fmt.Sprintf("%q", validSig), fmt.Sprintf("%q", validAddr), "0", "-1", "1.5", "1e30", `""`, `"garbage"`,
		`"` + strings.Repeat("1", 200) + `"`, "null", "true", "{}", "[]", "432005", "18446744073709551615", "99999999999999999999999"}
	type kv struct{ k, v string }
	optAlphabet := [][]kv{
		{{"encoding", `"base58"`}, {"encoding", `"base64"`}, {"encoding", `"base64+zstd"`}, {"encoding", `"json"`}, {"encoding", `"jsonParsed"`}, {"encoding", `5`}, {"encoding", `"bogus"`}, {"encoding", `null`}},
		{{"commitment", `"finalized"`}, {"commitment", `"processed"`}, {"commitment", `7`}, {"commitment", `null`}},
		{{"maxSupportedTransactionVersion", `0`}, {"maxSupportedTransactionVersion", `1`}, {"maxSupportedTransactionVersion", `"x"`}, {"maxSupportedTransactionVersion", `-1`}},
		{{"transactionDetails", `"full"`}, {"transactionDetails", `"signatures"`}, {"transactionDetails", `"none"`}, {"transactionDetails", `"accounts"`}, {"transactionDetails", `3`}},
		{{"rewards", `true`}, {"rewards", `false`}, {"rewards", `"yes"`}, {"rewards", `null`}},
		{{"limit", `0`}, {"limit", `1`}, {"limit", `1001`}, {"limit", `-5`}, {"limit", `"ten"`}, {"limit", `1e30`}},
		{{"before", fmt.Sprintf("%q", validSig)}, {"before", `"bad"`}, {"before", `5`}, {"before", `null`}},
		{{"until", fmt.Sprintf("%q", validSig)}, {"until", `"bad"`}, {"until", `5`}, {"until", `null`}},
	}
	k := 3
	if vkit.Thorough() {
		k = 4
	}
	R.Bounds["option_deviation_bound"] = k
	var optObjs []string
	var build func(from int, depth int, cur []kv)
	build = func(from, depth int, cur []kv) {
		var parts []string
		for _, p := range cur {
			parts = append(parts, fmt.Sprintf("%q:%s", p.k, p.v))
		}
		optObjs = append(optObjs, "{"+strings.Join(parts, ",")+"}")
		if depth == k {
			return
		}
		for g := from; g < len(optAlphabet); g++ {
			for _, p := range optAlphabet[g] {
				build(g+1, depth+1, append(append([]kv{}, cur...), p))
			}
		}
	}
	build(0, 0, nil)
	optOther := []string{"null", "[]", `"str"`, "5", "true"}
	R.Bounds["option_objects"] = len(optObjs)
	for _, m := range methods {
		mj := fmt.Sprintf("%q", m)
		// params shapes without a first argument
		for _, p := range []string{"", `,"params":null`, `,"params":[]`, `,"params":{}`, `,"params":5`, `,"params":"str"`, `,"params":[[]]`, `,"params":[null,null]`} {
			rpc(true, fmt.Sprintf(`{"jsonrpc":"2.0","id":1,"method":%s%s}`, mj, p))
		}
		for _, id := range []string{`"abc"`, "null", "1.5", "{}"} {
			rpc(true, fmt.Sprintf(`{"jsonrpc":"2.0","id":%s,"method":%s,"params":[%d]}`, id, mj, validSlot))
		}
		rpc(true, fmt.Sprintf(`{"jsonrpc":"2.0","method":%s,"params":[%d]}`, mj, validSlot))
		for fi, f := range firsts {
			rpc(fi > 2, fmt.Sprintf(`{"jsonrpc":"2.0","id":1,"method":%s,"params":[%s]}`, mj, f))
			for _, o := range optOther {
				rpc(true, fmt.Sprintf(`{"jsonrpc":"2.0","id":1,"method":%s,"params":[%s,%s]}`, mj, f, o))
			}
			// the option product only matters for the methods that read options
			if m == "getBlock" || m == "getTransaction" || m == "getSignaturesForAddress" {
				for oi, o := range optObjs {
					if fi > 5 && oi > 60 && !vkit.Thorough() {
						break // ill-typed first arguments are rejected before the options are read
					}
					rpc(true, fmt.Sprintf(`{"jsonrpc":"2.0","id":1,"method":%s,"params":[%s,%s]}`, mj, f, o))
				}
				rpc(true, fmt.Sprintf(`{"jsonrpc":"2.0","id":1,"method":%s,"params":[%s,{},"extra"]}`, mj, f))
			}
		}
	}
	rpc(true, `{"jsonrpc":"2.0","id":1}`)
	rpc(true, `[]`)
	rpc(true, `[{"jsonrpc":"2.0","id":1,"method":"getSlot"}]`)
	rpc(true, `null`)
	rpc(true, ``)
	rpc(true, `{"jsonrpc":"2.0","id":1,"method":"getBlock","params":[`+strings.Repeat("[", 500)+strings.Repeat("]", 500)+`]}`)
	// ---- HTTP methods and paths ----
	paths := []string{"/", "/health", "/metrics", "/api/v1/x", "/api/v1/", "/api/v1/slot-to-cid/", "/api/v1/sig-to-cid/", "//", "/%00"}
	for _, s := range []string{fmt.Sprint(validSlot), "0", "-1", "abc", "99999999999999999999999", "432000", "4320000000", "1/", "1/2"} {
		paths = append(paths, "/api/v1/slot-to-cid/"+s)
	}
	for _, s := range []string{validSig, "abc", "", strings.Repeat("1", 88), strings.Repeat("z", 300)} {
		paths = append(paths, "/api/v1/sig-to-cid/"+s)
	}
	valid := fmt.Sprintf(`{"jsonrpc":"2.0","id":1,"method":"getBlock","params":[%d]}`, validSlot)
	for _, hm := range []string{"GET", "POST", "PUT", "HEAD", "DELETE", "OPTIONS"} {
		for _, p := range paths {
			doHTTP(true, hm, p, []byte(valid), -1, "path")
			doHTTP(true, hm, p, nil, -1, "path-nobody")
		}
	}
	doHTTP(true, "POST", "/", []byte(valid), 5000, "content-length-above-limit")
	doHTTP(true, "POST", "/", []byte(valid+strings.Repeat(" ", 2000)), -1, "long-body")
	doHTTP(true, "POST", "/", []byte(valid), 3, "content-length-below-body")
	// ---- byte-level deviations of valid bodies ----
	validBodies := []string{
		valid,
		fmt.Sprintf(`{"jsonrpc":"2.0","id":1,"method":"getBlock","params":[%d,{"encoding":"base64","transactionDetails":"full","rewards":false,"maxSupportedTransactionVersion":0}]}`, validSlot),
		fmt.Sprintf(`{"jsonrpc":"2.0","id":2,"method":"getTransaction","params":[%q,{"encoding":"json"}]}`, validSig),
		fmt.Sprintf(`{"jsonrpc":"2.0","id":"x","method":"getTransaction","params":[%q]}`, validSig),
		fmt.Sprintf(`{"jsonrpc":"2.0","id":3,"method":"getSignaturesForAddress","params":[%q,{"limit":3,"before":%q}]}`, validAddr, validSig),
		fmt.Sprintf(`{"jsonrpc":"2.0","id":3,"method":"getSignaturesForAddress","params":[%q]}`, validAddr),
		fmt.Sprintf(`{"jsonrpc":"2.0","id":4,"method":"getBlockTime","params":[%d]}`, validSlot),
		`{"jsonrpc":"2.0","id":5,"method":"getSlot"}`,
		`{"jsonrpc":"2.0","id":6,"method":"getFirstAvailableBlock","params":[]}`,
		`{"jsonrpc":"2.0","id":7,"method":"getGenesisHash"}`,
	}
	for _, vb := range validBodies {
		rpc(false, vb)
		for cut := 0; cut < len(vb); cut++ {
			rpc(true, vb[:cut])
		}
		for i := 0; i < len(vb); i++ {
			for _, rb := range []byte{0x00, '"', '{', '[', 0xff, '9'} {
				if vb[i] == rb {
					continue
				}
				mb := []byte(vb)
				mb[i] = rb
				doHTTP(true, "POST", "/", mb, -1, "byte-substitution")
			}
		}
	}
	// ---- gRPC ----
	ctx := context.Background()
	u64s := []uint64{validSlot, 0, 432000, 431999, 5 * 432000, 1<<64 - 1}
	sigs := [][]byte{eA.Truth.Txs[1].Sig[:], nil, {1, 2, 3}, make([]byte, 64), make([]byte, 65), make([]byte, 200)}
	// watched = the call runs under the request watchdog: not returning within 120 s, twice in a row, is a
	// finding of its own (the handler produced neither a response nor an error status)
	grpcCaseW := func(what string, msg proto.Message, watched bool, f func(w *c08World)) {
		for _, w := range worlds {
			mine := vkit.Mine(caseIdx)
			caseIdx++
			if !mine {
				continue
			}
			w := w
			var pan interface{}
			var stack string
			if watched {
				type res struct {
					pan   interface{}
					stack string
				}
				ch := make(chan res, 2)
				saved := vkRequestWatchdog
				vkRequestWatchdog = 120 * time.Second
				returned := vkWatch(func() { p, s := c08Call(func() { f(w) }); ch <- res{p, s} })
				vkRequestWatchdog = saved
				if !returned {
					mj, _ := json.Marshal(msg)
					R.Case(true, "")
					R.Violation(fmt.Sprintf("C08|no-answer|grpc|%s", what),
						fmt.Sprintf("[%s] gRPC %s: %s (message %s)", w.name, what, vkNoAnswer{120 * time.Second}, mj),
						map[string]interface{}{"kind": "grpc", "world": w.name, "call": what, "message": json.RawMessage(mj)})
					R.Outcome("no-answer:" + what)
					continue
				}
				r := <-ch
				pan, stack = r.pan, r.stack
			} else {
				pan, stack = c08Call(func() { f(w) })
			}
			R.Case(true, "")
			if pan != nil {
				site := c08PanicSite(stack)
				mj, _ := json.Marshal(msg)
				R.Violation(fmt.Sprintf("C08|panic|grpc|%s|%s", site, c08PanicClass(pan)),
					fmt.Sprintf("[%s] gRPC %s panicked: %v (message %s)", w.name, what, pan, mj),
					map[string]interface{}{"kind": "grpc", "world": w.name, "call": what, "message": json.RawMessage(mj)})
				R.Outcome("panic:" + site)
			}
		}
	}
	grpcCase := func(what string, msg proto.Message, f func(w *c08World)) { grpcCaseW(what, msg, false, f) }
	for _, s := range u64s {
		m := wire(&old_faithful_grpc.BlockRequest{Slot: s}).(*old_faithful_grpc.BlockRequest)
		grpcCase("GetBlock", m, func(w *c08World) { w.multi.GetBlock(ctx, m) })
		bt := wire(&old_faithful_grpc.BlockTimeRequest{Slot: s}).(*old_faithful_grpc.BlockTimeRequest)
		grpcCase("GetBlockTime", bt, func(w *c08World) { w.multi.GetBlockTime(ctx, bt) })
	}
	for _, s := range sigs {
		m := wire(&old_faithful_grpc.TransactionRequest{Signature: s}).(*old_faithful_grpc.TransactionRequest)
		grpcCase("GetTransaction", m, func(w *c08World) { w.multi.GetTransaction(ctx, m) })
	}
	vr := &old_faithful_grpc.VersionRequest{}
	grpcCase("GetVersion", vr, func(w *c08World) { w.multi.GetVersion(ctx, vr) })
	// Get stream: sequences of length <= 2 over the oneof variants (and an unset oneof)
	variants := []*old_faithful_grpc.GetRequest{
		{Id: 1},
		{Id: 2, Request: &old_faithful_grpc.GetRequest_Version{Version: &old_faithful_grpc.VersionRequest{}}},
		{Id: 3, Request: &old_faithful_grpc.GetRequest_Block{Block: &old_faithful_grpc.BlockRequest{Slot: validSlot}}},
		{Id: 4, Request: &old_faithful_grpc.GetRequest_Block{Block: &old_faithful_grpc.BlockRequest{Slot: 7}}},
		{Id: 5, Request: &old_faithful_grpc.GetRequest_BlockTime{BlockTime: &old_faithful_grpc.BlockTimeRequest{Slot: validSlot}}},
		{Id: 6, Request: &old_faithful_grpc.GetRequest_BlockTime{BlockTime: &old_faithful_grpc.BlockTimeRequest{Slot: 1<<64 - 1}}},
		{Id: 7, Request: &old_faithful_grpc.GetRequest_Transaction{Transaction: &old_faithful_grpc.TransactionRequest{Signature: sigs[0]}}},
		{Id: 8, Request: &old_faithful_grpc.GetRequest_Transaction{Transaction: &old_faithful_grpc.TransactionRequest{Signature: []byte{1}}}},
		{Id: 9, Request: &old_faithful_grpc.GetRequest_Transaction{Transaction: &old_faithful_grpc.TransactionRequest{}}},
	}
	for i := range variants {
		variants[i] = wire(variants[i]).(*old_faithful_grpc.GetRequest)
	}
	for _, a := range variants {
		a := a
		grpcCase("Get[1]", a, func(w *c08World) {
			w.multi.Get(&vkGetStream{vkStreamBase: vkBase0(), In: []*old_faithful_grpc.GetRequest{a}})
		})
		for _, b := range variants {
			b := b
			grpcCase("Get[2]", b, func(w *c08World) {
				w.multi.Get(&vkGetStream{vkStreamBase: vkBase0(), In: []*old_faithful_grpc.GetRequest{a, b}})
			})
		}
	}
	// streams: ranges are kept short (a long range is a long stream, not a crash)
	tr, fa := true, false
	bools := []*bool{nil, &tr, &fa}
	accLists := [][]string{nil, {validAddr}, {""}, {"garbage"}, {validAddr, validAddr}, {strings.Repeat("1", 100)}, {cargen.Account(3).String(), "0x"}}
	type rng struct {
		start uint64
		end   *uint64
	}
	p := func(v uint64) *uint64 { return &v }
	ranges := []rng{{validSlot - 1, p(validSlot + 3)}, {validSlot, nil}, {validSlot + 3, p(validSlot)}, {431_990, p(432_010)}, {5 * 432000, p(5*432000 + 3)}, {2*432000 - 2, nil},
		// reversed across two or more epoch boundaries, and reversed over the whole slot space
		{3*432000 + 1, p(432000 + 5)}, {^uint64(0), p(0)}}
	for _, rg := range ranges {
		for _, inc := range accLists {
			var f *old_faithful_grpc.StreamBlocksFilter
			for pass := 0; pass < 2; pass++ {
				if pass == 1 {
					f = &old_faithful_grpc.StreamBlocksFilter{AccountInclude: inc}
				} else if inc != nil {
					continue
				}
				m := wire(&old_faithful_grpc.StreamBlocksRequest{StartSlot: rg.start, EndSlot: rg.end, Filter: f}).(*old_faithful_grpc.StreamBlocksRequest)
				grpcCase("StreamBlocks", m, func(w *c08World) {
					w.multi.StreamBlocks(m, &vkBlockStream{vkStreamBase: vkBase0()})
				})
			}
		}
	}
	// StreamTransactions may start goroutines that dereference client strings: a panic there kills the
	// worker process (the driver reports a dead worker as a violation with the panic line).
	for ri, rg := range ranges {
		m := wire(&old_faithful_grpc.StreamTransactionsRequest{StartSlot: rg.start, EndSlot: rg.end}).(*old_faithful_grpc.StreamTransactionsRequest)
		grpcCase("StreamTransactions(no filter)", m, func(w *c08World) {
			w.multi.StreamTransactions(m, &vkTxStream{vkStreamBase: vkBase0()})
		})
		if ri > 2 && !vkit.Thorough() {
			continue
		}
		for _, vote := range bools {
			for _, failed := range bools {
				for _, inc := range accLists {
					for ei, exc := range accLists {
						for qi, req := range accLists {
							if !vkit.Thorough() && ei > 0 && qi > 0 && (ei+qi)%3 != 0 {
								continue
							}
							f := &old_faithful_grpc.StreamTransactionsFilter{Vote: vote, Failed: failed, AccountInclude: inc, AccountExclude: exc, AccountRequired: req}
							m := wire(&old_faithful_grpc.StreamTransactionsRequest{StartSlot: rg.start, EndSlot: rg.end, Filter: f}).(*old_faithful_grpc.StreamTransactionsRequest)
							grpcCase("StreamTransactions", m, func(w *c08World) {
								w.multi.StreamTransactions(m, &vkTxStream{vkStreamBase: vkBase0()})
							})
						}
					}
				}
			}
		}
	}
	// the whole slot space in one request; the client hangs up after a moment (the stream context is
	// cancelled), so the case is about how the range is SET UP, not about streaming it
	{
		hangUp := func() vkStreamBase {
			c, cancel := context.WithTimeout(context.Background(), 1500*time.Millisecond)
			_ = cancel // released by the timeout
			return vkStreamBase{ctx: c}
		}
		for _, rg := range []rng{{0, p(^uint64(0))}, {432000, p(1 << 62)}, {^uint64(0), p(^uint64(0))}, {^uint64(0) - 2, nil}} {
			rg := rg
			m := wire(&old_faithful_grpc.StreamTransactionsRequest{StartSlot: rg.start, EndSlot: rg.end}).(*old_faithful_grpc.StreamTransactionsRequest)
			grpcCaseW("StreamTransactions(no filter, client hangs up)", m, true, func(w *c08World) {
				w.multi.StreamTransactions(m, &vkTxStream{vkStreamBase: hangUp()})
			})
			mf := wire(&old_faithful_grpc.StreamTransactionsRequest{StartSlot: rg.start, EndSlot: rg.end, Filter: &old_faithful_grpc.StreamTransactionsFilter{AccountInclude: []string{validAddr}}}).(*old_faithful_grpc.StreamTransactionsRequest)
			grpcCaseW("StreamTransactions(include, client hangs up)", mf, true, func(w *c08World) {
				w.multi.StreamTransactions(mf, &vkTxStream{vkStreamBase: hangUp()})
			})
			mb := wire(&old_faithful_grpc.StreamBlocksRequest{StartSlot: rg.start, EndSlot: rg.end}).(*old_faithful_grpc.StreamBlocksRequest)
			grpcCaseW("StreamBlocks(client hangs up)", mb, true, func(w *c08World) {
				w.multi.StreamBlocks(mb, &vkBlockStream{vkStreamBase: hangUp()})
			})
		}
	}
	// ---- valid requests over every block and transaction of epoch A, whose content includes metadata that no parser
	// understands and rewards with odd commission strings ----
	{
		for _, b := range eA.Truth.Blocks {
			for _, enc := range []string{"base64", "json", "base58"} {
				for _, rw := range []string{"true", "false"} {
					rpc(true, fmt.Sprintf(`{"jsonrpc":"2.0","id":1,"method":"getBlock","params":[%d,{"encoding":%q,"maxSupportedTransactionVersion":0,"rewards":%s}]}`, b.Slot, enc, rw))
				}
			}
			m := wire(&old_faithful_grpc.BlockRequest{Slot: b.Slot}).(*old_faithful_grpc.BlockRequest)
			grpcCase("GetBlock(content)", m, func(w *c08World) { w.multi.GetBlock(ctx, m) })
		}
		for _, tx := range eA.Truth.Txs {
			for _, enc := range []string{"base64", "json"} {
				rpc(true, fmt.Sprintf(`{"jsonrpc":"2.0","id":1,"method":"getTransaction","params":[%q,{"encoding":%q,"maxSupportedTransactionVersion":0}]}`, tx.Sig.String(), enc))
			}
			m := wire(&old_faithful_grpc.TransactionRequest{Signature: tx.Sig[:]}).(*old_faithful_grpc.TransactionRequest)
			grpcCase("GetTransaction(content)", m, func(w *c08World) { w.multi.GetTransaction(ctx, m) })
		}
		first, last := eA.Truth.Blocks[0].Slot, eA.Truth.Blocks[len(eA.Truth.Blocks)-1].Slot
		for _, inc := range [][]string{nil, {validAddr}, {cargen.Account(1).String(), cargen.Account(2).String()}} {
			var bf *old_faithful_grpc.StreamBlocksFilter
			var tf *old_faithful_grpc.StreamTransactionsFilter
			if inc != nil {
				bf = &old_faithful_grpc.StreamBlocksFilter{AccountInclude: inc}
				tf = &old_faithful_grpc.StreamTransactionsFilter{AccountInclude: inc, Failed: &fa, Vote: &fa}
			}
			mb := wire(&old_faithful_grpc.StreamBlocksRequest{StartSlot: first, EndSlot: &last, Filter: bf}).(*old_faithful_grpc.StreamBlocksRequest)
			grpcCase("StreamBlocks(content)", mb, func(w *c08World) { w.multi.StreamBlocks(mb, &vkBlockStream{vkStreamBase: vkBase0()}) })
			mt := wire(&old_faithful_grpc.StreamTransactionsRequest{StartSlot: first, EndSlot: &last, Filter: tf}).(*old_faithful_grpc.StreamTransactionsRequest)
			grpcCase("StreamTransactions(content)", mt, func(w *c08World) { w.multi.StreamTransactions(mt, &vkTxStream{vkStreamBase: vkBase0()}) })
		}
		for a := 0; a < 3; a++ {
			rpc(true, fmt.Sprintf(`{"jsonrpc":"2.0","id":1,"method":"getSignaturesForAddress","params":[%q,{"limit":100}]}`, cargen.Account(a).String()))
		}
	}
	// ---- a proxy for unknown methods / failed requests is configured (ListenerConfig): what the upstream answers is
	// an input too. A loopback upstream serves one of a small alphabet of answers; another target is unreachable.
	{
		upstreamAnswers := []struct {
			name   string
			status int
			body   string
		}{
			{"version-object", 200, `{"jsonrpc":"2.0","id":1,"result":{"solana-core":"1.17.0","feature-set":1}}`},
			{"result-null", 200, `{"jsonrpc":"2.0","id":1,"result":null}`},
			{"result-string", 200, `{"jsonrpc":"2.0","id":1,"result":"1.17.0"}`},
			{"result-array", 200, `{"jsonrpc":"2.0","id":1,"result":[]}`},
			{"result-empty-object", 200, `{"jsonrpc":"2.0","id":1,"result":{}}`},
			{"result-number", 200, `{"jsonrpc":"2.0","id":1,"result":7}`},
			{"error-object", 200, `{"jsonrpc":"2.0","id":1,"error":{"code":-32601,"message":"Method not found"}}`},
			{"no-result-no-error", 200, `{"jsonrpc":"2.0","id":1}`},
			{"not-json", 200, `<html>upstream</html>`},
			{"json-null", 200, `null`},
			{"json-array", 200, `[]`},
			{"empty-body", 200, ``},
			{"500-page", 500, `<html>internal error</html>`},
			{"truncated-json", 200, `{"jsonrpc":"2.0","id":1,"result":{"solana-core":"1.1`},
		}
		var umu sync.Mutex
		cur := 0
		upstream := httptest.NewServer(http.HandlerFunc(func(w http.ResponseWriter, r *http.Request) {
			umu.Lock()
			a := upstreamAnswers[cur]
			umu.Unlock()
			w.Header().Set("Content-Type", "application/json")
			w.WriteHeader(a.status)
			io.WriteString(w, a.body)
		}))
		dead := httptest.NewServer(http.HandlerFunc(func(w http.ResponseWriter, r *http.Request) {}))
		deadURL := dead.URL
		dead.Close() // nothing listens there any more
		var bodies []string
		for _, m := range methods {
			bodies = append(bodies,
				fmt.Sprintf(`{"jsonrpc":"2.0","id":1,"method":%q,"params":[%d]}`, m, validSlot),
				fmt.Sprintf(`{"jsonrpc":"2.0","id":1,"method":%q,"params":["garbage"]}`, m),
				fmt.Sprintf(`{"jsonrpc":"2.0","id":1,"method":%q}`, m))
		}
		bodies = append(bodies, `{"jsonrpc":"2.0","id":1,"method":"getBlock","params":[5]}`, `{"jsonrpc":"2.0","id":1,"method":"getTransaction","params":["`+validSig+`"]}`, `[]`, `{}`)
		type pworld struct {
			name string
			h    func(*fasthttp.RequestCtx)
		}
		var pws []pworld
		for _, pfr := range []bool{false, true} {
			for _, wi := range []int{0, 1} {
				lc := &ListenerConfig{ProxyConfig: &ProxyConfig{Target: upstream.URL, Headers: map[string]string{"X-Verif": "1"}, ProxyFailedRequests: pfr}}
				pws = append(pws, pworld{fmt.Sprintf("%s+proxy(failed=%v)", worlds[wi].name, pfr), newMultiEpochHandler(worlds[wi].multi, lc)})
			}
		}
		deadLC := &ListenerConfig{ProxyConfig: &ProxyConfig{Target: deadURL, ProxyFailedRequests: true}}
		deadH := newMultiEpochHandler(worlds[1].multi, deadLC)
		proxyCase := func(wname string, h func(*fasthttp.RequestCtx), body, up string) {
			var pan interface{}
			var stack string
			func() {
				defer func() {
					if r := recover(); r != nil {
						pan, stack = r, string(debug.Stack())
					}
				}()
				vkHTTPRaw(h, "POST", "/", []byte(body), -1)
			}()
			R.Case(true, "")
			R.Add("proxy_world_requests", 1)
			if pan != nil {
				site := c08PanicSite(stack)
				R.Violation(fmt.Sprintf("C08|panic|http-proxy|%s|%s", site, c08PanicClass(pan)),
					fmt.Sprintf("[%s, upstream answers %s] POST / panicked: %v (body %q)", wname, up, pan, body),
					map[string]interface{}{"kind": "http-proxy", "world": wname, "upstream": up, "body": body})
				R.Outcome("panic:" + site)
			}
		}
		if vkit.Mine(caseIdx) { // the upstream's answer is a shared variable: this section runs on one worker
			for ai, a := range upstreamAnswers {
				umu.Lock()
				cur = ai
				umu.Unlock()
				for _, pw := range pws {
					for _, b := range bodies {
						proxyCase(pw.name, pw.h, b, a.name)
					}
				}
			}
			for _, b := range bodies {
				proxyCase("1-epoch+proxy(unreachable)", deadH, b, "unreachable")
			}
		}
		caseIdx++
		upstream.Close()
		R.Bounds["proxy_upstream_answers"] = len(upstreamAnswers) + 1
		R.Bounds["proxy_request_bodies"] = len(bodies)
	}
	R.Bounds["cases_total_per_world"] = caseIdx / 3
	R.Sample(map[string]interface{}{"a_json_rpc_body": valid, "an_option_object": optObjs[len(optObjs)/2], "worlds": []string{"0-epochs", "1-epoch+gsfa", "2-epochs"}})
	epA.Close()
	epB.Close()
}

// wire round-trips a message through the protobuf wire encoding so that only shapes a client can
// actually send are exercised.
func wire(m proto.Message) proto.Message {
	b, err := proto.Marshal(m)
	if err != nil {
		panic(err)
	}
	out := m.ProtoReflect().New().Interface()
	if err := proto.Unmarshal(b, out); err != nil {
		panic(err)
	}
	return out
}

func vkHTTPRaw(h func(*fasthttp.RequestCtx), method, uri string, body []byte, contentLen int) {
	var req fasthttp.Request
	req.Header.SetMethod(method)
	req.SetRequestURI(uri)
	req.Header.SetContentType("application/json")
	if body != nil {
		req.SetBody(body)
	}
	if contentLen >= 0 {
		req.Header.SetContentLength(contentLen)
	}
	var ctx fasthttp.RequestCtx
	ctx.Init(&req, nil, nil)
	h(&ctx)
}
