//go:build verif

package main

import (
	"context"
	"io"

	old_faithful_grpc "github.com/rpcpool/yellowstone-faithful/old-faithful-proto/old-faithful-grpc"
	"google.golang.org/grpc"
	"google.golang.org/grpc/metadata"
)

// in-memory gRPC server streams

type vkStreamBase struct {
	grpc.ServerStream
	ctx context.Context
}

func (s *vkStreamBase) Context() context.Context     { return s.ctx }
func (s *vkStreamBase) SetHeader(metadata.MD) error  { return nil }
func (s *vkStreamBase) SendHeader(metadata.MD) error { return nil }
func (s *vkStreamBase) SetTrailer(metadata.MD)       {}
func (s *vkStreamBase) SendMsg(m interface{}) error  { return nil }
func (s *vkStreamBase) RecvMsg(m interface{}) error  { return io.EOF }

type vkBlockStream struct {
	vkStreamBase
	Got []*old_faithful_grpc.BlockResponse
}

func (s *vkBlockStream) Send(m *old_faithful_grpc.BlockResponse) error {
	s.Got = append(s.Got, m)
	return nil
}

type vkTxStream struct {
	vkStreamBase
	Got []*old_faithful_grpc.TransactionResponse
}

func (s *vkTxStream) Send(m *old_faithful_grpc.TransactionResponse) error {
	s.Got = append(s.Got, m)
	return nil
}

type vkGetStream struct {
	vkStreamBase
	In  []*old_faithful_grpc.GetRequest
	Got []*old_faithful_grpc.GetResponse
}

func (s *vkGetStream) Recv() (*old_faithful_grpc.GetRequest, error) {
	if len(s.In) == 0 {
		return nil, io.EOF
	}
	r := s.In[0]
	s.In = s.In[1:]
	return r, nil
}

func (s *vkGetStream) Send(m *old_faithful_grpc.GetResponse) error {
	s.Got = append(s.Got, m)
	return nil
}

func vkBase0() vkStreamBase { return vkStreamBase{ctx: context.Background()} }
