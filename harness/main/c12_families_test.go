//go:build verif

package main

// C12 families: the seeds (valid instances of every external format, produced by the repository's own
// writers / the reference encoder), the length/count fields located in them, and the entry points that
// consume them. See c12_test.go for the engine.

import (
	"bufio"
	"bytes"
	"context"
	"encoding/binary"
	"errors"
	"flag"
	"fmt"
	"io"
	"os"
	"path/filepath"
	"runtime"
	"sort"
	"time"

	"github.com/gagliardetto/solana-go"
	"github.com/ipfs/go-cid"
	"github.com/ipld/go-ipld-prime"
	"github.com/ipld/go-ipld-prime/codec/dagcbor"
	cidlink "github.com/ipld/go-ipld-prime/linking/cid"
	"github.com/rpcpool/yellowstone-faithful/accum"
	"github.com/rpcpool/yellowstone-faithful/blocktimeindex"
	"github.com/rpcpool/yellowstone-faithful/bucketteer"
	"github.com/rpcpool/yellowstone-faithful/carreader"
	"github.com/rpcpool/yellowstone-faithful/compactindexsized"
	oldbucketteer "github.com/rpcpool/yellowstone-faithful/deprecated/bucketteer"
	"github.com/rpcpool/yellowstone-faithful/deprecated/compactindex"
	"github.com/rpcpool/yellowstone-faithful/deprecated/compactindex36"
	"github.com/rpcpool/yellowstone-faithful/gsfa/linkedlog"
	"github.com/rpcpool/yellowstone-faithful/gsfa/manifest"
	"github.com/rpcpool/yellowstone-faithful/indexes"
	"github.com/rpcpool/yellowstone-faithful/indexmeta"
	"github.com/rpcpool/yellowstone-faithful/ipld/ipldbindcode"
	"github.com/rpcpool/yellowstone-faithful/iplddecoders"
	metalatest "github.com/rpcpool/yellowstone-faithful/parse_legacy_transaction_status_meta/v-latest"
	metaoldest "github.com/rpcpool/yellowstone-faithful/parse_legacy_transaction_status_meta/v-oldest"
	solanatxmetaparsers "github.com/rpcpool/yellowstone-faithful/solana-tx-meta-parsers"
	"github.com/rpcpool/yellowstone-faithful/tooling"
	"github.com/rpcpool/yellowstone-faithful/zzverif/cargen"
	"k8s.io/klog/v2"
)

var c12KlogSilenced bool

func c12SilenceKlog() {
	if c12KlogSilenced {
		return
	}
	c12KlogSilenced = true
	fs := flag.NewFlagSet("klog", flag.ContinueOnError)
	klog.InitFlags(fs)
	fs.Set("logtostderr", "false")
	fs.Set("alsologtostderr", "false")
	fs.Set("stderrthreshold", "FATAL")
	klog.SetOutput(io.Discard)
}

func c12K2Limit(thorough bool) int {
	if thorough {
		return 200
	}
	return 100
}

// entry points
var (
	c12eDecodeTransaction = c12E("iplddecoders.DecodeTransaction")
	c12eDecodeEntry       = c12E("iplddecoders.DecodeEntry")
	c12eDecodeBlock       = c12E("iplddecoders.DecodeBlock")
	c12eDecodeSubset      = c12E("iplddecoders.DecodeSubset")
	c12eDecodeEpoch       = c12E("iplddecoders.DecodeEpoch")
	c12eDecodeRewards     = c12E("iplddecoders.DecodeRewards")
	c12eDecodeDataFrame   = c12E("iplddecoders.DecodeDataFrame")
	c12eDecodeAny         = c12E("iplddecoders.DecodeAny")
	c12eLoadFrames        = c12E("tooling.LoadDataFromDataFrames")

	c12eCarNew        = c12E("carreader.New")
	c12eCarReadHeader = c12E("carreader.ReadHeader")
	c12eCarNextNode   = c12E("carreader.CarReader.NextNode")
	c12eCarNextBytes  = c12E("carreader.CarReader.NextNodeBytes")
	c12eCarNextInfo   = c12E("carreader.CarReader.NextInfo")
	c12eCarInfoData   = c12E("carreader.ReadNodeInfoWithData")
	c12eCarInfoNoData = c12E("carreader.ReadNodeInfoWithoutData")

	c12eAccumRun = c12E("accum.ObjectAccumulator.Run")
	c12eAccumTx  = c12E("accum.ObjectsToTransactionsAndMetadata")
	c12eCarCount = c12E("main.carCountItemsByFirstByte")

	c12eParseSection  = c12E("main.parseNodeFromSection")
	c12eReadNodeAt    = c12E("main.readNodeFromReaderAtWithOffsetAndSize")
	c12eReadNodeKnown = c12E("main.readNodeWithKnownSize")
	c12eReadNodeSize  = c12E("main.readNodeSizeFromReaderAtWithOffset")

	c12eSizedOpen     = c12E("compactindexsized.Open")
	c12eSizedLookup   = c12E("compactindexsized.DB.Lookup")
	c12eSizedLookupPf = c12E("compactindexsized.DB.Lookup(prefetch)")
	c12eSizedBucket   = c12E("compactindexsized.DB.LookupBucket")
	c12eSizedLoad     = c12E("compactindexsized.Bucket.Load")

	c12eOpenCidToOas    = c12E("indexes.OpenWithReader_CidToOffsetAndSize")
	c12eGetCidToOas     = c12E("indexes.CidToOffsetAndSize_Reader.Get")
	c12eOpenSlotToCid   = c12E("indexes.OpenWithReader_SlotToCid")
	c12eGetSlotToCid    = c12E("indexes.SlotToCid_Reader.Get")
	c12eOpenSigToCid    = c12E("indexes.OpenWithReader_SigToCid")
	c12eGetSigToCid     = c12E("indexes.SigToCid_Reader.Get")
	c12eOpenPubkeyToOas = c12E("indexes.OpenWithReader_PubkeyToOffsetAndSize")
	c12eGetPubkeyToOas  = c12E("indexes.PubkeyToOffsetAndSize_Reader.Get")
	c12eOpenDepCid      = c12E("indexes.Deprecated_OpenWithReader_CidToOffset")
	c12eGetDepCid       = c12E("indexes.Deprecated_CidToOffset_Reader.Get")

	c12eLegacyOpen     = c12E("deprecated/compactindex.Open")
	c12eLegacyLookup   = c12E("deprecated/compactindex.DB.Lookup")
	c12eLegacy36Open   = c12E("deprecated/compactindex36.Open")
	c12eLegacy36Lookup = c12E("deprecated/compactindex36.DB.Lookup")
	c12eLegacyLoad     = c12E("deprecated/compactindex.Bucket.Load")
	c12eLegacy36Load   = c12E("deprecated/compactindex36.Bucket.Load")

	c12eBuckNew    = c12E("bucketteer.NewReader")
	c12eBuckHas    = c12E("bucketteer.Reader.Has")
	c12eOldBuckNew = c12E("deprecated/bucketteer.NewReader")
	c12eOldBuckHas = c12E("deprecated/bucketteer.Reader.Has")

	c12eBlocktimeFrom = c12E("blocktimeindex.FromBytes")
	c12eBlocktimeGet  = c12E("blocktimeindex.Index.Get")

	c12eManifestNew  = c12E("manifest.NewManifest")
	c12eManifestRead = c12E("manifest.Manifest.ReadAll")
	c12eManifestSize = c12E("manifest.Manifest.ContentSizeBytes")

	c12eOasFromBytes = c12E("indexes.OffsetAndSize.FromBytes")
	c12eLogRead      = c12E("linkedlog.LinkedLog.Read")
	c12eLogReadSize  = c12E("linkedlog.LinkedLog.ReadWithSize")

	c12eMetaUnmarshal = c12E("indexmeta.Meta.UnmarshalBinary")
	c12eMetaGetUint64 = c12E("indexmeta.Meta.GetUint64")
	c12eMetaGetCid    = c12E("indexmeta.Meta.GetCid")
	c12eMetaGet       = c12E("indexmeta.Meta.Get")

	c12eParseAny       = c12E("solanatxmetaparsers.ParseAnyTransactionStatusMeta")
	c12eParseContainer = c12E("solanatxmetaparsers.ParseTransactionStatusMetaContainer")
	c12eParseProto     = c12E("solanatxmetaparsers.ParseTransactionStatusMeta")
	c12eParseLatest    = c12E("solanatxmetaparsers.ParseLegacyTransactionStatusMeta")
	c12eParseOldest    = c12E("solanatxmetaparsers.ParseLegacyTransactionStatusMetaOldest")
)

type c12RAC struct{ *bytes.Reader }

func (c12RAC) Close() error { return nil }

func c12Reader(in []byte) c12RAC { return c12RAC{bytes.NewReader(in)} }

func c12Must(err error) {
	if err != nil {
		panic(fmt.Errorf("c12 seed construction: %w", err))
	}
}

// ---------------------------------------------------------------------------------------------
// field locators
// ---------------------------------------------------------------------------------------------

// c12CborFields walks well-formed CBOR and returns the byte-string / text / array / map headers.
func c12CborFields(b []byte, base int, tag string) []c12Field {
	var out []c12Field
	var walk func(pos int) int
	walk = func(pos int) int {
		if pos < 0 || pos >= len(b) {
			return -1
		}
		ib := b[pos]
		major, ai := ib>>5, ib&0x1f
		hl, val := 1, uint64(ai)
		switch {
		case ai < 24:
		case ai == 24:
			hl = 2
		case ai == 25:
			hl = 3
		case ai == 26:
			hl = 5
		case ai == 27:
			hl = 9
		default:
			return -1
		}
		if pos+hl > len(b) {
			return -1
		}
		if hl > 1 {
			val = 0
			for _, c := range b[pos+1 : pos+hl] {
				val = val<<8 | uint64(c)
			}
		}
		fld := func() {
			out = append(out, c12Field{Name: fmt.Sprintf("%scbor-major%d@%d", tag, major, pos), Off: base + pos, Len: hl, Enc: "cbor", Major: major, Cur: val})
		}
		switch major {
		case 0, 1, 7:
			return pos + hl
		case 2, 3:
			fld()
			return pos + hl + int(val)
		case 4, 5:
			fld()
			n := int(val)
			if major == 5 {
				n *= 2
			}
			p := pos + hl
			for i := 0; i < n && p >= 0; i++ {
				p = walk(p)
			}
			return p
		case 6:
			return walk(pos + hl)
		}
		return -1
	}
	walk(0)
	return out
}

// c12ProtoFields: the length prefixes of the top-level length-delimited protobuf fields.
func c12ProtoFields(b []byte) []c12Field {
	var out []c12Field
	pos := 0
	for pos < len(b) {
		tag, n := binary.Uvarint(b[pos:])
		if n <= 0 {
			break
		}
		pos += n
		switch tag & 7 {
		case 0:
			_, m := binary.Uvarint(b[pos:])
			if m <= 0 {
				return out
			}
			pos += m
		case 1:
			pos += 8
		case 5:
			pos += 4
		case 2:
			l, m := binary.Uvarint(b[pos:])
			if m <= 0 {
				return out
			}
			out = append(out, c12Field{Name: fmt.Sprintf("pb-field%d-len@%d", tag>>3, pos), Off: pos, Len: m, Enc: "uvarint", Cur: l})
			pos += m + int(l)
		default:
			return out
		}
	}
	return out
}

// c12MetaFields: indexmeta.Meta = count u8, then (keylen u8, key, vallen u8, value)*.
func c12MetaFields(b []byte, base int, tag string) ([]c12Field, int) {
	var out []c12Field
	if len(b) == 0 {
		return nil, 0
	}
	n := int(b[0])
	out = append(out, c12Field{Name: tag + "meta-pair-count", Off: base, Len: 1, Enc: "u8", Cur: uint64(n)})
	pos := 1
	for i := 0; i < n && pos < len(b); i++ {
		kl := int(b[pos])
		out = append(out, c12Field{Name: fmt.Sprintf("%smeta-keylen[%d]", tag, i), Off: base + pos, Len: 1, Enc: "u8", Cur: uint64(kl)})
		pos += 1 + kl
		if pos >= len(b) {
			break
		}
		vl := int(b[pos])
		out = append(out, c12Field{Name: fmt.Sprintf("%smeta-vallen[%d]", tag, i), Off: base + pos, Len: 1, Enc: "u8", Cur: uint64(vl)})
		pos += 1 + vl
	}
	return out, pos
}

func c12Big(f c12Field) c12Field { f.Big = true; return f }

func c12LE(b []byte, off, n int) uint64 {
	var full [8]byte
	copy(full[:], b[off:off+n])
	return binary.LittleEndian.Uint64(full[:])
}

func c12Fixed(b []byte, name string, off, n int) c12Field {
	enc := map[int]string{1: "u8", 2: "u16le", 3: "u24le", 4: "u32le", 6: "u48le", 8: "u64le"}[n]
	return c12Field{Name: name, Off: off, Len: n, Enc: enc, Cur: c12LE(b, off, n)}
}

// ---------------------------------------------------------------------------------------------
// IPLD nodes
// ---------------------------------------------------------------------------------------------

var c12KindNames = []string{"Transaction", "Entry", "Block", "Subset", "Epoch", "Rewards", "DataFrame"}

func c12Shapes() (min, opt, long cargen.Shape) {
	bare := cargen.PayloadShape{Bare: true}
	min = cargen.Shape{Epoch: 2, Blocks: []cargen.BlockShape{
		{SlotOffset: 5, Blocktime: 1_600_000_005, NoHeight: true, Entries: [][]cargen.TxShape{{{NoIndex: true, NoMeta: true, Meta: bare}}}},
		{SlotOffset: 6, Blocktime: 1_600_000_006, NoHeight: true, Entries: [][]cargen.TxShape{{}}},
	}}
	opt = cargen.Shape{Epoch: 2, Blocks: []cargen.BlockShape{
		{SlotOffset: 7, Blocktime: 1_600_000_007, Entries: [][]cargen.TxShape{{{Accounts: []int{0}}, {Accounts: []int{1, 2}, Failed: true, Loaded: []int{3}}}}, Rewards: &cargen.PayloadShape{}},
		{SlotOffset: 9, Blocktime: 1_600_000_009, Entries: [][]cargen.TxShape{{{Accounts: []int{0}, Meta: cargen.PayloadShape{Pad: 300, FrameSize: 120}}}}, Rewards: &cargen.PayloadShape{Bare: true}},
	}}
	long = cargen.Shape{Epoch: 2, SubsetEvery: 5}
	var entries [][]cargen.TxShape
	var many []cargen.TxShape
	for k := 0; k < 24; k++ {
		many = append(many, cargen.TxShape{Accounts: []int{k % 3}})
	}
	entries = append(entries, many)
	entries = append(entries, []cargen.TxShape{{Accounts: []int{0, 1, 2}, TxPad: 700, Meta: cargen.PayloadShape{Pad: 2000, FrameSize: 100, FanOut: 3}}})
	for e := 0; e < 10; e++ {
		entries = append(entries, []cargen.TxShape{{Accounts: []int{e % 3}, Vote: e%2 == 0}})
	}
	long.Blocks = append(long.Blocks, cargen.BlockShape{SlotOffset: 20, Blocktime: 1_600_000_020, Entries: entries, Rewards: &cargen.PayloadShape{Pad: 1500, FrameSize: 100, FanOut: 4}})
	for b := 1; b < 14; b++ {
		long.Blocks = append(long.Blocks, cargen.BlockShape{SlotOffset: 20 + 2*b, Blocktime: int64(1_600_000_020 + b), Entries: [][]cargen.TxShape{{{Accounts: []int{b % 3}}}}})
	}
	return
}

type c12World struct {
	min, opt, long *cargen.Truth
	frames         map[string]*ipldbindcode.DataFrame // every continuation frame of the three epochs, by CID
}

func c12BuildWorld() *c12World {
	a, b, c := c12Shapes()
	w := &c12World{min: cargen.Generate(a), opt: cargen.Generate(b), long: cargen.Generate(c), frames: map[string]*ipldbindcode.DataFrame{}}
	for _, t := range []*cargen.Truth{w.min, w.opt, w.long} {
		for _, o := range t.Objects {
			if o.Kind == cargen.KindDataFrame {
				df, err := iplddecoders.DecodeDataFrame(o.Data)
				c12Must(err)
				w.frames[o.Cid.KeyString()] = df
			}
		}
	}
	return w
}

func (w *c12World) getter(ctx context.Context, c cid.Cid) (*ipldbindcode.DataFrame, error) {
	if df, ok := w.frames[c.KeyString()]; ok {
		return df, nil
	}
	return nil, fmt.Errorf("c12: no frame %s", c)
}

func c12Encode(node interface{}, kind int) []byte {
	var b []byte
	var err error
	switch kind {
	case cargen.KindDataFrame:
		b, err = ipld.Marshal(dagcbor.Encode, node, ipldbindcode.Prototypes.DataFrame.Type())
	case cargen.KindRewards:
		b, err = ipld.Marshal(dagcbor.Encode, node, ipldbindcode.Prototypes.Rewards.Type())
	default:
		panic("c12Encode: kind")
	}
	c12Must(err)
	return b
}

func (w *c12World) ipldFamilies(thorough bool) []*c12Fam {
	byKind := map[int][][]byte{}
	for _, t := range []*cargen.Truth{w.min, w.opt, w.long} {
		for _, o := range t.Objects {
			byKind[o.Kind] = append(byKind[o.Kind], o.Data)
		}
	}
	// two hand-made minimal nodes (reference encoder): a bare frame and a rewards node around it
	tiny := ipldbindcode.DataFrame{Kind: cargen.KindDataFrame, Data: []byte("12345678")}
	byKind[cargen.KindDataFrame] = append(byKind[cargen.KindDataFrame], c12Encode(&tiny, cargen.KindDataFrame))
	trw := ipldbindcode.Rewards{Kind: cargen.KindRewards, Slot: 864005, Data: tiny}
	byKind[cargen.KindRewards] = append(byKind[cargen.KindRewards], c12Encode(&trw, cargen.KindRewards))
	want := 3
	if thorough {
		want = 5
	}
	var fams []*c12Fam
	for kind := 0; kind < 7; kind++ {
		cands := byKind[kind]
		sort.SliceStable(cands, func(i, j int) bool {
			if len(cands[i]) != len(cands[j]) {
				return len(cands[i]) < len(cands[j])
			}
			return bytes.Compare(cands[i], cands[j]) < 0
		})
		// one candidate per distinct size
		var uniq [][]byte
		for _, c := range cands {
			if len(uniq) == 0 || len(uniq[len(uniq)-1]) != len(c) {
				uniq = append(uniq, c)
			}
		}
		pick := map[int]bool{}
		for q := 0; q < want; q++ {
			idx := 0
			if want > 1 {
				idx = q * (len(uniq) - 1) / (want - 1)
			}
			pick[idx] = true
		}
		var idxs []int
		for i := range pick {
			idxs = append(idxs, i)
		}
		sort.Ints(idxs)
		for _, i := range idxs {
			data := uniq[i]
			fams = append(fams, &c12Fam{
				Name: fmt.Sprintf("ipld/%s/%dB", c12KindNames[kind], len(data)), Format: "ipld-" + c12KindNames[kind],
				Seed: data, Fields: c12CborFields(data, 0, ""), Run: w.runIPLD(kind),
			})
		}
	}
	return fams
}

func (w *c12World) runIPLD(kind int) func(x *c12Exec, in []byte) {
	return func(x *c12Exec, in []byte) {
		var tx *ipldbindcode.Transaction
		var rw *ipldbindcode.Rewards
		var df *ipldbindcode.DataFrame
		oks := make([]bool, 7)
		oks[0] = x.Guard(c12eDecodeTransaction, func() error { v, err := iplddecoders.DecodeTransaction(in); tx = v; return err })
		oks[1] = x.Guard(c12eDecodeEntry, func() error { _, err := iplddecoders.DecodeEntry(in); return err })
		oks[2] = x.Guard(c12eDecodeBlock, func() error { _, err := iplddecoders.DecodeBlock(in); return err })
		oks[3] = x.Guard(c12eDecodeSubset, func() error { _, err := iplddecoders.DecodeSubset(in); return err })
		oks[4] = x.Guard(c12eDecodeEpoch, func() error { _, err := iplddecoders.DecodeEpoch(in); return err })
		oks[5] = x.Guard(c12eDecodeRewards, func() error { v, err := iplddecoders.DecodeRewards(in); rw = v; return err })
		oks[6] = x.Guard(c12eDecodeDataFrame, func() error { v, err := iplddecoders.DecodeDataFrame(in); df = v; return err })
		any := x.Guard(c12eDecodeAny, func() error { _, err := iplddecoders.DecodeAny(in); return err })
		x.SeedOK(oks[kind] && any, "Decode"+c12KindNames[kind]+" / DecodeAny of the seed")
		load := func(f *ipldbindcode.DataFrame) bool {
			return x.Guard(c12eLoadFrames, func() error { _, err := tooling.LoadDataFromDataFrames(f, w.getter); return err })
		}
		if oks[0] && tx != nil {
			a := load(&tx.Data)
			b := load(&tx.Metadata)
			x.SeedOK(a && b, "LoadDataFromDataFrames of the seed transaction")
		}
		if oks[5] && rw != nil {
			x.SeedOK(load(&rw.Data), "LoadDataFromDataFrames of the seed rewards")
		}
		if oks[6] && df != nil {
			load(df)
		}
	}
}

// frameFamilies: an intact first frame whose continuation frame (served by the getter) is deviated.
func (w *c12World) frameFamilies() []*c12Fam {
	var first *ipldbindcode.DataFrame
	for _, tt := range w.long.Txs {
		tx, err := iplddecoders.DecodeTransaction(w.long.Objects[tt.Obj].Data)
		c12Must(err)
		if next, ok := tx.Metadata.GetNext(); ok && len(next) > 0 {
			first = &tx.Metadata
			break
		}
	}
	if first == nil {
		panic("c12: no multi-frame transaction in the long epoch")
	}
	// frames reachable from first, in CAR order
	reach := map[string]bool{}
	var visit func(f *ipldbindcode.DataFrame)
	visit = func(f *ipldbindcode.DataFrame) {
		next, _ := f.GetNext()
		for _, l := range next {
			c := l.(cidlink.Link).Cid
			if !reach[c.KeyString()] {
				reach[c.KeyString()] = true
				visit(w.frames[c.KeyString()])
			}
		}
	}
	visit(first)
	var leaf, linker *cargen.ObjTruth
	for i := range w.long.Objects {
		o := &w.long.Objects[i]
		if o.Kind != cargen.KindDataFrame || !reach[o.Cid.KeyString()] {
			continue
		}
		next, _ := w.frames[o.Cid.KeyString()].GetNext()
		if len(next) > 0 && linker == nil {
			linker = o
		}
		if len(next) == 0 && leaf == nil {
			leaf = o
		}
	}
	var fams []*c12Fam
	for _, pr := range []struct {
		name string
		o    *cargen.ObjTruth
	}{{"leaf", leaf}, {"linker", linker}} {
		if pr.o == nil {
			continue
		}
		target := pr.o.Cid
		fams = append(fams, &c12Fam{
			Name: fmt.Sprintf("frames/continuation-%s/%dB", pr.name, len(pr.o.Data)), Format: "ipld-frames",
			Seed: pr.o.Data, Fields: c12CborFields(pr.o.Data, 0, ""),
			Run: func(x *c12Exec, in []byte) {
				var fr *ipldbindcode.DataFrame
				ok := x.Guard(c12eDecodeDataFrame, func() error { v, err := iplddecoders.DecodeDataFrame(in); fr = v; return err })
				x.SeedOK(ok, "DecodeDataFrame of the continuation frame")
				if !ok || fr == nil {
					return
				}
				getter := func(ctx context.Context, c cid.Cid) (*ipldbindcode.DataFrame, error) {
					if c.Equals(target) {
						return fr, nil
					}
					return w.getter(ctx, c)
				}
				ok = x.Guard(c12eLoadFrames, func() error { _, err := tooling.LoadDataFromDataFrames(first, getter); return err })
				x.SeedOK(ok, "LoadDataFromDataFrames over the intact frames")
			},
		})
	}
	fams = append(fams, c12LinkGraphFamily())
	return fams
}

// c12LinkGraphFamily: the `next` links of data frames are CIDs that a CAR section merely claims, so the frames of
// a payload can be wired into any graph. The seed is a two-byte descriptor (number of frames k, wiring), from
// which Run builds the k frames and serves them by CID; the deviations of the framework then enumerate other
// descriptors. Wirings (byte 1 mod 6): 0 chain; 1 every frame lists its successor twice; 2 every frame lists its
// successor and the one after it (shared children without a cycle); 3 the last frame links back to the first
// continuation; 4 every frame links to itself as well; 5 every frame lists its successor three times.
// Besides the usual oracle (no panic, no allocation out of proportion) the number of frame fetches is bounded:
// a walk over k frames that fetches more than 64 x (k + 1) frames is doing work out of proportion to its input
// (the fetch that crosses the bound is refused, so that an exponential walk ends).
func c12LinkGraphFamily() *c12Fam {
	return &c12Fam{Name: "frames/link-graph/2B", Format: "ipld-frame-graph", Seed: []byte{30, 1},
		Run: func(x *c12Exec, in []byte) {
			if len(in) < 2 {
				return
			}
			k := int(in[0])
			if k > 40 {
				k = 40
			}
			wiring := int(in[1]) % 6
			cidOf := func(i int) cid.Cid { return c12SyntheticCid(700_000 + i) }
			pp := func(v int) **int { p := &v; return &p }
			frames := make([]*ipldbindcode.DataFrame, k+1) // frame 0 is the first frame (inside the node)
			for i := 0; i <= k; i++ {
				var next ipldbindcode.List__Link
				link := func(j int) {
					if j >= 1 && j <= k {
						next = append(next, cidlink.Link{Cid: cidOf(j)})
					}
				}
				switch wiring {
				case 0:
					link(i + 1)
				case 1:
					link(i + 1)
					link(i + 1)
				case 2:
					link(i + 1)
					link(i + 2)
				case 3:
					link(i + 1)
					if i == k {
						link(1)
					}
				case 4:
					link(i + 1)
					link(i)
				case 5:
					link(i + 1)
					link(i + 1)
					link(i + 1)
				}
				pn := &next
				frames[i] = &ipldbindcode.DataFrame{Kind: int(iplddecoders.KindDataFrame), Index: pp(i), Total: pp(k + 1), Data: []byte{byte(i)}, Next: &pn}
			}
			fetches, limit := 0, 64*(k+1)
			getter := func(ctx context.Context, c cid.Cid) (*ipldbindcode.DataFrame, error) {
				fetches++
				if fetches > limit {
					return nil, errors.New("c12: fetch limit reached")
				}
				for i := 1; i <= k; i++ {
					if c.Equals(cidOf(i)) {
						return frames[i], nil
					}
				}
				return nil, errors.New("c12: no such frame")
			}
			ok := x.Guard(c12eLoadFrames, func() error { fetches = 0; _, err := tooling.LoadDataFromDataFrames(frames[0], getter); return err })
			x.SeedOK(!ok, "a frame graph with duplicate links is expected to be refused")
			if fetches > limit {
				x.violation("C12|work|tooling.LoadDataFromDataFrames|fetches-out-of-proportion",
					fmt.Sprintf("tooling.LoadDataFromDataFrames fetched more than %d frames for a payload of %d frames (wiring %d: see c12LinkGraphFamily): work out of proportion to the input, exponential in the number of frames", limit, k+1, wiring),
					x.replay(c12eLoadFrames, map[string]interface{}{"frames": k + 1, "wiring": wiring, "fetches": fetches}))
			}
		}}
}

// ---------------------------------------------------------------------------------------------
// CAR
// ---------------------------------------------------------------------------------------------

// values beyond the CAR format's documented section-size limit (32 MiB): 2 GiB and 1 TiB
var c12BeyondCarLimit = []uint64{1 << 31, 1 << 40}

func c12CarFields(t *cargen.Truth, base int, onlyObj int) []c12Field {
	var out []c12Field
	b := t.Bytes
	if onlyObj < 0 {
		l, n := binary.Uvarint(b)
		out = append(out, c12Field{Name: "car-header-len", Off: 0, Len: n, Enc: "uvarint", Cur: l, Extra: c12BeyondCarLimit})
		out = append(out, c12CborFields(b[n:t.HeaderLen], n, "car-header-")...)
	}
	for i, o := range t.Objects {
		if onlyObj >= 0 && i != onlyObj {
			continue
		}
		off := int(o.Offset)
		l, n := binary.Uvarint(b[off:])
		out = append(out, c12Field{Name: fmt.Sprintf("section[%d]-len", i), Off: off - base, Len: n, Enc: "uvarint", Cur: l, Extra: c12BeyondCarLimit})
		// CIDv1: version, codec, multihash code, multihash length (one byte each here)
		out = append(out, c12Field{Name: fmt.Sprintf("section[%d]-cid-mhlen", i), Off: off + n + 3 - base, Len: 1, Enc: "uvarint", Cur: uint64(b[off+n+3])})
	}
	return out
}

func (w *c12World) carFamilies() []*c12Fam {
	t := w.min
	whole := &c12Fam{Name: fmt.Sprintf("car/whole/%dB", len(t.Bytes)), Format: "car", Seed: t.Bytes, Fields: c12CarFields(t, 0, -1)}
	nObj := len(t.Objects)
	whole.Run = func(x *c12Exec, in []byte) {
		mk := func() io.ReadCloser { return io.NopCloser(bytes.NewReader(in)) }
		ok := x.Guard(c12eCarNew, func() error {
			cr, err := carreader.New(mk())
			if err == nil {
				_, err = cr.HeaderSize()
			}
			return err
		})
		x.Guard(c12eCarReadHeader, func() error { _, err := carreader.ReadHeader(bytes.NewReader(in)); return err })
		x.SeedOK(ok, "carreader.New")
		if ok {
			loop := func(step func(cr *carreader.CarReader) error) func() error {
				return func() error {
					cr, err := carreader.New(mk())
					if err != nil {
						return err
					}
					for n := 0; n <= len(in)+2; n++ {
						if err := step(cr); err != nil {
							if errors.Is(err, io.EOF) && n == nObj {
								return nil
							}
							return err
						}
					}
					return errors.New("c12: more sections than input bytes")
				}
			}
			a := x.Guard(c12eCarNextNode, loop(func(cr *carreader.CarReader) error { _, _, _, err := cr.NextNode(); return err }))
			b := x.Guard(c12eCarNextBytes, loop(func(cr *carreader.CarReader) error { _, _, _, err := cr.NextNodeBytes(); return err }))
			c := x.Guard(c12eCarNextInfo, loop(func(cr *carreader.CarReader) error { _, _, err := cr.NextInfo(); return err }))
			x.SeedOK(a && b && c, "reading every section of the CAR")
			// the consumers the index builders put on top of the section reader
			d := x.Guard(c12eAccumRun, func() error {
				cr, err := carreader.New(mk())
				if err != nil {
					return err
				}
				oa := accum.NewObjectAccumulator(cr, iplddecoders.KindBlock, func(*accum.ObjectWithMetadata, []accum.ObjectWithMetadata) error { return nil })
				return oa.Run(context.Background())
			})
			e := x.Guard(c12eAccumTx, func() error {
				cr, err := carreader.New(mk())
				if err != nil {
					return err
				}
				var objs []accum.ObjectWithMetadata
				for n := 0; n <= len(in)+2; n++ {
					c, l, data, err := cr.NextNodeBytes()
					if err != nil {
						break
					}
					objs = append(objs, accum.ObjectWithMetadata{Cid: c, SectionLength: l, ObjectData: data})
				}
				_, err = accum.ObjectsToTransactionsAndMetadata(&ipldbindcode.Block{Slot: 1}, objs)
				return err
			})
			f := x.Guard(c12eCarCount, func() error {
				p := filepath.Join(x.scratch, "count.car")
				if err := os.WriteFile(p, in, 0o644); err != nil {
					panic(err)
				}
				_, _, err := carCountItemsByFirstByte(p)
				return err
			})
			x.SeedOK(d && e && f, "accumulating / counting the sections of the CAR")
		}
		// the index-directed read path of the server: (offset, size) of every object, from the generator
		all := true
		for i := range t.Objects {
			o := &t.Objects[i]
			if !x.Guard(c12eReadNodeAt, func() error {
				_, err := readNodeFromReaderAtWithOffsetAndSize(c12Reader(in), &o.Cid, o.Offset, o.SectionLen)
				return err
			}) {
				all = false
			}
			x.Guard(c12eReadNodeSize, func() error { _, err := readNodeSizeFromReaderAtWithOffset(c12Reader(in), o.Offset); return err })
		}
		x.SeedOK(all, "readNodeFromReaderAtWithOffsetAndSize of every object")
	}
	hdr := t.Bytes[:t.HeaderLen]
	hl, hn := binary.Uvarint(hdr)
	header := &c12Fam{Name: fmt.Sprintf("car/header/%dB", len(hdr)), Format: "car-header", Seed: hdr,
		Fields: append([]c12Field{{Name: "car-header-len", Off: 0, Len: hn, Enc: "uvarint", Cur: hl, Extra: c12BeyondCarLimit}}, c12CborFields(hdr[hn:], hn, "car-header-")...),
		Run: func(x *c12Exec, in []byte) {
			a := x.Guard(c12eCarReadHeader, func() error { _, err := carreader.ReadHeader(bytes.NewReader(in)); return err })
			b := x.Guard(c12eCarNew, func() error { _, err := carreader.New(io.NopCloser(bytes.NewReader(in))); return err })
			x.SeedOK(a && b, "carreader.ReadHeader / New")
		}}
	fams := []*c12Fam{whole, header}
	// single sections: the smallest and the largest object of the minimal epoch
	small, large := 0, 0
	for i, o := range t.Objects {
		if o.SectionLen < t.Objects[small].SectionLen {
			small = i
		}
		if o.SectionLen > t.Objects[large].SectionLen {
			large = i
		}
	}
	for _, oi := range []int{small, large} {
		o := t.Objects[oi]
		sec := t.Bytes[o.Offset : o.Offset+o.SectionLen]
		want := o.Cid
		fams = append(fams, &c12Fam{Name: fmt.Sprintf("car/section-%s/%dB", c12KindNames[o.Kind], len(sec)), Format: "car-section", Seed: sec,
			Fields: c12CarFields(t, int(o.Offset), oi),
			Run: func(x *c12Exec, in []byte) {
				a := x.Guard(c12eParseSection, func() error { _, err := parseNodeFromSection(in, &want); return err })
				x.Guard(c12eParseSection, func() error { _, err := parseNodeFromSection(in, nil); return err })
				b := x.Guard(c12eReadNodeAt, func() error {
					_, err := readNodeFromReaderAtWithOffsetAndSize(c12Reader(in), &want, 0, uint64(len(in)))
					return err
				})
				c := x.Guard(c12eReadNodeKnown, func() error {
					_, err := readNodeWithKnownSize(bufio.NewReader(bytes.NewReader(in)), &want, uint64(len(in)))
					return err
				})
				x.Guard(c12eReadNodeSize, func() error { _, err := readNodeSizeFromReaderAtWithOffset(c12Reader(in), 0); return err })
				// the size handed to the readers comes from an index (cid-to-offset-and-size value, address-index
				// location): sizes that disagree with the section, up to the largest a corrupt index can hold
				for _, size := range []uint64{uint64(len(in)) + 1, 1 << 31, 1 << 40, 1 << 62, ^uint64(0)} {
					size := size
					x.Guard(c12eReadNodeAt, func() error {
						_, err := readNodeFromReaderAtWithOffsetAndSize(c12Reader(in), &want, 0, size)
						return err
					})
					x.Guard(c12eReadNodeKnown, func() error {
						_, err := readNodeWithKnownSize(bufio.NewReader(bytes.NewReader(in)), &want, size)
						return err
					})
				}
				d := x.Guard(c12eCarInfoData, func() error {
					_, _, _, err := carreader.ReadNodeInfoWithData(bufio.NewReader(bytes.NewReader(in)))
					return err
				})
				e := x.Guard(c12eCarInfoNoData, func() error {
					_, _, err := carreader.ReadNodeInfoWithoutData(bufio.NewReader(bytes.NewReader(in)))
					return err
				})
				x.SeedOK(a && b && c && d && e, "parsing the seed section")
			}})
	}
	return fams
}

// ---------------------------------------------------------------------------------------------
// compact indexes (current format, typed) and legacy compact indexes
// ---------------------------------------------------------------------------------------------

func c12SizedFields(b []byte) (fields []c12Field, headerSize int, spans [][2]int) {
	hl := c12Big(c12Fixed(b, "header-len", 8, 4))
	hl.Extra = []uint64{12} // Header.Load rejects lengths below 12
	fields = append(fields,
		hl, c12Fixed(b, "value-size", 12, 8), c12Fixed(b, "num-buckets", 20, 4), c12Fixed(b, "version", 24, 1))
	headerSize = 12 + int(binary.LittleEndian.Uint32(b[8:12]))
	mf, _ := c12MetaFields(b[25:headerSize], 25, "")
	fields = append(fields, mf...)
	nb := int(binary.LittleEndian.Uint32(b[20:24]))
	stride := 3 + int(binary.LittleEndian.Uint64(b[12:20]))
	spans = append(spans, [2]int{headerSize, headerSize + 16*nb})
	for i := 0; i < nb; i++ {
		o := headerSize + 16*i
		ne := int(binary.LittleEndian.Uint32(b[o+4 : o+8]))
		if ne == 0 && i != 0 && i != nb-1 {
			continue
		}
		fields = append(fields, c12Big(c12Fixed(b, fmt.Sprintf("bucket[%d]-num-entries", i), o+4, 4)), c12Fixed(b, fmt.Sprintf("bucket[%d]-hash-len", i), o+8, 1),
			c12Fixed(b, fmt.Sprintf("bucket[%d]-file-offset", i), o+10, 6))
		fo := int(c12LE(b, o+10, 6))
		if ne > 0 {
			spans = append(spans, [2]int{fo, fo + ne*stride})
		}
	}
	return
}

func c12LegacyFields(b []byte, stride int) (fields []c12Field, spans [][2]int) {
	fields = append(fields, c12Fixed(b, "file-size", 8, 8), c12Fixed(b, "num-buckets", 16, 4), c12Fixed(b, "version", 20, 1))
	nb := int(binary.LittleEndian.Uint32(b[16:20]))
	for i := 0; i < nb; i++ {
		o := 32 + 16*i
		ne := int(binary.LittleEndian.Uint32(b[o+4 : o+8]))
		fields = append(fields, c12Big(c12Fixed(b, fmt.Sprintf("bucket[%d]-num-entries", i), o+4, 4)), c12Fixed(b, fmt.Sprintf("bucket[%d]-hash-len", i), o+8, 1),
			c12Fixed(b, fmt.Sprintf("bucket[%d]-file-offset", i), o+10, 6))
		fo := int(c12LE(b, o+10, 6))
		spans = append(spans, [2]int{fo, fo + ne*stride})
	}
	return
}

func c12SyntheticCid(i int) cid.Cid {
	c, err := cid.Prefix{Version: 1, Codec: cid.DagCBOR, MhType: 0x12, MhLength: -1}.Sum([]byte(fmt.Sprintf("c12-object-%d", i)))
	c12Must(err)
	return c
}

func c12SyntheticSig(i int) solana.Signature {
	var s solana.Signature
	for k := 0; k < 64; k += 8 {
		binary.LittleEndian.PutUint64(s[k:], uint64(i+1)*0x9E3779B97F4A7C15+uint64(k)*0xD1B54A32D192ED03)
	}
	return s
}

// c12SeedCacheDir: the shard process stores the sealed index files here so that its workers (which are restarted
// after every fatal case) need not run the builders again. Purely a start-up optimisation.
var c12SeedCacheDir string

func c12Cached(name string, build func() []byte) []byte {
	if c12SeedCacheDir != "" {
		if b, err := os.ReadFile(filepath.Join(c12SeedCacheDir, name)); err == nil && len(b) > 0 {
			return b
		}
	}
	b := build()
	if c12SeedCacheDir != "" {
		os.MkdirAll(c12SeedCacheDir, 0o755)
		os.WriteFile(filepath.Join(c12SeedCacheDir, name), b, 0o644)
	}
	return b
}

func c12ReadAndRemove(path string) []byte {
	b, err := os.ReadFile(path)
	c12Must(err)
	os.Remove(path)
	return b
}

// c12RunSized: the generic reader over the deviated bytes, then the typed reader.
func c12RunSized(keys [][]byte, absent []byte, typed func(x *c12Exec, in []byte)) func(x *c12Exec, in []byte) {
	return func(x *c12Exec, in []byte) {
		var db *compactindexsized.DB
		ok := x.Guard(c12eSizedOpen, func() error { d, err := compactindexsized.Open(bytes.NewReader(in)); db = d; return err })
		x.SeedOK(ok, "compactindexsized.Open")
		if ok && db != nil {
			found := true
			for _, k := range keys {
				k := k
				if !x.Guard(c12eSizedLookup, func() error { db.Prefetch(false); _, err := db.Lookup(k); return err }) {
					found = false
				}
			}
			x.SeedOK(found, "Lookup of every stored key")
			x.Guard(c12eSizedLookup, func() error { db.Prefetch(false); _, err := db.Lookup(absent); return err })
			x.Guard(c12eSizedLookupPf, func() error { db.Prefetch(true); _, err := db.Lookup(keys[0]); db.Prefetch(false); return err })
			x.Guard(c12eSizedBucket, func() error { db.Prefetch(false); _, err := db.LookupBucket(keys[0]); return err })
			x.Guard(c12eSizedLoad, func() error {
				db.Prefetch(false)
				b, err := db.LookupBucket(keys[0])
				if err != nil {
					return err
				}
				_, err = b.Load(0)
				return err
			})
		}
		typed(x, in)
	}
}

func (w *c12World) indexFamilies(dir string, thorough bool) []*c12Fam {
	ctx := context.Background()
	root := w.min.Root
	tmp := func(name string) string {
		d := filepath.Join(dir, name)
		c12Must(os.MkdirAll(d, 0o755))
		return d
	}
	var fams []*c12Fam
	add := func(name string, data []byte, run func(x *c12Exec, in []byte)) {
		fields, _, _ := c12SizedFields(data)
		fams = append(fams, &c12Fam{Name: fmt.Sprintf("index/%s/%dB", name, len(data)), Format: "index-" + name, Seed: data, Fields: fields, Run: run})
	}
	// cid-to-offset-and-size over the objects of the minimal epoch
	{
		objs := w.min.Objects
		wr, err := indexes.NewWriter_CidToOffsetAndSize(2, root, indexes.NetworkMainnet, tmp("c2o-tmp"), uint64(len(objs)))
		c12Must(err)
		var keys [][]byte
		var cids []cid.Cid
		for _, o := range objs {
			c12Must(wr.Put(o.Cid, o.Offset, o.SectionLen))
			keys = append(keys, o.Cid.Bytes())
			cids = append(cids, o.Cid)
		}
		c12Must(wr.Seal(ctx, tmp("c2o-dst")))
		data := c12ReadAndRemove(wr.GetFilepath())
		wr.Close()
		absentCid := c12SyntheticCid(999_999)
		add("cid-to-offset-and-size", data, c12RunSized(keys, absentCid.Bytes(), func(x *c12Exec, in []byte) {
			var r *indexes.CidToOffsetAndSize_Reader
			ok := x.Guard(c12eOpenCidToOas, func() error { v, err := indexes.OpenWithReader_CidToOffsetAndSize(c12Reader(in)); r = v; return err })
			x.SeedOK(ok, "OpenWithReader_CidToOffsetAndSize")
			if !ok || r == nil {
				return
			}
			for _, c := range append(append([]cid.Cid{}, cids...), absentCid) {
				c := c
				x.Guard(c12eGetCidToOas, func() error { _, err := r.Get(c); return err })
			}
		}))
	}
	// slot-to-cid over the blocks of the long epoch
	{
		blocks := w.long.Blocks
		wr, err := indexes.NewWriter_SlotToCid(2, root, indexes.NetworkMainnet, tmp("s2c-tmp"), uint64(len(blocks)))
		c12Must(err)
		var keys [][]byte
		var slots []uint64
		for _, b := range blocks {
			c12Must(wr.Put(b.Slot, b.Cid))
			keys = append(keys, indexes.Uint64tob(b.Slot))
			slots = append(slots, b.Slot)
		}
		c12Must(wr.Seal(ctx, tmp("s2c-dst")))
		data := c12ReadAndRemove(wr.GetFilepath())
		wr.Close()
		add("slot-to-cid", data, c12RunSized(keys, indexes.Uint64tob(1), func(x *c12Exec, in []byte) {
			var r *indexes.SlotToCid_Reader
			ok := x.Guard(c12eOpenSlotToCid, func() error { v, err := indexes.OpenWithReader_SlotToCid(c12Reader(in)); r = v; return err })
			x.SeedOK(ok, "OpenWithReader_SlotToCid")
			if !ok || r == nil {
				return
			}
			for _, s := range append(append([]uint64{}, slots...), 1) {
				s := s
				x.Guard(c12eGetSlotToCid, func() error { _, err := r.Get(s); return err })
			}
		}))
	}
	// sig-to-cid over the first transactions of the long epoch
	{
		txs := w.long.Txs
		if len(txs) > 6 {
			txs = txs[:6]
		}
		wr, err := indexes.NewWriter_SigToCid(2, root, indexes.NetworkMainnet, tmp("g2c-tmp"), uint64(len(txs)))
		c12Must(err)
		var keys [][]byte
		var sigs []solana.Signature
		for _, tt := range txs {
			c12Must(wr.Put(tt.Sig, tt.Cid))
			keys = append(keys, append([]byte{}, tt.Sig[:]...))
			sigs = append(sigs, tt.Sig)
		}
		c12Must(wr.Seal(ctx, tmp("g2c-dst")))
		data := c12ReadAndRemove(wr.GetFilepath())
		wr.Close()
		absent := c12SyntheticSig(777)
		add("sig-to-cid", data, c12RunSized(keys, absent[:], func(x *c12Exec, in []byte) {
			var r *indexes.SigToCid_Reader
			ok := x.Guard(c12eOpenSigToCid, func() error { v, err := indexes.OpenWithReader_SigToCid(c12Reader(in)); r = v; return err })
			x.SeedOK(ok, "OpenWithReader_SigToCid")
			if !ok || r == nil {
				return
			}
			for _, s := range append(append([]solana.Signature{}, sigs...), absent) {
				s := s
				x.Guard(c12eGetSigToCid, func() error { _, err := r.Get(s); return err })
			}
		}))
	}
	// pubkey-to-offset-and-size (the gsfa address index)
	{
		var keys [][]byte
		var pks []solana.PublicKey
		for i := 0; i < 5; i++ {
			pk := cargen.Account(i)
			keys = append(keys, pk.Bytes())
			pks = append(pks, pk)
		}
		data := c12Cached("pubkey-to-offset-and-size", func() []byte {
			wr, err := indexes.NewWriter_PubkeyToOffsetAndSize(2, root, indexes.NetworkMainnet, tmp("p2o-tmp"))
			c12Must(err)
			for i, pk := range pks {
				c12Must(wr.Put(pk, uint64(100*i), uint64(40+i)))
			}
			c12Must(wr.Seal(ctx, tmp("p2o-dst")))
			defer wr.Close()
			return c12ReadAndRemove(wr.GetFilepath())
		})
		absent := cargen.Account(4242)
		add("pubkey-to-offset-and-size", data, c12RunSized(keys, absent.Bytes(), func(x *c12Exec, in []byte) {
			var r *indexes.PubkeyToOffsetAndSize_Reader
			ok := x.Guard(c12eOpenPubkeyToOas, func() error { v, err := indexes.OpenWithReader_PubkeyToOffsetAndSize(c12Reader(in)); r = v; return err })
			x.SeedOK(ok, "OpenWithReader_PubkeyToOffsetAndSize")
			if !ok || r == nil {
				return
			}
			for _, p := range append(append([]solana.PublicKey{}, pks...), absent) {
				p := p
				x.Guard(c12eGetPubkeyToOas, func() error { _, err := r.Get(p); return err })
			}
		}))
	}
	// a large cid-to-offset-and-size index with two buckets (10 050 keys)
	{
		n := 10_050
		var keys [][]byte
		var cids []cid.Cid
		for i := 7; i < n; i += 1500 {
			c := c12SyntheticCid(i)
			keys = append(keys, c.Bytes())
			cids = append(cids, c)
		}
		data := c12Cached("cid-to-offset-and-size-10050", func() []byte {
			wr, err := indexes.NewWriter_CidToOffsetAndSize(2, root, indexes.NetworkMainnet, tmp("big-tmp"), uint64(n))
			c12Must(err)
			for i := 0; i < n; i++ {
				c12Must(wr.Put(c12SyntheticCid(i), uint64(1000+37*i), uint64(100+i%50)))
			}
			c12Must(wr.Seal(ctx, tmp("big-dst")))
			defer wr.Close()
			return c12ReadAndRemove(wr.GetFilepath())
		})
		fields, hs, spans := c12SizedFields(data)
		stride := 499
		if thorough {
			stride = 61
		}
		offs := c12Region(len(data), hs, spans, stride)
		absentCid := c12SyntheticCid(999_999)
		fams = append(fams, &c12Fam{Name: fmt.Sprintf("index/cid-to-offset-and-size-10050-keys/%dB", len(data)), Format: "index-large", Seed: data, Fields: fields,
			Offsets: offs, Truncs: offs, Bounds: fmt.Sprintf("large file: header %d bytes + bucket table + first/last 64 bytes of each bucket + every %dth offset = %d offsets, same set of truncation lengths", hs, stride, len(offs)),
			Run: c12RunSized(keys, absentCid.Bytes(), func(x *c12Exec, in []byte) {
				var r *indexes.CidToOffsetAndSize_Reader
				ok := x.Guard(c12eOpenCidToOas, func() error { v, err := indexes.OpenWithReader_CidToOffsetAndSize(c12Reader(in)); r = v; return err })
				if !ok || r == nil {
					return
				}
				for _, c := range cids {
					c := c
					x.Guard(c12eGetCidToOas, func() error { _, err := r.Get(c); return err })
				}
			})})
	}
	// legacy compactindex (8-byte values): cid -> offset
	{
		objs := w.min.Objects
		b, err := compactindex.NewBuilder(tmp("l8-tmp"), uint(len(objs)), uint64(len(w.min.Bytes)))
		c12Must(err)
		var keys [][]byte
		var cids []cid.Cid
		for _, o := range objs {
			c12Must(b.Insert(o.Cid.Bytes(), o.Offset))
			keys = append(keys, o.Cid.Bytes())
			cids = append(cids, o.Cid)
		}
		p := filepath.Join(tmp("l8-dst"), "index")
		f, err := os.Create(p)
		c12Must(err)
		c12Must(b.Seal(ctx, f))
		f.Close()
		b.Close()
		data := c12ReadAndRemove(p)
		fields, _ := c12LegacyFields(data, 3+c12IntWidth(uint64(len(w.min.Bytes))))
		absentCid := c12SyntheticCid(999_999)
		fams = append(fams, &c12Fam{Name: fmt.Sprintf("index/legacy-compactindex-cid-to-offset/%dB", len(data)), Format: "index-legacy8", Seed: data, Fields: fields,
			Run: func(x *c12Exec, in []byte) {
				var db *compactindex.DB
				ok := x.Guard(c12eLegacyOpen, func() error { d, err := compactindex.Open(bytes.NewReader(in)); db = d; return err })
				x.SeedOK(ok, "compactindex.Open")
				if ok && db != nil {
					found := true
					for _, k := range keys {
						k := k
						if !x.Guard(c12eLegacyLookup, func() error { db.Prefetch(false); _, err := db.Lookup(k); return err }) {
							found = false
						}
					}
					x.SeedOK(found, "legacy Lookup of every stored key")
					x.Guard(c12eLegacyLookup, func() error { db.Prefetch(false); _, err := db.Lookup(absentCid.Bytes()); return err })
					x.Guard(c12eLegacyLookup, func() error { db.Prefetch(true); _, err := db.Lookup(keys[0]); db.Prefetch(false); return err })
					x.Guard(c12eLegacyLoad, func() error {
						db.Prefetch(false)
						b, err := db.LookupBucket(keys[0])
						if err != nil {
							return err
						}
						_, err = b.Load(0)
						return err
					})
				}
				var r *indexes.Deprecated_CidToOffset_Reader
				ok = x.Guard(c12eOpenDepCid, func() error {
					v, err := indexes.Deprecated_OpenWithReader_CidToOffset(c12Reader(in))
					r = v
					return err
				})
				if ok && r != nil {
					for _, c := range append(append([]cid.Cid{}, cids...), absentCid) {
						c := c
						x.Guard(c12eGetDepCid, func() error { _, err := r.Get(c); return err })
					}
				}
			}})
	}
	// legacy compactindex36 (36-byte values): slot -> cid and sig -> cid, through the typed readers' old-format path
	{
		blocks := w.long.Blocks
		b, err := compactindex36.NewBuilder(tmp("l36a-tmp"), uint(len(blocks)), 0)
		c12Must(err)
		var keys [][]byte
		var slots []uint64
		for _, bl := range blocks {
			var v [36]byte
			copy(v[:], bl.Cid.Bytes())
			c12Must(b.Insert(indexes.Uint64tob(bl.Slot), v))
			keys = append(keys, indexes.Uint64tob(bl.Slot))
			slots = append(slots, bl.Slot)
		}
		p := filepath.Join(tmp("l36a-dst"), "index")
		f, err := os.Create(p)
		c12Must(err)
		c12Must(b.Seal(ctx, f))
		f.Close()
		b.Close()
		data := c12ReadAndRemove(p)
		fields, _ := c12LegacyFields(data, 39)
		fams = append(fams, &c12Fam{Name: fmt.Sprintf("index/legacy-compactindex36-slot-to-cid/%dB", len(data)), Format: "index-legacy36", Seed: data, Fields: fields,
			Run: func(x *c12Exec, in []byte) {
				var db *compactindex36.DB
				ok := x.Guard(c12eLegacy36Open, func() error { d, err := compactindex36.Open(bytes.NewReader(in)); db = d; return err })
				x.SeedOK(ok, "compactindex36.Open")
				if ok && db != nil {
					found := true
					for _, k := range keys {
						k := k
						if !x.Guard(c12eLegacy36Lookup, func() error { db.Prefetch(false); _, err := db.Lookup(k); return err }) {
							found = false
						}
					}
					x.SeedOK(found, "legacy36 Lookup of every stored key")
					x.Guard(c12eLegacy36Lookup, func() error { db.Prefetch(false); _, err := db.Lookup(indexes.Uint64tob(1)); return err })
					x.Guard(c12eLegacy36Lookup, func() error { db.Prefetch(true); _, err := db.Lookup(keys[0]); db.Prefetch(false); return err })
					x.Guard(c12eLegacy36Load, func() error {
						db.Prefetch(false)
						b, err := db.LookupBucket(keys[0])
						if err != nil {
							return err
						}
						_, err = b.Load(0)
						return err
					})
				}
				var r *indexes.SlotToCid_Reader
				ok = x.Guard(c12eOpenSlotToCid, func() error { v, err := indexes.OpenWithReader_SlotToCid(c12Reader(in)); r = v; return err })
				if ok && r != nil {
					for _, s := range append(append([]uint64{}, slots...), 1) {
						s := s
						x.Guard(c12eGetSlotToCid, func() error { _, err := r.Get(s); return err })
					}
				}
			}})
	}
	{
		txs := w.long.Txs
		if len(txs) > 6 {
			txs = txs[:6]
		}
		b, err := compactindex36.NewBuilder(tmp("l36b-tmp"), uint(len(txs)), 0)
		c12Must(err)
		var sigs []solana.Signature
		for _, tt := range txs {
			var v [36]byte
			copy(v[:], tt.Cid.Bytes())
			c12Must(b.Insert(tt.Sig[:], v))
			sigs = append(sigs, tt.Sig)
		}
		p := filepath.Join(tmp("l36b-dst"), "index")
		f, err := os.Create(p)
		c12Must(err)
		c12Must(b.Seal(ctx, f))
		f.Close()
		b.Close()
		data := c12ReadAndRemove(p)
		fields, _ := c12LegacyFields(data, 39)
		absent := c12SyntheticSig(777)
		fams = append(fams, &c12Fam{Name: fmt.Sprintf("index/legacy-compactindex36-sig-to-cid/%dB", len(data)), Format: "index-legacy36", Seed: data, Fields: fields,
			Run: func(x *c12Exec, in []byte) {
				var r *indexes.SigToCid_Reader
				ok := x.Guard(c12eOpenSigToCid, func() error { v, err := indexes.OpenWithReader_SigToCid(c12Reader(in)); r = v; return err })
				x.SeedOK(ok, "OpenWithReader_SigToCid (old format)")
				if ok && r != nil {
					for _, s := range append(append([]solana.Signature{}, sigs...), absent) {
						s := s
						x.Guard(c12eGetSigToCid, func() error { _, err := r.Get(s); return err })
					}
				}
			}})
	}
	return fams
}

func c12IntWidth(n uint64) int {
	w := 0
	for n > 0 {
		w++
		n >>= 8
	}
	return w
}

// ---------------------------------------------------------------------------------------------
// signature-existence index (bucketteer), current and legacy
// ---------------------------------------------------------------------------------------------

func (w *c12World) bucketteerFamilies(dir string, thorough bool) []*c12Fam {
	var sigs [][64]byte
	for i := 0; i < 6; i++ {
		s := c12SyntheticSig(i)
		if i == 5 { // same two-byte prefix as signature 0: a bucket with two hashes
			s[0], s[1] = sigs[0][0], sigs[0][1]
		}
		sigs = append(sigs, s)
	}
	absentSame := c12SyntheticSig(50)
	absentSame[0], absentSame[1] = sigs[0][0], sigs[0][1]
	probes := append(append([][64]byte{}, sigs...), absentSame, c12SyntheticSig(51))
	var fams []*c12Fam
	// current format
	{
		c12Must(os.MkdirAll(dir, 0o755))
		data := c12Cached("sig-exists", func() []byte {
			p := filepath.Join(dir, "sig-exists.index")
			wr, err := bucketteer.NewWriter(p)
			c12Must(err)
			for _, s := range sigs {
				wr.Put(s)
			}
			var meta indexmeta.Meta
			c12Must(meta.AddUint64(indexmeta.MetadataKey_Epoch, 2))
			_, err = wr.Seal(meta)
			c12Must(err)
			c12Must(wr.Close())
			return c12ReadAndRemove(p)
		})
		hs := int(binary.LittleEndian.Uint32(data[0:4])) + 4
		fields := []c12Field{c12Fixed(data, "header-size", 0, 4), c12Fixed(data, "version", 12, 8)}
		mf, mlen := c12MetaFields(data[20:hs], 20, "")
		fields = append(fields, mf...)
		np := 20 + mlen
		fields = append(fields, c12Fixed(data, "num-prefixes", np, 8))
		table := np + 8
		spans := [][2]int{{table, hs}}
		interesting := map[uint16]bool{0: true, 65535: true}
		for _, s := range probes {
			interesting[binary.LittleEndian.Uint16(s[:2])] = true
		}
		var pfx []int
		for k := range interesting {
			pfx = append(pfx, int(k))
		}
		sort.Ints(pfx)
		var extra []int
		for _, k := range pfx {
			eo := table + 10*k
			fields = append(fields, c12Fixed(data, fmt.Sprintf("prefix[%#04x]-offset", k), eo+2, 8))
			bo := hs + int(binary.LittleEndian.Uint64(data[eo+2:eo+10]))
			cnt := int(binary.LittleEndian.Uint32(data[bo : bo+4]))
			fields = append(fields, c12Fixed(data, fmt.Sprintf("bucket[%#04x]-num-hashes", k), bo, 4))
			spans = append(spans, [2]int{bo, bo + 4 + 8*cnt})
			for i := eo; i < eo+10; i++ {
				extra = append(extra, i)
			}
		}
		stride := 4093
		if thorough {
			stride = 509
		}
		offs := c12Region(len(data), table, spans, stride)
		offs = append(offs, extra...)
		sort.Ints(offs)
		offs = c12Uniq(offs)
		fams = append(fams, &c12Fam{Name: fmt.Sprintf("sig-exists/current/%dB", len(data)), Format: "sig-exists", Seed: data, Fields: fields, Offsets: offs, Truncs: offs,
			Bounds: fmt.Sprintf("large file: header %d bytes + first/last 64 bytes of the prefix table + the table entries and buckets of the probed prefixes + every %dth offset = %d offsets, same set of truncation lengths", table, stride, len(offs)),
			Run: func(x *c12Exec, in []byte) {
				var r *bucketteer.Reader
				ok := x.Guard(c12eBuckNew, func() error { v, err := bucketteer.NewReader(bytes.NewReader(in)); r = v; return err })
				x.SeedOK(ok, "bucketteer.NewReader")
				if !ok || r == nil {
					return
				}
				all := true
				for i, s := range probes {
					s := s
					var has bool
					g := x.Guard(c12eBuckHas, func() error { h, err := r.Has(s); has = h; return err })
					if i < len(sigs) && !(g && has) {
						all = false
					}
				}
				x.SeedOK(all, "Has of every stored signature")
			}})
	}
	// legacy format
	{
		p := filepath.Join(dir, "sig-exists-legacy.index")
		wr, err := oldbucketteer.NewWriter(p)
		c12Must(err)
		for _, s := range sigs {
			wr.Put(s)
		}
		_, err = wr.Seal(map[string]string{"epoch": "2"})
		c12Must(err)
		c12Must(wr.Close())
		data := c12ReadAndRemove(p)
		hs := int(binary.LittleEndian.Uint32(data[0:4])) + 4
		fields := []c12Field{c12Big(c12Fixed(data, "header-size", 0, 4)), c12Fixed(data, "version", 12, 8), c12Big(c12Fixed(data, "num-meta", 20, 8))}
		pos := 28
		nm := int(binary.LittleEndian.Uint64(data[20:28]))
		for i := 0; i < 2*nm; i++ {
			fields = append(fields, c12Big(c12Fixed(data, fmt.Sprintf("meta-string[%d]-len", i), pos, 4)))
			pos += 4 + int(binary.LittleEndian.Uint32(data[pos:pos+4]))
		}
		fields = append(fields, c12Big(c12Fixed(data, "num-prefixes", pos, 8)))
		np := int(binary.LittleEndian.Uint64(data[pos : pos+8]))
		pos += 8
		for i := 0; i < np; i++ {
			eo := pos + 10*i
			fields = append(fields, c12Fixed(data, fmt.Sprintf("prefix[%d]-offset", i), eo+2, 8))
			bo := hs + int(binary.LittleEndian.Uint64(data[eo+2:eo+10]))
			fields = append(fields, c12Fixed(data, fmt.Sprintf("bucket[%d]-num-hashes", i), bo, 4))
		}
		fams = append(fams, &c12Fam{Name: fmt.Sprintf("sig-exists/legacy/%dB", len(data)), Format: "sig-exists-legacy", Seed: data, Fields: fields,
			Run: func(x *c12Exec, in []byte) {
				var r *oldbucketteer.Reader
				ok := x.Guard(c12eOldBuckNew, func() error { v, err := oldbucketteer.NewReader(bytes.NewReader(in)); r = v; return err })
				x.SeedOK(ok, "deprecated/bucketteer.NewReader")
				if !ok || r == nil {
					return
				}
				all := true
				for i, s := range probes {
					s := s
					var has bool
					g := x.Guard(c12eOldBuckHas, func() error { h, err := r.Has(s); has = h; return err })
					if i < len(sigs) && !(g && has) {
						all = false
					}
				}
				x.SeedOK(all, "legacy Has of every stored signature")
			}})
	}
	return fams
}

func c12Uniq(a []int) []int {
	out := a[:0]
	for i, v := range a {
		if i == 0 || v != a[i-1] {
			out = append(out, v)
		}
	}
	return out
}

// ---------------------------------------------------------------------------------------------
// block-time index
// ---------------------------------------------------------------------------------------------

func c12BlocktimeFamilies(thorough bool) []*c12Fam {
	hdrFields := func(b []byte) []c12Field {
		return []c12Field{c12Fixed(b, "start", 14, 8), c12Fixed(b, "end", 22, 8), c12Fixed(b, "epoch", 30, 8), c12Big(c12Fixed(b, "capacity", 38, 8))}
	}
	start := uint64(2 * 432000)
	run := func(slots []uint64, n int) func(x *c12Exec, in []byte) {
		return func(x *c12Exec, in []byte) {
			var idx *blocktimeindex.Index
			ok := x.Guard(c12eBlocktimeFrom, func() error { v, err := blocktimeindex.FromBytes(in); idx = v; return err })
			x.SeedOK(ok, "blocktimeindex.FromBytes")
			if !ok || idx == nil {
				return
			}
			all := true
			for i, s := range slots {
				s := s
				g := x.Guard(c12eBlocktimeGet, func() error { _, err := idx.Get(s); return err })
				if i < n && !g {
					all = false
				}
			}
			x.SeedOK(all, "Get of every slot in range")
		}
	}
	var fams []*c12Fam
	{
		idx := blocktimeindex.NewIndexer(start, start+7, 8)
		var slots []uint64
		for s := start; s <= start+7; s++ {
			c12Must(idx.Set(s, int64(1_600_000_000+(s-start))))
			slots = append(slots, s)
		}
		data, err := idx.MarshalBinary()
		c12Must(err)
		slots = append(slots, start-1, start+8, 0, ^uint64(0))
		fams = append(fams, &c12Fam{Name: fmt.Sprintf("blocktime/capacity-8/%dB", len(data)), Format: "blocktime", Seed: data, Fields: hdrFields(data), Run: run(slots, 8)})
	}
	{
		idx := blocktimeindex.NewForEpoch(2)
		for s := start; s < start+432000; s += 1000 {
			c12Must(idx.Set(s, int64(1_600_000_000+(s-start)/2)))
		}
		c12Must(idx.Set(start+431999, 1_700_000_000))
		data, err := idx.MarshalBinary()
		c12Must(err)
		slots := []uint64{start, start + 1, start + 216000, start + 431998, start + 431999, start - 1, start + 432000, 0, ^uint64(0)}
		stride := 16381
		if thorough {
			stride = 1021
		}
		offs := c12Region(len(data), 46, [][2]int{{46, len(data)}}, stride)
		fams = append(fams, &c12Fam{Name: fmt.Sprintf("blocktime/epoch/%dB", len(data)), Format: "blocktime-large", Seed: data, Fields: hdrFields(data), Offsets: offs, Truncs: offs,
			Bounds: fmt.Sprintf("large file: 46-byte header + first/last 64 bytes of the value table + every %dth offset = %d offsets, same set of truncation lengths", stride, len(offs)),
			Run:    run(slots, 5)})
	}
	return fams
}

// ---------------------------------------------------------------------------------------------
// gsfa manifest and linked log (file-backed readers)
// ---------------------------------------------------------------------------------------------

func c12ManifestFamilies(dir string) []*c12Fam {
	c12Must(os.MkdirAll(dir, 0o755))
	p := filepath.Join(dir, "manifest-seed")
	os.Remove(p)
	var meta indexmeta.Meta
	c12Must(meta.AddUint64(indexmeta.MetadataKey_Epoch, 2))
	m, err := manifest.NewManifest(p, meta)
	c12Must(err)
	c12Must(m.Put(1, 2))
	c12Must(m.Put(3, 4))
	c12Must(m.Put(0xffffffffffff, 0x0102030405060708))
	c12Must(m.Close())
	data := c12ReadAndRemove(p)
	fields := []c12Field{c12Fixed(data, "version", 8, 8)}
	mf, _ := c12MetaFields(data[16:], 16, "")
	fields = append(fields, mf...)
	open := func(x *c12Exec, in []byte) (*manifest.Manifest, error) {
		path := filepath.Join(x.scratch, "manifest")
		if err := os.WriteFile(path, in, 0o644); err != nil {
			panic(err)
		}
		return manifest.NewManifest(path, indexmeta.Meta{})
	}
	return []*c12Fam{{Name: fmt.Sprintf("gsfa-manifest/%dB", len(data)), Format: "gsfa-manifest", Seed: data, Fields: fields,
		Run: func(x *c12Exec, in []byte) {
			// NewManifest leaks the file descriptor on its error paths (not part of the statement): let the
			// finalizers close them from time to time.
			if x.nCase%2000 == 0 {
				runtime.GC()
			}
			ok := x.Guard(c12eManifestNew, func() error {
				m, err := open(x, in)
				if m != nil {
					defer m.Close()
				}
				if err == nil {
					m.Version()
					m.Meta()
				}
				return err
			})
			x.SeedOK(ok, "manifest.NewManifest")
			if !ok {
				return
			}
			a := x.Guard(c12eManifestRead, func() error {
				m, err := open(x, in)
				if m != nil {
					defer m.Close()
				}
				if err != nil {
					return err
				}
				vals, err := m.ReadAll()
				vals.First()
				vals.Last()
				return err
			})
			b := x.Guard(c12eManifestSize, func() error {
				m, err := open(x, in)
				if m != nil {
					defer m.Close()
				}
				if err != nil {
					return err
				}
				_, err = m.ContentSizeBytes()
				return err
			})
			x.SeedOK(a && b, "manifest ReadAll / ContentSizeBytes")
		}}}
}

type c12LogState struct {
	ll   *linkedlog.LinkedLog
	path string
	last []byte
}

func c12LogFamilies(dir string) []*c12Fam {
	c12Must(os.MkdirAll(dir, 0o755))
	p := filepath.Join(dir, "linkedlog-seed")
	os.Remove(p)
	ll, err := linkedlog.NewLinkedLog(p)
	c12Must(err)
	pk := cargen.Account(1)
	type rec struct {
		off  uint64
		size uint64
	}
	var recs []rec
	prev := indexes.OffsetAndSize{}
	put := func(vals ...*linkedlog.OffsetAndSizeAndSlot) {
		_, err := ll.Put(
			func(solana.PublicKey) (indexes.OffsetAndSize, error) { return prev, nil },
			func(_ solana.PublicKey, offset uint64, ln uint32) error {
				recs = append(recs, rec{offset, uint64(ln)})
				prev = indexes.OffsetAndSize{Offset: offset, Size: uint64(ln)}
				return nil
			},
			linkedlog.KeyToOffsetAndSizeAndBlocktime{Key: pk, Values: vals})
		c12Must(err)
	}
	put(linkedlog.NewOffsetAndSizeAndSlot(1000, 300, 864005), linkedlog.NewOffsetAndSizeAndSlot(2000, 310, 864006))
	c12Must(ll.Flush())
	one := append([]byte{}, c12MustRead(p)...)
	put(linkedlog.NewOffsetAndSizeAndSlot(3000, 320, 864007), linkedlog.NewOffsetAndSizeAndSlot(4000, 330, 864008), linkedlog.NewOffsetAndSizeAndSlot(5000, 340, 864009))
	c12Must(ll.Close())
	two := c12ReadAndRemove(p)
	recFields := func(data []byte, rs []rec) []c12Field {
		var out []c12Field
		for i, r := range rs {
			l, n := binary.Uvarint(data[r.off:])
			out = append(out, c12Field{Name: fmt.Sprintf("record[%d]-len", i), Off: int(r.off), Len: n, Enc: "uvarint", Cur: l})
			end := int(r.off + r.size)
			out = append(out, c12Fixed(data, fmt.Sprintf("record[%d]-next-offset", i), end-9, 6), c12Fixed(data, fmt.Sprintf("record[%d]-next-size", i), end-3, 3))
		}
		return out
	}
	state := func(x *c12Exec) *c12LogState {
		if s, ok := x.state["linkedlog"].(*c12LogState); ok {
			return s
		}
		path := filepath.Join(x.scratch, "linkedlog")
		c12Must(os.WriteFile(path, nil, 0o644))
		l, err := linkedlog.NewLinkedLog(path)
		c12Must(err)
		s := &c12LogState{ll: l, path: path}
		x.state["linkedlog"] = s
		return s
	}
	setFile := func(s *c12LogState, content []byte) {
		// the LinkedLog keeps its *os.File; rewriting the same inode changes what Read sees
		if err := os.WriteFile(s.path, content, 0o644); err != nil {
			panic(err)
		}
	}
	mk := func(name string, data []byte, rs []rec) *c12Fam {
		return &c12Fam{Name: fmt.Sprintf("linked-log/%s/%dB", name, len(data)), Format: "linked-log", Seed: data, Fields: recFields(data, rs),
			Run: func(x *c12Exec, in []byte) {
				s := state(x)
				setFile(s, in)
				all := true
				for _, r := range rs {
					r := r
					// LinkedLog.Read (unused by the repository itself) passes the payload length where ReadWithSize
					// expects the total record size and therefore fails on valid records; it is exercised, not required.
					x.Guard(c12eLogRead, func() error { _, _, err := s.ll.Read(r.off); return err })
					b := x.Guard(c12eLogReadSize, func() error { _, _, err := s.ll.ReadWithSize(r.off, r.size); return err })
					all = all && b
				}
				x.SeedOK(all, "ReadWithSize of every record")
			}}
	}
	fams := []*c12Fam{mk("1-record", one, recs[:1]), mk("2-records", two, recs)}
	// the (offset, size) pair comes from the pubkey-to-offset-and-size index: deviate the 9-byte index value
	val := indexes.OffsetAndSize{Offset: recs[1].off, Size: recs[1].size}.Bytes()
	fams = append(fams, &c12Fam{Name: fmt.Sprintf("linked-log/index-value-of-record-1/%dB", len(val)), Format: "linked-log-pointer", Seed: val,
		Fields: []c12Field{c12Fixed(val, "offset", 0, 6), c12Fixed(val, "size", 6, 3)},
		Run: func(x *c12Exec, in []byte) {
			s := state(x)
			setFile(s, two)
			var oas indexes.OffsetAndSize
			if !x.Guard(c12eOasFromBytes, func() error { return oas.FromBytes(in) }) {
				return
			}
			a := x.Guard(c12eLogReadSize, func() error { _, _, err := s.ll.ReadWithSize(oas.Offset, oas.Size); return err })
			b := x.Guard(c12eLogRead, func() error { _, _, err := s.ll.Read(oas.Offset); return err })
			_ = b
			x.SeedOK(a, "ReadWithSize at the stored (offset, size)")
		}})
	return fams
}

func c12MustRead(p string) []byte {
	b, err := os.ReadFile(p)
	c12Must(err)
	return b
}

// ---------------------------------------------------------------------------------------------
// index metadata
// ---------------------------------------------------------------------------------------------

func (w *c12World) metaFamilies() []*c12Fam {
	root := w.min.Root
	build := func(order []string) []byte {
		var m indexmeta.Meta
		for _, k := range order {
			switch k {
			case "epoch":
				c12Must(m.AddUint64(indexmeta.MetadataKey_Epoch, 2))
			case "rootCid":
				c12Must(m.AddCid(indexmeta.MetadataKey_RootCid, root))
			case "network":
				c12Must(m.AddString(indexmeta.MetadataKey_Network, "mainnet"))
			case "kind":
				c12Must(m.Add(indexmeta.MetadataKey_Kind, []byte("slot-to-cid")))
			}
		}
		b, err := m.MarshalBinary()
		c12Must(err)
		return b
	}
	run := func(x *c12Exec, in []byte) {
		var m indexmeta.Meta
		ok := x.Guard(c12eMetaUnmarshal, func() error { m = indexmeta.Meta{}; return m.UnmarshalBinary(in) })
		x.SeedOK(ok, "Meta.UnmarshalBinary")
		if !ok {
			return
		}
		x.Guard(c12eMetaGetUint64, func() error { m.GetUint64(indexmeta.MetadataKey_Epoch); return nil })
		x.Guard(c12eMetaGetCid, func() error { m.GetCid(indexmeta.MetadataKey_RootCid); return nil })
		x.Guard(c12eMetaGet, func() error {
			m.Get(indexmeta.MetadataKey_Kind)
			m.GetString(indexmeta.MetadataKey_Network)
			m.HasDuplicateKeys()
			m.Count(indexmeta.MetadataKey_Kind)
			return nil
		})
	}
	var fams []*c12Fam
	for _, s := range []struct {
		name  string
		order []string
	}{{"epoch-only", []string{"epoch"}}, {"default-order", []string{"epoch", "rootCid", "network", "kind"}}, {"epoch-last", []string{"kind", "network", "rootCid", "epoch"}}} {
		data := build(s.order)
		f, _ := c12MetaFields(data, 0, "")
		fams = append(fams, &c12Fam{Name: fmt.Sprintf("index-metadata/%s/%dB", s.name, len(data)), Format: "index-metadata", Seed: data, Fields: f, Run: run})
	}
	return fams
}

// ---------------------------------------------------------------------------------------------
// transaction status metadata: protobuf and the two bincode formats
// ---------------------------------------------------------------------------------------------

func (w *c12World) txMetaFamilies() []*c12Fam {
	run := func(which int) func(x *c12Exec, in []byte) {
		return func(x *c12Exec, in []byte) {
			a := x.Guard(c12eParseAny, func() error { _, err := solanatxmetaparsers.ParseAnyTransactionStatusMeta(in); return err })
			b := x.Guard(c12eParseContainer, func() error {
				c, err := solanatxmetaparsers.ParseTransactionStatusMetaContainer(in)
				if err == nil {
					c.GetLoadedAccounts()
					c.IsProtobuf()
				}
				return err
			})
			oks := []bool{
				x.Guard(c12eParseProto, func() error { _, err := solanatxmetaparsers.ParseTransactionStatusMeta(in); return err }),
				x.Guard(c12eParseLatest, func() error { _, err := solanatxmetaparsers.ParseLegacyTransactionStatusMeta(in); return err }),
				x.Guard(c12eParseOldest, func() error { _, err := solanatxmetaparsers.ParseLegacyTransactionStatusMetaOldest(in); return err }),
			}
			x.SeedOK(a && b && oks[which], "parsing the seed metadata")
		}
	}
	var fams []*c12Fam
	// protobuf: the smallest and the largest metadata of the optional-fields epoch
	var pbs [][]byte
	for _, tt := range w.opt.Txs {
		if len(tt.MetaBytes) > 0 {
			pbs = append(pbs, tt.MetaBytes)
		}
	}
	sort.SliceStable(pbs, func(i, j int) bool { return len(pbs[i]) < len(pbs[j]) })
	for _, i := range []int{0, len(pbs) - 1} {
		fams = append(fams, &c12Fam{Name: fmt.Sprintf("tx-meta/protobuf/%dB", len(pbs[i])), Format: "tx-meta-protobuf", Seed: pbs[i], Fields: c12ProtoFields(pbs[i]), Run: run(0)})
	}
	// bincode, last serde format: Ok status, two balances each, one (empty) inner instruction list
	{
		inner := []metalatest.InnerInstructions{{Index: 1}}
		m := metalatest.TransactionStatusMeta{Status: &metalatest.Result__Ok{}, Fee: 5000, PreBalances: []uint64{1_000_000, 5}, PostBalances: []uint64{995_000, 5}, InnerInstructions: &inner}
		data, err := m.BincodeSerialize()
		c12Must(err)
		fields := []c12Field{c12Fixed(data, "status-variant", 0, 4), c12Big(c12Fixed(data, "pre-balances-len", 12, 8)), c12Big(c12Fixed(data, "post-balances-len", 36, 8)),
			c12Fixed(data, "inner-instructions-option", 60, 1), c12Big(c12Fixed(data, "inner-instructions-len", 61, 8)), c12Big(c12Fixed(data, "instructions-len", 70, 8))}
		fams = append(fams, &c12Fam{Name: fmt.Sprintf("tx-meta/bincode-latest/%dB", len(data)), Format: "tx-meta-bincode-latest", Seed: data, Fields: fields, Run: run(1)})
		// an instruction error: Err(InstructionError(0, Custom(7)))
		custom := metalatest.InstructionError__Custom(7)
		m2 := metalatest.TransactionStatusMeta{Status: &metalatest.Result__Err{Value: &metalatest.TransactionError__InstructionError{Field0: 0, Field1: &custom}},
			Fee: 5000, PreBalances: []uint64{1}, PostBalances: []uint64{1}}
		if data2, err := m2.BincodeSerialize(); err == nil {
			fams = append(fams, &c12Fam{Name: fmt.Sprintf("tx-meta/bincode-latest-err/%dB", len(data2)), Format: "tx-meta-bincode-latest", Seed: data2,
				Fields: []c12Field{c12Fixed(data2, "status-variant", 0, 4), c12Fixed(data2, "error-variant", 4, 4), c12Fixed(data2, "instruction-error-variant", 9, 4),
					c12Big(c12Fixed(data2, "pre-balances-len", 25, 8)), c12Big(c12Fixed(data2, "post-balances-len", 41, 8)), c12Fixed(data2, "inner-instructions-option", 57, 1)}, Run: run(1)})
		}
	}
	// bincode, oldest serde format
	{
		m := metaoldest.TransactionStatusMeta{Status: &metaoldest.Result__Ok{}, Fee: 5000, PreBalances: []uint64{1_000_000, 5}, PostBalances: []uint64{995_000, 5}}
		data, err := m.BincodeSerialize()
		c12Must(err)
		fields := []c12Field{c12Fixed(data, "status-variant", 0, 4), c12Big(c12Fixed(data, "pre-balances-len", 12, 8)), c12Big(c12Fixed(data, "post-balances-len", 36, 8))}
		fams = append(fams, &c12Fam{Name: fmt.Sprintf("tx-meta/bincode-oldest/%dB", len(data)), Format: "tx-meta-bincode-oldest", Seed: data, Fields: fields, Run: run(2)})
	}
	return fams
}

// ---------------------------------------------------------------------------------------------

// c12Families builds every seed (deterministically: parent and workers must agree byte for byte).
func c12Families(buildDir string, thorough bool) []*c12Fam {
	c12SilenceKlog()
	c12Must(os.MkdirAll(buildDir, 0o755))
	defer os.RemoveAll(buildDir)
	t0 := time.Now()
	lap := func(what string) {
		if c12Debug {
			fmt.Fprintf(os.Stderr, "c12 debug: setup %-12s %s\n", what, time.Since(t0))
			t0 = time.Now()
		}
	}
	w := c12BuildWorld()
	lap("world")
	var fams []*c12Fam
	fams = append(fams, w.ipldFamilies(thorough)...)
	fams = append(fams, w.frameFamilies()...)
	fams = append(fams, w.carFamilies()...)
	lap("ipld+car")
	fams = append(fams, w.indexFamilies(filepath.Join(buildDir, "idx"), thorough)...)
	lap("indexes")
	fams = append(fams, w.bucketteerFamilies(filepath.Join(buildDir, "buck"), thorough)...)
	lap("bucketteer")
	fams = append(fams, c12BlocktimeFamilies(thorough)...)
	lap("blocktime")
	fams = append(fams, c12ManifestFamilies(filepath.Join(buildDir, "man"))...)
	fams = append(fams, c12LogFamilies(filepath.Join(buildDir, "log"))...)
	fams = append(fams, w.metaFamilies()...)
	fams = append(fams, w.txMetaFamilies()...)
	lap("rest")
	defer lap("prepare")
	lim := c12K2Limit(thorough)
	names := map[string]bool{}
	for _, f := range fams {
		if names[f.Name] {
			panic("c12: duplicate family name " + f.Name)
		}
		names[f.Name] = true
		f.K = 1
		if f.Offsets == nil && len(f.Seed) <= lim {
			f.K = 2
		}
		for _, fl := range f.Fields {
			if fl.Off < 0 || fl.Off+fl.Len > len(f.Seed) || !bytes.Equal(fl.encode(fl.Cur), f.Seed[fl.Off:fl.Off+fl.Len]) {
				panic(fmt.Sprintf("c12: field %s of %s does not re-encode to the seed bytes", fl.Name, f.Name))
			}
		}
		f.prepare(thorough)
	}
	return fams
}
