//go:build verif

package main

import (
	"context"
	"flag"
	"fmt"
	"io"
	"net/http"
	"net/http/httptest"
	"os"
	"path/filepath"
	"runtime"
	"strings"
	"sync/atomic"
	"time"

	"github.com/allegro/bigcache/v3"
	legacybucketteer "github.com/rpcpool/yellowstone-faithful/deprecated/bucketteer"
	legacyindex "github.com/rpcpool/yellowstone-faithful/deprecated/compactindex"
	legacyindex36 "github.com/rpcpool/yellowstone-faithful/deprecated/compactindex36"
	hugecache "github.com/rpcpool/yellowstone-faithful/huge-cache"
	"github.com/rpcpool/yellowstone-faithful/indexes"
	splitcarfetcher "github.com/rpcpool/yellowstone-faithful/split-car-fetcher"
	"github.com/rpcpool/yellowstone-faithful/zzverif/cargen"
	"github.com/urfave/cli/v2"
	"github.com/valyala/fasthttp"
)

// The epoch kit wraps the repository's REAL entry points only: createAllIndexes, the
// `index gsfa` CLI action, LoadConfig + NewEpochFromConfig, NewMultiEpoch/AddEpoch and
// newMultiEpochHandler driven through an in-memory fasthttp.RequestCtx.

type vEpoch struct {
	Truth      *cargen.Truth
	Dir        string
	CarPath    string
	Paths      *IndexPaths
	GsfaDir    string
	ConfigPath string
}

func vkBase(tag string) string {
	b := os.Getenv("VERIF_SHM")
	if b == "" {
		b = "/dev/shm"
		if _, err := os.Stat(b); err != nil {
			b = os.TempDir()
		}
	}
	d := filepath.Join(b, fmt.Sprintf("verif-%s-%d", tag, os.Getpid()))
	os.MkdirAll(d, 0o755)
	return d
}

func vkGenesisPath() string {
	p, _ := filepath.Abs("radiance/genesis/testdata/mainnet/genesis.tar.bz2")
	return p
}

// vkBuildEpoch writes the CAR for shape into dir and runs the real indexers on it.
func vkBuildEpoch(dir string, shape cargen.Shape, withGsfa bool) (*vEpoch, error) {
	silenceKlog()
	os.MkdirAll(dir, 0o755)
	t := cargen.Generate(shape)
	e := &vEpoch{Truth: t, Dir: dir, CarPath: filepath.Join(dir, fmt.Sprintf("epoch-%d.car", shape.Epoch))}
	if err := os.WriteFile(e.CarPath, t.Bytes, 0o644); err != nil {
		return nil, err
	}
	idxDir := filepath.Join(dir, "indexes")
	tmpDir := filepath.Join(dir, "tmp")
	os.MkdirAll(idxDir, 0o755)
	os.MkdirAll(tmpDir, 0o755)
	paths, _, err := createAllIndexes(context.Background(), indexes.NetworkMainnet, tmpDir, e.CarPath, idxDir)
	if err != nil {
		return e, fmt.Errorf("createAllIndexes: %w", err)
	}
	e.Paths = paths
	if withGsfa {
		if err := e.buildGsfa(); err != nil {
			return e, err
		}
	}
	return e, nil
}

func (e *vEpoch) buildGsfa() error {
	idxDir := filepath.Join(e.Dir, "indexes")
	tmpDir := filepath.Join(e.Dir, "tmp")
	app := &cli.App{Name: "faithful-cli", Commands: []*cli.Command{newCmd_Index()}}
	// the indexer prints a progress line with fmt.Print: keep it off the test output
	old := os.Stdout
	devnull, _ := os.OpenFile(os.DevNull, os.O_WRONLY, 0)
	os.Stdout = devnull
	err := app.Run([]string{"faithful-cli", "index", "gsfa", "--epoch", fmt.Sprint(e.Truth.Epoch), "--sigverify=false", "--tmp-dir", tmpDir, e.CarPath, idxDir})
	os.Stdout = old
	devnull.Close()
	if err != nil {
		return fmt.Errorf("index gsfa: %w", err)
	}
	e.GsfaDir = filepath.Join(idxDir, formatIndexDirname_gsfa(e.Truth.Epoch, e.Truth.Root, indexes.NetworkMainnet))
	if _, err := os.Stat(e.GsfaDir); err != nil {
		return fmt.Errorf("gsfa dir missing: %w", err)
	}
	return nil
}

type vkConfigOpts struct {
	Name      string
	CarURI    string            // default: the local CAR
	Overrides map[string]string // index role -> path
	NoGsfa    bool
	// LegacyCidToOffset: path of a deprecated (size-less) cid-to-offset index; the config then names it under
	// indexes.cid_to_offset and leaves cid_to_offset_and_size unset (Config.IsDeprecatedIndexes()).
	LegacyCidToOffset string
	// RemoteBase: when set (e.g. "http://127.0.0.1:port"), the CAR and every index FILE are named by
	// RemoteBase + absolute path, i.e. served over HTTP by vkServeFiles (the gsfa directory stays local)
	RemoteBase string
}

// writeConfig writes an epoch config YAML and returns its path.
func (e *vEpoch) writeConfig(o vkConfigOpts) string {
	get := func(role, def string) string {
		if v, ok := o.Overrides[role]; ok {
			return v
		}
		return def
	}
	car := o.CarURI
	if car == "" {
		car = e.CarPath
	}
	if o.RemoteBase != "" {
		inner := get
		get = func(role, def string) string {
			v := inner(role, def)
			if role == "gsfa" || v == "" || strings.HasPrefix(v, "http") {
				return v
			}
			return o.RemoteBase + v
		}
		if !strings.HasPrefix(car, "http") {
			car = o.RemoteBase + car
		}
	}
	var b strings.Builder
	fmt.Fprintf(&b, "version: 1\nepoch: %d\ndata:\n  car:\n    uri: %q\nindexes:\n", e.Truth.Epoch, car)
	if o.LegacyCidToOffset != "" {
		fmt.Fprintf(&b, "  cid_to_offset:\n    uri: %q\n", o.LegacyCidToOffset)
	} else {
		fmt.Fprintf(&b, "  cid_to_offset_and_size:\n    uri: %q\n", get("cid_to_offset_and_size", e.Paths.CidToOffsetAndSize))
	}
	fmt.Fprintf(&b, "  slot_to_cid:\n    uri: %q\n", get("slot_to_cid", e.Paths.SlotToCid))
	fmt.Fprintf(&b, "  sig_to_cid:\n    uri: %q\n", get("sig_to_cid", e.Paths.SignatureToCid))
	fmt.Fprintf(&b, "  sig_exists:\n    uri: %q\n", get("sig_exists", e.Paths.SignatureExists))
	fmt.Fprintf(&b, "  slot_to_blocktime:\n    uri: %q\n", get("slot_to_blocktime", e.Paths.SlotToBlocktime))
	if g := get("gsfa", e.GsfaDir); g != "" && !o.NoGsfa {
		fmt.Fprintf(&b, "  gsfa:\n    uri: %q\n", g)
	}
	if e.Truth.Epoch == 0 {
		fmt.Fprintf(&b, "genesis:\n  uri: %q\n", vkGenesisPath())
	}
	name := o.Name
	if name == "" {
		name = "config"
	}
	p := filepath.Join(e.Dir, name+".yml")
	if err := os.WriteFile(p, []byte(b.String()), 0o644); err != nil {
		panic(err)
	}
	e.ConfigPath = p
	return p
}

var vkCache *hugecache.Cache

func vkNewCache() *hugecache.Cache {
	conf := bigcache.DefaultConfig(0)
	conf.CleanWindow = 0
	conf.Verbose = false
	conf.Shards = 16
	conf.HardMaxCacheSize = 64
	// small initial allocation (the cache grows on demand up to the hard maximum): Reset, which the server calls
	// whenever an epoch is replaced or removed, re-allocates the initial size - 64 MiB with the default window
	conf.MaxEntriesInWindow = 2000
	conf.MaxEntrySize = 500
	c, err := hugecache.NewWithConfig(context.Background(), conf)
	if err != nil {
		panic(err)
	}
	return c
}

func vkCliContext() *cli.Context {
	fs := flag.NewFlagSet("verif", flag.ContinueOnError)
	c := cli.NewContext(cli.NewApp(), fs, nil)
	c.Context = context.Background()
	return c
}

// vkLoadEpoch loads an epoch through LoadConfig + Validate + NewEpochFromConfig.
func vkLoadEpoch(configPath string, cache *hugecache.Cache) (*Epoch, error) {
	cfg, err := LoadConfig(configPath)
	if err != nil {
		return nil, fmt.Errorf("LoadConfig: %w", err)
	}
	if err := cfg.Validate(); err != nil {
		return nil, fmt.Errorf("Validate: %w", err)
	}
	if cache == nil {
		cache = vkNewCache()
	}
	return NewEpochFromConfig(cfg, vkCliContext(), cache, nil)
}

func vkNewMulti(conc int, eps ...*Epoch) *MultiEpoch {
	m := NewMultiEpoch(&Options{GsfaOnlySignatures: false, EpochSearchConcurrency: conc})
	for _, ep := range eps {
		if err := m.AddEpoch(ep.Epoch(), ep); err != nil {
			panic(err)
		}
	}
	return m
}

// vkBuildLegacyCidIndex writes a deprecated (size-less) cid-to-offset index over the epoch's CAR with the
// repository's own legacy builder: key = CID bytes, value = offset of the section in the CAR.
func vkBuildLegacyCidIndex(dir string, t *cargen.Truth) (string, error) {
	tmp := filepath.Join(dir, "legacy-build")
	if err := os.MkdirAll(tmp, 0o755); err != nil {
		return "", err
	}
	b, err := legacyindex.NewBuilder(tmp, uint(len(t.Objects)), uint64(len(t.Bytes)))
	if err != nil {
		return "", err
	}
	defer b.Close()
	for _, o := range t.Objects {
		if err := b.Insert(o.Cid.Bytes(), o.Offset); err != nil {
			return "", err
		}
	}
	path := filepath.Join(dir, "legacy.cid-to-offset.index")
	f, err := os.OpenFile(path, os.O_CREATE|os.O_RDWR|os.O_TRUNC, 0o644)
	if err != nil {
		return "", err
	}
	defer f.Close()
	if err := b.Seal(context.Background(), f); err != nil {
		return "", err
	}
	return path, nil
}

// vkBuildLegacySigExists writes the signature-existence index in the deprecated format (which a config with
// the deprecated cid-to-offset index is read with), using the repository's own legacy writer.
func vkBuildLegacySigExists(dir string, t *cargen.Truth) (string, error) {
	path := filepath.Join(dir, "legacy.sig-exists.index")
	os.Remove(path)
	w, err := legacybucketteer.NewWriter(path)
	if err != nil {
		return "", err
	}
	for _, tx := range t.Txs {
		w.Put(tx.Sig)
	}
	if _, err := w.Seal(map[string]string{}); err != nil {
		w.Close()
		return "", err
	}
	return path, w.Close()
}

// vkBuildLegacy36 writes slot-to-cid and sig-to-cid indexes in the deprecated compactindex36 format (which the
// readers still detect and serve), with the repository's own legacy builder.
func vkBuildLegacy36(dir string, t *cargen.Truth) (slotToCid, sigToCid string, err error) {
	build := func(name string, n int, fill func(b *legacyindex36.Builder) error) (string, error) {
		tmp := filepath.Join(dir, "legacy36-"+name)
		if err := os.MkdirAll(tmp, 0o755); err != nil {
			return "", err
		}
		if n == 0 {
			n = 1
		}
		b, err := legacyindex36.NewBuilder(tmp, uint(n), uint64(len(t.Bytes)))
		if err != nil {
			return "", err
		}
		defer b.Close()
		if err := fill(b); err != nil {
			return "", err
		}
		path := filepath.Join(dir, "legacy36."+name+".index")
		f, err := os.OpenFile(path, os.O_CREATE|os.O_RDWR|os.O_TRUNC, 0o644)
		if err != nil {
			return "", err
		}
		defer f.Close()
		return path, b.Seal(context.Background(), f)
	}
	cid36 := func(c interface{ Bytes() []byte }) (v [36]byte, err error) {
		cb := c.Bytes()
		if len(cb) != 36 {
			return v, fmt.Errorf("CID of %d bytes", len(cb))
		}
		copy(v[:], cb)
		return v, nil
	}
	slotToCid, err = build("slot-to-cid", len(t.Blocks), func(b *legacyindex36.Builder) error {
		for _, bl := range t.Blocks {
			v, err := cid36(t.Objects[bl.Obj].Cid)
			if err != nil {
				return err
			}
			if err := b.Insert(indexes.Uint64tob(bl.Slot), v); err != nil {
				return err
			}
		}
		return nil
	})
	if err != nil {
		return "", "", err
	}
	sigToCid, err = build("sig-to-cid", len(t.Txs), func(b *legacyindex36.Builder) error {
		for _, tx := range t.Txs {
			v, err := cid36(t.Objects[tx.Obj].Cid)
			if err != nil {
				return err
			}
			if err := b.Insert(tx.Sig[:], v); err != nil {
				return err
			}
		}
		return nil
	})
	return slotToCid, sigToCid, err
}

// writeLegacyConfig builds the two legacy-format files and writes a config that serves the epoch through
// them (indexes.cid_to_offset set, cid_to_offset_and_size unset). e.ConfigPath is left unchanged.
func (e *vEpoch) writeLegacyConfig(o vkConfigOpts) (string, error) {
	lcid, err := vkBuildLegacyCidIndex(e.Dir, e.Truth)
	if err != nil {
		return "", err
	}
	lsig, err := vkBuildLegacySigExists(e.Dir, e.Truth)
	if err != nil {
		return "", err
	}
	saved := e.ConfigPath
	o.Name, o.LegacyCidToOffset = "config-legacy", lcid
	if o.Overrides == nil {
		o.Overrides = map[string]string{}
	}
	o.Overrides["sig_exists"] = lsig
	p := e.writeConfig(o)
	e.ConfigPath = saved
	return p, nil
}

// vkPadForTxPayload searches the instruction-data padding for which a metadata-less transaction object's CAR
// section payload (CID bytes + node bytes) is exactly target bytes (the varint-width boundaries 128, 16384 are
// where section-length arithmetic goes wrong). The object is generated and measured, nothing is assumed.
func vkPadForTxPayload(target int) (int, bool) {
	measure := func(pad int) int {
		s := cargen.Shape{Epoch: 1, Blocks: []cargen.BlockShape{{SlotOffset: 5, Blocktime: 1_600_000_000,
			Entries: [][]cargen.TxShape{{{Accounts: []int{0}, TxPad: pad, NoMeta: true}}}}}}
		t := cargen.Generate(s)
		o := t.Objects[t.Txs[0].Obj]
		return len(o.Cid.Bytes()) + len(o.Data)
	}
	base := measure(0)
	if base > target {
		return 0, false
	}
	pad := target - base
	for tries := 0; tries < 40 && pad >= 0; tries++ {
		got := measure(pad)
		if got == target {
			return pad, true
		}
		pad -= got - target
	}
	return 0, false
}

// vkSplitAndConfig splits the epoch's CAR with the repository's own split-car action (target piece size `size`),
// and writes a config that serves the epoch from those pieces: data.car.from_pieces with the metadata YAML the
// action wrote and a piece-CID -> URL map pointing at remoteBase (vkServeFiles). Returns the config path and the
// number of pieces. Must not run concurrently with anything that depends on the working directory (the action
// writes its YAML into the current directory).
func (e *vEpoch) vkSplitAndConfig(size int64, remoteBase string, o vkConfigOpts) (string, int, error) {
	dir := filepath.Join(e.Dir, "split")
	out := filepath.Join(dir, "out")
	if err := os.MkdirAll(out, 0o755); err != nil {
		return "", 0, err
	}
	wd, err := os.Getwd()
	if err != nil {
		return "", 0, err
	}
	if err := os.Chdir(dir); err != nil {
		return "", 0, err
	}
	app := &cli.App{Name: "faithful-cli", Commands: []*cli.Command{newCmd_SplitCar()}, Writer: io.Discard, ErrWriter: io.Discard,
		ExitErrHandler: func(*cli.Context, error) {}}
	runErr := app.Run([]string{"faithful-cli", "split-car", "--size", fmt.Sprint(size), "--epoch", fmt.Sprint(e.Truth.Epoch),
		"--metadata", filepath.Join(dir, "metadata.csv"), "--output-dir", out, e.CarPath})
	os.Chdir(wd)
	if runErr != nil {
		return "", 0, fmt.Errorf("split-car: %w", runErr)
	}
	yamlPath := filepath.Join(dir, fmt.Sprintf("epoch-%d-metadata.yaml", e.Truth.Epoch))
	meta, err := splitcarfetcher.MetadataFromYaml(yamlPath)
	if err != nil || meta.CarPieces == nil || len(meta.CarPieces.CarPieces) == 0 {
		return "", 0, fmt.Errorf("metadata %s unreadable or empty: %v", yamlPath, err)
	}
	get := func(role, def string) string {
		if v, ok := o.Overrides[role]; ok {
			return v
		}
		return def
	}
	var b strings.Builder
	fmt.Fprintf(&b, "version: 1\nepoch: %d\ndata:\n  car:\n    from_pieces:\n      metadata:\n        uri: %q\n      piece_to_uri:\n", e.Truth.Epoch, yamlPath)
	for _, pc := range meta.CarPieces.CarPieces {
		pp := pc.Name
		if !filepath.IsAbs(pp) {
			pp = filepath.Join(out, pp)
		}
		fmt.Fprintf(&b, "        %s:\n          uri: %q\n", pc.CommP.String(), remoteBase+pp)
	}
	fmt.Fprintf(&b, "indexes:\n  cid_to_offset_and_size:\n    uri: %q\n", get("cid_to_offset_and_size", e.Paths.CidToOffsetAndSize))
	fmt.Fprintf(&b, "  slot_to_cid:\n    uri: %q\n", get("slot_to_cid", e.Paths.SlotToCid))
	fmt.Fprintf(&b, "  sig_to_cid:\n    uri: %q\n", get("sig_to_cid", e.Paths.SignatureToCid))
	fmt.Fprintf(&b, "  sig_exists:\n    uri: %q\n", get("sig_exists", e.Paths.SignatureExists))
	fmt.Fprintf(&b, "  slot_to_blocktime:\n    uri: %q\n", get("slot_to_blocktime", e.Paths.SlotToBlocktime))
	if g := get("gsfa", e.GsfaDir); g != "" && !o.NoGsfa {
		fmt.Fprintf(&b, "  gsfa:\n    uri: %q\n", g)
	}
	if e.Truth.Epoch == 0 {
		fmt.Fprintf(&b, "genesis:\n  uri: %q\n", vkGenesisPath())
	}
	p := filepath.Join(e.Dir, "config-from-pieces.yml")
	if err := os.WriteFile(p, []byte(b.String()), 0o644); err != nil {
		return "", 0, err
	}
	return p, len(meta.CarPieces.CarPieces), nil
}

// vkDrain waits (bounded) until the goroutines started by earlier requests have finished: FirstSuccess returns at
// the first hit and leaves the losing search jobs running, and closing an epoch under them is the server's
// business (C09), not something a harness should do by accident. baseline = runtime.NumGoroutine() before the
// requests were issued.
func vkDrain(baseline int) {
	last, stable := -1, 0
	for i := 0; i < 300; i++ {
		n := runtime.NumGoroutine()
		if n <= baseline {
			return
		}
		// long-lived helpers (keep-alive connections, cache GC tickers of remote files) never go away: a count
		// that has not moved for 8 polls is taken as drained
		if n == last {
			stable++
			if stable >= 8 {
				return
			}
		} else {
			last, stable = n, 0
		}
		time.Sleep(10 * time.Millisecond)
	}
}

// vkServeFiles starts a loopback HTTP file server rooted at the filesystem root (Range requests supported by
// net/http's file server): an epoch's files can then be named "base + absolute path" in a config.
func vkServeFiles() (base string, stop func()) {
	fs := http.FileServer(http.Dir("/"))
	srv := httptest.NewServer(http.HandlerFunc(func(w http.ResponseWriter, r *http.Request) {
		vkServedRequests.Add(1)
		fs.ServeHTTP(w, r)
	}))
	return srv.URL, srv.Close
}

// vkServedRequests counts the HTTP requests answered by vkServeFiles servers (evidence that remote
// configurations really went over HTTP).
var vkServedRequests atomic.Int64

// vkRequestWatchdog, when non-zero, bounds every request driven through vkHTTP / vkWatch: the call runs in
// a goroutine of its own and a call that has not returned after this long is issued a second time; only
// when the second one does not return either is it reported (vkNoAnswer). The bound is generous on purpose
// (requests take milliseconds): it turns "the server never answers" from a silent worker timeout into a
// finding and is never used as a latency oracle. Not for use under the cooperative scheduler.
var vkRequestWatchdog time.Duration

// vkNoAnswer is what vkHTTP returns as "panicked" when neither of two attempts returned.
type vkNoAnswer struct{ After time.Duration }

func (n vkNoAnswer) String() string {
	return fmt.Sprintf("no answer: the call did not return within %s, twice in a row (it is still running)", n.After)
}

// vkWatch runs f under the watchdog: true if one of (at most) two attempts returned.
func vkWatch(f func()) bool {
	if vkRequestWatchdog <= 0 {
		f()
		return true
	}
	for attempt := 0; attempt < 2; attempt++ {
		done := make(chan struct{})
		go func() { defer close(done); f() }()
		tm := time.NewTimer(vkRequestWatchdog)
		select {
		case <-done:
			tm.Stop()
			return true
		case <-tm.C:
		}
	}
	return false
}

// vkHTTP drives one HTTP request through the real handler in memory.
func vkHTTP(h func(*fasthttp.RequestCtx), method, uri string, body []byte, contentLen int) (status int, resp []byte, panicked interface{}) {
	type answer struct {
		status   int
		resp     []byte
		panicked interface{}
	}
	once := func() (a answer) {
		var req fasthttp.Request
		req.Header.SetMethod(method)
		req.SetRequestURI(uri)
		req.Header.SetContentType("application/json")
		if body != nil {
			req.SetBody(body)
		}
		if contentLen >= 0 {
			req.Header.SetContentLength(contentLen)
		}
		var ctx fasthttp.RequestCtx
		ctx.Init(&req, nil, nil)
		func() {
			defer func() {
				if r := recover(); r != nil {
					a.panicked = r
				}
			}()
			h(&ctx)
		}()
		a.status, a.resp = ctx.Response.StatusCode(), append([]byte{}, ctx.Response.Body()...)
		return a
	}
	if vkRequestWatchdog <= 0 {
		a := once()
		return a.status, a.resp, a.panicked
	}
	ch := make(chan answer, 2)
	if !vkWatch(func() { ch <- once() }) {
		return -1, nil, vkNoAnswer{vkRequestWatchdog}
	}
	a := <-ch
	return a.status, a.resp, a.panicked
}

func vkRPC(h func(*fasthttp.RequestCtx), body string) (int, []byte, interface{}) {
	return vkHTTP(h, "POST", "/", []byte(body), -1)
}
