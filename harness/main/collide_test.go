//go:build verif

package main

import (
	"crypto/sha512"
	"fmt"
	"os"

	"github.com/rpcpool/yellowstone-faithful/compactindexsized"
)

// Construction of colliding keys for the compact indexes (shared by C03 and C07): an absent key whose bucket
// and 24-bit in-bucket hash equal those of a stored key, found with the index's own hash functions.

func c03Hash24(domain uint32, key []byte) uint64 {
	return compactindexsized.EntryHash64(domain, key) & 0xffffff
}

func c03OpenBucketDomain(path string, key []byte) (uint32, *compactindexsized.DB, *os.File, error) {
	f, err := os.Open(path)
	if err != nil {
		return 0, nil, nil, err
	}
	db, err := compactindexsized.Open(f)
	if err != nil {
		f.Close()
		return 0, nil, nil, err
	}
	b, err := db.LookupBucket(key)
	if err != nil {
		f.Close()
		return 0, nil, nil, err
	}
	return b.HashDomain, db, f, nil
}

// c03FindCollider brute-forces a candidate key (gen(i)) whose bucket and 24-bit hash equal those of a stored key.
func c03FindCollider(db *compactindexsized.DB, stored [][]byte, gen func(i uint64) []byte, start uint64, maxTries uint64) (cand []byte, victim []byte, tries uint64) {
	type hk struct {
		bucket uint
		h      uint64
	}
	storedSet := map[string]bool{}
	hashes := map[hk][]byte{}
	doms := map[uint]uint32{}
	for _, k := range stored {
		storedSet[string(k)] = true
		bi := db.Header.BucketHash(k)
		if _, ok := doms[bi]; !ok {
			b, err := db.GetBucket(bi)
			if err != nil {
				continue
			}
			doms[bi] = b.HashDomain
		}
		hashes[hk{bi, c03Hash24(doms[bi], k)}] = k
	}
	for i := start; i < start+maxTries; i++ {
		k := gen(i)
		if storedSet[string(k)] {
			continue
		}
		bi := db.Header.BucketHash(k)
		d, ok := doms[bi] // most candidates fall into a bucket without a stored key: skipped cheaply
		if !ok {
			continue
		}
		if v, ok := hashes[hk{bi, c03Hash24(d, k)}]; ok {
			return k, v, i - start + 1
		}
	}
	return nil, nil, maxTries
}

func c03GenAddr(i uint64) []byte {
	h := sha512.Sum512([]byte(fmt.Sprintf("c03-absent-address-%d", i)))
	return h[:32]
}

func c03GenSig(i uint64) []byte {
	h := sha512.Sum512([]byte(fmt.Sprintf("c03-absent-sig-%d", i)))
	return h[:]
}
