//go:build verif

package accum

// C14 (part 3 of 3): the indexer path. accum.ObjectsToTransactionsAndMetadata receives the
// objects of one block in CAR order - the continuation frames of a transaction's metadata precede
// the Transaction object - and reassembles multi-frame METADATA (split transaction *data* is
// rejected by construction: "transaction data is split into multiple objects"; recorded as an
// observation). Fault-free, for every frame count, fan-out, checksum, link order and every storage
// order of the preceding frames: the parsed metadata equals the parse of the original bytes.
// Under every single fault: an error (function error or per-transaction Error) or the original.

import (
	"bytes"
	"crypto/sha256"
	"crypto/sha512"
	"encoding/json"
	"fmt"
	"hash/crc64"
	"hash/fnv"
	"path/filepath"
	"regexp"
	"runtime"
	"runtime/debug"
	"strings"
	"testing"

	"github.com/gagliardetto/solana-go"
	"github.com/ipfs/go-cid"
	"github.com/ipld/go-ipld-prime"
	"github.com/ipld/go-ipld-prime/codec/dagcbor"
	cidlink "github.com/ipld/go-ipld-prime/linking/cid"
	"github.com/klauspost/compress/zstd"
	"github.com/multiformats/go-multihash"
	"github.com/rpcpool/yellowstone-faithful/ipld/ipldbindcode"
	"github.com/rpcpool/yellowstone-faithful/iplddecoders"
	"github.com/rpcpool/yellowstone-faithful/third_party/solana_proto/confirmed_block"
	"github.com/rpcpool/yellowstone-faithful/zzverif/vkit"
	"google.golang.org/protobuf/proto"
)

func c14Account(i int) solana.PublicKey {
	h := sha256.Sum256([]byte(fmt.Sprintf("verif-account-%d", i)))
	return solana.PublicKeyFromBytes(h[:])
}

// ---------------------------------------------------------------------------------------------
// frame-chain core (same model as harness/tooling/c14_test.go, but the store holds encoded bytes)

type c14Shape struct {
	Len       int    `json:"len"`
	FrameSize int    `json:"frame_size"`
	FanOut    int    `json:"fan_out"`
	Sum       string `json:"sum"`
	Perm      []int  `json:"perm,omitempty"` // Perm[p-1] = frame index stored at layout position p
}

type c14Fault struct {
	Kind string `json:"kind"`
	I    int    `json:"i"`
	J    int    `json:"j,omitempty"`
	V    int    `json:"v,omitempty"`
}

const c14Null = -1 << 40

func c14Payload(n int, seed int) []byte {
	x := uint64(seed)*0x9E3779B97F4A7C15 + uint64(n)*0xBF58476D1CE4E5B9 + 0x1234567
	out := make([]byte, n)
	for i := range out {
		x ^= x << 13
		x ^= x >> 7
		x ^= x << 17
		out[i] = byte(x >> 24)
	}
	return out
}

func c14Chunks(payload []byte, fs int) [][]byte {
	if fs <= 0 || len(payload) <= fs {
		return [][]byte{payload}
	}
	var out [][]byte
	for off := 0; off < len(payload); off += fs {
		end := off + fs
		if end > len(payload) {
			end = len(payload)
		}
		out = append(out, payload[off:end])
	}
	return out
}

func c14NumFrames(s c14Shape) int {
	if s.FrameSize <= 0 || s.Len <= s.FrameSize {
		return 1
	}
	return (s.Len + s.FrameSize - 1) / s.FrameSize
}

func c14Sum(kind string, b []byte) uint64 {
	if kind == "fnv" {
		h := fnv.New64a()
		h.Write(b)
		return h.Sum64()
	}
	return crc64.Checksum(b, crc64.MakeTable(crc64.ISO))
}

func c14pp(v int) **int { p := &v; return &p }

func c14Children(p, n, F int) []int {
	if p != 0 && p%F != 0 {
		return nil
	}
	var out []int
	for j := p + 1; j <= p+F && j < n; j++ {
		out = append(out, j)
	}
	return out
}

func c14EncodeFrame(df *ipldbindcode.DataFrame) []byte {
	raw, err := ipld.Marshal(dagcbor.Encode, df, ipldbindcode.Prototypes.DataFrame.Type())
	if err != nil {
		panic(fmt.Errorf("reference encoder: %w", err))
	}
	return raw
}

func c14CidOf(raw []byte) cid.Cid {
	c, err := cid.Prefix{Version: 1, Codec: cid.DagCBOR, MhType: multihash.SHA2_256, MhLength: -1}.Sum(raw)
	if err != nil {
		panic(err)
	}
	return c
}

type c14Chain struct {
	Shape   c14Shape
	Payload []byte
	N       int
	Typed   []ipldbindcode.DataFrame // by layout position
	Cids    []cid.Cid
	Parent  []int
	IndexAt []int
	Hash    uint64
}

func c14Build(s c14Shape, payload []byte) *c14Chain {
	chunks := c14Chunks(payload, s.FrameSize)
	n := len(chunks)
	F := s.FanOut
	if F <= 0 {
		F = 5
	}
	c := &c14Chain{Shape: s, Payload: payload, N: n, Typed: make([]ipldbindcode.DataFrame, n), Cids: make([]cid.Cid, n), Parent: make([]int, n), IndexAt: make([]int, n)}
	for p := 1; p < n; p++ {
		c.IndexAt[p] = p
		if s.Perm != nil {
			c.IndexAt[p] = s.Perm[p-1]
		}
	}
	c.Hash = c14Sum(s.Sum, payload)
	for p := n - 1; p >= 0; p-- {
		df := ipldbindcode.DataFrame{Kind: int(iplddecoders.KindDataFrame), Data: chunks[c.IndexAt[p]], Index: c14pp(c.IndexAt[p]), Total: c14pp(n), Hash: c14pp(int(c.Hash))}
		nl := ipldbindcode.List__Link{}
		for _, ch := range c14Children(p, n, F) {
			nl = append(nl, cidlink.Link{Cid: c.Cids[ch]})
			c.Parent[ch] = p
		}
		pnl := &nl
		df.Next = &pnl
		c.Typed[p] = df
		c.Cids[p] = c14CidOf(c14EncodeFrame(&df))
	}
	return c
}

func c14Faults(s c14Shape) []c14Fault {
	n := c14NumFrames(s)
	F := s.FanOut
	out := []c14Fault{{Kind: "none"}}
	chunkLen := func(idx int) int {
		if n == 1 {
			return s.Len
		}
		if idx == n-1 {
			return s.Len - (n-1)*s.FrameSize
		}
		return s.FrameSize
	}
	indexAt := func(p int) int {
		if p == 0 || s.Perm == nil {
			return p
		}
		return s.Perm[p-1]
	}
	parent := func(p int) int {
		if p <= F {
			return 0
		}
		return ((p - 1) / F) * F
	}
	for p := 1; p < n; p++ {
		out = append(out, c14Fault{Kind: "drop-getter", I: p}, c14Fault{Kind: "drop-link", I: p}, c14Fault{Kind: "dup-link", I: p})
		if parent(p) != 0 {
			out = append(out, c14Fault{Kind: "dup-link-root", I: p})
		}
	}
	for p := 0; p < n; p++ {
		l := chunkLen(indexAt(p))
		if l <= 4 {
			for b := 0; b < 8*l; b++ {
				out = append(out, c14Fault{Kind: "bitflip", I: p, V: b})
			}
		} else {
			for by := 0; by < l; by++ {
				out = append(out, c14Fault{Kind: "bitflip", I: p, V: by*8 + by%8})
			}
		}
	}
	for p := 0; p < n; p++ {
		for j := 0; j < n; j++ {
			out = append(out, c14Fault{Kind: "swap-data", I: p, J: j})
			if p >= 1 && j >= 1 {
				out = append(out, c14Fault{Kind: "swap-node", I: p, J: j})
			}
		}
	}
	for p := 0; p < n; p++ {
		own := indexAt(p)
		for v := -1; v <= n; v++ {
			if v != own {
				out = append(out, c14Fault{Kind: "index", I: p, V: v})
			}
		}
		out = append(out, c14Fault{Kind: "index", I: p, V: c14Null})
		seenT := map[int]bool{n: true}
		for _, v := range []int{0, 1, n - 1, n + 1, c14Null} {
			if !seenT[v] {
				seenT[v] = true
				out = append(out, c14Fault{Kind: "total", I: p, V: v})
			}
		}
		for _, v := range []int{1, 2, c14Null} {
			out = append(out, c14Fault{Kind: "hash", I: p, V: v})
		}
	}
	return out
}

func c14WithNext(f ipldbindcode.DataFrame, edit func(l ipldbindcode.List__Link) ipldbindcode.List__Link) ipldbindcode.DataFrame {
	var cur ipldbindcode.List__Link
	if l, ok := f.GetNext(); ok {
		cur = append(cur, l...)
	}
	nl := edit(cur)
	pnl := &nl
	f.Next = &pnl
	return f
}

// c14Apply returns the (typed) first frame and the byte store (CID -> encoded node; nil = missing) of chain a under fault f.
func c14Apply(a, b *c14Chain, f c14Fault) (ipldbindcode.DataFrame, map[cid.Cid][]byte) {
	st := map[cid.Cid][]byte{}
	for p := 1; p < a.N; p++ {
		st[a.Cids[p]] = c14EncodeFrame(&a.Typed[p])
	}
	first := a.Typed[0]
	put := func(p int, fr ipldbindcode.DataFrame) {
		if p == 0 {
			first = fr
		} else {
			st[a.Cids[p]] = c14EncodeFrame(&fr)
		}
	}
	switch f.Kind {
	case "none":
	case "drop-getter":
		delete(st, a.Cids[f.I])
	case "drop-link":
		par := a.Parent[f.I]
		put(par, c14WithNext(a.Typed[par], func(l ipldbindcode.List__Link) ipldbindcode.List__Link {
			out := ipldbindcode.List__Link{}
			for _, x := range l {
				if x.(cidlink.Link).Cid != a.Cids[f.I] {
					out = append(out, x)
				}
			}
			return out
		}))
	case "dup-link":
		par := a.Parent[f.I]
		put(par, c14WithNext(a.Typed[par], func(l ipldbindcode.List__Link) ipldbindcode.List__Link {
			out := ipldbindcode.List__Link{}
			for _, x := range l {
				out = append(out, x)
				if x.(cidlink.Link).Cid == a.Cids[f.I] {
					out = append(out, x)
				}
			}
			return out
		}))
	case "dup-link-root":
		put(0, c14WithNext(a.Typed[0], func(l ipldbindcode.List__Link) ipldbindcode.List__Link {
			return append(l, cidlink.Link{Cid: a.Cids[f.I]})
		}))
	case "bitflip":
		cp := a.Typed[f.I]
		d := append([]byte{}, cp.Data...)
		d[f.V/8] ^= 1 << uint(f.V%8)
		cp.Data = d
		put(f.I, cp)
	case "swap-data":
		cp := a.Typed[f.I]
		cp.Data = c14Chunks(b.Payload, b.Shape.FrameSize)[f.J]
		put(f.I, cp)
	case "swap-node":
		for p := 1; p < b.N; p++ {
			st[b.Cids[p]] = c14EncodeFrame(&b.Typed[p])
		}
		put(f.I, b.Typed[f.J])
	case "index":
		cp := a.Typed[f.I]
		if f.V == c14Null {
			cp.Index = nil
		} else {
			cp.Index = c14pp(f.V)
		}
		put(f.I, cp)
	case "total":
		cp := a.Typed[f.I]
		if f.V == c14Null {
			cp.Total = nil
		} else {
			cp.Total = c14pp(f.V)
		}
		put(f.I, cp)
	case "hash":
		cp := a.Typed[f.I]
		switch f.V {
		case 1:
			cp.Hash = c14pp(int(a.Hash ^ 1))
		case 2:
			cp.Hash = c14pp(int(b.Hash))
		default:
			cp.Hash = nil
		}
		put(f.I, cp)
	default:
		panic("unknown fault " + f.Kind)
	}
	return first, st
}

func c14Perms(n int) [][]int {
	cur := make([]int, n)
	for i := range cur {
		cur[i] = i + 1
	}
	var out [][]int
	for {
		out = append(out, append([]int{}, cur...))
		i := n - 2
		for i >= 0 && cur[i] > cur[i+1] {
			i--
		}
		if i < 0 {
			return out
		}
		j := n - 1
		for cur[j] < cur[i] {
			j--
		}
		cur[i], cur[j] = cur[j], cur[i]
		for l, r := i+1, n-1; l < r; l, r = l+1, r-1 {
			cur[l], cur[r] = cur[r], cur[l]
		}
	}
}

var c14Digits = regexp.MustCompile(`[0-9]+|baf[a-z0-9]+`)

func c14ErrClass(err error) string {
	s := err.Error()
	if len(s) > 90 {
		s = s[:90]
	}
	return c14Digits.ReplaceAllString(s, "#")
}

func c14PanicSite(stack []byte) string {
	lines := strings.Split(string(stack), "\n")
	for i := 0; i+1 < len(lines); i++ {
		fn := strings.TrimSpace(lines[i])
		loc := strings.TrimSpace(lines[i+1])
		if !strings.HasPrefix(fn, "github.com/rpcpool/yellowstone-faithful") || strings.Contains(loc, "zz_verif_") || strings.Contains(fn, "/zzverif/") {
			continue
		}
		if j := strings.LastIndex(fn, "("); j > 0 {
			fn = fn[:j]
		}
		if j := strings.Index(loc, " "); j > 0 {
			loc = loc[:j]
		}
		return strings.TrimPrefix(fn, "github.com/rpcpool/yellowstone-faithful/") + "@" + filepath.Base(loc)
	}
	return "unknown-site"
}

// ---------------------------------------------------------------------------------------------
// payload material

var c14ZstdEnc = func() *zstd.Encoder {
	e, err := zstd.NewWriter(nil, zstd.WithEncoderLevel(zstd.SpeedDefault))
	if err != nil {
		panic(err)
	}
	return e
}()

func c14Zstd(b []byte) []byte { return c14ZstdEnc.EncodeAll(b, nil) }

// c14Tx returns the wire bytes of a well-formed transaction whose content depends on seed.
func c14Tx(seed int) []byte {
	var sig solana.Signature
	h := sha512.Sum512([]byte(fmt.Sprintf("c14-sig-%d", seed)))
	copy(sig[:], h[:])
	var bh solana.Hash
	copy(bh[:], h[20:52])
	keys := []solana.PublicKey{c14Account(seed), c14Account(seed + 1), solana.SystemProgramID}
	tx := solana.Transaction{
		Signatures: []solana.Signature{sig},
		Message: solana.Message{
			Header:          solana.MessageHeader{NumRequiredSignatures: 1, NumReadonlyUnsignedAccounts: 1},
			AccountKeys:     keys,
			RecentBlockhash: bh,
			Instructions:    []solana.CompiledInstruction{{ProgramIDIndex: 2, Accounts: []uint16{0, 1}, Data: append([]byte{2, 0, 0, 0}, h[:8]...)}},
		},
	}
	b, err := tx.MarshalBinary()
	if err != nil {
		panic(err)
	}
	return b
}

// c14Meta returns an uncompressed protobuf TransactionStatusMeta carrying `pad` incompressible bytes.
func c14Meta(seed, pad int) []byte {
	m := &confirmed_block.TransactionStatusMeta{Fee: uint64(5000 + seed%7), PreBalances: []uint64{10, 5}, PostBalances: []uint64{5, 5}}
	rnd := c14Payload(pad, seed)
	for len(rnd) > 0 {
		k := 32
		if len(rnd) < k {
			k = len(rnd)
		}
		m.LoadedWritableAddresses = append(m.LoadedWritableAddresses, rnd[:k])
		rnd = rnd[k:]
	}
	b, err := proto.Marshal(m)
	if err != nil {
		panic(err)
	}
	return b
}

// c14SameLen searches (constructively, deterministically) a second value whose stored form has the same length.
func c14SameLen(want int, gen func(seed int) []byte, from int) []byte {
	for s := from; s < from+2000; s++ {
		if b := gen(s); len(b) == want {
			return b
		}
	}
	panic("c14: no second payload of equal stored length")
}

func c14Single(payload []byte) ipldbindcode.DataFrame {
	nl := ipldbindcode.List__Link{}
	pnl := &nl
	return ipldbindcode.DataFrame{Kind: int(iplddecoders.KindDataFrame), Hash: c14pp(int(c14Sum("crc64", payload))), Index: c14pp(0), Total: c14pp(1), Data: payload, Next: &pnl}
}

// ---------------------------------------------------------------------------------------------
// cases

type c14aCase struct {
	Pad       int      `json:"pad"`
	Shape     c14Shape `json:"shape"`
	StorePerm []int    `json:"store_perm,omitempty"` // order of the continuation frames in the object list (layout positions)
	Second    string   `json:"second,omitempty"`     // "" | after | interleaved : a second transaction with its own frames in the same block
	Fault     c14Fault `json:"fault"`
}

type c14aBuilt struct {
	pad            int
	a, b           *c14Chain
	plainA, plainB []byte
	txA, txB       []byte
}

var c14aMatCache = map[int][4][]byte{}

func c14aMaterial(pad int) (a, b, plainA, plainB []byte) {
	if m, ok := c14aMatCache[pad]; ok {
		return m[0], m[1], m[2], m[3]
	}
	plainA = c14Meta(7, pad)
	a = c14Zstd(plainA)
	for s := 1007; ; s++ {
		plainB = c14Meta(s, pad)
		if b = c14Zstd(plainB); len(b) == len(a) {
			break
		}
		if s > 3000 {
			panic("c14: no second payload of equal stored length")
		}
	}
	c14aMatCache[pad] = [4][]byte{a, b, plainA, plainB}
	return
}

func c14aBuild(pad int, s c14Shape) *c14aBuilt {
	a, b, pa, pb := c14aMaterial(pad)
	s.Len = len(a)
	return &c14aBuilt{pad: pad, a: c14Build(s, a), b: c14Build(s, b), plainA: pa, plainB: pb, txA: c14Tx(1), txB: c14Tx(1001)}
}

func c14aTxObject(data ipldbindcode.DataFrame, meta ipldbindcode.DataFrame, idx int) ObjectWithMetadata {
	node := ipldbindcode.Transaction{Kind: int(iplddecoders.KindTransaction), Data: data, Metadata: meta, Slot: 1234, Index: c14pp(idx)}
	raw, err := ipld.Marshal(dagcbor.Encode, &node, ipldbindcode.Prototypes.Transaction.Type())
	if err != nil {
		panic(fmt.Errorf("reference encoder (transaction): %w", err))
	}
	return ObjectWithMetadata{Cid: c14CidOf(raw), Offset: uint64(1000 + idx), SectionLength: uint64(len(raw) + 38), ObjectData: raw}
}

// c14aObjects lays out the object list of the block for one case.
func c14aObjects(bt *c14aBuilt, cs c14aCase) []ObjectWithMetadata {
	first, store := c14Apply(bt.a, bt.b, cs.Fault)
	var framesA, framesB []ObjectWithMetadata
	order := make([]int, 0, bt.a.N)
	for p := 1; p < bt.a.N; p++ {
		order = append(order, p)
	}
	if cs.StorePerm != nil {
		order = cs.StorePerm
	}
	for _, p := range order {
		if raw, ok := store[bt.a.Cids[p]]; ok {
			framesA = append(framesA, ObjectWithMetadata{Cid: bt.a.Cids[p], Offset: uint64(p), SectionLength: uint64(len(raw) + 38), ObjectData: raw})
		}
	}
	if cs.Fault.Kind == "swap-node" || cs.Second != "" {
		for p := 1; p < bt.b.N; p++ {
			raw := c14EncodeFrame(&bt.b.Typed[p])
			framesB = append(framesB, ObjectWithMetadata{Cid: bt.b.Cids[p], Offset: uint64(100 + p), SectionLength: uint64(len(raw) + 38), ObjectData: raw})
		}
	}
	txA := c14aTxObject(c14Single(bt.txA), first, 0)
	var out []ObjectWithMetadata
	switch cs.Second {
	case "":
		out = append(out, framesA...)
		out = append(out, framesB...) // only for swap-node: the other payload's frames are in the store too
		out = append(out, txA)
	case "after":
		out = append(out, framesA...)
		out = append(out, txA)
		out = append(out, framesB...)
		out = append(out, c14aTxObject(c14Single(bt.txB), bt.b.Typed[0], 1))
	case "interleaved":
		// the frames of the two payloads are mixed in front of the first transaction: the second
		// transaction finds none of its frames (the map is cleared per transaction) - a rejection is expected
		for i := 0; i < len(framesA) || i < len(framesB); i++ {
			if i < len(framesB) {
				out = append(out, framesB[i])
			}
			if i < len(framesA) {
				out = append(out, framesA[i])
			}
		}
		out = append(out, txA)
		out = append(out, c14aTxObject(c14Single(bt.txB), bt.b.Typed[0], 1))
	}
	return out
}

type c14aRes struct {
	Err       error
	Pan, Site string
	TxErr     error // per-transaction Error
	OK        bool
	Describe  string
}

func c14aCheckTx(tws *TransactionWithSlot, wantTx, wantPlain []byte) (ok bool, txErr error, d string) {
	if tws.Error != nil {
		return false, tws.Error, "per-transaction error"
	}
	gb, err := tws.Transaction.MarshalBinary()
	if err != nil || !bytes.Equal(gb, wantTx) {
		return false, nil, "transaction differs"
	}
	if tws.Metadata == nil || !tws.Metadata.IsProtobuf() {
		return false, nil, fmt.Sprintf("metadata container %+v is not the protobuf form", tws.Metadata)
	}
	var want confirmed_block.TransactionStatusMeta
	if err := proto.Unmarshal(wantPlain, &want); err != nil {
		panic("harness: expected metadata does not parse")
	}
	if !proto.Equal(tws.Metadata.GetProtobuf(), &want) {
		return false, nil, "metadata differs from the parse of the original bytes"
	}
	return true, nil, ""
}

func c14aRun(bt *c14aBuilt, cs c14aCase) (res c14aRes) {
	objs := c14aObjects(bt, cs)
	block := &ipldbindcode.Block{Kind: int(iplddecoders.KindBlock), Slot: 1234, Meta: ipldbindcode.SlotMeta{Parent_slot: 1233, Blocktime: 1_600_000_000}}
	defer func() {
		if r := recover(); r != nil {
			res.Pan, res.Site = fmt.Sprint(r), c14PanicSite(debug.Stack())
		}
	}()
	txs, err := ObjectsToTransactionsAndMetadata(block, objs)
	if err != nil {
		res.Err = err
		return
	}
	defer PutTransactionWithSlotSlice(txs)
	want := 1
	if cs.Second != "" {
		want = 2
	}
	if len(txs) != want {
		res.Describe = fmt.Sprintf("%d transactions returned, %d in the block", len(txs), want)
		return
	}
	ok, terr, d := c14aCheckTx(txs[0], bt.txA, bt.plainA)
	res.OK, res.TxErr, res.Describe = ok, terr, "tx A: "+d
	if want == 2 {
		ok2, terr2, d2 := c14aCheckTx(txs[1], bt.txB, bt.plainB)
		if res.TxErr == nil {
			res.TxErr = terr2
		}
		res.OK = res.OK && ok2
		res.Describe += "; tx B: " + d2
	}
	return
}

func c14aEval(R *vkit.Report, bt *c14aBuilt, cs c14aCase) {
	const fn = "ObjectsToTransactionsAndMetadata"
	rp := map[string]interface{}{"variant": "accum", "case": cs}
	res := c14aRun(bt, cs)
	faultFree := cs.Fault.Kind == "none" && cs.Second != "interleaved"
	R.Case(cs.Fault.Kind != "none" || bt.a.N > 1, "")
	tag := cs.Fault.Kind
	if cs.Second != "" {
		tag = cs.Second + ":" + tag
	}
	switch {
	case res.Pan != "":
		R.Outcome(tag + ":panic")
		R.Violation(fmt.Sprintf("C14|panic|%s|%s|%s", cs.Fault.Kind, fn, res.Site), fmt.Sprintf("%s panicked (%s) on %+v: %s", fn, res.Site, cs, res.Pan), rp)
	case res.Err != nil || res.TxErr != nil:
		e := res.Err
		if e == nil {
			e = res.TxErr
		}
		if faultFree {
			R.Outcome(tag + ":error")
			R.Violation("C14|fault-free-error|"+fn, fmt.Sprintf("fault-free metadata of %d bytes in %d frames (%+v, storage order %v, second=%q) is rejected: %v", bt.a.Shape.Len, bt.a.N, cs.Shape, cs.StorePerm, cs.Second, e), rp)
		} else {
			R.Outcome(tag + ":error:" + c14ErrClass(e))
		}
	case res.OK:
		R.Outcome(tag + ":original")
	case faultFree:
		R.Outcome(tag + ":wrong")
		R.Violation("C14|fault-free-wrong-bytes|"+fn, fmt.Sprintf("fault-free metadata in %d frames (%+v, storage order %v, second=%q): %s", bt.a.N, cs.Shape, cs.StorePerm, cs.Second, res.Describe), rp)
	default:
		R.Outcome(tag + ":wrong")
		R.Violation(fmt.Sprintf("C14|wrong-bytes|%s|%s", cs.Fault.Kind, fn), fmt.Sprintf("%+v: no error but %s", cs, res.Describe), rp)
	}
}

type c14aGroup struct {
	Pad       int
	Shape     c14Shape
	StorePerm []int
	Second    string
}

func c14aGroups(thorough bool, R *vkit.Report) []c14aGroup {
	maxN, maxF, linkPermN, storePermN := 8, 4, 4, 6
	if thorough {
		maxN, maxF, linkPermN, storePermN = 40, 10, 5, 7
	}
	var out []c14aGroup
	seen := map[string]bool{}
	add := func(g c14aGroup) {
		k := fmt.Sprintf("%+v", g)
		if !seen[k] {
			seen[k] = true
			out = append(out, g)
		}
	}
	for _, pad := range []int{64, 3} {
		a, _, _, _ := c14aMaterial(pad)
		L := len(a)
		for _, sum := range []string{"crc64", "fnv"} {
			for F := 1; F <= maxF; F++ {
				var fss []int
				for n := 1; n <= maxN; n++ {
					fss = append(fss, (L+n-1)/n)
				}
				if pad == 3 {
					fss = []int{4} // small scope: 4-byte frames, every bit of every frame is flipped
				}
				for _, f := range fss {
					if f < 1 {
						f = 1
					}
					s := c14Shape{Len: L, FrameSize: f, FanOut: F, Sum: sum}
					n := c14NumFrames(s)
					add(c14aGroup{Pad: pad, Shape: s})
					if n >= 3 && n <= linkPermN {
						for _, pm := range c14Perms(n - 1)[1:] {
							sp := s
							sp.Perm = pm
							add(c14aGroup{Pad: pad, Shape: sp})
						}
					}
					if n >= 3 && n <= storePermN {
						for _, pm := range c14Perms(n - 1)[1:] {
							add(c14aGroup{Pad: pad, Shape: s, StorePerm: pm})
						}
					}
					if n >= 2 && (F == 1 || F == 2) {
						add(c14aGroup{Pad: pad, Shape: s, Second: "after"})
						add(c14aGroup{Pad: pad, Shape: s, Second: "interleaved"})
					}
				}
			}
		}
	}
	R.Bounds["accum:frame_counts"] = fmt.Sprintf("1..%d", maxN)
	R.Bounds["accum:fan_out"] = fmt.Sprintf("1..%d", maxF)
	R.Bounds["accum:storage_orders"] = fmt.Sprintf("all (n-1)! orders of the preceding frames in the object list for n<=%d; all link orders for n<=%d", storePermN, linkPermN)
	R.Bounds["accum:groups"] = len(out)
	return out
}

func TestVerif_C14_Accum(t *testing.T) {
	R := vkit.New("C14")
	defer R.Finish()
	runtime.GOMAXPROCS(2)
	R.Rule = "case = block object list [continuation frames of the metadata (or, with single-frame metadata, of the transaction's own bytes: 2..8 frames x fan-out 1..3) in some storage order..., Transaction] (optionally followed by / mixed with a second transaction and its frames) x (frame count x fan-out x checksum x link order x storage order) x (no fault | one single fault); ObjectsToTransactionsAndMetadata must yield the transaction and the parse of the ORIGINAL metadata when fault-free, and an error or the original under a fault; non-trivial = a fault is injected or the metadata has more than one frame"
	groups := c14aGroups(vkit.Thorough(), R)

	if rp := vkit.ReplayRequest(); rp != nil {
		if v, _ := rp["variant"].(string); v != "accum" {
			R.Note("replay file belongs to variant %q: nothing to do in this one", v)
			return
		}
		var cs c14aCase
		b, _ := json.Marshal(rp["case"])
		if err := json.Unmarshal(b, &cs); err != nil || cs.Pad == 0 {
			R.Internal("replay: cannot decode case: %v", err)
			return
		}
		c14aEval(R, c14aBuild(cs.Pad, cs.Shape), cs)
		t.Logf("replay %+v: %d violations", cs, R.NumViolations())
		return
	}

	// the transaction's own bytes in linked frames (single-frame metadata): frame counts 2..8 x fan-out 1..3 x
	// (no fault | every single fault); the continuation frames precede the Transaction object like the metadata's
	{
		txa, txb := c14Tx(1), c14Tx(1001)
		if len(txa) != len(txb) {
			R.Internal("harness: the two transactions differ in length")
			return
		}
		metaSingle := c14aBuild(64, c14Shape{FrameSize: 1 << 20, FanOut: 2, Sum: "crc64"})
		metaMulti := c14aBuild(600, c14Shape{FrameSize: 200, FanOut: 2, Sum: "crc64"})
		block := &ipldbindcode.Block{Kind: int(iplddecoders.KindBlock), Slot: 1234, Meta: ipldbindcode.SlotMeta{Parent_slot: 1233, Blocktime: 1_600_000_000}}
		didx := int64(0)
		// metaMode: 0 = metadata in one frame; 1 / 2 = metadata in linked frames too, stored before / after the
		// transaction's frames (both groups precede the Transaction object)
		for metaMode := 0; metaMode <= 2; metaMode++ {
			meta := metaSingle
			if metaMode > 0 {
				meta = metaMulti
			}
			var metaFrames []ObjectWithMetadata
			for p := 1; p < meta.a.N; p++ {
				raw := c14EncodeFrame(&meta.a.Typed[p])
				metaFrames = append(metaFrames, ObjectWithMetadata{Cid: meta.a.Cids[p], Offset: uint64(500 + p), SectionLength: uint64(len(raw) + 38), ObjectData: raw})
			}
			for n := 2; n <= 8; n++ {
				for fan := 1; fan <= 3; fan++ {
					shape := c14Shape{Len: len(txa), FrameSize: (len(txa) + n - 1) / n, FanOut: fan, Sum: "crc64"}
					cha, chb := c14Build(shape, txa), c14Build(shape, txb)
					for _, f := range c14Faults(shape) {
						mine := vkit.Mine(didx)
						didx++
						if !mine {
							continue
						}
						first, store := c14Apply(cha, chb, f)
						var objs []ObjectWithMetadata
						if metaMode == 1 {
							objs = append(objs, metaFrames...)
						}
						for p := 1; p < cha.N; p++ {
							if raw, ok := store[cha.Cids[p]]; ok {
								objs = append(objs, ObjectWithMetadata{Cid: cha.Cids[p], Offset: uint64(p), SectionLength: uint64(len(raw) + 38), ObjectData: raw})
							}
						}
						if f.Kind == "swap-node" {
							for p := 1; p < chb.N; p++ {
								raw := c14EncodeFrame(&chb.Typed[p])
								objs = append(objs, ObjectWithMetadata{Cid: chb.Cids[p], Offset: uint64(100 + p), SectionLength: uint64(len(raw) + 38), ObjectData: raw})
							}
						}
						if metaMode == 2 {
							objs = append(objs, metaFrames...)
						}
						objs = append(objs, c14aTxObject(first, meta.a.Typed[0], 0))
						rp := map[string]interface{}{"variant": "accum", "tx_data_frames": cha.N, "fan_out": fan, "fault": f, "metadata_frames": meta.a.N, "metadata_frames_stored": []string{"-", "before the transaction's frames", "after the transaction's frames"}[metaMode]}
						R.Case(true, "")
						func() {
							defer func() {
								if r := recover(); r != nil {
									R.Outcome("tx-data:" + f.Kind + ":panic")
									R.Violation("C14|panic|"+f.Kind+"|ObjectsToTransactionsAndMetadata(transaction data)|"+c14PanicSite(debug.Stack()), fmt.Sprintf("transaction data in %d frames, fault %+v: panic %v", cha.N, f, r), rp)
								}
							}()
							txs, err := ObjectsToTransactionsAndMetadata(block, objs)
							switch {
							case err != nil && f.Kind == "none":
								R.Outcome("tx-data:none:error")
								R.Violation("C14|fault-free-error|ObjectsToTransactionsAndMetadata(transaction data)", fmt.Sprintf("fault-free transaction of %d bytes stored in %d linked frames (fan-out %d; metadata in %d frame(s)), all frames among the preceding objects, is rejected: %v", len(txa), cha.N, fan, meta.a.N, err), rp)
							case err != nil:
								R.Outcome("tx-data:" + f.Kind + ":error")
							default:
								defer PutTransactionWithSlotSlice(txs)
								ok := len(txs) == 1
								d := fmt.Sprintf("%d transactions returned", len(txs))
								if ok {
									ok, _, d = c14aCheckTx(txs[0], txa, meta.plainA)
								}
								if ok {
									R.Outcome("tx-data:" + f.Kind + ":original")
								} else {
									R.Outcome("tx-data:" + f.Kind + ":wrong")
									R.Violation("C14|wrong-bytes|"+f.Kind+"|ObjectsToTransactionsAndMetadata(transaction data)", fmt.Sprintf("transaction data in %d frames, fault %+v: no error but %s", cha.N, f, d), rp)
								}
							}
						}()
					}
				}
			}
		}
	}

	idx := int64(0)
	for gi, g := range groups {
		a, _, _, _ := c14aMaterial(g.Pad)
		s := g.Shape
		s.Len = len(a)
		faults := c14Faults(s)
		if g.Second == "interleaved" {
			faults = faults[:1]
		}
		var bt *c14aBuilt
		for fi, f := range faults {
			mine := vkit.Mine(idx)
			idx++
			if !mine {
				continue
			}
			if idx%128 == 0 && R.Expired() {
				R.Note("deadline reached at group %d/%d", gi, len(groups))
				return
			}
			if bt == nil {
				bt = c14aBuild(g.Pad, g.Shape)
			}
			cs := c14aCase{Pad: g.Pad, Shape: g.Shape, StorePerm: g.StorePerm, Second: g.Second, Fault: f}
			c14aEval(R, bt, cs)
			if gi%61 == 0 && fi == len(faults)/3 {
				R.Sample(cs)
			}
		}
	}
}
