//go:build verif

package accum

import (
	"bytes"
	"context"
	"io"
	"runtime"
	"testing"
	"time"

	"github.com/rpcpool/yellowstone-faithful/carreader"
	"github.com/rpcpool/yellowstone-faithful/iplddecoders"
	"github.com/rpcpool/yellowstone-faithful/zzverif/cargen"
	"github.com/rpcpool/yellowstone-faithful/zzverif/vkit"
)

// Supplementary (sampling): the un-instrumented accumulator under the race detector, GOMAXPROCS 1..16,
// with an instantaneous and a randomly delayed consumer.
func TestVerif_C15_Race(t *testing.T) {
	R := vkit.New("C15")
	defer R.Finish()
	R.Rule = "supplementary race-detector pass: free-running traversal of a 300-block generated CAR with instantaneous / delayed consumers, GOMAXPROCS 1..16; delivered groups compared with ground truth"
	sh := cargen.SimpleShape(1, 0, 300, 2)
	tr := cargen.Generate(sh)
	sc := c15Scenario{Car: "race", Ignore: 3}
	want := c15Render(sc.reference(tr))
	for _, procs := range []int{1, 2, 4, 16} {
		for _, delay := range []bool{false, true} {
			old := runtime.GOMAXPROCS(procs)
			rd, err := carreader.New(io.NopCloser(bytes.NewReader(tr.Bytes)))
			if err != nil {
				R.Internal("%v", err)
				return
			}
			var got []c15Group
			n := 0
			oa := NewObjectAccumulator(rd, iplddecoders.KindBlock, func(parent *ObjectWithMetadata, children []ObjectWithMetadata) error {
				g := c15Group{Parent: "nil"}
				if parent != nil {
					g.Parent = c15Obj(parent.Cid, parent.Offset, parent.SectionLength, parent.ObjectData)
				}
				n++
				if delay && n%17 == 0 {
					time.Sleep(200 * time.Microsecond)
				}
				for _, ch := range children {
					g.Children = append(g.Children, c15Obj(ch.Cid, ch.Offset, ch.SectionLength, ch.ObjectData))
				}
				got = append(got, g)
				return nil
			}, sc.ignoreKinds()...)
			err = oa.Run(context.Background())
			runtime.GOMAXPROCS(old)
			R.Case(true, "")
			if err != nil || c15Render(got) != want {
				R.Violation("C15|race-pass|wrong-content", "free-running traversal delivered wrong groups", map[string]interface{}{"variant": "race"})
			}
		}
	}
	R.Sample("300 blocks x 2 consumers x GOMAXPROCS 1/2/4/16, -race")
}
