//go:build verif

package accum

import (
	"os"
	"sort"
)

func vkitEnv(k string) string { return os.Getenv(k) }
func sortStrings(s []string)  { sort.Strings(s) }
