//go:build verif

package accum

import (
	"bytes"
	"context"
	"encoding/json"
	"fmt"
	"io"
	"strings"
	"testing"

	"github.com/rpcpool/yellowstone-faithful/carreader"
	"github.com/rpcpool/yellowstone-faithful/iplddecoders"
	"github.com/rpcpool/yellowstone-faithful/zzverif/cargen"
	"github.com/rpcpool/yellowstone-faithful/zzverif/explore"
	"github.com/rpcpool/yellowstone-faithful/zzverif/vkit"
	"github.com/rpcpool/yellowstone-faithful/zzverif/vsched"
)

// C15: block-by-block CAR traversal delivers each object once with its true offset.
//
// accum/block.go is instrumented (channel, WaitGroup, Pool, go) and its two capacities shrunk
// (flush queue 1, children preallocation 2). Threads: Run (reader) and the flusher (consumer).
// For every generated CAR x ignore-set x skip x callback behaviour, ALL interleavings are executed.

type c15Group struct {
	Parent   string   // "cid@offset+len" or "nil"
	Children []string // same format
}

func c15Obj(c fmt.Stringer, off, ln uint64, data []byte) string {
	return fmt.Sprintf("%s@%d+%d#%s", c.String()[len(c.String())-8:], off, ln, vkit.Hash(string(data)))
}

type c15Scenario struct {
	Car     string `json:"car"`
	Ignore  int    `json:"ignore_mask"` // bit i set = kind c15Ignorable[i] ignored
	Skip    int    `json:"skip"`
	Yields  int    `json:"callback_yields"`
	Append  bool   `json:"callback_appends,omitempty"` // the consumer appends the parent to the children slice it was given (as split-car does)
	Replace bool   `json:"-"`
}

var c15Ignorable = []iplddecoders.Kind{iplddecoders.KindEntry, iplddecoders.KindRewards, iplddecoders.KindDataFrame, iplddecoders.KindSubset, iplddecoders.KindEpoch}

func c15Cars() map[string]cargen.Shape {
	tx := func(n int) []cargen.TxShape {
		out := make([]cargen.TxShape, n)
		for i := range out {
			out[i].Accounts = []int{i % 3}
		}
		return out
	}
	blk := func(off int, entries ...[]cargen.TxShape) cargen.BlockShape {
		return cargen.BlockShape{SlotOffset: off, Blocktime: int64(1_600_000_000 + off), Entries: entries}
	}
	m := map[string]cargen.Shape{
		"no-block":                {Epoch: 1},
		"1block-0children":        {Epoch: 1, Blocks: []cargen.BlockShape{blk(1)}},
		"2blocks-1-3children":     {Epoch: 1, Blocks: []cargen.BlockShape{blk(1, tx(0)), blk(2, tx(2))}},
		"3blocks-mixed":           {Epoch: 1, SubsetEvery: 2, Blocks: []cargen.BlockShape{blk(1, tx(1)), blk(2), blk(5, tx(1), tx(0))}},
		"5children-over-prealloc": {Epoch: 1, Blocks: []cargen.BlockShape{blk(3, tx(2), tx(1)), blk(4, tx(0))}},
	}
	m["4blocks"] = cargen.Shape{Epoch: 1, Blocks: []cargen.BlockShape{blk(1, tx(1)), blk(2, tx(1)), blk(3), blk(4, tx(2))}}
	frames := cargen.Shape{Epoch: 1, Blocks: []cargen.BlockShape{blk(7, []cargen.TxShape{{Accounts: []int{1}, Meta: cargen.PayloadShape{Pad: 500, FrameSize: 200, FanOut: 2}}})}}
	frames.Blocks[0].Rewards = &cargen.PayloadShape{Pad: 300, FrameSize: 150}
	frames.Blocks = append(frames.Blocks, blk(9, tx(1)))
	m["frames+rewards"] = frames
	// the same kind of file with section-length prefixes that take more bytes than needed (every second one)
	m["padded-length-prefixes"] = cargen.Shape{Epoch: 1, PaddedLengths: 2, Blocks: []cargen.BlockShape{blk(1, tx(1)), blk(2, tx(2))}}
	return m
}

func (sc c15Scenario) ignoreKinds() []iplddecoders.Kind {
	var ks []iplddecoders.Kind
	for i, k := range c15Ignorable {
		if sc.Ignore&(1<<i) != 0 {
			ks = append(ks, k)
		}
	}
	return ks
}

func (sc c15Scenario) reference(t *cargen.Truth) []c15Group {
	ign := iplddecoders.KindSlice(sc.ignoreKinds())
	var out []c15Group
	var acc []string
	for i, o := range t.Objects {
		if i < sc.Skip {
			continue
		}
		s := c15Obj(o.Cid, o.Offset, o.SectionLen, o.Data)
		if o.Kind == cargen.KindBlock {
			out = append(out, c15Group{Parent: s, Children: acc})
			acc = nil
			continue
		}
		if ign.Has(iplddecoders.Kind(o.Kind)) {
			continue
		}
		acc = append(acc, s)
	}
	if len(acc) > 0 {
		out = append(out, c15Group{Parent: "nil", Children: acc})
	}
	return out
}

func c15Render(gs []c15Group) string {
	var b strings.Builder
	for _, g := range gs {
		fmt.Fprintf(&b, "[%s <- %s] ", g.Parent, strings.Join(g.Children, ","))
	}
	return b.String()
}

func (sc c15Scenario) run(c *explore.Ctx, t *cargen.Truth, want string) explore.Result {
	var got, got2 []c15Group
	var runErr error
	returned := false
	deliveredAtReturn := 0
	snapshot := func(parent *ObjectWithMetadata, children []ObjectWithMetadata) c15Group {
		g := c15Group{Parent: "nil"}
		if parent != nil {
			g.Parent = c15Obj(parent.Cid, parent.Offset, parent.SectionLength, parent.ObjectData)
		}
		for _, ch := range children {
			g.Children = append(g.Children, c15Obj(ch.Cid, ch.Offset, ch.SectionLength, ch.ObjectData))
		}
		return g
	}
	s := vsched.Run(c, vsched.Options{Horizon: 5000, Drain: true, Canonical: true}, func() {
		rd, err := carreader.New(io.NopCloser(bytes.NewReader(t.Bytes)))
		if err != nil {
			runErr = err
			return
		}
		oa := NewObjectAccumulator(rd, iplddecoders.KindBlock, func(parent *ObjectWithMetadata, children []ObjectWithMetadata) error {
			got = append(got, snapshot(parent, children))
			for i := 0; i < sc.Yields; i++ {
				vsched.Yield("callback")
			}
			// the delivered objects must still be intact when the (slow) consumer finishes with them
			got2 = append(got2, snapshot(parent, children))
			if sc.Append && parent != nil {
				// the slice handed to the callback is the consumer's: appending to it (cmd-car-split.go builds the
				// block's family this way) must not reach into another group
				family := append(children, *parent)
				_ = family
			}
			return nil
		}, sc.ignoreKinds()...)
		oa.SetSkip(uint64(sc.Skip))
		runErr = oa.Run(context.Background())
		returned = true
		deliveredAtReturn = len(got2)
	})
	if c.Pruned {
		return explore.Result{}
	}
	res := explore.Result{NonTrivial: s.Switches > 2}
	bad := func(class, what string) {
		if res.Violation == nil {
			res.Violation = &explore.Violation{Key: "C15|" + class, What: what}
		}
	}
	switch {
	case s.Panic != "":
		if strings.Contains(s.Panic, "replay divergence") {
			panic(s.Panic)
		}
		res.Outcome = "panic"
		bad("panic", "traversal panicked: "+strings.SplitN(s.Panic, "\n", 2)[0])
	case s.Deadlock:
		res.Outcome = "deadlock"
		bad("deadlock", "reader and consumer goroutines deadlock: "+s.DeadlockInfo)
	case s.HorizonHit:
		res.Outcome = "horizon"
	case !returned || runErr != nil:
		res.Outcome = fmt.Sprintf("run-error:%v", runErr)
		bad("run-error", fmt.Sprintf("Run failed on a well-formed CAR: returned=%v err=%v", returned, runErr))
	default:
		g := c15Render(got)
		res.Outcome = vkit.Hash(g)
		if g != want {
			bad(c15Class(got, want), fmt.Sprintf("delivered groups differ from the file: want %s got %s", want, g))
		} else if g2 := c15Render(got2); g2 != want {
			bad("mutated-during-callback", fmt.Sprintf("objects changed while the consumer was still using them: at entry %s, at exit %s", g, g2))
		}
		if deliveredAtReturn != len(got2) {
			bad("delivered-after-return", fmt.Sprintf("Run returned after %d of %d groups had been delivered (callers close their sinks right after Run)", deliveredAtReturn, len(got2)))
		}
		if len(s.Leaked) > 0 {
			bad("flusher-leak", "consumer goroutine still blocked after Run returned: "+strings.Join(s.Leaked, ","))
		}
	}
	return res
}

func c15Class(got []c15Group, want string) string {
	// coarse classification for a stable key
	w := strings.Count(want, "[")
	switch {
	case len(got) < w:
		return "missing-group"
	case len(got) > w:
		return "extra-group"
	}
	return "wrong-content"
}

func TestVerif_C15(t *testing.T) {
	R := vkit.New("C15")
	defer R.Finish()
	R.Rule = "scenario = generated CAR (8 layouts: no block, blocks with 0..3 children, more children than the preallocation, trailing non-block objects, multi-frame payloads and rewards, section-length prefixes longer than needed) x ignore-set (all 32 subsets of {Entry,Rewards,DataFrame,Subset,Epoch}) x skip {0,1} x consumer callback with 0..2 scheduling points, with and without appending the parent to the children slice it was given; for each scenario every interleaving of the reading and the consuming goroutine is executed on the instrumented accumulator (queue capacity 1, preallocation 2) with happens-before state pruning; oracle = delivered (parent, children) groups with offsets, section lengths and content hashes equal to the generator's ground truth, unchanged until the callback returns, and Run terminates; non-trivial = more than 2 context switches"
	R.Assume("flush queue capacity and children preallocation are shrunk (1 and 2) so that back-pressure and reallocation happen on small CARs; the CAR reader itself has no scheduling points (runs atomically between channel operations)")
	if u := vkitEnv("VERIF_UNMATCHED_RULES"); u != "" {
		R.Note("shrinking rules that no longer match (real constants kept): %s", u)
	}
	cars := c15Cars()
	truths := map[string]*cargen.Truth{}
	var names []string
	for n, sh := range cars {
		truths[n] = cargen.Generate(sh)
		names = append(names, n)
	}
	sortStrings(names)
	if rp := vkit.ReplayRequest(); rp != nil {
		var sc c15Scenario
		b, _ := json.Marshal(rp["scenario"])
		json.Unmarshal(b, &sc)
		tr := truths[sc.Car]
		want := c15Render(sc.reference(tr))
		res, _, err := explore.Replay(vkit.Ints(rp["choices"]), func(c *explore.Ctx) explore.Result { return sc.run(c, tr, want) })
		t.Logf("replay %+v outcome=%s violation=%+v err=%v", sc, res.Outcome, res.Violation, err)
		if res.Violation != nil {
			R.Violation(res.Violation.Key, res.Violation.What, rp)
		}
		R.Case(true, "")
		return
	}
	var scs []c15Scenario
	yields := []int{0, 1}
	if vkit.Thorough() {
		yields = []int{0, 1, 2}
	}
	for _, n := range names {
		for mask := 0; mask < 32; mask++ {
			for skip := 0; skip <= 1; skip++ {
				for _, y := range yields {
					scs = append(scs, c15Scenario{Car: n, Ignore: mask, Skip: skip, Yields: y})
					if y >= 1 {
						scs = append(scs, c15Scenario{Car: n, Ignore: mask, Skip: skip, Yields: y, Append: true})
					}
				}
			}
		}
	}
	R.Bounds["scenarios_total"] = len(scs)
	R.Bounds["preemption_bound"] = "none (all interleavings)"
	for idx, sc := range scs {
		if !vkit.Mine(int64(idx)) {
			continue
		}
		if R.Expired() {
			R.Note("deadline reached at scenario %d", idx)
			break
		}
		sc := sc
		tr := truths[sc.Car]
		want := c15Render(sc.reference(tr))
		runf := func(c *explore.Ctx) explore.Result { return sc.run(c, tr, want) }
		st := explore.Search(explore.Config{Bound: -1, Deadline: R.Deadline(), Prune: true}, runf)
		R.Evaluations += st.Executions
		R.NonTrivial += st.NonTrivial
		R.Transitions += st.Points
		R.TracesValidated += st.Executions
		R.States += st.States
		R.Add("scenarios", 1)
		R.Add("pruned_executions", st.Pruned)
		if st.CapHit {
			R.CapHit, R.Exhaustive = true, false
		}
		for o := range st.Outcomes {
			R.Outcome(sc.Car + ":" + o)
		}
		if idx%131 == 0 && len(st.Samples) > 0 {
			R.Sample(map[string]interface{}{"scenario": sc, "executions": st.Executions, "states": st.States, "a_schedule": st.Samples[len(st.Samples)-1], "groups_expected": strings.Count(want, "[")})
		}
		seen := map[string]bool{}
		for _, f := range st.Violations {
			if seen[f.Violation.Key] {
				continue
			}
			seen[f.Violation.Key] = true
			if ok, why := explore.Confirm(f, 5, runf); !ok {
				R.InconclusiveF("violation %s in %+v did not reproduce 5x: %s", f.Violation.Key, sc, why)
				continue
			}
			R.Violation(f.Violation.Key, fmt.Sprintf("%s [scenario %+v]", f.Violation.What, sc), map[string]interface{}{"scenario": sc, "choices": f.Choices})
		}
	}
}
