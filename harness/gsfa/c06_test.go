//go:build verif

package gsfa

import (
	"context"
	"flag"
	"fmt"
	"io"
	"os"
	"path/filepath"
	"strings"
	"testing"

	"github.com/gagliardetto/solana-go"
	"github.com/ipfs/go-cid"
	"github.com/rpcpool/yellowstone-faithful/gsfa/linkedlog"
	"github.com/rpcpool/yellowstone-faithful/indexes"
	"github.com/rpcpool/yellowstone-faithful/indexmeta"
	"github.com/rpcpool/yellowstone-faithful/zzverif/explore"
	"github.com/rpcpool/yellowstone-faithful/zzverif/vkit"
	"github.com/rpcpool/yellowstone-faithful/zzverif/vsched"
	"k8s.io/klog/v2"
)

// C06: the address index returns every indexed transaction of an address, newest first.
//
// Variant "sched" (gsfa-write.go instrumented, thresholds shrunk): every push history up to a
// depth over the alphabet {A},{B},{A,B} x slot parity, and for each history every interleaving
// (preemption-bounded, happens-before state pruning) of the pushing/closing thread with the
// background flusher goroutine. After Close the REAL reader reads both addresses.
// Variant "real" (nothing instrumented): per-address counts around the real batch size.
// Variant "reclen": linked-log records of every length in the target windows.

var (
	c06Root = cid.MustParse("bafyreics5uul5lbtxslcigtoa5fkba7qgwu7cyb7ih7z6fzsh4lgfgraau")
	c06A    = solana.PublicKey{9, 9, 9}
	c06B    = solana.PublicKey{7}
)

func c06Silence() {
	fs := flag.NewFlagSet("klog", flag.ContinueOnError)
	klog.InitFlags(fs)
	fs.Set("logtostderr", "false")
	fs.Set("stderrthreshold", "FATAL")
	klog.SetOutput(io.Discard)
}

type c06Push struct {
	Addrs int  `json:"addrs"` // 1=A 2=B 3=A,B
	Even  bool `json:"even_slot"`
}

type c06Entry struct {
	Offset, Size, Slot uint64
	Flags              uint8
}

func (e c06Entry) String() string {
	return fmt.Sprintf("%d/%d/%d/%d", e.Offset, e.Size, e.Slot, e.Flags)
}

func c06Base() string {
	b := os.Getenv("VERIF_SHM")
	if b == "" {
		b = "/dev/shm"
		if _, err := os.Stat(b); err != nil {
			b = os.TempDir()
		}
	}
	return filepath.Join(b, fmt.Sprintf("verif-c06-%d", os.Getpid()))
}

var c06Seq int

// c06Write runs the history on a fresh writer; returns the index dir.
func c06Write(dir string, hist []c06Push) (ref map[solana.PublicKey][]c06Entry, err error) {
	ref = map[solana.PublicKey][]c06Entry{}
	os.MkdirAll(filepath.Join(dir, "tmp"), 0o755)
	w, err := NewGsfaWriter(filepath.Join(dir, "idx"), indexmeta.Meta{}, 1, c06Root, indexes.NetworkMainnet, filepath.Join(dir, "tmp"))
	if err != nil {
		return ref, fmt.Errorf("NewGsfaWriter: %w", err)
	}
	slot := uint64(432001)
	for i, p := range hist {
		// slots never decrease; parity as requested
		slot++
		if (slot%2 == 0) != p.Even {
			slot++
		}
		var pks solana.PublicKeySlice
		if p.Addrs&1 != 0 {
			pks = append(pks, c06A)
		}
		if p.Addrs&2 != 0 {
			pks = append(pks, c06B)
		}
		e := c06Entry{Offset: uint64(1000 + i), Size: uint64(10 + i), Slot: slot}
		hasMeta, isSuccess, isVote := i%2 == 0, i%3 != 0, i%5 == 1
		var fl linkedlog.OffsetAndSizeAndSlot
		fl.SetHasMeta(hasMeta)
		fl.SetIsSuccess(isSuccess)
		fl.SetIsVote(isVote)
		e.Flags = uint8(fl.Flags)
		if err := w.Push(e.Offset, e.Size, e.Slot, pks, hasMeta, isSuccess, isVote); err != nil {
			return ref, fmt.Errorf("Push %d: %w", i, err)
		}
		for _, pk := range pks {
			ref[pk] = append([]c06Entry{e}, ref[pk]...) // newest first
		}
	}
	if err := w.Close(); err != nil {
		return ref, fmt.Errorf("Close: %w", err)
	}
	return ref, nil
}

// c06ReadBack reads address pk through the real reader.
func c06ReadBack(dir string, pk solana.PublicKey) ([]c06Entry, error) {
	r, err := NewGsfaReader(filepath.Join(dir, "idx"))
	if err != nil {
		return nil, fmt.Errorf("open: %w", err)
	}
	defer r.Close()
	got, err := r.Get(context.Background(), pk, 1<<30)
	if err != nil {
		return nil, err
	}
	out := make([]c06Entry, 0, len(got))
	for _, g := range got {
		out = append(out, c06Entry{g.Offset, g.Size, g.Slot, uint8(g.Flags)})
	}
	return out, nil
}

// c06Compare classifies the difference between what the reader returned and the reference.
func c06Compare(got []c06Entry, gerr error, want []c06Entry) (class, detail string) {
	if len(want) == 0 {
		if gerr == nil && len(got) > 0 {
			return "phantom", fmt.Sprintf("address never indexed but reader returned %v", got)
		}
		return "", ""
	}
	if gerr != nil {
		return "missing-address", fmt.Sprintf("address with %d indexed transactions: reader error %v", len(want), gerr)
	}
	if fmt.Sprint(got) == fmt.Sprint(want) {
		return "", ""
	}
	cnt := map[c06Entry]int{}
	for _, e := range want {
		cnt[e]++
	}
	extra := false
	for _, e := range got {
		cnt[e]--
		if cnt[e] < 0 {
			extra = true
		}
	}
	missing := false
	for _, n := range cnt {
		if n > 0 {
			missing = true
		}
	}
	short := func(x []c06Entry) string {
		if len(x) > 12 {
			return fmt.Sprintf("%v ... (%d entries)", x[:12], len(x))
		}
		return fmt.Sprint(x)
	}
	switch {
	case missing:
		return "missing-entries", fmt.Sprintf("want %s got %s", short(want), short(got))
	case extra:
		return "duplicate-or-foreign-entries", fmt.Sprintf("want %s got %s", short(want), short(got))
	default:
		return "order", fmt.Sprintf("same entries, wrong order: want %s got %s", short(want), short(got))
	}
}

type c06Scenario struct {
	Hist  []c06Push `json:"history"`
	Bound int       `json:"bound"`
}

func (sc c06Scenario) name() string {
	var b strings.Builder
	for _, p := range sc.Hist {
		b.WriteString([]string{"", "A", "B", "AB"}[p.Addrs])
		if p.Even {
			b.WriteString("e")
		} else {
			b.WriteString("o")
		}
		b.WriteString(" ")
	}
	return strings.TrimSpace(b.String())
}

func (sc c06Scenario) run(c *explore.Ctx) explore.Result {
	c06Seq++
	dir := filepath.Join(c06Base(), fmt.Sprint(c06Seq))
	defer os.RemoveAll(dir)
	var ref map[solana.PublicKey][]c06Entry
	var werr error
	s := vsched.Run(c, vsched.Options{Horizon: 3000, Drain: true}, func() {
		ref, werr = c06Write(dir, sc.Hist)
	})
	if c.Pruned {
		return explore.Result{}
	}
	res := explore.Result{NonTrivial: s.Preemptions > 0}
	bad := func(class, what string) {
		if res.Violation == nil {
			res.Violation = &explore.Violation{Key: "C06|sched|" + class, What: what}
		}
	}
	switch {
	case s.Panic != "":
		if strings.Contains(s.Panic, "replay divergence") {
			panic(s.Panic)
		}
		res.Outcome = "panic"
		bad("panic", "writer panicked: "+strings.SplitN(s.Panic, "\n", 2)[0])
		return res
	case s.Deadlock:
		res.Outcome = "deadlock"
		bad("deadlock", "Push/Close and the background flusher deadlock: "+s.DeadlockInfo)
		return res
	case s.HorizonHit:
		res.Outcome = "horizon"
		return res
	case werr != nil:
		res.Outcome = "write-error"
		bad("write-error", werr.Error())
		return res
	}
	var parts []string
	for _, pk := range []solana.PublicKey{c06A, c06B} {
		got, gerr := c06ReadBack(dir, pk)
		class, detail := c06Compare(got, gerr, ref[pk])
		name := map[solana.PublicKey]string{c06A: "A", c06B: "B"}[pk]
		parts = append(parts, fmt.Sprintf("%s:%d/%d:%s", name, len(got), len(ref[pk]), class))
		if class != "" {
			bad(class, fmt.Sprintf("address %s after history [%s]: %s", name, sc.name(), detail))
		}
	}
	if len(s.Leaked) > 0 {
		parts = append(parts, "leaked")
		bad("flusher-leak", "background flusher still blocked after Close returned: "+strings.Join(s.Leaked, ","))
	}
	res.Outcome = strings.Join(parts, " ")
	return res
}

func c06Histories(maxLen int) [][]c06Push {
	alphabet := []c06Push{{1, false}, {1, true}, {2, false}, {2, true}, {3, false}, {3, true}}
	var out [][]c06Push
	for n := 1; n <= maxLen; n++ {
		dims := make([]int, n)
		for i := range dims {
			dims[i] = len(alphabet)
		}
		explore.Product(dims, func(ix []int) bool {
			h := make([]c06Push, n)
			for i, a := range ix {
				h[i] = alphabet[a]
			}
			out = append(out, h)
			return true
		})
	}
	return out
}

func TestVerif_C06_Sched(t *testing.T) {
	c06Silence()
	R := vkit.New("C06")
	defer R.Finish()
	defer os.RemoveAll(c06Base())
	R.Rule = "variant sched: history = sequence of pushes over {A},{B},{A,B} x slot parity followed by Close; for every history every interleaving of the pushing thread with the background flusher within the preemption bound is executed on the instrumented writer (thresholds shrunk), then the real reader reads A and B and the result is compared with the reverse push order; non-trivial = execution with at least one preemption. variant real: un-instrumented writer with per-address counts around the real batch size. variant reclen: records of every length in the target windows written and read back."
	R.Assume("thresholds named by the property are shrunk in the scheduled variant (batch size, parked-buffer count, channel capacity, periodic-flush thresholds) together with two performance-only sizes (linked-log buffer, declared pubkey count); the un-instrumented 'real' variant exercises the real thresholds")
	R.Assume("a polling iteration of the flusher that observes no change is idempotent (virtual timer rule)")
	R.Assume("library code without scheduling points (linked log, hashmap, zstd) runs atomically inside one step")
	if u := os.Getenv("VERIF_UNMATCHED_RULES"); u != "" {
		R.Note("shrinking rules that no longer match (real constants kept): %s", u)
	}
	if rp := vkit.ReplayRequest(); rp != nil {
		if rp["variant"] != nil && rp["variant"] != "sched" {
			return
		}
		var sc c06Scenario
		vkitRemarshal(rp["scenario"], &sc)
		res, _, err := explore.Replay(vkit.Ints(rp["choices"]), sc.run)
		t.Logf("replay [%s] outcome=%s violation=%+v err=%v", sc.name(), res.Outcome, res.Violation, err)
		if res.Violation != nil {
			R.Violation(res.Violation.Key, res.Violation.What, rp)
		}
		R.Case(true, "")
		return
	}
	maxLen, bound := 4, 2
	if vkit.Thorough() {
		maxLen, bound = 6, 3
	}
	if v := os.Getenv("VERIF_C06_MAXLEN"); v != "" {
		fmt.Sscan(v, &maxLen)
	}
	hists := c06Histories(maxLen)
	R.Bounds["max_history_length"] = maxLen
	R.Bounds["preemption_bound"] = bound
	R.Bounds["histories_total"] = len(hists)
	// determinism self-test
	{
		sc := c06Scenario{Hist: hists[len(hists)/2], Bound: bound}
		r1 := sc.run(explore.NewCtx([]int{0, 1}))
		r2 := sc.run(explore.NewCtx([]int{0, 1}))
		if r1.Outcome != r2.Outcome {
			R.Internal("nondeterministic replay: %q vs %q", r1.Outcome, r2.Outcome)
			return
		}
	}
	for idx, h := range hists {
		if !vkit.Mine(int64(idx)) {
			continue
		}
		if R.Expired() {
			R.Note("deadline reached at history %d of %d", idx, len(hists))
			break
		}
		sc := c06Scenario{Hist: h, Bound: bound}
		st := explore.Search(explore.Config{Bound: bound, Deadline: R.Deadline(), Prune: true}, sc.run)
		R.Evaluations += st.Executions
		R.NonTrivial += st.NonTrivial
		R.Transitions += st.Points
		R.TracesValidated += st.Executions
		R.States += st.States
		R.Add("histories", 1)
		R.Add("pruned_executions", st.Pruned)
		if st.CapHit {
			R.CapHit, R.Exhaustive = true, false
		}
		for o := range st.Outcomes {
			R.Outcome(o)
		}
		if idx%97 == 0 && len(st.Samples) > 0 {
			R.Sample(map[string]interface{}{"history": sc.name(), "executions": st.Executions, "states": st.States, "a_schedule": st.Samples[len(st.Samples)-1]})
		}
		seen := map[string]bool{}
		for _, f := range st.Violations {
			if seen[f.Violation.Key] {
				continue
			}
			seen[f.Violation.Key] = true
			if ok, why := explore.Confirm(f, 5, sc.run); !ok {
				R.InconclusiveF("violation %s in [%s] did not reproduce 5x: %s", f.Violation.Key, sc.name(), why)
				continue
			}
			R.Violation(f.Violation.Key, f.Violation.What, map[string]interface{}{"variant": "sched", "scenario": sc, "choices": f.Choices})
		}
	}
}
