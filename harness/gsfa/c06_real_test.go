//go:build verif

package gsfa

import (
	"context"
	"encoding/binary"
	"fmt"
	"math/rand"
	"os"
	"path/filepath"
	"sort"
	"testing"

	"github.com/gagliardetto/solana-go"
	"github.com/rpcpool/yellowstone-faithful/gsfa/linkedlog"
	"github.com/rpcpool/yellowstone-faithful/indexes"
	"github.com/rpcpool/yellowstone-faithful/indexmeta"
	"github.com/rpcpool/yellowstone-faithful/zzverif/vkit"
)

func c06Key(i int) solana.PublicKey {
	var pk solana.PublicKey
	binary.BigEndian.PutUint64(pk[:8], uint64(i)*0x9e3779b97f4a7c15+1)
	binary.BigEndian.PutUint64(pk[8:16], uint64(i))
	pk[31] = 0xC6
	return pk
}

// TestVerif_C06_Real drives the UN-instrumented writer at its real thresholds.
func TestVerif_C06_Real(t *testing.T) {
	c06Silence()
	R := vkit.New("C06")
	defer R.Finish()
	defer os.RemoveAll(c06Base())
	if rp := vkit.ReplayRequest(); rp != nil && rp["variant"] != "real" {
		return
	}
	type scenario struct {
		name   string
		counts []int
		filler int // distinct single-transaction addresses pushed half-way (triggers the periodic partial flush when > 100000)
		// hot > 0: before anything else, `hot` further addresses receive 2000 transactions each (two full batches);
		// the filler is then pushed after the LAST transaction of counts[0]'s first 1005 and padded so that the next
		// push lands on a slot that is a multiple of 500 (the periodic flush runs while counts[0]'s address has one
		// full batch parked in the background writer and 5 newer entries pending)
		hot int
	}
	scs := []scenario{
		{"around-batch-size", []int{1, 2, 999, 1000, 1001, 1999, 2000, 2001, 3000, 3001}, 0, 0},
		{"periodic-flush", []int{1, 50, 99, 100, 150, 999, 1000, 1001, 2500}, 100_500, 0},
	}
	// more addresses with two full batches than the writer's pop-rank list holds (10 000), then an address with
	// exactly one full batch and a short tail when the periodic flush runs
	scs = append(scs, scenario{"rank-list-overflow", []int{1008, 2000, 150}, 100_025, 10_001})
	// at Close: a dozen addresses with one full batch still parked in the background writer AND five newer entries
	// pending, next to forty single-entry addresses (more than 12 records are left to be written, the size from
	// which Go's sort stops being an insertion sort)
	{
		counts := []int{}
		for i := 0; i < 12; i++ {
			counts = append(counts, 1005)
		}
		for i := 0; i < 40; i++ {
			counts = append(counts, 1)
		}
		scs = append(scs, scenario{"many-parked-batches-with-remainders", counts, 0, 0})
	}
	// more distinct addresses than the pubkey index holds when it is built for the writer's default of one million
	// items (100 buckets, each of which must be hashed without collision into 24 bits)
	scs = append(scs, scenario{"two-million-addresses", []int{1, 2, 1000, 1001}, 2_000_000, 0})
	if vkit.Thorough() {
		scs = append(scs, scenario{"multiples", []int{4000, 5000, 5001, 7999, 8000, 10000}, 0, 0},
			scenario{"periodic-flush-twice", []int{1, 99, 100, 101, 1000, 2000, 2001}, 201_000, 0})
	}
	for si, sc := range scs {
		if !vkit.Mine(int64(si)) {
			continue
		}
		dir := filepath.Join(c06Base(), fmt.Sprintf("real-%d", si))
		os.MkdirAll(filepath.Join(dir, "tmp"), 0o755)
		w, err := NewGsfaWriter(filepath.Join(dir, "idx"), indexmeta.Meta{}, 1, c06Root, indexes.NetworkMainnet, filepath.Join(dir, "tmp"))
		if err != nil {
			R.Internal("NewGsfaWriter: %v", err)
			return
		}
		ref := map[solana.PublicKey][]c06Entry{}
		maxc := 0
		for _, c := range sc.counts {
			if c > maxc {
				maxc = c
			}
		}
		slot := uint64(432000)
		seq := uint64(0)
		push := func(pks solana.PublicKeySlice) bool {
			seq++
			slot++
			e := c06Entry{Offset: 100_000 + seq*37, Size: 200 + seq%1000, Slot: slot}
			hasMeta, isSuccess, isVote := seq%2 == 0, seq%3 != 0, seq%5 == 1
			var fl linkedlog.OffsetAndSizeAndSlot
			fl.SetHasMeta(hasMeta)
			fl.SetIsSuccess(isSuccess)
			fl.SetIsVote(isVote)
			e.Flags = uint8(fl.Flags)
			if err := w.Push(e.Offset, e.Size, e.Slot, pks, hasMeta, isSuccess, isVote); err != nil {
				R.Violation("C06|real|push-error", fmt.Sprintf("%s: Push failed: %v", sc.name, err), map[string]interface{}{"variant": "real", "scenario": sc.name})
				return false
			}
			for _, pk := range pks {
				ref[pk] = append(ref[pk], e) // oldest first here; reversed when compared
			}
			return true
		}
		ok := true
		for round := 0; sc.hot > 0 && round < 2000 && ok; round++ {
			for h := 0; h < sc.hot && ok; h += 25 {
				var hp solana.PublicKeySlice
				for k := 0; k < 25 && h+k < sc.hot; k++ {
					hp = append(hp, c06Key(5_000_000+h+k))
				}
				ok = push(hp)
			}
		}
		fillerAt := maxc / 2
		if sc.hot > 0 {
			fillerAt = 1004 // after the 1005th transaction of counts[0]
		}
		for i := 0; i < maxc && ok; i++ {
			var pks solana.PublicKeySlice
			for ci, c := range sc.counts {
				if c > i {
					pks = append(pks, c06Key(ci))
				}
			}
			ok = push(pks)
			if ok && i == fillerAt && sc.filler > 0 {
				// many distinct addresses, 25 per transaction; slots keep advancing so a multiple of 500 is met
				for f := 0; f < sc.filler && ok; f += 25 {
					var fp solana.PublicKeySlice
					for k := 0; k < 25; k++ {
						fp = append(fp, c06Key(1000+f+k))
					}
					ok = push(fp)
				}
				for pad := 0; sc.hot > 0 && ok && (slot+1)%500 != 0; pad++ {
					ok = push(solana.PublicKeySlice{c06Key(9_000_000 + pad)})
				}
			}
		}
		if !ok {
			continue
		}
		if err := w.Close(); err != nil {
			R.Violation("C06|real|close-error", fmt.Sprintf("%s: Close failed: %v", sc.name, err), map[string]interface{}{"variant": "real", "scenario": sc.name})
			continue
		}
		r, err := NewGsfaReader(filepath.Join(dir, "idx"))
		if err != nil {
			R.Violation("C06|real|open-error", fmt.Sprintf("%s: reader open failed: %v", sc.name, err), map[string]interface{}{"variant": "real", "scenario": sc.name})
			continue
		}
		check := func(pk solana.PublicKey, label string) {
			want := make([]c06Entry, 0, len(ref[pk]))
			for i := len(ref[pk]) - 1; i >= 0; i-- {
				want = append(want, ref[pk][i])
			}
			got, gerr := r.Get(context.Background(), pk, 1<<30)
			g := make([]c06Entry, 0, len(got))
			for _, x := range got {
				g = append(g, c06Entry{x.Offset, x.Size, x.Slot, uint8(x.Flags)})
			}
			class, detail := c06Compare(g, gerr, want)
			R.Case(len(want) >= 99, "")
			R.Outcome(fmt.Sprintf("%s:%s", label, class))
			if class != "" {
				R.Violation("C06|real|"+class, fmt.Sprintf("real thresholds, scenario %s, address with %d transactions: %s", sc.name, len(want), detail),
					map[string]interface{}{"variant": "real", "scenario": sc.name, "count": len(want)})
			}
		}
		for ci, c := range sc.counts {
			check(c06Key(ci), fmt.Sprintf("count=%d", c))
		}
		for h := 0; h < sc.hot; h += 1009 {
			check(c06Key(5_000_000+h), "hot")
		}
		// every 997th filler address
		for f := 0; f < sc.filler; f += 997 {
			check(c06Key(1000+f), "filler")
		}
		// an address that never appeared
		if got, gerr := r.Get(context.Background(), c06Key(999_999_999), 10); gerr == nil && len(got) > 0 {
			R.Violation("C06|real|phantom", "address never indexed returned entries", map[string]interface{}{"variant": "real", "scenario": sc.name})
		}
		r.Close()
		R.Sample(map[string]interface{}{"variant": "real", "scenario": sc.name, "per_address_counts": sc.counts, "filler_addresses": sc.filler, "hot_addresses_with_two_batches": sc.hot, "pushes": seq})
		os.RemoveAll(dir)
	}
	R.Bounds["real_scenarios"] = len(scs)
}

// TestVerif_C06_RecLen writes linked-log records of every reachable total length in the windows
// [min,400] and [16300,16500] (directed search over entry counts and varint widths) and reads
// them back with ReadWithSize.
func TestVerif_C06_RecLen(t *testing.T) {
	c06Silence()
	R := vkit.New("C06")
	defer R.Finish()
	defer os.RemoveAll(c06Base())
	if rp := vkit.ReplayRequest(); rp != nil && rp["variant"] != "reclen" {
		return
	}
	if i, _ := vkit.Shard(); i != 0 {
		return
	}
	dir := filepath.Join(c06Base(), "reclen")
	os.MkdirAll(dir, 0o755)
	ll, err := linkedlog.NewLinkedLog(filepath.Join(dir, "linked-log"))
	if err != nil {
		R.Internal("NewLinkedLog: %v", err)
		return
	}
	defer ll.Close()
	rng := rand.New(rand.NewSource(vkit.Seed()))
	type rec struct {
		off  uint64
		ln   uint32
		want []linkedlog.OffsetAndSizeAndSlot
	}
	covered := map[uint32]*rec{}
	widths := func(w int) uint64 { // a value whose uvarint is w bytes wide
		if w <= 1 {
			return uint64(rng.Intn(128))
		}
		lo := uint64(1) << (7 * (w - 1))
		return lo + uint64(rng.Int63n(int64(lo)))
	}
	put := func(ws [][3]int) *rec {
		vals := make([]*linkedlog.OffsetAndSizeAndSlot, len(ws))
		for i, w := range ws {
			vals[i] = &linkedlog.OffsetAndSizeAndSlot{Offset: widths(w[0]), Size: widths(w[1]), Slot: widths(w[2])}
			vals[i].Flags = linkedlog.Bitmap(rng.Intn(8))
		}
		// reference: Put stores the values newest first, i.e. reversed
		want := make([]linkedlog.OffsetAndSizeAndSlot, len(vals))
		for i := range vals {
			want[len(vals)-1-i] = *vals[i]
		}
		var r rec
		_, err := ll.Put(
			func(pk solana.PublicKey) (indexes.OffsetAndSize, error) {
				return indexes.OffsetAndSize{Offset: 77, Size: 99}, nil
			},
			func(pk solana.PublicKey, offset uint64, ln uint32) error { r.off, r.ln = offset, ln; return nil },
			linkedlog.KeyToOffsetAndSizeAndBlocktime{Key: c06A, Values: vals},
		)
		if err != nil {
			R.Internal("Put: %v", err)
			return nil
		}
		r.want = want
		if _, ok := covered[r.ln]; !ok {
			covered[r.ln] = &r
		}
		return &r
	}
	// window 1: small records, every (n, width mix)
	for n := 1; n <= 40; n++ {
		for rep := 0; rep < 40; rep++ {
			ws := make([][3]int, n)
			for i := range ws {
				ws[i] = [3]int{1 + rng.Intn(6), 1 + rng.Intn(3), 1 + rng.Intn(5)}
			}
			put(ws)
		}
	}
	// window 2: directed search towards every length in 16300..16500
	inWindow := func(l uint32) bool { return l >= 16300 && l <= 16500 }
	n := 1150
	ws := make([][3]int, n)
	for i := range ws {
		ws[i] = [3]int{7, 2, 5}
	}
	for iter := 0; iter < 1500; iter++ {
		r := put(ws)
		if r == nil {
			return
		}
		// move towards the smallest uncovered length of the window
		target := uint32(0)
		for l := uint32(16300); l <= 16500; l++ {
			if covered[l] == nil {
				target = l
				break
			}
		}
		if target == 0 {
			break
		}
		diff := int(target) - int(r.ln)
		switch {
		case diff > 40:
			ws = append(ws, [3]int{7, 2, 5})
		case diff < -40:
			ws = ws[:len(ws)-1]
		default:
			k := diff
			if k < 0 {
				k = -k
			}
			if k == 0 {
				k = 1
			}
			for j := 0; j < k; j++ {
				i := rng.Intn(len(ws))
				if diff > 0 && ws[i][1] < 4 {
					ws[i][1]++
				} else if diff < 0 && ws[i][1] > 1 {
					ws[i][1]--
				} else if diff == 0 {
					ws[i][2] = 1 + rng.Intn(5)
				}
			}
		}
	}
	if err := ll.Flush(); err != nil {
		R.Internal("Flush: %v", err)
		return
	}
	var lens []int
	for l := range covered {
		lens = append(lens, int(l))
	}
	sort.Ints(lens)
	// a total record length T exists iff some prefix width w satisfies uvarintLen(T-w) == w
	uvLen := func(x int) int {
		n := 1
		for x >= 128 {
			x >>= 7
			n++
		}
		return n
	}
	boundary := map[int]bool{}
	for _, b := range []int{126, 127, 128, 129, 130, 131, 16382, 16383, 16384, 16385, 16386, 16387} {
		for w := 1; w <= 3; w++ {
			if uvLen(b-w) == w {
				boundary[b] = true
			}
		}
	}
	w1, w2 := 0, 0
	for _, l := range lens {
		r := covered[uint32(l)]
		got, next, err := ll.ReadWithSize(r.off, uint64(r.ln))
		okRec := err == nil && next.Offset == 77 && next.Size == 99 && len(got) == len(r.want)
		if okRec {
			for i := range got {
				if got[i] != r.want[i] {
					okRec = false
					break
				}
			}
		}
		if l <= 400 {
			w1++
		}
		if inWindow(uint32(l)) {
			w2++
		}
		R.Case(boundary[l], "")
		if !okRec {
			R.Violation(fmt.Sprintf("C06|reclen|record-size=%d", l),
				fmt.Sprintf("a linked-log record of total size %d bytes (%d entries) is not read back: err=%v entries=%d next=%v", l, len(r.want), err, len(got), next),
				map[string]interface{}{"variant": "reclen", "record_size": l})
		}
	}
	R.Bounds["record_lengths_covered_upto_400"] = w1
	R.Bounds["record_lengths_covered_16300_16500"] = w2
	var missingB []int
	for b := range boundary {
		if covered[uint32(b)] == nil {
			missingB = append(missingB, b)
		}
	}
	sort.Ints(missingB)
	if len(missingB) > 0 {
		R.Note("boundary record lengths not produced by the directed search: %v", missingB)
		R.Exhaustive = false
	}
	R.Sample(map[string]interface{}{"variant": "reclen", "distinct_record_lengths": len(lens), "smallest": lens[0], "largest": lens[len(lens)-1]})
}
