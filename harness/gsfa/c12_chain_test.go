//go:build verif

package gsfa

import (
	"context"
	"fmt"
	"os"
	"path/filepath"
	"testing"
	"time"

	"github.com/gagliardetto/solana-go"
	"github.com/rpcpool/yellowstone-faithful/indexes"
	"github.com/rpcpool/yellowstone-faithful/indexmeta"
	"github.com/rpcpool/yellowstone-faithful/zzverif/vkit"
)

// C12 (gsfa-chain variant): the address index's linked log is external data. Every record ends with a 9-byte
// pointer (offset, size) to the previous record of the same address; the readers follow it. An index with three
// records for one address is written by the real writer; then, for every record and every value of a small
// alphabet for its pointer (itself, a newer record, the end marker, beyond the file, the right offset with another
// size), the file is patched and queried through every reader entry point. Oracle: the call returns (a result or an
// error) - it does not spin forever, panic or allocate out of proportion.

type c12cCase struct {
	Record  int    `json:"record"`
	Pointer string `json:"pointer"`
	Entry   string `json:"entry"`
}

func TestVerif_C12_GsfaChain(t *testing.T) {
	c06Silence()
	R := vkit.New("C12")
	defer R.Finish()
	base := filepath.Join(c06Base(), "c12chain")
	defer os.RemoveAll(c06Base())
	R.Rule = "gsfa-chain variant: an address index with three linked-log records for one address (real writer); case = (record 0..2) x (its previous-record pointer set to: itself, the newer record, the end marker, an offset beyond the file, its own offset with size+1 / size-1, the right target with size 0) x (reader entry point: GsfaReader.Get, GsfaReaderMultiepoch.GetBeforeUntil without / with a before signature / with one that is not in the history, GetBeforeUntilSlot); oracle = the call returns within the watchdog (20 s, twice) without panic; non-trivial = every case"
	dir := filepath.Join(base, "idx")
	os.MkdirAll(filepath.Join(base, "tmp"), 0o755)
	w, err := NewGsfaWriter(dir, indexmeta.Meta{}, c07EpochNums[0], c06Root, indexes.NetworkMainnet, filepath.Join(base, "tmp"))
	if err != nil {
		R.Internal("NewGsfaWriter: %v", err)
		return
	}
	type rec struct{ off, size uint64 }
	var recs []rec // oldest first
	for i := 0; i < 3; i++ {
		for k := 0; k < 2; k++ {
			n := i*2 + k
			if err := w.Push(c07Offset(0, n%c07MaxCount), 100, c07Slot(0, n%c07MaxCount), solana.PublicKeySlice{c06A}, true, true, false); err != nil {
				R.Internal("Push: %v", err)
				return
			}
		}
		if err := w.flushAccum(w.accum); err != nil {
			R.Internal("flushAccum: %v", err)
			return
		}
		loc, _ := w.offsets.Get(c06A)
		recs = append(recs, rec{loc[0], loc[1]})
	}
	if err := w.Close(); err != nil {
		R.Internal("Close: %v", err)
		return
	}
	logPath := filepath.Join(dir, "linked-log")
	orig, err := os.ReadFile(logPath)
	if err != nil {
		R.Internal("read log: %v", err)
		return
	}
	R.Bounds["records"] = len(recs)
	fileLen := uint64(len(orig))
	type ptr struct {
		name string
		val  func(i int) indexes.OffsetAndSize
	}
	ptrs := []ptr{
		{"itself", func(i int) indexes.OffsetAndSize {
			return indexes.OffsetAndSize{Offset: recs[i].off, Size: recs[i].size}
		}},
		{"newer-record", func(i int) indexes.OffsetAndSize {
			j := i + 1
			if j >= len(recs) {
				j = len(recs) - 1
			}
			return indexes.OffsetAndSize{Offset: recs[j].off, Size: recs[j].size}
		}},
		{"end-marker", func(i int) indexes.OffsetAndSize { return indexes.OffsetAndSize{} }},
		{"beyond-the-file", func(i int) indexes.OffsetAndSize { return indexes.OffsetAndSize{Offset: fileLen + 1000, Size: 40} }},
		{"own-offset-size+1", func(i int) indexes.OffsetAndSize {
			return indexes.OffsetAndSize{Offset: recs[i].off, Size: recs[i].size + 1}
		}},
		{"own-offset-size-1", func(i int) indexes.OffsetAndSize {
			return indexes.OffsetAndSize{Offset: recs[i].off, Size: recs[i].size - 1}
		}},
		{"older-record-size-0", func(i int) indexes.OffsetAndSize { return indexes.OffsetAndSize{Offset: recs[0].off, Size: 0} }},
		{"oldest-record", func(i int) indexes.OffsetAndSize {
			return indexes.OffsetAndSize{Offset: recs[0].off, Size: recs[0].size}
		}},
	}
	before := c07Sig(0, 1)
	entries := []struct {
		name string
		run  func() error
	}{
		{"GsfaReader.Get", func() error {
			r, err := NewGsfaReader(dir)
			if err != nil {
				return err
			}
			defer r.Close()
			_, err = r.Get(context.Background(), c06A, 1000)
			return err
		}},
		{"Multiepoch.GetBeforeUntil", func() error {
			r, err := NewGsfaReader(dir)
			if err != nil {
				return err
			}
			defer r.Close()
			r.SetEpoch(c07EpochNums[0])
			m, err := NewGsfaReaderMultiepoch([]*GsfaReader{r})
			if err != nil {
				return err
			}
			_, err = m.GetBeforeUntil(context.Background(), c06A, 1000, nil, nil, c07Fetcher)
			return err
		}},
		{"Multiepoch.GetBeforeUntil(before)", func() error {
			r, err := NewGsfaReader(dir)
			if err != nil {
				return err
			}
			defer r.Close()
			r.SetEpoch(c07EpochNums[0])
			m, err := NewGsfaReaderMultiepoch([]*GsfaReader{r})
			if err != nil {
				return err
			}
			_, err = m.GetBeforeUntil(context.Background(), c06A, 1000, &before, nil, c07Fetcher)
			return err
		}},
		{"Multiepoch.GetBeforeUntil(before not in the history)", func() error {
			r, err := NewGsfaReader(dir)
			if err != nil {
				return err
			}
			defer r.Close()
			r.SetEpoch(c07EpochNums[0])
			m, err := NewGsfaReaderMultiepoch([]*GsfaReader{r})
			if err != nil {
				return err
			}
			unknown := c07Sig(99, 99)
			_, err = m.GetBeforeUntil(context.Background(), c06A, 1000, &unknown, nil, c07Fetcher)
			return err
		}},
		{"Multiepoch.GetBeforeUntilSlot", func() error {
			r, err := NewGsfaReader(dir)
			if err != nil {
				return err
			}
			defer r.Close()
			r.SetEpoch(c07EpochNums[0])
			m, err := NewGsfaReaderMultiepoch([]*GsfaReader{r})
			if err != nil {
				return err
			}
			_, err = m.GetBeforeUntilSlot(context.Background(), c06A, 1000, ^uint64(0), 0, c07Fetcher)
			return err
		}},
	}
	idx := int64(0)
	for ri := range recs {
		for _, p := range ptrs {
			for _, en := range entries {
				mine := vkit.Mine(idx)
				idx++
				if !mine {
					continue
				}
				c := c12cCase{ri, p.name, en.name}
				patched := append([]byte{}, orig...)
				end := recs[ri].off + recs[ri].size
				copy(patched[end-9:end], p.val(ri).Bytes())
				if err := os.WriteFile(logPath, patched, 0o644); err != nil {
					R.Internal("write log: %v", err)
					return
				}
				type out struct {
					err error
					pan interface{}
				}
				done := make(chan out, 1)
				go func() {
					var o out
					defer func() {
						if r := recover(); r != nil {
							o.pan = r
						}
						done <- o
					}()
					o.err = en.run()
				}()
				returned := false
				var o out
				for attempt := 0; attempt < 2 && !returned; attempt++ {
					select {
					case o = <-done:
						returned = true
					case <-time.After(20 * time.Second):
					}
				}
				R.Case(true, "")
				switch {
				case !returned:
					R.Violation("C12|never-returns|gsfa."+en.name+"|next-pointer:"+p.name, fmt.Sprintf("record %d of the address's chain points to %s: %s has not returned after 40 s (it follows the pointer forever)", ri, p.name, en.name), map[string]interface{}{"variant": "gsfa-chain", "case": c})
					os.WriteFile(logPath, orig, 0o644)
					return // the goroutine keeps spinning: stop this worker after the report
				case o.pan != nil:
					R.Violation("C12|panic|gsfa."+en.name+"|next-pointer:"+p.name, fmt.Sprintf("record %d points to %s: %s panicked: %v", ri, p.name, en.name, o.pan), map[string]interface{}{"variant": "gsfa-chain", "case": c})
				}
				R.Outcome(fmt.Sprintf("%s:%s:err=%v", en.name, p.name, o.err != nil))
				if idx%13 == 0 {
					R.Sample(c)
				}
			}
		}
	}
	os.WriteFile(logPath, orig, 0o644)
}
