//go:build verif

package gsfa

import (
	"context"
	"crypto/sha512"
	"fmt"
	"os"
	"path/filepath"
	"testing"

	"github.com/gagliardetto/solana-go"
	"github.com/rpcpool/yellowstone-faithful/gsfa/linkedlog"
	"github.com/rpcpool/yellowstone-faithful/indexes"
	"github.com/rpcpool/yellowstone-faithful/indexmeta"
	"github.com/rpcpool/yellowstone-faithful/ipld/ipldbindcode"
	"github.com/rpcpool/yellowstone-faithful/zzverif/explore"
	"github.com/rpcpool/yellowstone-faithful/zzverif/vkit"
)

// C07 (reader level): getSignaturesForAddress paging over several epochs.
// Up to 3 epochs, the address has 0..4 entries in each (all 125 count vectors; one index per
// (epoch, count) built by the real writer) x every non-empty subset of loaded epochs x limit x
// before x until drawn from the history (plus none / unknown); the slot variant over all
// (before, until) slot pairs around the distinct slots.

const c07Epochs = 3
const c07MaxCount = 4

var c07EpochNums = [c07Epochs]uint64{7, 8, 10} // not contiguous on purpose

func c07Sig(e, i int) solana.Signature {
	h := sha512.Sum512([]byte(fmt.Sprintf("c07-sig-%d-%d", e, i)))
	var s solana.Signature
	copy(s[:], h[:])
	return s
}

// the entries of an epoch sit on its first slot, an ordinary slot and its LAST slot (a window bound that falls on an
// epoch border must cut exactly there); set for the tier's maximal count before any index is built
var c07SlotOffsets = []uint64{0, 10, 431_998, 431_999}

func c07Slot(e, i int) uint64 { return c07EpochNums[e]*432000 + c07SlotOffsets[i] }

// offsets encode (epoch index, entry index) so that the fetcher can synthesise the transaction
func c07Offset(e, i int) uint64 { return uint64(1000*(e+1) + i) }

func c07TxNode(e, i int) *ipldbindcode.Transaction {
	sig := c07Sig(e, i)
	data := append([]byte{1}, sig[:]...)
	data = append(data, 1, 0, 1, 2) // header-ish filler
	return &ipldbindcode.Transaction{Kind: 0, Slot: int(c07Slot(e, i)), Data: ipldbindcode.DataFrame{Kind: 6, Data: data}}
}

func c07Fetcher(epochNum uint64, oas linkedlog.OffsetAndSizeAndSlot) (*ipldbindcode.Transaction, error) {
	e := int(oas.Offset/1000) - 1
	i := int(oas.Offset % 1000)
	if e < 0 || e >= c07Epochs || c07EpochNums[e] != epochNum {
		return nil, fmt.Errorf("c07: fetcher asked for epoch %d offset %d", epochNum, oas.Offset)
	}
	return c07TxNode(e, i), nil
}

// c07Layouts: how the address's entries of one epoch are spread over linked-log records. The writer starts a
// new record for an address whenever its pending entries are flushed (a full batch, or the periodic flush of
// all pending addresses); the harness forces that boundary with the writer's own flushAccum.
//
//	0 = one record; 1 = one record per entry; 2 = a record boundary after the second entry
const c07Layouts = 3

func c07Build(base string, e, count, layout int) (string, error) {
	dir := filepath.Join(base, fmt.Sprintf("e%d-c%d-l%d", e, count, layout))
	os.MkdirAll(filepath.Join(dir, "tmp"), 0o755)
	w, err := NewGsfaWriter(filepath.Join(dir, "idx"), indexmeta.Meta{}, c07EpochNums[e], c06Root, indexes.NetworkMainnet, filepath.Join(dir, "tmp"))
	if err != nil {
		return "", err
	}
	for i := 0; i < len(c07SlotOffsets); i++ {
		pks := solana.PublicKeySlice{c06B} // noise address in every transaction
		if i < count {
			pks = append(pks, c06A)
		}
		if err := w.Push(c07Offset(e, i), 100, c07Slot(e, i), pks, true, true, false); err != nil {
			return "", err
		}
		if layout == 1 || (layout == 2 && i == 1) {
			if err := w.flushAccum(w.accum); err != nil {
				return "", err
			}
		}
	}
	if err := w.Close(); err != nil {
		return "", err
	}
	return filepath.Join(dir, "idx"), nil
}

type c07Entry struct {
	E, I int
}

func TestVerif_C07_Reader(t *testing.T) {
	c06Silence()
	R := vkit.New("C07")
	defer R.Finish()
	base := filepath.Join(c06Base(), "c07")
	defer os.RemoveAll(c06Base())
	R.Rule = "reader level: count vector (entries of the address in each of 3 epochs, 0..4 each: all 125) x non-empty subset of loaded epochs x limit in 1..total+1 x before in history+{none,unknown} x until likewise, against slice arithmetic on the concatenated newest-first history; slot variant: every (before, until) pair over the distinct slots +-1, 0, 2^63, 2^63+5 and 2^64-1; handler level: JSON response order under every iteration order of the per-epoch result map; non-trivial = query whose expected result is a proper, non-empty sub-run of the history"
	// one index per (epoch, count)
	buildMax := c07MaxCount
	if !vkit.Thorough() {
		buildMax = 3
		c07SlotOffsets = []uint64{0, 10, 431_999}
	}
	var dirs [c07Layouts][c07Epochs][c07MaxCount + 1]string
	for l := 0; l < c07Layouts; l++ {
		for e := 0; e < c07Epochs; e++ {
			for c := 0; c <= buildMax; c++ {
				d, err := c07Build(base, e, c, l)
				if err != nil {
					R.Internal("cannot build gsfa index e=%d c=%d layout=%d: %v", e, c, l, err)
					return
				}
				dirs[l][e][c] = d
			}
		}
	}
	ctx := context.Background()
	unknown := c07Sig(99, 99)
	type query struct {
		Counts          [c07Epochs]int `json:"counts"`
		Loaded          int            `json:"loaded_mask"`
		Limit           int            `json:"limit"`
		Before, Until   int            `json:"-"`
		BeforeS, UntilS string         `json:"before,omitempty"`
	}
	caseIdx := int64(0)
	maxCount := c07MaxCount
	if !vkit.Thorough() {
		maxCount = 3
	}
	R.Bounds["epochs"] = c07Epochs
	R.Bounds["max_entries_per_epoch"] = maxCount
	R.Bounds["record_layouts"] = "one record per epoch; one record per entry; a record boundary after the second entry"
	dims := []int{c07Layouts, maxCount + 1, maxCount + 1, maxCount + 1}
	explore.Product(dims, func(lcv []int) bool {
		layout, cv := lcv[0], lcv[1:]
		for mask := 1; mask < 1<<c07Epochs; mask++ {
			// a layout that changes nothing for the loaded epochs is the same configuration as layout 0
			most := 0
			for e := 0; e < c07Epochs; e++ {
				if mask&(1<<e) != 0 && cv[e] > most {
					most = cv[e]
				}
			}
			if (layout == 1 && most < 2) || (layout == 2 && most < 3) {
				continue
			}
			mine := vkit.Mine(caseIdx)
			caseIdx++
			if !mine {
				continue
			}
			if R.Expired() {
				return false
			}
			// readers newest epoch first (as the server orders them)
			var readers []*GsfaReader
			var H []c07Entry
			for e := c07Epochs - 1; e >= 0; e-- {
				if mask&(1<<e) == 0 {
					continue
				}
				r, err := NewGsfaReader(dirs[layout][e][cv[e]])
				if err != nil {
					R.Internal("open: %v", err)
					return false
				}
				r.SetEpoch(c07EpochNums[e])
				readers = append(readers, r)
				for i := cv[e] - 1; i >= 0; i-- {
					H = append(H, c07Entry{e, i})
				}
			}
			multi, err := NewGsfaReaderMultiepoch(readers)
			if err != nil {
				R.Internal("multi: %v", err)
				return false
			}
			total := len(H)
			R.States++ // one explored configuration: (per-epoch histories, loaded subset)
			render := func(m EpochToTransactionObjects) ([]c07Entry, string) {
				// flatten newest epoch first
				var out []c07Entry
				for e := c07Epochs - 1; e >= 0; e-- {
					for _, tx := range m[c07EpochNums[e]] {
						found := false
						for i := 0; i < len(c07SlotOffsets); i++ {
							if uint64(tx.Slot) == c07Slot(e, i) {
								out = append(out, c07Entry{e, i})
								found = true
							}
						}
						if !found {
							return nil, fmt.Sprintf("foreign transaction with slot %d", tx.Slot)
						}
					}
				}
				for en := range m {
					ok := false
					for _, x := range c07EpochNums {
						if x == en {
							ok = true
						}
					}
					if !ok {
						return nil, fmt.Sprintf("result for epoch %d which is not loaded", en)
					}
				}
				return out, ""
			}
			// ---- signature paging ----
			for limit := 1; limit <= total+1; limit++ {
				for b := -2; b < total; b++ { // -2 none, -1 unknown
					for u := -2; u < total; u++ {
						var before, until *solana.Signature
						if b == -1 {
							before = &unknown
						} else if b >= 0 {
							s := c07Sig(H[b].E, H[b].I)
							before = &s
						}
						if u == -1 {
							until = &unknown
						} else if u >= 0 {
							s := c07Sig(H[u].E, H[u].I)
							until = &s
						}
						var got EpochToTransactionObjects
						var gerr error
						var pan interface{}
						func() {
							defer func() { pan = recover() }()
							got, gerr = multi.GetBeforeUntil(ctx, c06A, limit, before, until, c07Fetcher)
						}()
						q := map[string]interface{}{"variant": "reader", "layout": layout, "counts": cv, "loaded_mask": mask, "limit": limit, "before_index": b, "until_index": u}
						if pan != nil {
							R.Case(true, "")
							R.Violation("C07|panic|GetBeforeUntil", fmt.Sprintf("GetBeforeUntil panicked: %v (%v)", pan, q), q)
							continue
						}
						if b == -1 {
							// `before` not in the history: the statement does not fix the result
							R.Case(false, "")
							continue
						}
						start := 0
						if b >= 0 {
							start = b + 1
						}
						end := total
						if u >= start {
							end = u + 1
						}
						want := H[start:end]
						if len(want) > limit {
							want = want[:limit]
						}
						R.Case(len(want) > 0 && len(want) < total, "")
						if gerr != nil {
							R.Violation("C07|error|GetBeforeUntil", fmt.Sprintf("GetBeforeUntil failed: %v (%v)", gerr, q), q)
							continue
						}
						flat, problem := render(got)
						if problem == "" && fmt.Sprint(flat) != fmt.Sprint(append([]c07Entry{}, want...)) {
							problem = fmt.Sprintf("history (newest first, (epoch index, entry)) %v: want %v got %v", H, want, flat)
						}
						if problem != "" {
							class := "paging"
							if len(flat) > len(want) {
								class = "paging-too-many"
							} else if len(flat) < len(want) {
								class = "paging-too-few"
							}
							R.Violation("C07|"+class, fmt.Sprintf("limit=%d before=#%d until=#%d: %s", limit, b, u, problem), q)
						}
					}
				}
			}
			// ---- slot-bounded variant: [until, before) ----
			slotSet := map[uint64]bool{}
			for _, h := range H {
				s := c07Slot(h.E, h.I)
				slotSet[s-1], slotSet[s], slotSet[s+1] = true, true, true
			}
			slotSet[0] = true
			slotSet[1<<63], slotSet[1<<63+5], slotSet[^uint64(0)] = true, true, true // bounds beyond the signed range
			var slots []uint64
			for s := range slotSet {
				slots = append(slots, s)
			}
			for _, before := range slots {
				for _, until := range slots {
					for _, limit := range []int{1, 2, total + 1} {
						var got EpochToTransactionObjects
						var gerr error
						var pan interface{}
						func() {
							defer func() { pan = recover() }()
							got, gerr = multi.GetBeforeUntilSlot(ctx, c06A, limit, before, until, c07Fetcher)
						}()
						q := map[string]interface{}{"variant": "reader-slot", "layout": layout, "counts": cv, "loaded_mask": mask, "limit": limit, "before_slot": before, "until_slot": until}
						if pan != nil {
							R.Violation("C07|panic|GetBeforeUntilSlot", fmt.Sprintf("GetBeforeUntilSlot panicked: %v", pan), q)
							continue
						}
						var want []c07Entry
						for _, h := range H {
							if s := c07Slot(h.E, h.I); s >= until && s < before {
								want = append(want, h)
							}
						}
						if len(want) > limit {
							want = want[:limit]
						}
						R.Case(len(want) > 0 && len(want) < total, "")
						if gerr != nil {
							R.Violation("C07|error|GetBeforeUntilSlot", fmt.Sprintf("failed: %v", gerr), q)
							continue
						}
						flat, problem := render(got)
						if problem == "" {
							for _, g := range flat {
								if s := c07Slot(g.E, g.I); s < until || s >= before {
									problem = fmt.Sprintf("returned slot %d outside the requested range [%d,%d)", s, until, before)
									break
								}
							}
						}
						if problem != "" {
							R.Violation("C07|slot-range|outside", fmt.Sprintf("GetBeforeUntilSlot(before=%d, until=%d, limit=%d): %s", before, until, limit, problem), q)
							continue
						}
						if fmt.Sprint(flat) != fmt.Sprint(append([]c07Entry{}, want...)) {
							R.Violation("C07|slot-range|missing-or-order", fmt.Sprintf("GetBeforeUntilSlot(before=%d, until=%d, limit=%d): want %v got %v", before, until, limit, want, flat), q)
						}
					}
				}
			}
			R.Transitions = R.Evaluations // every query is one step executed on the real readers
			R.TracesValidated = R.Evaluations
			if caseIdx%97 == 0 {
				R.Sample(map[string]interface{}{"layout": layout, "counts": append([]int{}, cv...), "loaded_mask": mask, "history_len": total})
			}
			for _, r := range readers {
				r.Close()
			}
		}
		return true
	})
}
