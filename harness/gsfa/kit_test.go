//go:build verif

package gsfa

import "encoding/json"

func vkitRemarshal(in interface{}, out interface{}) {
	b, err := json.Marshal(in)
	if err != nil {
		panic(err)
	}
	if err := json.Unmarshal(b, out); err != nil {
		panic(err)
	}
}
