//go:build verif

package compactindex36

// C04 for the legacy format deprecated/compactindex36 (36-byte values). The section "generic body" is textually identical to the one in
// /verif/harness/compactindexsized/c04_test.go; only this adapter section differs.

import (
	"bytes"
	"context"
	"encoding/binary"
	"encoding/hex"
	"encoding/json"
	"errors"
	"fmt"
	"os"
	"path/filepath"
	"runtime"
	"runtime/debug"
	"sort"
	"strings"
	"testing"
	"time"

	"github.com/rpcpool/yellowstone-faithful/zzverif/vkit"
)

// ---------------------------------------------------------------------------------------------
// adapter (format-specific)
// ---------------------------------------------------------------------------------------------

const c04Format = "deprecated/compactindex36"

const c04KeySuffix = "|compactindex36"

// shape = value length, always 36 in this format
func c04SmallShapes() []int { return []int{36} }

func c04PopulationShapes() []int { return []int{36} }

func c04BoundaryShapes() []int { return []int{36} }

func c04EdgeShape() int { return 36 }

func c04ShapeDesc(shape int) string { return "valuesize=36" }

func c04NewBuilder(tmp string, declared uint, shape int) (*Builder, error) {
	return NewBuilder(tmp, declared, 1<<40)
}

// the legacy Builder.Close only removes the directory; close the spill files so that descriptors do not pile up
func c04CloseBuilder(b *Builder) {
	for i := range b.buckets {
		if b.buckets[i].file != nil {
			b.buckets[i].file.Close()
		}
	}
	b.Close()
}

func c04Insert(b *Builder, key, val []byte) error {
	var v [36]byte
	if len(val) != 36 {
		panic("harness: 36-byte value expected")
	}
	copy(v[:], val)
	return b.Insert(key, v)
}

func c04Lookup(db *DB, key []byte) ([]byte, error) {
	v, err := db.Lookup(key)
	if err != nil {
		return nil, err
	}
	return v[:], nil
}

// c04LoadAll reads every bucket whole (Bucket.Load, the second reading path of the format) and returns the values
// of all entries.
func c04LoadAll(db *DB, batch int) ([][]byte, error) {
	var out [][]byte
	for i := uint(0); i < uint(db.Header.NumBuckets); i++ {
		b, err := db.GetBucket(i)
		if err != nil {
			return nil, fmt.Errorf("GetBucket(%d): %w", i, err)
		}
		es, err := b.Load(batch)
		if err != nil {
			return nil, fmt.Errorf("bucket %d: Load(%d): %w", i, batch, err)
		}
		for _, e := range es {
			e := e
			out = append(out, e.Value[:])
		}
	}
	return out, nil
}

func c04IsNotFound(err error) bool { return errors.Is(err, ErrNotFound) }

func c04Value(i int, shape int) []byte {
	v := make([]byte, 36)
	var ctr [8]byte
	binary.LittleEndian.PutUint64(ctr[:], uint64(i)*0x9E3779B97F4A7C15+uint64(i))
	for j := range v {
		x := ctr[j%8] ^ byte(j*13+shape)
		if j < 4 {
			x = byte(i >> (8 * j))
		}
		if x == 0 {
			x = 0xA7
		}
		v[j] = x
	}
	return v
}

func c04FormatEdges() []c04Edge { return nil }

// ---------------------------------------------------------------------------------------------
// generic body (identical in the three C04 harness files)
// ---------------------------------------------------------------------------------------------

const c04Mod = "github.com/rpcpool/yellowstone-faithful"

type c04KV struct{ K, V []byte }

type c04Case struct {
	Part     string `json:"part"`             // small-sets | population | boundary | edge
	Format   string `json:"format"`           // package under test
	Keys     []int  `json:"keys,omitempty"`   // small-sets: the subset (universe indices, ascending)
	Order    []int  `json:"order,omitempty"`  // small-sets: failing insertion order (universe indices)
	N        int    `json:"n,omitempty"`      // population / boundary: number of keys
	KeyGen   string `json:"keygen,omitempty"` // seq | skew
	Shape    int    `json:"shape"`            // value size (sized) / file-size class (compactindex) / 36
	Declared uint   `json:"declared,omitempty"`
	Edge     string `json:"edge,omitempty"`
}

type c04Edge struct {
	Name, Group string
	Shape       int
	Declared    uint
	KVs         func() []c04KV
	Setup       func(b *Builder) error // optional: metadata
	After       func(db *DB) string    // optional: informational read-back (never a violation)
	MustBuild   bool                   // the input is inside the contract: a build error is a violation too
}

type c04Panic struct{ Phase, Value, Frame string }

func (p *c04Panic) String() string {
	return fmt.Sprintf("panic in %s: %s @ %s", p.Phase, p.Value, p.Frame)
}

// c04Guard runs f, converting a panic of the code under test into a value.
func c04Guard(phase string, f func() error) (err error, pn *c04Panic) {
	defer func() {
		if r := recover(); r != nil {
			pn = &c04Panic{Phase: phase, Value: fmt.Sprint(r), Frame: c04RepoFrame()}
		}
	}()
	return f(), nil
}

// c04RepoFrame names the innermost frame of the repository (not of this harness) on the panicking stack.
func c04RepoFrame() string {
	pcs := make([]uintptr, 64)
	n := runtime.Callers(3, pcs)
	fr := runtime.CallersFrames(pcs[:n])
	for {
		f, more := fr.Next()
		fn := f.Function
		if strings.HasPrefix(fn, c04Mod) && !strings.Contains(fn, ".c04") && !strings.Contains(fn, "TestVerif") && !strings.Contains(fn, "zzverif") {
			return fmt.Sprintf("%s (%s:%d)", strings.TrimPrefix(fn, c04Mod+"/"), filepath.Base(f.File), f.Line)
		}
		if !more {
			break
		}
	}
	return "?"
}

func c04KeyDesc(k []byte) string {
	if len(k) <= 12 {
		return fmt.Sprintf("len=%d hex=%s", len(k), hex.EncodeToString(k))
	}
	return fmt.Sprintf("len=%d hex=%s..", len(k), hex.EncodeToString(k[:12]))
}

func c04ValDesc(v []byte) string {
	if len(v) <= 16 {
		return fmt.Sprintf("[%d]%s", len(v), hex.EncodeToString(v))
	}
	return fmt.Sprintf("[%d]%s..", len(v), hex.EncodeToString(v[:16]))
}

// c04Universe: key lengths 0,8,32,200,130,64,1,32,1,64; [1] is a prefix of [2], [4] shares 129 bytes with [3], [] is a prefix of everything.
func c04Universe() [][]byte {
	k8 := []byte{1, 2, 3, 4, 5, 6, 7, 8}
	k32 := append(append([]byte{}, k8...), bytes.Repeat([]byte{0xA5}, 24)...)
	k64 := make([]byte, 64)
	for i := range k64 {
		k64[i] = byte(i*7 + 3)
	}
	k32b := bytes.Repeat([]byte{0xff}, 32)
	k64b := append(append([]byte{}, k32b...), make([]byte, 32)...)
	// two keys longer than 128 bytes, of different lengths, sharing a prefix (long keys take other code paths
	// in a builder that special-cases short keys); they are among the first six so that the quick tier has them
	k200 := make([]byte, 200)
	for i := range k200 {
		k200[i] = byte(i*13 + 5)
	}
	k130 := append([]byte{}, k200[:130]...)
	k130[129] ^= 0x55
	return [][]byte{{}, k8, k32, k200, k130, k64, {0x00}, k32b, {0xff}, k64b}
}

// c04SeqKey: distinct keys of 8..10 bytes.
func c04SeqKey(i int) []byte {
	k := make([]byte, 8, 10)
	binary.BigEndian.PutUint64(k, uint64(i))
	for j := 0; j < i%3; j++ {
		k = append(k, 0xEE)
	}
	return k
}

func c04NumBuckets(declared uint) uint32 {
	return uint32((declared + targetEntriesPerBucket - 1) / targetEntriesPerBucket)
}

// c04Keys produces n distinct keys; "skew" keeps only keys that fall into bucket 0 of the index layout
// that `declared` produces (brute force on the real BucketHash), so that one bucket holds all keys.
func c04Keys(n int, gen string, declared uint) [][]byte {
	keys := make([][]byte, 0, n)
	h := &Header{NumBuckets: c04NumBuckets(declared)}
	for c := 0; len(keys) < n; c++ {
		k := c04SeqKey(c)
		if gen == "skew" && h.BucketHash(k) != 0 {
			continue
		}
		keys = append(keys, k)
	}
	return keys
}

func c04MaxPopulation(keys [][]byte, declared uint) int {
	h := &Header{NumBuckets: c04NumBuckets(declared)}
	pop := make([]int, h.NumBuckets)
	max := 0
	for _, k := range keys {
		b := h.BucketHash(k)
		pop[b]++
		if pop[b] > max {
			max = pop[b]
		}
	}
	return max
}

type c04Built struct {
	Data     []byte // sealed file
	Rejected string // a builder step returned an error
	Panic    *c04Panic
}

var c04Scratch string

func c04Base() string {
	if c04Scratch == "" {
		root := os.Getenv("VERIF_SHM")
		if root == "" {
			root = os.TempDir()
		}
		d, err := os.MkdirTemp(root, "c04-")
		if err != nil {
			panic(err)
		}
		c04Scratch = d
	}
	return c04Scratch
}

// c04Build runs NewBuilder / Insert* / Seal of the real package and returns the sealed bytes.
func c04Build(shape int, declared uint, kvs []c04KV, setup func(*Builder) error) (out c04Built) {
	dir, err := os.MkdirTemp(c04Base(), "b")
	if err != nil {
		panic(err)
	}
	defer os.RemoveAll(dir)
	tmp := filepath.Join(dir, "tmp")
	if err := os.Mkdir(tmp, 0o755); err != nil {
		panic(err)
	}
	var b *Builder
	err, pn := c04Guard("NewBuilder", func() error { var e error; b, e = c04NewBuilder(tmp, declared, shape); return e })
	if pn != nil {
		out.Panic = pn
		return
	}
	if err != nil {
		out.Rejected = "NewBuilder: " + err.Error()
		return
	}
	defer c04CloseBuilder(b)
	if setup != nil {
		err, pn = c04Guard("Metadata", func() error { return setup(b) })
		if pn != nil {
			out.Panic = pn
			return
		}
		if err != nil {
			out.Rejected = "Metadata: " + err.Error()
			return
		}
	}
	for i := range kvs {
		err, pn = c04Guard("Insert", func() error { return c04Insert(b, kvs[i].K, kvs[i].V) })
		if pn != nil {
			out.Panic = pn
			return
		}
		if err != nil {
			out.Rejected = fmt.Sprintf("Insert #%d: %v", i, err)
			return
		}
	}
	path := filepath.Join(dir, "index")
	f, err := os.OpenFile(path, os.O_RDWR|os.O_CREATE|os.O_TRUNC, 0o644)
	if err != nil {
		panic(err)
	}
	err, pn = c04Guard("Seal", func() error { return b.Seal(context.Background(), f) })
	f.Close()
	if pn != nil {
		out.Panic = pn
		return
	}
	if err != nil {
		out.Rejected = "Seal: " + err.Error()
		return
	}
	out.Data, err = os.ReadFile(path)
	if err != nil {
		panic(err)
	}
	return
}

// c04Verify looks every pair up in the sealed bytes. problem == "" means every key returned its value.
func c04Verify(data []byte, kvs []c04KV, prefetch bool, after func(*DB) string) (problem string, info string, pn *c04Panic) {
	var db *DB
	err, pn := c04Guard("Open", func() error { var e error; db, e = Open(bytes.NewReader(data)); return e })
	if pn != nil {
		return "", "", pn
	}
	if err != nil {
		return "Open of the sealed file failed: " + err.Error(), "", nil
	}
	db.Prefetch(prefetch)
	for i := range kvs {
		var got []byte
		err, pn = c04Guard("Lookup", func() error { var e error; got, e = c04Lookup(db, kvs[i].K); return e })
		if pn != nil {
			return "", "", pn
		}
		if err != nil {
			return fmt.Sprintf("inserted key #%d (%s) of %d: Lookup -> %v", i, c04KeyDesc(kvs[i].K), len(kvs), err), "", nil
		}
		if !bytes.Equal(got, kvs[i].V) {
			return fmt.Sprintf("inserted key #%d (%s) of %d: Lookup -> value %s, inserted value %s", i, c04KeyDesc(kvs[i].K), len(kvs), c04ValDesc(got), c04ValDesc(kvs[i].V)), "", nil
		}
	}
	// the same entries read bucket by bucket: every inserted value once, nothing else (with the default batch size
	// and with batches of three entries, so that a bucket takes several batches)
	for _, batch := range []int{0, 3} {
		var vals [][]byte
		err, pn = c04Guard("Load", func() error { var e error; vals, e = c04LoadAll(db, batch); return e })
		if pn != nil {
			return "", "", pn
		}
		if err != nil {
			return fmt.Sprintf("reading the buckets whole (batch size %d): %v", batch, err), "", nil
		}
		if len(vals) != len(kvs) {
			return fmt.Sprintf("reading the buckets whole (batch size %d): %d entries, %d pairs inserted", batch, len(vals), len(kvs)), "", nil
		}
		want := map[string]int{}
		for i := range kvs {
			want[string(kvs[i].V)]++
		}
		for _, v := range vals {
			if want[string(v)] == 0 {
				return fmt.Sprintf("reading the buckets whole (batch size %d): an entry carries value %s, which was not inserted (or more often than it was inserted); %d pairs", batch, c04ValDesc(v), len(kvs)), "", nil
			}
			want[string(v)]--
		}
	}
	if after != nil {
		info = after(db)
	}
	return "", info, nil
}

// c04Absent counts how absent keys answer (not demanded by the property: a 24-bit hash may collide).
func c04Absent(R *vkit.Report, data []byte, absent [][]byte) {
	db, err := Open(bytes.NewReader(data))
	if err != nil {
		return
	}
	for _, k := range absent {
		_, pn := c04Guard("Lookup", func() error {
			_, e := c04Lookup(db, k)
			if e == nil {
				R.Add("absent_key_false_positive", 1)
			} else if c04IsNotFound(e) {
				R.Add("absent_key_not_found", 1)
			} else {
				R.Add("absent_key_other_error", 1)
			}
			return nil
		})
		if pn != nil {
			R.Violation("C04|panic|absent-key|Lookup"+c04KeySuffix, fmt.Sprintf("[%s] Lookup of an absent key (%s): %s", c04Format, c04KeyDesc(k), pn), nil)
		}
	}
}

func c04Perms(a []int) [][]int {
	if len(a) <= 1 {
		return [][]int{append([]int{}, a...)}
	}
	var out [][]int
	for i := range a {
		rest := make([]int, 0, len(a)-1)
		rest = append(rest, a[:i]...)
		rest = append(rest, a[i+1:]...)
		for _, p := range c04Perms(rest) {
			out = append(out, append([]int{a[i]}, p...))
		}
	}
	return out
}

func c04Subsets(u, maxSize int) [][]int {
	var out [][]int
	for size := 0; size <= maxSize; size++ {
		var rec func(start int, cur []int)
		rec = func(start int, cur []int) {
			if len(cur) == size {
				out = append(out, append([]int{}, cur...))
				return
			}
			for i := start; i < u; i++ {
				rec(i+1, append(cur, i))
			}
		}
		rec(0, nil)
	}
	return out
}

func c04Declared(n int) []uint {
	if n == 0 {
		return []uint{1}
	}
	var out []uint
	seen := map[uint]bool{}
	for _, d := range []uint{1, uint(n), uint(n + 1), uint(10 * n)} {
		if !seen[d] {
			seen[d] = true
			out = append(out, d)
		}
	}
	return out
}

func c04Viol(R *vkit.Report, class, scope, what string, c c04Case) {
	R.Violation("C04|"+class+"|"+scope+c04KeySuffix, "["+c04Format+"] "+what, map[string]interface{}{"case": c})
}

// c04RunSmall: one subset x shape x declared count, all insertion orders.
func c04RunSmall(R *vkit.Report, c c04Case, onlyOrder []int) {
	uni := c04Universe()
	orders := c04Perms(c.Keys)
	if onlyOrder != nil {
		orders = [][]int{c.Keys, onlyOrder}
	}
	var first []byte
	inSet := map[int]bool{}
	for _, k := range c.Keys {
		inSet[k] = true
	}
	for oi, order := range orders {
		kvs := make([]c04KV, len(order))
		for i, ki := range order {
			kvs[i] = c04KV{uni[ki], c04Value(ki, c.Shape)}
		}
		cc := c
		cc.Order = order
		R.Case(len(order) >= 2, "")
		built := c04Build(c.Shape, c.Declared, kvs, nil)
		if built.Panic != nil {
			R.Outcome("small-sets:panic")
			c04Viol(R, "panic", "small-sets|"+built.Panic.Phase+"|"+built.Panic.Frame, fmt.Sprintf("keys %v inserted in order %v, %s, declared %d: %s", c.Keys, order, c04ShapeDesc(c.Shape), c.Declared, built.Panic), cc)
			continue
		}
		if built.Rejected != "" {
			R.Outcome("small-sets:build-error")
			c04Viol(R, "build-error", "small-sets", fmt.Sprintf("keys %v inserted in order %v, %s, declared %d: building failed for an input inside the contract: %s", c.Keys, order, c04ShapeDesc(c.Shape), c.Declared, built.Rejected), cc)
			continue
		}
		bad := false
		for _, prefetch := range []bool{false, true} {
			problem, _, pn := c04Verify(built.Data, kvs, prefetch, nil)
			if pn != nil {
				c04Viol(R, "panic", "small-sets|"+pn.Phase+"|"+pn.Frame, fmt.Sprintf("keys %v order %v %s declared %d: %s", c.Keys, order, c04ShapeDesc(c.Shape), c.Declared, pn), cc)
				bad = true
				break
			}
			if problem != "" {
				c04Viol(R, "wrong-lookup", "small-sets", fmt.Sprintf("keys %v inserted in order %v, %s, declared %d: %s", c.Keys, order, c04ShapeDesc(c.Shape), c.Declared, problem), cc)
				bad = true
				break
			}
		}
		if bad {
			R.Outcome("small-sets:wrong-lookup")
			continue
		}
		if oi == 0 {
			first = built.Data
			// the same inserts sealed a second time
			again := c04Build(c.Shape, c.Declared, kvs, nil)
			R.Case(len(order) >= 2, "")
			if !bytes.Equal(again.Data, first) {
				R.Outcome("small-sets:second-seal-differs")
				c04Viol(R, "nondeterministic-seal", "small-sets", fmt.Sprintf("keys %v order %v %s declared %d: sealing the same inserts twice gave different files (%d vs %d bytes; second: rejected=%q panic=%v)", c.Keys, order, c04ShapeDesc(c.Shape), c.Declared, len(first), len(again.Data), again.Rejected, again.Panic), cc)
				continue
			}
			var absent [][]byte
			for ki := range uni {
				if !inSet[ki] {
					absent = append(absent, uni[ki])
				}
			}
			c04Absent(R, built.Data, absent)
		} else if first != nil && !bytes.Equal(built.Data, first) {
			R.Outcome("small-sets:order-dependent-bytes")
			c04Viol(R, "order-dependent-bytes", "small-sets", fmt.Sprintf("keys %v, %s, declared %d: insertion order %v and %v give different sealed files", c.Keys, c04ShapeDesc(c.Shape), c.Declared, orders[0], order), cc)
			continue
		}
		R.Outcome(fmt.Sprintf("small-sets:n=%d:ok", len(order)))
	}
}

// c04RunMany: population and boundary cases (n generated keys, declared count, key generator).
func c04RunMany(R *vkit.Report, c c04Case) {
	keys := c04Keys(c.N, c.KeyGen, c.Declared)
	kvs := make([]c04KV, len(keys))
	for i, k := range keys {
		kvs[i] = c04KV{k, c04Value(i, c.Shape)}
	}
	maxPop := c04MaxPopulation(keys, c.Declared)
	mustBuild := maxPop <= targetEntriesPerBucket
	desc := fmt.Sprintf("%d keys (%s), %s, declared %d (%d buckets, fullest bucket %d)", c.N, c.KeyGen, c04ShapeDesc(c.Shape), c.Declared, c04NumBuckets(c.Declared), maxPop)
	R.Case(true, "")
	built := c04Build(c.Shape, c.Declared, kvs, nil)
	if built.Panic != nil {
		R.Outcome(c.Part + ":panic")
		c04Viol(R, "panic", c.Part+"|"+built.Panic.Phase+"|"+built.Panic.Frame, desc+": "+built.Panic.String(), c)
		return
	}
	if built.Rejected != "" {
		if mustBuild {
			R.Outcome(c.Part + ":build-error")
			c04Viol(R, "build-error", c.Part, desc+": building failed although no bucket is over-full: "+built.Rejected, c)
		} else {
			R.Outcome(c.Part + ":over-full-rejected")
			R.Add("overfull_bucket_rejected", 1)
		}
		return
	}
	problem, _, pn := c04Verify(built.Data, kvs, c.N%2 == 1, nil)
	if pn != nil {
		R.Outcome(c.Part + ":panic")
		c04Viol(R, "panic", c.Part+"|"+pn.Phase+"|"+pn.Frame, desc+": "+pn.String(), c)
		return
	}
	if problem != "" {
		R.Outcome(c.Part + ":wrong-lookup")
		c04Viol(R, "wrong-lookup", c.Part, desc+": "+problem, c)
		return
	}
	if c.Part == "boundary" {
		// reversed insertion order must give the same bytes
		rev := make([]c04KV, len(kvs))
		for i := range kvs {
			rev[len(kvs)-1-i] = kvs[i]
		}
		R.Case(true, "")
		again := c04Build(c.Shape, c.Declared, rev, nil)
		if !bytes.Equal(again.Data, built.Data) {
			R.Outcome(c.Part + ":order-dependent-bytes")
			c04Viol(R, "order-dependent-bytes", c.Part, desc+fmt.Sprintf(": reversed insertion order gives a different file (rejected=%q panic=%v)", again.Rejected, again.Panic), c)
			return
		}
	}
	if mustBuild {
		R.Outcome(c.Part + ":ok")
	} else {
		R.Outcome(c.Part + ":over-full-but-correct")
	}
}

func c04GenericEdges() []c04Edge {
	shape := c04EdgeShape()
	bigKey := func(n int) []byte {
		k := make([]byte, n)
		for i := range k {
			k[i] = 0x41
		}
		return k
	}
	var edges []c04Edge
	for _, kl := range []int{65535, 65536} {
		kl := kl
		group := fmt.Sprintf("keylen=%d", kl)
		edges = append(edges,
			c04Edge{Name: group + ",alone", Group: group, Shape: shape, Declared: 1, MustBuild: kl <= 65535,
				KVs: func() []c04KV { return []c04KV{{bigKey(kl), c04Value(0, shape)}} }},
			c04Edge{Name: group + ",first-of-3", Group: group, Shape: shape, Declared: 3, MustBuild: kl <= 65535,
				KVs: func() []c04KV {
					return []c04KV{{bigKey(kl), c04Value(0, shape)}, {c04SeqKey(1), c04Value(1, shape)}, {c04SeqKey(2), c04Value(2, shape)}}
				}},
			c04Edge{Name: group + ",last-of-3", Group: group, Shape: shape, Declared: 3, MustBuild: kl <= 65535,
				KVs: func() []c04KV {
					return []c04KV{{c04SeqKey(1), c04Value(1, shape)}, {c04SeqKey(2), c04Value(2, shape)}, {bigKey(kl), c04Value(0, shape)}}
				}})
	}
	dup := func(name string, f func() []c04KV) {
		edges = append(edges, c04Edge{Name: "duplicate-key," + name, Group: "duplicate-key", Shape: shape, Declared: 4, KVs: f})
	}
	dup("same-value-twice", func() []c04KV {
		return []c04KV{{c04SeqKey(5), c04Value(5, shape)}, {c04SeqKey(5), c04Value(5, shape)}}
	})
	dup("two-values", func() []c04KV {
		return []c04KV{{c04SeqKey(5), c04Value(5, shape)}, {c04SeqKey(5), c04Value(6, shape)}}
	})
	dup("two-values-among-others", func() []c04KV {
		return []c04KV{{c04SeqKey(1), c04Value(1, shape)}, {c04SeqKey(5), c04Value(5, shape)}, {c04SeqKey(2), c04Value(2, shape)}, {c04SeqKey(5), c04Value(6, shape)}}
	})
	dup("empty-key-twice", func() []c04KV {
		return []c04KV{{[]byte{}, c04Value(1, shape)}, {[]byte{}, c04Value(2, shape)}}
	})
	edges = append(edges, c04Edge{Name: "40000-keys-in-one-bucket", Group: "bucket=40000", Shape: shape, Declared: 1,
		KVs: func() []c04KV {
			kvs := make([]c04KV, 40000)
			for i := range kvs {
				kvs[i] = c04KV{c04SeqKey(i), c04Value(i, shape)}
			}
			return kvs
		}})
	return edges
}

func c04RunEdge(R *vkit.Report, e c04Edge, c c04Case) {
	kvs := e.KVs()
	R.Case(true, "")
	built := c04Build(e.Shape, e.Declared, kvs, e.Setup)
	if built.Panic != nil {
		R.Outcome("edge:" + e.Group + ":panic")
		c04Viol(R, "panic", e.Group+"|"+built.Panic.Phase, fmt.Sprintf("contract edge %q (%d inserts, %s, declared %d) must end in an error or a correct index, but: %s", e.Name, len(kvs), c04ShapeDesc(e.Shape), e.Declared, built.Panic), c)
		return
	}
	if built.Rejected != "" {
		if e.MustBuild {
			R.Outcome("edge:" + e.Group + ":build-error")
			c04Viol(R, "build-error", e.Group, fmt.Sprintf("edge %q is inside the contract but building failed: %s", e.Name, built.Rejected), c)
			return
		}
		R.Outcome("edge:" + e.Group + ":rejected-with-error")
		return
	}
	problem, info, pn := c04Verify(built.Data, kvs, false, e.After)
	if pn != nil {
		R.Outcome("edge:" + e.Group + ":panic")
		c04Viol(R, "panic", e.Group+"|"+pn.Phase, fmt.Sprintf("contract edge %q: builder accepted it, then %s", e.Name, pn), c)
		return
	}
	if problem != "" && strings.HasPrefix(e.Group, "valuelen<") {
		// The statement quantifies over FIXED-SIZE values. A SHORTER value is zero-padded (the repository's own
		// tests rely on that: they store 7-byte CIDs in a 36-byte index): recorded as an observation. A LONGER value
		// would be cut - an unsupported value size that must end in an error (judged below like every other edge).
		R.Outcome("edge:" + e.Group + ":observed-not-demanded")
		R.Add("value_length_mismatch_silently_adjusted(not demanded)", 1)
		R.Note("[%s] edge %q: %s (observation only: values of the wrong length are outside the statement's precondition)", c04Format, e.Name, problem)
		return
	}
	if problem != "" {
		R.Outcome("edge:" + e.Group + ":wrong-lookup")
		c04Viol(R, "wrong-lookup", e.Group, fmt.Sprintf("contract edge %q (%d inserts, %s, declared %d): NewBuilder, Insert and Seal returned no error, but %s", e.Name, len(kvs), c04ShapeDesc(e.Shape), e.Declared, problem), c)
		return
	}
	if info != "" {
		R.Add("metadata_readback_differs(not demanded)", 1)
		R.Note("[%s] edge %q: %s (informational: the property statement does not cover metadata content)", c04Format, e.Name, info)
	}
	R.Outcome("edge:" + e.Group + ":accepted-and-correct")
}

// c04Ballast keeps the collector quiet: every Seal allocates a fresh 2 MiB collision bitmap, which on a
// near-empty heap would trigger a collection every other build (performance only).
var c04Ballast []byte

func TestVerif_C04(t *testing.T) {
	c04Ballast = make([]byte, 128<<20)
	debug.SetGCPercent(400)
	R := vkit.New("C04")
	defer R.Finish()
	defer func() {
		if c04Scratch != "" {
			os.RemoveAll(c04Scratch)
		}
	}()
	R.Rule = "reference model = map key->value. Cases: (small-sets) every subset of <=4 (thorough: <=5) keys of a universe with key lengths 0/1/8/32/64/130/200 (prefix pairs, two keys longer than 128 bytes) x every insertion order x every value shape x declared count in {1,n,n+1,10n}: each inserted key must return exactly its value (prefetch on and off), sealed bytes equal across orders and across two seals; (population) every bucket population 1..N in one bucket; (boundary) 9999/10000/10001/20000/20001 keys, natural or all forced into bucket 0, declared n/n+1/10n/1, build must succeed unless a bucket holds more than 10000 keys; (edge) contract edges must end in an error or a correct index, never a panic or a wrong/missing lookup. One evaluation = one real NewBuilder/Insert/Seal/Open/Lookup round; non-trivial = at least two keys or an edge/boundary input."
	uniSize, maxSub, maxPop := 6, 4, 300
	boundaryNs := []int{9999, 10000, 10001}
	if vkit.Thorough() {
		uniSize, maxSub, maxPop = 9, 5, 1200
		boundaryNs = []int{9999, 10000, 10001, 20000, 20001, 60000}
	}
	edges := append(c04GenericEdges(), c04FormatEdges()...)

	if rp := vkit.ReplayRequest(); rp != nil {
		var c c04Case
		b, _ := json.Marshal(rp["case"])
		if err := json.Unmarshal(b, &c); err != nil {
			R.Internal("bad replay file: %v", err)
			return
		}
		if c.Format != c04Format {
			return // another variant owns this replay
		}
		switch c.Part {
		case "small-sets":
			c04RunSmall(R, c, c.Order)
		case "population", "boundary":
			c04RunMany(R, c)
		case "edge":
			for _, e := range edges {
				if e.Name == c.Edge {
					c04RunEdge(R, e, c)
				}
			}
		}
		t.Logf("replayed %+v: violations=%d", c, R.NumViolations())
		return
	}

	idx := int64(-1)
	next := func() bool { idx++; return vkit.Mine(idx) }
	expired := func() bool {
		if R.Expired() {
			R.Note("[%s] deadline reached at case %d", c04Format, idx)
			return true
		}
		return false
	}

	// boundary and edge cases first (the few heavy ones spread over the shards), then the products
	type manyCase struct {
		n    int
		gen  string
		decl uint
	}
	var many []manyCase
	seenMany := map[string]bool{}
	for _, n := range boundaryNs {
		for _, gen := range []string{"seq", "skew"} {
			for _, decl := range []uint{uint(n), uint(n + 1), uint(10 * n), 1} {
				nb := c04NumBuckets(decl)
				if gen == "skew" && nb == 1 {
					continue
				}
				k := fmt.Sprintf("%d/%s/%d", n, gen, nb)
				if seenMany[k] {
					continue
				}
				seenMany[k] = true
				many = append(many, manyCase{n, gen, decl})
			}
		}
	}
	sort.SliceStable(many, func(i, j int) bool { return many[i].n > many[j].n })
	for _, m := range many {
		for _, shape := range c04BoundaryShapes() {
			if !next() {
				continue
			}
			if expired() {
				return
			}
			c := c04Case{Part: "boundary", Format: c04Format, N: m.n, KeyGen: m.gen, Shape: shape, Declared: m.decl}
			c04RunMany(R, c)
			if m.n == 10001 && shape == c04BoundaryShapes()[0] && m.gen == "skew" {
				R.Sample(c)
			}
		}
	}
	for _, e := range edges {
		if !next() {
			continue
		}
		if expired() {
			return
		}
		c := c04Case{Part: "edge", Format: c04Format, Edge: e.Name, Shape: e.Shape, Declared: e.Declared}
		c04RunEdge(R, e, c)
		if strings.HasPrefix(e.Name, "keylen=65535,first") || strings.HasPrefix(e.Name, "duplicate-key,two-values-among") {
			R.Sample(c)
		}
	}
	for n := 1; n <= maxPop; n++ {
		for _, shape := range c04PopulationShapes() {
			if !next() {
				continue
			}
			if expired() {
				return
			}
			c := c04Case{Part: "population", Format: c04Format, N: n, KeyGen: "seq", Shape: shape, Declared: uint(n)}
			c04RunMany(R, c)
			if n == 7 {
				R.Sample(c)
			}
		}
	}
	subsets := c04Subsets(uniSize, maxSub)
	for si, sub := range subsets {
		for _, shape := range c04SmallShapes() {
			for _, decl := range c04Declared(len(sub)) {
				if !next() {
					continue
				}
				if expired() {
					return
				}
				c := c04Case{Part: "small-sets", Format: c04Format, Keys: sub, Shape: shape, Declared: decl}
				c04RunSmall(R, c, nil)
				if si%41 == 17 && shape == c04SmallShapes()[0] && decl == 1 {
					R.Sample(c)
				}
			}
		}
	}
	// ---- bucket selection terminates: BucketHash re-hashes values below a threshold until they leave it; a key whose
	// 64-bit hash is a fixed point of that re-hash would never be placed (Insert and Lookup would spin) ----
	if next() {
		zeroHashKey, _ := hex.DecodeString("7385807d8f0b5339") // xxhash64 of these 8 bytes is 0 (a valid 8-byte slot key)
		keys := [][]byte{zeroHashKey, {}, {0}, []byte("a"), make([]byte, 32), make([]byte, 64)}
		hung := false
		for n := uint32(1); n <= 130 && !hung; n++ {
			for ki, k := range keys {
				h := Header{NumBuckets: n}
				done := make(chan uint, 1)
				go func() { done <- h.BucketHash(k) }()
				var got uint
				returned := false
				for attempt := 0; attempt < 2 && !returned; attempt++ {
					select {
					case got = <-done:
						returned = true
					case <-time.After(20 * time.Second):
					}
				}
				R.Case(ki == 0 && n&(n-1) != 0, "")
				if !returned {
					c04Viol(R, "bucket-hash-never-returns", "", fmt.Sprintf("Header{NumBuckets: %d}.BucketHash(%x) has not returned after 40 s: Insert and Lookup of this key never finish", n, k), c04Case{Part: "bucket-hash", Format: c04Format})
					hung = true // the goroutine keeps spinning; one report is enough
					break
				}
				if got >= uint(n) {
					c04Viol(R, "bucket-hash-out-of-range", "", fmt.Sprintf("Header{NumBuckets: %d}.BucketHash(%x) = %d", n, k, got), c04Case{Part: "bucket-hash", Format: c04Format})
				}
			}
		}
		R.Bounds[c04Format+":bucket_hash_bucket_counts"] = "1..130 x 6 keys incl. one whose xxhash64 is 0"
	}
	R.Bounds[c04Format+":universe_keys"] = uniSize
	R.Bounds[c04Format+":max_subset_size"] = maxSub
	R.Bounds[c04Format+":subsets"] = len(subsets)
	R.Bounds[c04Format+":value_shapes"] = c04SmallShapes()
	R.Bounds[c04Format+":declared_counts"] = "1, n, n+1, 10n"
	R.Bounds[c04Format+":single_bucket_populations"] = fmt.Sprintf("1..%d x shapes %v", maxPop, c04PopulationShapes())
	R.Bounds[c04Format+":boundary_populations"] = boundaryNs
	R.Bounds[c04Format+":contract_edges"] = len(edges)
	R.Assume("absent keys are not required to be reported not-found (a 24-bit per-bucket hash may collide); they are only counted")
	R.Assume("metadata content read-back is informational; the statement only demands that keys are found whatever the metadata shape")
}
