//go:build verifdemo

package manifest

import (
	"os"
	"path/filepath"
	"testing"

	"github.com/rpcpool/yellowstone-faithful/indexmeta"
)

// C13 finding: gsfa.NewGsfaReader ("opens an existing index in READ-ONLY mode") opens the manifest with
// NewManifest(path, indexmeta.Meta{}), which is create-or-open: a manifest that was cut to 0 bytes is silently
// re-created (the file is written to) with empty metadata, and the reader reports version 5 with no epoch /
// root CID / network instead of an error. NewEpochFromConfig then does fail loudly ("the gsfa index does not have
// the epoch metadata"), so the server refuses the epoch; direct users of the reader get an index without identity.
func TestDemo_C13_GsfaManifestRecreatedWhenEmpty(t *testing.T) {
	p := filepath.Join(t.TempDir(), "manifest")
	meta := indexmeta.Meta{}
	meta.AddUint64(indexmeta.MetadataKey_Epoch, 3)
	meta.AddString(indexmeta.MetadataKey_Network, "mainnet")
	m, err := NewManifest(p, meta)
	if err != nil {
		t.Fatal(err)
	}
	m.Put(1, 2)
	m.Close()
	if err := os.Truncate(p, 0); err != nil { // interrupted copy: the file exists, nothing arrived
		t.Fatal(err)
	}
	r, err := NewManifest(p, indexmeta.Meta{}) // what gsfa.NewGsfaReader does
	if err != nil {
		return // loud: fine
	}
	defer r.Close()
	_, hasEpoch := r.Meta().GetUint64(indexmeta.MetadataKey_Epoch)
	st, _ := os.Stat(p)
	if !hasEpoch {
		t.Errorf("opening a 0-byte manifest for reading succeeded: version=%d, epoch metadata present=%v, and the file was rewritten (now %d bytes)", r.Version(), hasEpoch, st.Size())
	}
}
