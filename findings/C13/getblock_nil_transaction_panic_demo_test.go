//go:build verifdemo

package main

import (
	"context"
	"fmt"
	"io"
	"os"
	"runtime/debug"
	"testing"

	"github.com/allegro/bigcache/v3"
	"github.com/ipfs/go-cid"
	"github.com/ipld/go-ipld-prime"
	"github.com/ipld/go-ipld-prime/codec/dagcbor"
	cidlink "github.com/ipld/go-ipld-prime/linking/cid"
	"github.com/ipld/go-ipld-prime/schema"
	"github.com/multiformats/go-multihash"
	hugecache "github.com/rpcpool/yellowstone-faithful/huge-cache"
	"github.com/rpcpool/yellowstone-faithful/indexes"
	"github.com/rpcpool/yellowstone-faithful/ipld/ipldbindcode"
	"github.com/valyala/fasthttp"
)

type demoC13ShortB struct{ b []byte }

func (s *demoC13ShortB) ReadAt(p []byte, off int64) (int, error) { // a short file
	if off >= int64(len(s.b)) {
		return 0, io.EOF
	}
	n := copy(p, s.b[off:])
	if n < len(p) {
		return n, io.EOF
	}
	return n, nil
}
func (s *demoC13ShortB) Close() error { return nil }

func demoC13Node(node interface{}, typ schema.Type) ([]byte, cid.Cid) {
	b, err := ipld.Marshal(dagcbor.Encode, node, typ)
	if err != nil {
		panic(err)
	}
	c, err := cid.Prefix{Version: 1, Codec: cid.DagCBOR, MhType: multihash.SHA2_256, MhLength: -1}.Sum(b)
	if err != nil {
		panic(err)
	}
	return b, c
}

// C13 finding: handleGetBlock swallows the error of every transaction fetch
// (`txNode, err := epochHandler.GetTransactionByCid(ctx, tcid); if err != nil { klog.Errorf(...); return nil }`)
// and later dereferences the nil node. When the cid-to-offset-and-size index is cut short, the block and its entries can
// still resolve (here: from the cache) while a transaction lookup ends in io.EOF: getBlock then PANICS (fasthttp does not
// recover handler panics: the server process dies) instead of answering with an error.
func TestDemo_C13_GetBlockPanicsWhenTransactionLookupFails(t *testing.T) {
	const epoch = uint64(3)
	slot := epoch*432000 + 9
	_, txCid := demoC13Node(&ipldbindcode.Epoch{Kind: 4, Epoch: 99, Subsets: ipldbindcode.List__Link{}}, ipldbindcode.Prototypes.Epoch.Type()) // any CID that is not cached
	entry := ipldbindcode.Entry{Kind: 1, NumHashes: 1, Hash: make([]byte, 32), Transactions: ipldbindcode.List__Link{cidlink.Link{Cid: txCid}}}
	entryData, entryCid := demoC13Node(&entry, ipldbindcode.Prototypes.Entry.Type())
	block := ipldbindcode.Block{Kind: 2, Slot: int(slot), Shredding: ipldbindcode.List__Shredding{{EntryEndIdx: 0, ShredEndIdx: 0}},
		Entries: ipldbindcode.List__Link{cidlink.Link{Cid: entryCid}},
		Meta:    ipldbindcode.SlotMeta{Parent_slot: int(epoch*432000 - 1), Blocktime: 1650000000},
		Rewards: cidlink.Link{Cid: DummyCID}}
	blockData, blockCid := demoC13Node(&block, ipldbindcode.Prototypes.Block.Type())

	// a cid-to-offset-and-size index written by the real writer, one byte lost at the end: lookups end in io.EOF
	tmp, dst := t.TempDir(), t.TempDir()
	w, err := indexes.NewWriter_CidToOffsetAndSize(epoch, blockCid, indexes.NetworkMainnet, tmp, 1)
	if err != nil {
		t.Fatal(err)
	}
	w.Put(blockCid, 100, 200)
	if err := w.Seal(context.Background(), dst); err != nil {
		t.Fatal(err)
	}
	w.Close()
	full, _ := os.ReadFile(w.GetFilepath())
	idx, err := indexes.OpenWithReader_CidToOffsetAndSize(&demoC13ShortB{b: full[:len(full)-1]})
	if err != nil {
		t.Fatal(err)
	}
	conf := bigcache.DefaultConfig(0)
	conf.CleanWindow, conf.Verbose, conf.Shards, conf.HardMaxCacheSize = 0, false, 2, 8
	cache, err := hugecache.NewWithConfig(context.Background(), conf)
	if err != nil {
		t.Fatal(err)
	}
	cache.PutRawCarObject(blockCid, blockData)
	cache.PutRawCarObject(entryCid, entryData)
	cache.PutSlotToCid(slot, blockCid)
	e := epoch
	ep := &Epoch{epoch: epoch, config: &Config{Epoch: &e}, allCache: cache, cidToOffsetAndSizeIndex: idx}
	multi := NewMultiEpoch(&Options{})
	multi.AddEpoch(epoch, ep)
	h := newMultiEpochHandler(multi, nil)

	var req fasthttp.Request
	req.Header.SetMethod("POST")
	req.SetRequestURI("/")
	req.Header.SetContentType("application/json")
	req.SetBody([]byte(fmt.Sprintf(`{"jsonrpc":"2.0","id":1,"method":"getBlock","params":[%d,{"encoding":"base64","maxSupportedTransactionVersion":0}]}`, slot)))
	var ctx fasthttp.RequestCtx
	ctx.Init(&req, nil, nil)
	func() {
		defer func() {
			if x := recover(); x != nil {
				t.Errorf("getBlock(%d) PANICKED with a truncated cid-to-offset-and-size index: %v\n%s", slot, x, debug.Stack())
			}
		}()
		h(&ctx)
	}()
	t.Logf("response: %s", ctx.Response.Body())
}
