//go:build verifdemo

package splitcarfetcher

import (
	"bytes"
	"io"
	"testing"
)

// C13 finding: when a piece other than the last one is shorter than the size recorded for it
// (interrupted download of a split-CAR piece), MultiReaderAt.ReadAt returns a short count together with
// a NIL error. Callers such as readNodeFromReaderAtWithOffsetAndSize only look at the error, so the server
// parses a section whose tail is zero bytes and returns them as the archived object (the CID in front of the
// data is intact, so the CID comparison passes).
func TestDemo_C13_MultiReaderAtShortPieceNilError(t *testing.T) {
	first := bytes.NewReader([]byte("AAAA"))
	middle := bytes.NewReader([]byte("BB")) // recorded size 4, only 2 bytes arrived
	last := bytes.NewReader([]byte("CCCC"))
	m := NewMultiReaderAt([]io.ReaderAt{first, middle, last}, []int64{4, 4, 4})
	buf := make([]byte, 12)
	n, err := m.ReadAt(buf, 0)
	if n < len(buf) && err == nil {
		t.Errorf("ReadAt(12 bytes at 0) = %d, nil error: io.ReaderAt requires a non-nil error when n < len(p); buffer = %q", n, buf)
	}
	// a read that lies entirely inside the missing part
	buf = make([]byte, 2)
	n, err = m.ReadAt(buf, 6)
	if n < len(buf) && err == nil {
		t.Errorf("ReadAt(2 bytes at 6) = %d, nil error; buffer = %q", n, buf)
	}
}
