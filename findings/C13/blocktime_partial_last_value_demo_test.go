//go:build verifdemo

package blocktimeindex

import (
	"testing"
)

// C13 finding: a slot-to-blocktime index that lost its last 1..3 bytes is accepted by
// FromBytes / FromFile / FromReader, and the last slot of the epoch then reports a different block time.
// (unmarshalBinary reads every field with bytes.Reader.Read, which returns a short count with a nil
// error when fewer bytes than requested remain; only a read at the very end reports io.EOF.)
// The epoch loader is not affected: it reads exactly DefaultIndexByteSize bytes first.
func TestDemo_C13_BlocktimePartialLastValue(t *testing.T) {
	const epoch = 3
	idx := NewForEpoch(epoch)
	last := uint64(epoch*432000 + 431999)
	const archived = int64(1655123472)
	if err := idx.Set(last, archived); err != nil {
		t.Fatal(err)
	}
	full, err := idx.MarshalBinary()
	if err != nil {
		t.Fatal(err)
	}
	for missing := 1; missing <= 3; missing++ {
		cut := full[:len(full)-missing]
		got, err := FromBytes(cut)
		if err != nil {
			continue // loud: fine
		}
		v, err := got.Get(last)
		if err != nil {
			continue
		}
		if v != archived {
			t.Errorf("index cut by %d byte(s) (%d of %d bytes) opens without error and Get(%d) = %d; the complete file says %d",
				missing, len(cut), len(full), last, v, archived)
		}
	}
}
