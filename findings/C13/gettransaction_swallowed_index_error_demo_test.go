//go:build verifdemo

package main

import (
	"context"
	"errors"
	"io"
	"os"
	"testing"

	"github.com/gagliardetto/solana-go"
	"github.com/ipfs/go-cid"
	"github.com/rpcpool/yellowstone-faithful/indexes"
)

type demoC13Short struct {
	b []byte
}

func (s *demoC13Short) ReadAt(p []byte, off int64) (int, error) { // a short file
	if off >= int64(len(s.b)) {
		return 0, io.EOF
	}
	n := copy(p, s.b[off:])
	if n < len(p) {
		return n, io.EOF
	}
	return n, nil
}
func (s *demoC13Short) Close() error { return nil }

type demoC13Has bool

func (h demoC13Has) Has(sig [64]byte) (bool, error) { return bool(h), nil }

// C13 finding: with two or more epochs loaded, findEpochNumberFromSignature maps EVERY error of the
// sig-to-cid lookup to ErrNotFound (`if _, err := epoch.FindCidFromSignature(ctx, sig); err == nil {...}; return 0, ErrNotFound`).
// A sig-to-cid index that lost its tail (lookups end in io.EOF) therefore makes getTransaction answer
// "Transaction not found" / null for archived transactions. With one epoch loaded the same request is an Internal error.
func TestDemo_C13_GetTransactionSwallowsIndexError(t *testing.T) {
	dir, dst := t.TempDir(), t.TempDir() // the writer deletes its scratch directory on Close
	root, _ := cid.Parse("bafyreifa7raztuv2fm7vdtx3tklkmic554qbakjxcnggpf5dczmomfaufi")
	w, err := indexes.NewWriter_SigToCid(1, root, indexes.NetworkMainnet, dir, 1)
	if err != nil {
		t.Fatal(err)
	}
	var sig solana.Signature
	for i := range sig {
		sig[i] = byte(i + 1)
	}
	if err := w.Put(sig, root); err != nil {
		t.Fatal(err)
	}
	if err := w.Seal(context.Background(), dst); err != nil {
		t.Fatal(err)
	}
	w.Close()
	full, err := os.ReadFile(w.GetFilepath())
	if err != nil {
		t.Fatal(err)
	}
	rd, err := indexes.OpenWithReader_SigToCid(&demoC13Short{b: full[:len(full)-1]}) // one byte lost
	if err != nil {
		t.Fatal(err) // (a loud open would be fine as well)
	}
	if _, err := rd.Get(sig); err == nil || errors.Is(err, ErrNotFound) {
		t.Fatalf("unexpected: direct lookup on the cut index: %v", err)
	}
	e1, e2 := uint64(1), uint64(2)
	ep1 := &Epoch{epoch: 1, config: &Config{Epoch: &e1}, sigExists: demoC13Has(true), sigToCidIndex: rd}
	ep2 := &Epoch{epoch: 2, config: &Config{Epoch: &e2}, sigExists: demoC13Has(false)}
	multi := NewMultiEpoch(&Options{EpochSearchConcurrency: 2})
	multi.AddEpoch(1, ep1)
	multi.AddEpoch(2, ep2)
	_, err = multi.findEpochNumberFromSignature(context.Background(), sig)
	if errors.Is(err, ErrNotFound) {
		t.Errorf("the sig-exists index of epoch 1 has the signature and its sig-to-cid lookup fails with io.EOF (truncated file), but the epoch search reports: %v  -> getTransaction answers 'Transaction not found'", err)
	}
}
