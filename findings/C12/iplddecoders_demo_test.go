//go:build verifdemo

package iplddecoders

// C12 demonstrations: well-formed CBOR that is not a well-formed node makes the fast decoders panic
// (unchecked type assertions; rawBytes[1:] on an empty link).

import (
	"encoding/hex"
	"testing"
)

func c12demoDecode(t *testing.T, name, in string, f func([]byte) error) {
	t.Run(name, func(t *testing.T) {
		b, _ := hex.DecodeString(in)
		defer func() {
			if r := recover(); r != nil {
				t.Fatalf("PANIC instead of an error on %s: %v", in, r)
			}
		}()
		t.Logf("%s -> %v", in, f(b))
	})
}

func TestDemo_C12_FastDecoders(t *testing.T) {
	// Entry [1, 0, 0, 0]: the hash is an integer, not bytes
	c12demoDecode(t, "Entry-hash-not-bytes", "8401000000", func(b []byte) error { _, err := DecodeEntry(b); return err })
	// Transaction [0, 0, 0, 0]: data is an integer, not a list
	c12demoDecode(t, "Transaction-data-not-a-list", "8400000000", func(b []byte) error { _, err := DecodeTransaction(b); return err })
	// Rewards [5, 0, 0]: data is an integer, not a list
	c12demoDecode(t, "Rewards-data-not-a-list", "83050000", func(b []byte) error { _, err := DecodeRewards(b); return err })
	// Block [2, 0, [], [], 0, 0]: meta is an integer, not a list
	c12demoDecode(t, "Block-meta-not-a-list", "86020080800000", func(b []byte) error { _, err := DecodeBlock(b); return err })
	// Epoch [4, 0, [42(h'')]]: a link whose byte string is empty -> rawBytes[1:]
	c12demoDecode(t, "Epoch-empty-link", "83040081d82a40", func(b []byte) error { _, err := DecodeEpoch(b); return err })
	// the same through DecodeAny (what the server calls on CAR data)
	c12demoDecode(t, "DecodeAny-empty-link", "83040081d82a40", func(b []byte) error { _, err := DecodeAny(b); return err })
}
