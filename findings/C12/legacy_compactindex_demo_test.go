//go:build verifdemo

package compactindex

// C12 demonstration (legacy 8-byte-value format; compactindex36 is identical): a 32-byte header with
// NumBuckets = 0 is accepted by Open, and every Lookup divides by zero in Header.BucketHash.

import (
	"bytes"
	"encoding/hex"
	"testing"
)

func TestDemo_C12_LegacyZeroBuckets(t *testing.T) {
	in, _ := hex.DecodeString("7264636563696478" + "0000000000000000" + "00000000" + "01" + "0000000000000000000000")
	db, err := Open(bytes.NewReader(in))
	if err != nil {
		t.Fatalf("demo input not accepted by Open: %v", err)
	}
	defer func() {
		if r := recover(); r != nil {
			t.Fatalf("PANIC instead of an error: Lookup on an index with 0 buckets: %v", r)
		}
	}()
	_, err = db.Lookup([]byte("any key"))
	t.Logf("Lookup -> %v", err)
}
