//go:build verifdemo

package bucketteer

// C12 demonstration (the deprecated/bucketteer reader has the same first lines): the first four bytes of the
// file are an allocation size; a 4-byte file makes NewReader allocate 2 GiB before it looks at the magic.

import (
	"bytes"
	"runtime"
	"testing"
)

func TestDemo_C12_HeaderSizeAllocates(t *testing.T) {
	in := []byte{0xff, 0xff, 0xff, 0x7f}
	var m0, m1 runtime.MemStats
	runtime.ReadMemStats(&m0)
	_, err := NewReader(bytes.NewReader(in))
	runtime.ReadMemStats(&m1)
	if grew := m1.TotalAlloc - m0.TotalAlloc; grew > 64<<20 {
		t.Fatalf("ALLOCATION out of proportion: NewReader of a 4-byte file allocated %d bytes (err=%v)", grew, err)
	}
}
