//go:build verifdemo

package carreader

// C12 demonstration: a section whose length prefix is smaller than its CID: remainingSectionLen = 1 - 4 < 0
// is used as an allocation size.

import (
	"bufio"
	"bytes"
	"encoding/hex"
	"testing"
)

func TestDemo_C12_SectionShorterThanCid(t *testing.T) {
	in, _ := hex.DecodeString("00" + "01000000") // length 0, then a CIDv1 (codec 0, identity hash, 0 bytes)
	defer func() {
		if r := recover(); r != nil {
			t.Fatalf("PANIC instead of an error: ReadNodeInfoWithData on %x: %v", in, r)
		}
	}()
	_, _, _, err := ReadNodeInfoWithData(bufio.NewReader(bytes.NewReader(in)))
	t.Logf("-> %v", err)
}
