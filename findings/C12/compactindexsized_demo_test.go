//go:build verifdemo

package compactindexsized

// C12 demonstrations against the unmodified package (copy next to the package sources or inject with
// `go test -overlay`, run with -tags verifdemo). Each test FAILS while the defect is present.

import (
	"bytes"
	"encoding/hex"
	"runtime"
	"testing"
)

func c12demoHex(t *testing.T, s string) []byte {
	b, err := hex.DecodeString(s)
	if err != nil {
		t.Fatal(err)
	}
	return b
}

func c12demoCall(t *testing.T, what string, f func() error) {
	t.Helper()
	defer func() {
		if r := recover(); r != nil {
			t.Fatalf("PANIC instead of an error: %s: %v", what, r)
		}
	}()
	t.Logf("%s -> %v", what, f())
}

// A 24-byte file: magic + header length 12. Header.Load checks `len < 12` but reads buf[24] and buf[25:].
func TestDemo_C12_HeaderLength12(t *testing.T) {
	in := c12demoHex(t, "636f6d7069737a64"+"0c000000"+"000000000000000000000000")
	c12demoCall(t, "Open(24-byte file, header length 12)", func() error { _, err := Open(bytes.NewReader(in)); return err })
}

// A 12-byte file: magic + header length 0xfffffffe. 8+4+size wraps around in uint32 arithmetic to 10, the
// header buffer is shorter than the fixed part and Load slices buf[8:12].
func TestDemo_C12_HeaderLengthWraps(t *testing.T) {
	in := c12demoHex(t, "636f6d7069737a64"+"feffffff")
	c12demoCall(t, "Open(12-byte file, header length 0xfffffffe)", func() error { _, err := Open(bytes.NewReader(in)); return err })
}

// A 12-byte file whose header length says 0x7fffffff: Open allocates 2 GiB before it notices the file is short.
func TestDemo_C12_HeaderLengthAllocates(t *testing.T) {
	in := c12demoHex(t, "636f6d7069737a64"+"ffffff7f")
	var m0, m1 runtime.MemStats
	runtime.ReadMemStats(&m0)
	_, err := Open(bytes.NewReader(in))
	runtime.ReadMemStats(&m1)
	if grew := m1.TotalAlloc - m0.TotalAlloc; grew > 64<<20 {
		t.Fatalf("ALLOCATION out of proportion: Open of a 12-byte file allocated %d bytes (err=%v)", grew, err)
	}
}

// The hash length of a bucket comes from the file (byte 8 of the bucket header) and is used as a slice bound
// on a buffer of `stride` bytes: sealed one-key index, hash length 3 -> 0x7f.
func TestDemo_C12_BucketHashLength(t *testing.T) {
	// header (value size 36, 1 bucket, no metadata) + bucket header (1 entry, hash length 0x7f, entries at 0x36) + one 39-byte entry
	in := c12demoHex(t, "636f6d7069737a64"+"0e000000"+"2400000000000000"+"01000000"+"01"+"00"+
		"00000000"+"01000000"+"7f"+"00"+"2a0000000000"+
		"000000"+"000000000000000000000000000000000000000000000000000000000000000000000000")
	db, err := Open(bytes.NewReader(in))
	if err != nil {
		t.Fatalf("demo input not accepted by Open: %v", err)
	}
	c12demoCall(t, "Lookup on an index whose bucket header says hash length 127", func() error { _, err := db.Lookup([]byte("any key")); return err })
}
