//go:build verifdemo

package blocktimeindex

// C12 demonstrations: the capacity field of the file is an allocation size, and Get indexes by slot - start
// without looking at the capacity.

import (
	"encoding/hex"
	"runtime"
	"testing"
)

const c12demoHeader = "626c6f636b74696d65696e646578" + "002f0d0000000000" + "072f0d0000000000" + "0200000000000000" // magic, start 864000, end 864007, epoch 2

func TestDemo_C12_CapacityMakeslice(t *testing.T) {
	in, _ := hex.DecodeString(c12demoHeader + "00000000007f0000")
	defer func() {
		if r := recover(); r != nil {
			t.Fatalf("PANIC instead of an error: FromBytes with capacity 0x7f0000000000: %v", r)
		}
	}()
	_, err := FromBytes(in)
	t.Logf("-> %v", err)
}

func TestDemo_C12_CapacityAllocates(t *testing.T) {
	in, _ := hex.DecodeString(c12demoHeader + "0000000100000000") // capacity 16 777 216 in a 46-byte file
	var m0, m1 runtime.MemStats
	runtime.ReadMemStats(&m0)
	_, err := FromBytes(in)
	runtime.ReadMemStats(&m1)
	if grew := m1.TotalAlloc - m0.TotalAlloc; grew > 64<<20 {
		t.Fatalf("ALLOCATION out of proportion: FromBytes of a 46-byte file allocated %d bytes (err=%v)", grew, err)
	}
}

func TestDemo_C12_GetBeyondCapacity(t *testing.T) {
	in, _ := hex.DecodeString(c12demoHeader + "0000000000000000") // capacity 0, range of 8 slots
	idx, err := FromBytes(in)
	if err != nil {
		t.Fatalf("demo input not accepted: %v", err)
	}
	defer func() {
		if r := recover(); r != nil {
			t.Fatalf("PANIC instead of an error: Get(864003) on an index with capacity 0: %v", r)
		}
	}()
	_, err = idx.Get(864003)
	t.Logf("-> %v", err)
}
