//go:build verifdemo

package indexmeta

// C12 demonstration: GetUint64 reads 8 bytes from a value whose length (here 0) comes from the file.

import (
	"encoding/hex"
	"testing"
)

func TestDemo_C12_GetUint64ShortValue(t *testing.T) {
	in, _ := hex.DecodeString("01" + "05" + "65706f6368" + "00") // 1 pair: "epoch" -> empty value
	var m Meta
	if err := m.UnmarshalBinary(in); err != nil {
		t.Fatalf("demo input not accepted: %v", err)
	}
	defer func() {
		if r := recover(); r != nil {
			t.Fatalf("PANIC instead of (0, false): GetUint64 of an empty value: %v", r)
		}
	}()
	v, ok := m.GetUint64(MetadataKey_Epoch)
	t.Logf("-> %d %v", v, ok)
}
