//go:build verifdemo

package linkedlog

// C12 demonstrations: ReadWithSize takes (offset, size) from the pubkey-to-offset-and-size index; size 0
// underflows to an allocation of 2^64-1 bytes, sizes 1..9 slice data[:len(data)-9] with a negative bound.

import (
	"os"
	"path/filepath"
	"testing"
)

func TestDemo_C12_ReadWithSizeSmallSizes(t *testing.T) {
	p := filepath.Join(t.TempDir(), "log")
	if err := os.WriteFile(p, make([]byte, 64), 0o644); err != nil {
		t.Fatal(err)
	}
	ll, err := NewLinkedLog(p)
	if err != nil {
		t.Fatal(err)
	}
	defer ll.Close()
	for _, size := range []uint64{0, 1, 5, 9} {
		size := size
		t.Run("", func(t *testing.T) {
			defer func() {
				if r := recover(); r != nil {
					t.Fatalf("PANIC instead of an error: ReadWithSize(0, %d): %v", size, r)
				}
			}()
			_, _, err := ll.ReadWithSize(0, size)
			t.Logf("ReadWithSize(0, %d) -> %v", size, err)
		})
	}
}
