//go:build verifdemo

package compactindex

// C04 finding, legacy format deprecated/compactindex: a 65 536-byte key is accepted and silently lost
// (key length stored as uint16 in the spill file). Run (nothing is written into /repo):
//
//	cd /repo && echo '{"Replace":{"/repo/deprecated/compactindex/zz_c04_demo_test.go":"/verif/findings/C04/legacy_compactindex_key65536_demo_test.go"}}' > /dev/shm/c04demo8.json &&
//	GOFLAGS=-mod=mod GOPROXY=off GOSUMDB=off GOTOOLCHAIN=local go test -overlay /dev/shm/c04demo8.json -tags verifdemo -vet=off -count=1 -run 'TestDemo_C04' ./deprecated/compactindex ; rm -f /dev/shm/c04demo8.json

import (
	"bytes"
	"context"
	"os"
	"path/filepath"
	"testing"
)

func TestDemo_C04_Legacy8_Key65536Bytes_SilentlyLost(t *testing.T) {
	dir := t.TempDir()
	tmp := filepath.Join(dir, "tmp")
	if err := os.Mkdir(tmp, 0o755); err != nil {
		t.Fatal(err)
	}
	b, err := NewBuilder(tmp, 1, 1<<40)
	if err != nil {
		t.Fatal(err)
	}
	defer b.Close()
	key := bytes.Repeat([]byte{0x41}, 65536)
	if err := b.Insert(key, 12345); err != nil {
		return // rejecting the key with an error is fine
	}
	f, err := os.Create(filepath.Join(dir, "index"))
	if err != nil {
		t.Fatal(err)
	}
	defer f.Close()
	if err := b.Seal(context.Background(), f); err != nil {
		return // an error is fine
	}
	db, err := Open(f)
	if err != nil {
		t.Fatalf("sealed without error but cannot be opened: %v", err)
	}
	got, err := db.Lookup(key)
	if err != nil || got != 12345 {
		t.Fatalf("65 536-byte key: Insert and Seal returned no error, but Lookup -> %d, %v", got, err)
	}
}
