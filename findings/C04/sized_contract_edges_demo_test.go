//go:build verifdemo

package compactindexsized

// Stand-alone demonstrations of the C04 findings against the real, unmodified package (public API only).
// Run (nothing is written into /repo):
//
//	cd /repo && echo '{"Replace":{"/repo/compactindexsized/zz_c04_demo_test.go":"/verif/findings/C04/sized_contract_edges_demo_test.go"}}' > /dev/shm/c04demo.json &&
//	GOFLAGS=-mod=mod GOPROXY=off GOSUMDB=off GOTOOLCHAIN=local go test -overlay /dev/shm/c04demo.json -tags verifdemo -vet=off -count=1 -run 'TestDemo_C04' ./compactindexsized ; rm -f /dev/shm/c04demo.json
//
// Every test FAILS on the tree that has the defect and passes once the builder rejects the input
// (or handles it correctly).

import (
	"bytes"
	"context"
	"os"
	"path/filepath"
	"testing"
)

func demoBuild(t *testing.T, valueSize uint, keys [][]byte, vals [][]byte) (data []byte, buildErr error) {
	t.Helper()
	dir := t.TempDir()
	if err := os.Mkdir(filepath.Join(dir, "tmp"), 0o755); err != nil {
		t.Fatal(err)
	}
	b, err := NewBuilderSized(filepath.Join(dir, "tmp"), uint(len(keys)), valueSize)
	if err != nil {
		return nil, err
	}
	defer b.Close()
	for i := range keys {
		if err := b.Insert(keys[i], vals[i]); err != nil {
			return nil, err
		}
	}
	f, err := os.Create(filepath.Join(dir, "index"))
	if err != nil {
		t.Fatal(err)
	}
	defer f.Close()
	if err := b.Seal(context.Background(), f); err != nil {
		return nil, err
	}
	data, err = os.ReadFile(f.Name())
	if err != nil {
		t.Fatal(err)
	}
	return data, nil
}

// NewBuilderSized accepts value sizes 253, 254 and 255, Insert accepts the values, and Seal panics:
// the entry stride is computed as uint8(3)+uint8(valueSize), which wraps to 0, 1, 2.
func TestDemo_C04_ValueSize253To255_SealPanics(t *testing.T) {
	for _, vs := range []uint{253, 254, 255} {
		func() {
			defer func() {
				if r := recover(); r != nil {
					t.Errorf("value size %d: accepted by NewBuilderSized and Insert, then Seal PANICS: %v", vs, r)
				}
			}()
			val := bytes.Repeat([]byte{7}, int(vs))
			data, err := demoBuild(t, vs, [][]byte{[]byte("key")}, [][]byte{val})
			if err != nil {
				return // rejecting the size with an error is fine
			}
			db, err := Open(bytes.NewReader(data))
			if err != nil {
				t.Errorf("value size %d: sealed without error but cannot be opened: %v", vs, err)
				return
			}
			got, err := db.Lookup([]byte("key"))
			if err != nil || !bytes.Equal(got, val) {
				t.Errorf("value size %d: sealed without error but the key is not returned with its value (err=%v)", vs, err)
			}
		}()
	}
}

// A key of 65 536 bytes is accepted; its length is written as uint16 (= 0) into the spill file, so Seal
// hashes the empty key instead: the index is produced without error and the key cannot be found.
func TestDemo_C04_Key65536Bytes_SilentlyLost(t *testing.T) {
	key := bytes.Repeat([]byte{0x41}, 65536)
	val := bytes.Repeat([]byte{9}, 36)
	data, err := demoBuild(t, 36, [][]byte{key}, [][]byte{val})
	if err != nil {
		return // rejecting the key with an error is fine
	}
	db, err := Open(bytes.NewReader(data))
	if err != nil {
		t.Fatalf("sealed without error but cannot be opened: %v", err)
	}
	got, err := db.Lookup(key)
	if err != nil {
		t.Fatalf("65 536-byte key: Insert and Seal returned no error, but Lookup -> %v", err)
	}
	if !bytes.Equal(got, val) {
		t.Fatalf("65 536-byte key: wrong value returned")
	}
}

// Insert does not compare len(value) with the declared value size: a longer value is silently truncated,
// so Lookup returns fewer bytes than were inserted (data loss without an error).
func TestDemo_C04_LongerValue_SilentlyTruncated(t *testing.T) {
	demoWrongLen(t, 9)
}

// ... and a shorter value is silently zero-padded, so Lookup does not return the value that was inserted.
// (indexes.TestSlotToCid / TestSigToCid insert 7-byte pseudo-CIDs as filler and rely on this.)
func TestDemo_C04_ShorterValue_SilentlyPadded(t *testing.T) {
	demoWrongLen(t, 7)
}

func demoWrongLen(t *testing.T, l int) {
	val := bytes.Repeat([]byte{0x55}, l)
	data, err := demoBuild(t, 8, [][]byte{[]byte("key")}, [][]byte{val})
	if err != nil {
		return // rejecting the value with an error is fine
	}
	db, err := Open(bytes.NewReader(data))
	if err != nil {
		t.Fatal(err)
	}
	got, err := db.Lookup([]byte("key"))
	if err != nil || !bytes.Equal(got, val) {
		t.Errorf("value of %d bytes in an index with 8-byte values: Insert and Seal returned no error, Lookup -> %x (err=%v), inserted %x", l, got, err, val)
	}
}
