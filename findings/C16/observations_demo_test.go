//go:build verifdemo

package main

// OBSERVATIONS made while building the C16 check. They are NOT counted as C16 violations
// (DESIGN.md §2(e) reads "sizes match" as "the recorded header and content sizes delimit exactly
// the block bytes inside the written piece", and merge-cars is not part of the statement), but each
// test below fails on the pinned tree against the real code.
//
// Run (nothing is written into /repo; the split test changes the working directory to a temp dir):
//   d=$(mktemp -d "${VERIF_SHM:-/dev/shm}/c16demo-XXXX"); cp /repo/go.mod /repo/go.sum $d/
//   echo '{"Replace":{"/repo/zz_c16_demo_test.go":"/verif/findings/C16/observations_demo_test.go"}}' > $d/ov.json
//   (cd /repo && TMPDIR=$d GOFLAGS="-mod=mod -modfile=$d/go.mod" GOPROXY=off GOSUMDB=off GOTOOLCHAIN=local \
//      go test -tags verifdemo -overlay $d/ov.json -vet=off -count=1 -run 'TestDemo_C16' -v .); rm -rf $d

import (
	"encoding/csv"
	"os"
	"path/filepath"
	"strconv"
	"testing"

	"github.com/anjor/carlet"
	splitcarfetcher "github.com/rpcpool/yellowstone-faithful/split-car-fetcher"
	"github.com/urfave/cli/v2"
)

// split-car records ContentSize = bytes of the block DAGs only, but appends a Subset node (and the
// Epoch node in the last piece) to every file WITHOUT counting it (writeSubsetNode/writeNode bypass
// writeObject). Consequences: (1) the repository's own local-file piece reader
// (NewFileSplitCarReader, checked in NewSplitCarReader: "file size == HeaderSize+ContentSize") refuses
// every piece split-car has just written; (2) the "file size" column of the metadata CSV is smaller
// than the file.
func TestDemo_C16_Obs_SplitSizesVsWrittenFiles(t *testing.T) {
	in, err := filepath.Abs("fixtures/epoch-0-1.car") // 10 blocks + a subset node: good enough as an epoch CAR
	if err != nil {
		t.Fatal(err)
	}
	dir := t.TempDir()
	out := filepath.Join(dir, "out")
	os.MkdirAll(out, 0o755)
	wd, _ := os.Getwd()
	os.Chdir(dir) // epoch-N-metadata.yaml is written into the working directory
	defer os.Chdir(wd)
	app := &cli.App{Commands: []*cli.Command{newCmd_SplitCar()}}
	if err := app.Run([]string{"x", "split-car", "--size", "40000", "--epoch", "0", "--metadata", filepath.Join(dir, "metadata.csv"), "--output-dir", out, in}); err != nil {
		t.Fatalf("split-car: %v", err)
	}
	meta, err := splitcarfetcher.MetadataFromYaml(filepath.Join(dir, "epoch-0-metadata.yaml"))
	if err != nil {
		t.Fatal(err)
	}
	for i, p := range meta.CarPieces.CarPieces {
		st, _ := os.Stat(p.Name)
		t.Logf("piece %d: headerSize=%d contentSize=%d sum=%d, file on disk=%d bytes", i, p.HeaderSize, p.ContentSize, p.HeaderSize+p.ContentSize, st.Size())
	}
	_, err = splitcarfetcher.NewSplitCarReader(meta.CarPieces, func(cf carlet.CarFile) (splitcarfetcher.ReaderAtCloserSize, error) {
		return splitcarfetcher.NewFileSplitCarReader(cf.Name)
	})
	if err != nil {
		t.Errorf("NewSplitCarReader over the local piece files just written by split-car: %v", err)
	}
	f, _ := os.Open(filepath.Join(dir, "metadata.csv"))
	rows, _ := csv.NewReader(f).ReadAll()
	f.Close()
	for _, r := range rows[1:] {
		st, _ := os.Stat(filepath.Join(out, r[0]))
		if strconv.FormatInt(st.Size(), 10) != r[4] {
			t.Errorf("metadata.csv: %s 'file size' = %s, the file has %d bytes", r[0], r[4], st.Size())
		}
	}
}

// merge-cars wraps the output in a bufio.Writer and never calls Flush: whatever is still in the
// 4096-byte buffer when the action returns is lost.
func TestDemo_C16_Obs_MergeCarsDropsUnflushedTail(t *testing.T) {
	for _, n := range []int{100, 4000} {
		d := t.TempDir()
		var args []string
		for k := 0; k < 2; k++ {
			in := filepath.Join(d, "in"+strconv.Itoa(k)+".car")
			os.WriteFile(in, append([]byte(nulRootCarHeader), make([]byte, n)...), 0o644)
			args = append(args, in)
		}
		out := filepath.Join(d, "out.car")
		app := &cli.App{Commands: []*cli.Command{newCmd_MergeCars()}}
		if err := app.Run(append([]string{"x", "merge-cars", "-o", out}, args...)); err != nil {
			t.Fatal(err)
		}
		st, _ := os.Stat(out)
		if want := int64(len(nulRootCarHeader) + 2*n); st.Size() != want {
			t.Errorf("merging two pieces with %d content bytes each: output has %d bytes, expected %d", n, st.Size(), want)
		}
	}
}
