//go:build verifdemo

package main

import (
	"testing"
	"time"
)

// Free-running reproduction on the real sync.RWMutex (no scheduler, no instrumentation):
// a query that lists the newest epoch while epochs are being added/removed hangs.
func TestDemo_C09_NestedRLock(t *testing.T) {
	m := NewMultiEpoch(&Options{})
	e := uint64(1)
	m.AddEpoch(1, &Epoch{epoch: 1, config: &Config{Epoch: &e}})
	done := make(chan struct{})
	go func() {
		for i := 0; i < 2_000_000; i++ {
			m.GetMostRecentAvailableEpoch()
		}
		close(done)
	}()
	stop := make(chan struct{})
	go func() {
		for {
			select {
			case <-stop:
				return
			default:
			}
			m.AddEpoch(2, &Epoch{epoch: 2, config: &Config{Epoch: &e}})
			m.RemoveEpoch(2)
		}
	}()
	select {
	case <-done:
		close(stop)
	case <-time.After(20 * time.Second):
		t.Fatalf("DEADLOCK: GetMostRecentAvailableEpoch never completes while epochs are added/removed")
	}
}
