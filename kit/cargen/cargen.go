//go:build verif

// Package cargen builds well-formed epoch CAR files from a compact Shape with the REFERENCE
// encoder (ipld-prime bindnode + dag-cbor over the repository's schema prototypes), and records
// ground truth (offsets, section lengths, bytes, slots, signatures, payloads) from its own
// counters, independently of every repository code path under test.
package cargen

import (
	"bytes"
	"crypto/sha256"
	"crypto/sha512"
	"encoding/binary"
	"fmt"
	"hash/crc64"
	"hash/fnv"
	"io"

	"github.com/gagliardetto/solana-go"
	"github.com/ipfs/go-cid"
	carv1 "github.com/ipld/go-car"
	"github.com/ipld/go-ipld-prime"
	"github.com/ipld/go-ipld-prime/codec/dagcbor"
	"github.com/ipld/go-ipld-prime/datamodel"
	cidlink "github.com/ipld/go-ipld-prime/linking/cid"
	"github.com/ipld/go-ipld-prime/schema"
	"github.com/klauspost/compress/zstd"
	"github.com/multiformats/go-multihash"
	"github.com/rpcpool/yellowstone-faithful/ipld/ipldbindcode"
	"github.com/rpcpool/yellowstone-faithful/third_party/solana_proto/confirmed_block"
	"google.golang.org/protobuf/proto"
)

const SlotsPerEpoch = 432000

// Kinds as stored in the first tuple field of every node.
const (
	KindTransaction = iota
	KindEntry
	KindBlock
	KindSubset
	KindEpoch
	KindRewards
	KindDataFrame
)

type PayloadShape struct {
	Pad       int    `json:"pad,omitempty"`        // incompressible bytes added to the payload
	FrameSize int    `json:"frame_size,omitempty"` // 0 = single frame
	FanOut    int    `json:"fan_out,omitempty"`    // next-links per frame group (default 5)
	Checksum  string `json:"checksum,omitempty"`   // "crc64" (default) | "fnv" | "none"
	Bare      bool   `json:"bare,omitempty"`       // single frame without hash/index/total (oldest layout)
	// Commission (rewards payloads only): commission strings of two further reward entries, e.g. "7" and "" or
	// a value that is not a number
	Commission []string `json:"commission,omitempty"`
	// BigAmounts (rewards payloads only): the first reward's lamports and post balance are above 2^53
	BigAmounts bool `json:"big_amounts,omitempty"`
}

type TxShape struct {
	Accounts []int `json:"accounts,omitempty"` // indices into the account universe; the fee payer is derived from the tx counter
	Loaded   []int `json:"loaded,omitempty"`   // address-table loaded accounts (recorded in the metadata only)
	Vote     bool  `json:"vote,omitempty"`
	Failed   bool  `json:"failed,omitempty"`
	// FailKind selects the recorded error of a failed transaction: 0 = InstructionError(0, Custom(7)),
	// 1 = InstructionError(0, InvalidAccountData) (an instruction error without payload),
	// 2 = InsufficientFundsForFee (a transaction error without payload)
	// 3 = an error kind unknown to the server's decoder (the transaction failed all the same)
	FailKind int `json:"fail_kind,omitempty"`
	// MetaGarbage: the stored metadata is bytes that are neither protobuf nor bincode status metadata
	MetaGarbage bool         `json:"meta_garbage,omitempty"`
	NoIndex     bool         `json:"no_index,omitempty"`    // position index omitted
	NoMeta      bool         `json:"no_meta,omitempty"`     // empty metadata
	CidSha512   bool         `json:"cid_sha512,omitempty"`  // the Transaction node is addressed by a sha2-512 CID
	CidShort    bool         `json:"cid_short,omitempty"`   // ... by a sha1 CID (24 bytes)
	BigAmounts  bool         `json:"big_amounts,omitempty"` // fee, balances and compute units above 2^53 (not representable as float64)
	TxPad       int          `json:"tx_pad,omitempty"`      // extra instruction data bytes
	Meta        PayloadShape `json:"meta,omitempty"`
	Data        PayloadShape `json:"data,omitempty"` // frame layout of the transaction bytes (default: one frame)
	Sig         *[64]byte    `json:"sig,omitempty"`  // explicit first signature (collision scenarios)
	Keys        [][32]byte   `json:"keys,omitempty"` // explicit extra static account keys (constructed addresses)
}

type BlockShape struct {
	SlotOffset int           `json:"slot_offset"` // slot = epoch*432000 + SlotOffset
	Parent     *uint64       `json:"parent,omitempty"`
	Blocktime  int64         `json:"blocktime"`
	NoHeight   bool          `json:"no_height,omitempty"`
	Height     uint64        `json:"height,omitempty"` // 0 = derived
	Entries    [][]TxShape   `json:"entries"`
	Rewards    *PayloadShape `json:"rewards,omitempty"`    // nil = no rewards (dummy CID)
	CidSha512  bool          `json:"cid_sha512,omitempty"` // the Block node is addressed by a sha2-512 CID (68 bytes instead of 36)
	CidShort   bool          `json:"cid_short,omitempty"`  // ... by a sha1 CID (24 bytes)
}

type Shape struct {
	Epoch uint64 `json:"epoch"`
	// HeaderWide: the CAR header is valid CBOR that go-car accepts but not the encoding go-car itself writes
	// (version 1 as the two-byte integer 0x18 0x01: "header-wide-int")
	HeaderWide  string       `json:"header_wide,omitempty"`
	// PaddedLengths k > 0: every k-th section's length prefix is written as a longer (non-minimal) varint with one
	// or two extra bytes, a form every uvarint reader accepts; the truth records the offsets and section lengths
	// of the bytes as written
	PaddedLengths int `json:"padded_lengths,omitempty"`
	RootSha512  bool         `json:"root_sha512,omitempty"`  // epoch node CID uses sha2-512: longer CAR header
	SubsetEvery int          `json:"subset_every,omitempty"` // blocks per subset (0 = one subset)
	Blocks      []BlockShape `json:"blocks"`
	Seed        uint64       `json:"seed,omitempty"`
	PrevSlot    *uint64      `json:"prev_slot,omitempty"` // parent of the first block (default: slot-1 or 0)
}

type ObjTruth struct {
	Cid        cid.Cid
	Offset     uint64
	SectionLen uint64 // varint prefix + cid + data
	Data       []byte
	Kind       int
}

type TxTruth struct {
	Sig                       solana.Signature
	Cid                       cid.Cid
	Slot                      uint64
	Position                  int
	HasIndex                  bool
	TxBytes                   []byte
	MetaBytes                 []byte             // uncompressed protobuf (nil when NoMeta)
	MetaZstd                  []byte             // as stored
	Accounts                  []solana.PublicKey // static keys + loaded keys
	Static                    []solana.PublicKey
	Vote                      bool
	Failed                    bool
	Fee                       uint64
	PreBalances, PostBalances []uint64
	TokenUiAmount             float64 // uiAmount of the first pre-token-balance (0 = none)
	Logs                      []string
	Block                     int // index into Blocks
	Obj                       int // index into Objects
}

type BlockTruth struct {
	Slot              uint64
	Cid               cid.Cid
	Parent            uint64
	Blocktime         int64
	Height            uint64
	HasHeight         bool
	LastEntryHash     []byte
	NumEntries        int
	Txs               []int  // indices into Txs, position order
	Rewards           []byte // as stored (zstd)
	RewardsRaw        []byte // uncompressed protobuf
	RewardsCid        cid.Cid
	RewardLamports    int64 // first reward entry
	RewardPostBalance uint64
	Obj               int
	FirstObj          int // index of the first object belonging to this block's DAG
}

type Truth struct {
	Epoch     uint64
	Root      cid.Cid
	HeaderLen uint64
	Objects   []ObjTruth
	Blocks    []BlockTruth
	Txs       []TxTruth
	Bytes     []byte // the whole CAR
	Subsets   []cid.Cid
}

// Account returns member i of the fixed account universe.
func Account(i int) solana.PublicKey {
	h := sha256.Sum256([]byte(fmt.Sprintf("verif-account-%d", i)))
	return solana.PublicKeyFromBytes(h[:])
}

func pp(v int) **int { p := &v; return &p }

func linkOf(c cid.Cid) datamodel.Link { return cidlink.Link{Cid: c} }

type gen struct {
	shape Shape
	t     *Truth
	body  bytes.Buffer
	ctr   uint64
	objs  []ObjTruth
}

func (g *gen) rnd(n int, tag string) []byte {
	out := make([]byte, 0, n+64)
	var i uint64
	for len(out) < n {
		h := sha512.Sum512([]byte(fmt.Sprintf("%d|%s|%d|%d", g.shape.Seed, tag, g.ctr, i)))
		out = append(out, h[:]...)
		i++
	}
	g.ctr++
	return out[:n]
}

func encode(node interface{}, typ schema.Type) []byte {
	b, err := ipld.Marshal(dagcbor.Encode, node, typ)
	if err != nil {
		panic(fmt.Errorf("cargen: encode: %w", err))
	}
	return b
}

func cidFor(data []byte, sha512root bool) cid.Cid {
	mh := uint64(multihash.SHA2_256)
	if sha512root {
		mh = multihash.SHA2_512
	}
	if shortCidNext {
		// a CID shorter than the archive's usual 36 bytes: CIDv1 dag-cbor with sha1 (24 bytes)
		shortCidNext = false
		mh = multihash.SHA1
	}
	c, err := cid.Prefix{Version: 1, Codec: cid.DagCBOR, MhType: mh, MhLength: -1}.Sum(data)
	if err != nil {
		panic(err)
	}
	return c
}

// shortCidNext makes the next cidFor call produce a 24-byte CID (set by the shapes' CidShort flags; the generator
// is single-threaded).
var shortCidNext bool

// add appends an object to the CAR body and records its truth (offset fixed up once the header is known).
func (g *gen) add(data []byte, kind int, sha512root bool) (cid.Cid, int) {
	c := cidFor(data, sha512root)
	cb := c.Bytes()
	var lenbuf [binary.MaxVarintLen64]byte
	n := binary.PutUvarint(lenbuf[:], uint64(len(cb)+len(data)))
	if k := g.shape.PaddedLengths; k > 0 && (len(g.objs)+1)%k == 0 {
		for extra := 1 + (len(g.objs)/k)%2; extra > 0; extra-- {
			lenbuf[n-1] |= 0x80
			lenbuf[n] = 0
			n++
		}
	}
	off := uint64(g.body.Len())
	g.body.Write(lenbuf[:n])
	g.body.Write(cb)
	g.body.Write(data)
	g.objs = append(g.objs, ObjTruth{Cid: c, Offset: off, SectionLen: uint64(n + len(cb) + len(data)), Data: data, Kind: kind})
	return c, len(g.objs) - 1
}

func checksum(kind string, data []byte) (uint64, bool) {
	switch kind {
	case "none":
		return 0, false
	case "fnv":
		h := fnv.New64a()
		h.Write(data)
		return h.Sum64(), true
	default:
		return crc64.Checksum(data, crc64.MakeTable(crc64.ISO)), true
	}
}

// frames splits payload into the first frame (returned, to be embedded) after writing the
// continuation frames as separate DataFrame objects, laid out as in the schema comment:
// frame 0 links frames 1..F, frame F links F+1..2F, ...
func (g *gen) frames(payload []byte, ps PayloadShape) ipldbindcode.DataFrame {
	if ps.Bare {
		return ipldbindcode.DataFrame{Kind: KindDataFrame, Data: payload}
	}
	fs := ps.FrameSize
	var chunks [][]byte
	if fs <= 0 || len(payload) <= fs {
		chunks = [][]byte{payload}
	} else {
		for off := 0; off < len(payload); off += fs {
			end := off + fs
			if end > len(payload) {
				end = len(payload)
			}
			chunks = append(chunks, payload[off:end])
		}
	}
	F := ps.FanOut
	if F <= 0 {
		F = 5
	}
	total := len(chunks)
	sum, hasSum := checksum(ps.Checksum, payload)
	mk := func(i int, next []cid.Cid) ipldbindcode.DataFrame {
		df := ipldbindcode.DataFrame{Kind: KindDataFrame, Index: pp(i), Total: pp(total), Data: chunks[i]}
		if hasSum {
			df.Hash = pp(int(sum))
		}
		nl := ipldbindcode.List__Link{}
		for _, c := range next {
			nl = append(nl, linkOf(c))
		}
		pnl := &nl
		df.Next = &pnl
		return df
	}
	// build from the end so that the CIDs of later frames are known
	cids := make([]cid.Cid, total)
	frames := make([]ipldbindcode.DataFrame, total)
	nextOf := func(i int) []cid.Cid {
		// frame 0 and every frame k*F (k>=1) carry the following group
		if i != 0 && i%F != 0 {
			return nil
		}
		lo := i + 1
		hi := i + F
		if i == 0 {
			lo, hi = 1, F
		}
		var out []cid.Cid
		for j := lo; j <= hi && j < total; j++ {
			out = append(out, cids[j])
		}
		return out
	}
	// continuation frames are written in index order; a frame that links a group must be written
	// after that group exists, so encode from the back, then emit in an order in which every
	// linked frame precedes its linker.
	encoded := make([][]byte, total)
	for i := total - 1; i >= 1; i-- {
		frames[i] = mk(i, nextOf(i))
		encoded[i] = encode(&frames[i], ipldbindcode.Prototypes.DataFrame.Type())
		cids[i] = cidFor(encoded[i], false)
	}
	for i := 1; i < total; i++ {
		g.add(encoded[i], KindDataFrame, false)
	}
	return mk(0, nextOf(0))
}

func zstdCompress(b []byte) []byte {
	enc, err := zstd.NewWriter(nil, zstd.WithEncoderLevel(zstd.SpeedDefault))
	if err != nil {
		panic(err)
	}
	return enc.EncodeAll(b, nil)
}

// Generate builds the CAR.
func Generate(shape Shape) *Truth {
	g := &gen{shape: shape, t: &Truth{Epoch: shape.Epoch}}
	t := g.t
	base := shape.Epoch * SlotsPerEpoch
	prev := uint64(0)
	if shape.PrevSlot != nil {
		prev = *shape.PrevSlot
	} else if len(shape.Blocks) > 0 {
		s0 := base + uint64(shape.Blocks[0].SlotOffset)
		if s0 > 0 {
			prev = s0 - 1
		}
	}
	var subsetBlocks []cid.Cid
	var subsetFirst, subsetLast uint64
	var subsets []cid.Cid
	flushSubset := func() {
		if len(subsetBlocks) == 0 {
			return
		}
		sub := ipldbindcode.Subset{Kind: KindSubset, First: int(subsetFirst), Last: int(subsetLast)}
		for _, c := range subsetBlocks {
			sub.Blocks = append(sub.Blocks, linkOf(c))
		}
		c, _ := g.add(encode(&sub, ipldbindcode.Prototypes.Subset.Type()), KindSubset, false)
		subsets = append(subsets, c)
		subsetBlocks = nil
	}
	txCounter := 0
	for bi, bs := range shape.Blocks {
		slot := base + uint64(bs.SlotOffset)
		bt := BlockTruth{Slot: slot, Blocktime: bs.Blocktime, FirstObj: len(g.objs)}
		if bs.Parent != nil {
			bt.Parent = *bs.Parent
		} else {
			bt.Parent = prev
		}
		blk := ipldbindcode.Block{Kind: KindBlock, Slot: int(slot), Shredding: ipldbindcode.List__Shredding{}, Entries: ipldbindcode.List__Link{}}
		pos := 0
		for ei, entry := range bs.Entries {
			en := ipldbindcode.Entry{Kind: KindEntry, NumHashes: 12500 + ei, Hash: g.rnd(32, "entryhash"), Transactions: ipldbindcode.List__Link{}}
			for _, ts := range entry {
				tt := g.tx(ts, slot, pos, bi, txCounter)
				txCounter++
				en.Transactions = append(en.Transactions, linkOf(tt.Cid))
				bt.Txs = append(bt.Txs, len(t.Txs))
				t.Txs = append(t.Txs, tt)
				pos++
			}
			c, _ := g.add(encode(&en, ipldbindcode.Prototypes.Entry.Type()), KindEntry, false)
			blk.Entries = append(blk.Entries, linkOf(c))
			blk.Shredding = append(blk.Shredding, ipldbindcode.Shredding{EntryEndIdx: ei, ShredEndIdx: ei})
			bt.LastEntryHash = append([]byte{}, en.Hash...)
		}
		bt.NumEntries = len(bs.Entries)
		// rewards
		if bs.Rewards != nil {
			// a valid Rewards protobuf; padding = extra reward entries with incompressible keys
			rws := &confirmed_block.Rewards{Rewards: []*confirmed_block.Reward{{Pubkey: Account(7).String(), Lamports: int64(slot), PostBalance: 42, RewardType: confirmed_block.RewardType_Fee}}}
			if bs.Rewards.BigAmounts {
				rws.Rewards[0].Lamports, rws.Rewards[0].PostBalance = 9007199254740993, 18446744073709551615
			}
			bt.RewardLamports, bt.RewardPostBalance = rws.Rewards[0].Lamports, rws.Rewards[0].PostBalance
			for ci, cm := range bs.Rewards.Commission {
				rws.Rewards = append(rws.Rewards, &confirmed_block.Reward{Pubkey: Account(20 + ci).String(), Lamports: 5, PostBalance: 6, RewardType: confirmed_block.RewardType_Voting, Commission: cm})
			}
			for n := 0; n < bs.Rewards.Pad; n += 44 {
				rws.Rewards = append(rws.Rewards, &confirmed_block.Reward{Pubkey: solana.PublicKeyFromBytes(g.rnd(32, "rewardkey")).String(), Lamports: 1, PostBalance: 2, RewardType: confirmed_block.RewardType_Rent})
			}
			raw, err := proto.Marshal(rws)
			if err != nil {
				panic(err)
			}
			bt.RewardsRaw = raw
			payload := zstdCompress(raw)
			bt.Rewards = payload
			first := g.frames(payload, *bs.Rewards)
			rw := ipldbindcode.Rewards{Kind: KindRewards, Slot: int(slot), Data: first}
			c, _ := g.add(encode(&rw, ipldbindcode.Prototypes.Rewards.Type()), KindRewards, false)
			blk.Rewards = linkOf(c)
			bt.RewardsCid = c
		} else {
			blk.Rewards = linkOf(DummyCID)
			bt.RewardsCid = DummyCID
		}
		blk.Meta = ipldbindcode.SlotMeta{Parent_slot: int(bt.Parent), Blocktime: int(bs.Blocktime)}
		if !bs.NoHeight {
			h := bs.Height
			if h == 0 {
				h = slot/2 + 1
			}
			bt.Height, bt.HasHeight = h, true
			blk.Meta.Block_height = pp(int(h))
		}
		shortCidNext = bs.CidShort
		c, oi := g.add(encode(&blk, ipldbindcode.Prototypes.Block.Type()), KindBlock, bs.CidSha512)
		bt.Cid, bt.Obj = c, oi
		t.Blocks = append(t.Blocks, bt)
		prev = slot
		if len(subsetBlocks) == 0 {
			subsetFirst = slot
		}
		subsetLast = slot
		subsetBlocks = append(subsetBlocks, c)
		if shape.SubsetEvery > 0 && len(subsetBlocks) >= shape.SubsetEvery {
			flushSubset()
		}
	}
	flushSubset()
	ep := ipldbindcode.Epoch{Kind: KindEpoch, Epoch: int(shape.Epoch), Subsets: ipldbindcode.List__Link{}}
	for _, c := range subsets {
		ep.Subsets = append(ep.Subsets, linkOf(c))
	}
	root, _ := g.add(encode(&ep, ipldbindcode.Prototypes.Epoch.Type()), KindEpoch, shape.RootSha512)
	t.Root = root
	t.Subsets = subsets
	var hdr bytes.Buffer
	if err := carv1.WriteHeader(&carv1.CarHeader{Roots: []cid.Cid{root}, Version: 1}, &hdr); err != nil {
		panic(err)
	}
	if shape.HeaderWide != "" {
		// canonical payload: a2 65 "roots" 81 <tag42 cid> 67 "version" 01
		canon := hdr.Bytes()
		_, n := binary.Uvarint(canon)
		payload := append([]byte{}, canon[n:]...)
		switch shape.HeaderWide {
		case "header-wide-int":
			if payload[len(payload)-1] != 0x01 {
				panic("cargen: unexpected canonical header")
			}
			payload = append(payload[:len(payload)-1], 0x18, 0x01)
		default:
			panic("cargen: unknown HeaderWide " + shape.HeaderWide)
		}
		hdr.Reset()
		var lb [binary.MaxVarintLen64]byte
		hdr.Write(lb[:binary.PutUvarint(lb[:], uint64(len(payload)))])
		hdr.Write(payload)
	}
	t.HeaderLen = uint64(hdr.Len())
	t.Bytes = append(hdr.Bytes(), g.body.Bytes()...)
	for i := range g.objs {
		g.objs[i].Offset += t.HeaderLen
	}
	t.Objects = g.objs
	return t
}

// DummyCID is what radiance stores for "no rewards".
var DummyCID = cid.MustParse("bafkqaaa")

func (g *gen) tx(ts TxShape, slot uint64, pos, blockIdx, counter int) TxTruth {
	var sig solana.Signature
	if ts.Sig != nil {
		sig = *ts.Sig
	} else {
		h := sha512.Sum512([]byte(fmt.Sprintf("verif-sig|%d|%d|%d|%d", g.shape.Seed, g.shape.Epoch, slot, counter)))
		copy(sig[:], h[:])
	}
	payer := Account(1000 + counter%7)
	keys := []solana.PublicKey{payer}
	for _, a := range ts.Accounts {
		keys = append(keys, Account(a))
	}
	for _, k := range ts.Keys {
		keys = append(keys, solana.PublicKey(k))
	}
	program := solana.SystemProgramID
	if ts.Vote {
		program = solana.VoteProgramID
	}
	keys = append(keys, program)
	var accIdx []uint16
	for i := 0; i < len(keys)-1; i++ {
		accIdx = append(accIdx, uint16(i))
	}
	var bh solana.Hash
	copy(bh[:], g.rnd(32, "blockhash"))
	tx := solana.Transaction{
		Signatures: []solana.Signature{sig},
		Message: solana.Message{
			Header:          solana.MessageHeader{NumRequiredSignatures: 1, NumReadonlySignedAccounts: 0, NumReadonlyUnsignedAccounts: 1},
			AccountKeys:     keys,
			RecentBlockhash: bh,
			Instructions: []solana.CompiledInstruction{{
				ProgramIDIndex: uint16(len(keys) - 1),
				Accounts:       accIdx,
				Data:           append([]byte{2, 0, 0, 0}, g.rnd(ts.TxPad, "txpad")...),
			}},
		},
	}
	if len(ts.Loaded) > 0 && !ts.Vote {
		// address-table loaded accounts: a v0 message with one lookup table; the loaded keys
		// themselves are recorded in the metadata (as on chain)
		tx.Message.SetVersion(solana.MessageVersionV0)
		var widx []uint8
		for i := range ts.Loaded {
			widx = append(widx, uint8(i))
		}
		tx.Message.AddressTableLookups = []solana.MessageAddressTableLookup{{AccountKey: Account(500 + counter%3), WritableIndexes: widx}}
	}
	txBytes, err := tx.MarshalBinary()
	if err != nil {
		panic(fmt.Errorf("cargen: marshal tx: %w", err))
	}
	tt := TxTruth{Sig: sig, Slot: slot, Position: pos, HasIndex: !ts.NoIndex, TxBytes: txBytes, Vote: ts.Vote, Failed: ts.Failed, Block: blockIdx}
	tt.Static = append([]solana.PublicKey{}, keys...)
	tt.Accounts = append([]solana.PublicKey{}, keys...)
	node := ipldbindcode.Transaction{Kind: KindTransaction, Slot: int(slot)}
	var metaStored []byte
	if !ts.NoMeta {
		fee := uint64(5000 + counter)
		logs := []string{"Program log: verif " + fmt.Sprint(counter)}
		if ts.Meta.Pad > 0 {
			logs = append(logs, fmt.Sprintf("%x", g.rnd((ts.Meta.Pad+1)/2, "metapad")))
		}
		meta := &confirmed_block.TransactionStatusMeta{
			Fee:          fee,
			PreBalances:  []uint64{1_000_000, 5},
			PostBalances: []uint64{1_000_000 - fee, 5},
			LogMessages:  logs,
		}
		if ts.BigAmounts {
			fee = 9007199254740993 + 2*uint64(counter)
			cu := uint64(9007199254740995)
			meta.Fee, meta.PreBalances, meta.PostBalances, meta.ComputeUnitsConsumed = fee, []uint64{18446744073709551615, 400000000000000001}, []uint64{18446744073709551615 - fee, 400000000000000001}, &cu
		}
		if ts.BigAmounts {
			// a token balance whose UI amount has nine fractional digits (a 9-decimals mint)
			tt.TokenUiAmount = 1.234567891 + float64(counter%5)*1e-9
			meta.PreTokenBalances = []*confirmed_block.TokenBalance{{AccountIndex: 1, Mint: Account(40).String(), Owner: Account(41).String(),
				UiTokenAmount: &confirmed_block.UiTokenAmount{UiAmount: tt.TokenUiAmount, Decimals: 9, Amount: fmt.Sprint(uint64(tt.TokenUiAmount * 1e9)), UiAmountString: fmt.Sprint(tt.TokenUiAmount)}}}
		}
		tt.PreBalances, tt.PostBalances = meta.PreBalances, meta.PostBalances
		if ts.Failed {
			// bincode of TransactionError::InstructionError(0, InstructionError::Custom(7))
			meta.Err = &confirmed_block.TransactionError{Err: []byte{8, 0, 0, 0, 0, 25, 0, 0, 0, 7, 0, 0, 0}}
			switch ts.FailKind {
			case 1:
				meta.Err.Err = []byte{8, 0, 0, 0, 0, 3, 0, 0, 0} // InstructionError(0, InvalidAccountData)
			case 2:
				meta.Err.Err = []byte{4, 0, 0, 0} // InsufficientFundsForFee
			case 3:
				meta.Err.Err = []byte{0xfe, 0xff, 0x00, 0x00, 0x01} // a transaction error this server's tables do not know
			}
		}
		for _, l := range ts.Loaded {
			k := Account(l)
			meta.LoadedWritableAddresses = append(meta.LoadedWritableAddresses, k[:])
			tt.Accounts = append(tt.Accounts, k)
		}
		mb, err := proto.Marshal(meta)
		if err != nil {
			panic(err)
		}
		tt.MetaBytes = mb
		tt.Fee = fee
		tt.Logs = logs
		metaStored = zstdCompress(mb)
		if ts.MetaGarbage {
			// a status-metadata blob no parser understands (zstd frame around 20 bytes of 0x99)
			metaStored = zstdCompress(bytes.Repeat([]byte{0x99}, 20))
			tt.MetaBytes = bytes.Repeat([]byte{0x99}, 20)
		}
		tt.MetaZstd = metaStored
	}
	// metadata continuation frames precede the transaction node
	node.Metadata = g.frames(metaStored, ts.Meta)
	dataShape := ts.Data
	if ts.Meta.Bare {
		dataShape.Bare = true
	}
	node.Data = g.frames(txBytes, dataShape)
	if !ts.NoIndex {
		node.Index = pp(pos)
	}
	shortCidNext = ts.CidShort
	c, oi := g.add(encode(&node, ipldbindcode.Prototypes.Transaction.Type()), KindTransaction, ts.CidSha512)
	tt.Cid, tt.Obj = c, oi
	return tt
}

// WriteTo writes the CAR bytes.
func (t *Truth) WriteTo(w io.Writer) (int64, error) {
	n, err := w.Write(t.Bytes)
	return int64(n), err
}

// SimpleShape returns an epoch of nBlocks consecutive blocks (starting at slot offset `first`)
// with one entry of txPerBlock transactions each; accounts rotate through a universe of 3.
func SimpleShape(epoch uint64, first, nBlocks, txPerBlock int) Shape {
	s := Shape{Epoch: epoch}
	for b := 0; b < nBlocks; b++ {
		var txs []TxShape
		for k := 0; k < txPerBlock; k++ {
			txs = append(txs, TxShape{Accounts: []int{(b + k) % 3}})
		}
		s.Blocks = append(s.Blocks, BlockShape{SlotOffset: first + b, Blocktime: int64(1_600_000_000 + b), Entries: [][]TxShape{txs}})
	}
	return s
}
