//go:build verif

// Package explore is the explorer core: a stateless depth-first search over recorded
// choice sequences, deviation (cost) bounded, shardable and replayable.
//
// A run is a function func(*Ctx) Result. Every nondeterministic decision inside the run
// is c.Choose(n, kind, costly, label). Search executes the run with a choice prefix,
// answers 0 beyond the prefix, records every point, then recurses over every alternative
// at every point after the prefix whose accumulated cost stays within the bound.
package explore

import (
	"fmt"
	"hash/fnv"
	"os"
	"sort"
	"strconv"
	"strings"
	"time"
)

type Kind uint8

const (
	Sched Kind = iota // which enabled thread runs next
	Env               // an environment answer (timer, injected failure, map order)
	Data              // an input-shape choice
)

func (k Kind) String() string { return [...]string{"sched", "env", "data"}[k] }

type Point struct {
	N      int
	Kind   Kind
	Costly bool // an alternative != 0 at this point costs 1 deviation
	Label  string
}

// Ctx is one execution's choice recorder.
type Ctx struct {
	prefix  []int
	Choices []int
	Points  []Point
	// NoLabels suppresses label storage (speed); labels are kept when replaying.
	KeepLabels bool
	// state-fingerprint pruning (set by Search when cfg.Prune)
	visited map[uint64]int
	bound   int
	Pruned  bool // the execution reached, beyond its prefix, a state whose futures are already covered
}

// Replaying reports whether the execution is still inside its replayed prefix.
func (c *Ctx) Replaying() bool { return len(c.Choices) < len(c.prefix) }

// Visit is called by the scheduler at a choice point with the fingerprint of the global state.
// It reports true when the state was already reached with at least the same remaining deviation
// budget, in which case everything reachable from here is (or will be) explored from that visit
// and the caller should abandon the execution.
func (c *Ctx) Visit(fp uint64) bool {
	if c.visited == nil || c.Replaying() {
		return false
	}
	rem := 1 << 30
	if c.bound >= 0 {
		rem = c.bound - c.Cost(len(c.Choices))
	}
	if old, ok := c.visited[fp]; ok && old >= rem {
		c.Pruned = true
		return true
	}
	c.visited[fp] = rem
	return false
}

// Pruning reports whether state pruning is on for this execution.
func (c *Ctx) Pruning() bool { return c.visited != nil }

type Divergence struct{ Msg string }

func (d Divergence) Error() string { return "explore: replay divergence: " + d.Msg }

// Choose returns a value in [0,n). n<=1 is not a choice and is not recorded.
func (c *Ctx) Choose(n int, kind Kind, costly bool, label string) int {
	if n <= 1 {
		return 0
	}
	i := len(c.Choices)
	v := 0
	if i < len(c.prefix) {
		v = c.prefix[i]
		if v >= n || v < 0 {
			panic(Divergence{fmt.Sprintf("point %d (%s %s): prefix choice %d but only %d alternatives", i, kind, label, v, n)})
		}
	}
	c.Choices = append(c.Choices, v)
	if !c.KeepLabels {
		label = ""
	}
	c.Points = append(c.Points, Point{N: n, Kind: kind, Costly: costly, Label: label})
	return v
}

// Cost returns the number of deviations taken in the first upto points.
func (c *Ctx) Cost(upto int) int {
	n := 0
	for j := 0; j < upto && j < len(c.Choices); j++ {
		if c.Points[j].Costly && c.Choices[j] != 0 {
			n++
		}
	}
	return n
}

// Violation describes one failing execution.
type Violation struct {
	Key      string `json:"key"`  // stable signature used for known-findings matching
	What     string `json:"what"` // human description
	Observed string `json:"observed,omitempty"`
	Expected string `json:"expected,omitempty"`
}

// Result is what a run reports for one execution.
type Result struct {
	Outcome    string // canonical observable outcome (hashed for the distinct-outcome count)
	Violation  *Violation
	NonTrivial bool   // per-check rule
	StateKey   string // optional global-state fingerprint stream for statistics
	Skip       bool   // execution was infeasible / uninteresting: not counted
}

type Config struct {
	Bound       int // max deviations; <0 = unbounded
	ShardIndex  int // 0-based
	ShardCount  int // >=1
	Deadline    time.Time
	MaxExecs    int64 // 0 = unlimited
	StopAtFirst bool  // stop the search at the first violation
	KeepLabels  bool
	Prune       bool // prune executions that reach an already visited global state (needs a scheduler that calls Ctx.Visit)
}

type Found struct {
	Violation Violation
	Choices   []int
	Cost      int
	Labels    []string
}

type Stats struct {
	Executions   int64
	Points       int64
	MaxDepth     int
	NonTrivial   int64
	Outcomes     map[string]int64
	StateKeys    map[uint64]struct{}
	Violations   []Found
	Pruned       int64 // executions abandoned at an already visited state
	States       int64 // distinct global-state fingerprints visited (Prune only)
	CapHit       bool  // deadline or MaxExecs ended the search early
	BoundReached int
	MaxCostSeen  int
	Samples      [][]int
}

func hash64(s string) uint64 { h := fnv.New64a(); h.Write([]byte(s)); return h.Sum64() }

// Search explores the choice tree of run.
func Search(cfg Config, run func(*Ctx) Result) *Stats {
	st := &Stats{Outcomes: map[string]int64{}, StateKeys: map[uint64]struct{}{}}
	if cfg.ShardCount < 1 {
		cfg.ShardCount = 1
	}
	type frame struct {
		prefix []int
		depth  int // tree depth of this node: root=0
	}
	stack := []frame{{nil, 0}}
	var l2 int64
	var visited map[uint64]int
	if cfg.Prune {
		visited = map[uint64]int{}
	}
	for len(stack) > 0 {
		if st.CapHit || (cfg.StopAtFirst && len(st.Violations) > 0) {
			break
		}
		if !cfg.Deadline.IsZero() && time.Now().After(cfg.Deadline) {
			st.CapHit = true
			break
		}
		if cfg.MaxExecs > 0 && st.Executions >= cfg.MaxExecs {
			st.CapHit = true
			break
		}
		f := stack[len(stack)-1]
		stack = stack[:len(stack)-1]
		c := &Ctx{prefix: f.prefix, KeepLabels: cfg.KeepLabels, visited: visited, bound: cfg.Bound}
		res := run(c)
		if c.Pruned {
			st.Pruned++
			res = Result{Skip: true}
		}
		// Count: nodes of depth<2 are run by every shard but counted by shard 0 only.
		counted := f.depth >= 2 || cfg.ShardIndex == 0
		if counted && !res.Skip {
			st.Executions++
			st.Points += int64(len(c.Points))
			if len(c.Points) > st.MaxDepth {
				st.MaxDepth = len(c.Points)
			}
			if res.NonTrivial {
				st.NonTrivial++
			}
			st.Outcomes[res.Outcome]++
			if res.StateKey != "" {
				st.StateKeys[hash64(res.StateKey)] = struct{}{}
			}
			cost := c.Cost(len(c.Choices))
			if cost > st.MaxCostSeen {
				st.MaxCostSeen = cost
			}
			if len(st.Samples) < 3 || (res.NonTrivial && len(st.Samples) < 6) {
				st.Samples = append(st.Samples, append([]int{}, c.Choices...))
			}
			if res.Violation != nil {
				fd := Found{Violation: *res.Violation, Choices: append([]int{}, c.Choices...), Cost: cost}
				for _, p := range c.Points {
					fd.Labels = append(fd.Labels, p.Label)
				}
				st.Violations = append(st.Violations, fd)
			}
		}
		// children, pushed in reverse so that the lowest index / first alternative is explored first
		var kids []frame
		base := c.Cost(len(f.prefix))
		cost := base
		for i := len(f.prefix); i < len(c.Choices); i++ {
			p := c.Points[i]
			for alt := 1; alt < p.N; alt++ {
				nc := cost
				if p.Costly {
					nc++
				}
				if cfg.Bound >= 0 && nc > cfg.Bound {
					continue
				}
				np := make([]int, i+1)
				copy(np, c.Choices[:i])
				np[i] = alt
				kids = append(kids, frame{np, f.depth + 1})
			}
			// choice actually taken at i beyond the prefix is always 0: no cost added
		}
		for k := len(kids) - 1; k >= 0; k-- {
			kd := kids[k]
			if kd.depth == 2 {
				// deal level-2 subtrees round robin; the index must be assigned in a deterministic order
				idx := l2 + int64(k)
				if int(idx%int64(cfg.ShardCount)) != cfg.ShardIndex {
					continue
				}
			}
			stack = append(stack, kd)
		}
		if f.depth == 1 {
			l2 += int64(len(kids))
		}
	}
	st.BoundReached = cfg.Bound
	st.States = int64(len(visited))
	sort.SliceStable(st.Violations, func(i, j int) bool {
		a, b := st.Violations[i], st.Violations[j]
		if a.Cost != b.Cost {
			return a.Cost < b.Cost
		}
		return len(a.Choices) < len(b.Choices)
	})
	return st
}

// Replay runs one execution with a fixed choice list.
func Replay(choices []int, run func(*Ctx) Result) (res Result, c *Ctx, err error) {
	c = &Ctx{prefix: choices, KeepLabels: true}
	defer func() {
		if r := recover(); r != nil {
			if d, ok := r.(Divergence); ok {
				err = d
				return
			}
			panic(r)
		}
	}()
	res = run(c)
	if len(c.Choices) < len(choices) {
		return res, c, Divergence{fmt.Sprintf("execution ended after %d points, replay has %d", len(c.Choices), len(choices))}
	}
	return res, c, nil
}

// Confirm re-executes a found violation n times; all must fail with the same key.
func Confirm(f Found, n int, run func(*Ctx) Result) (bool, string) {
	for i := 0; i < n; i++ {
		res, _, err := Replay(f.Choices, run)
		if err != nil {
			return false, err.Error()
		}
		if res.Violation == nil {
			return false, fmt.Sprintf("re-execution %d did not fail", i)
		}
		if res.Violation.Key != f.Violation.Key {
			return false, fmt.Sprintf("re-execution %d failed differently: %s vs %s", i, res.Violation.Key, f.Violation.Key)
		}
	}
	return true, ""
}

// Merge folds b into a.
func (a *Stats) Merge(b *Stats) {
	a.Executions += b.Executions
	a.Pruned += b.Pruned
	a.States += b.States
	a.Points += b.Points
	if b.MaxDepth > a.MaxDepth {
		a.MaxDepth = b.MaxDepth
	}
	a.NonTrivial += b.NonTrivial
	for k, v := range b.Outcomes {
		a.Outcomes[k] += v
	}
	for k := range b.StateKeys {
		a.StateKeys[k] = struct{}{}
	}
	a.Violations = append(a.Violations, b.Violations...)
	a.CapHit = a.CapHit || b.CapHit
	if b.MaxCostSeen > a.MaxCostSeen {
		a.MaxCostSeen = b.MaxCostSeen
	}
	for _, s := range b.Samples {
		if len(a.Samples) < 6 {
			a.Samples = append(a.Samples, s)
		}
	}
}

func NewStats() *Stats {
	return &Stats{Outcomes: map[string]int64{}, StateKeys: map[uint64]struct{}{}}
}

// ShardFromEnv parses VERIF_SHARD=i/N.
func ShardFromEnv() (int, int) {
	s := os.Getenv("VERIF_SHARD")
	if s == "" {
		return 0, 1
	}
	parts := strings.Split(s, "/")
	if len(parts) != 2 {
		return 0, 1
	}
	i, _ := strconv.Atoi(parts[0])
	n, _ := strconv.Atoi(parts[1])
	if n < 1 {
		n = 1
	}
	return i, n
}

// Product enumerates the full cartesian product of dims (each >=1) calling f with the index vector.
// It returns the number of tuples visited. f returning false stops the enumeration.
func Product(dims []int, f func(ix []int) bool) int64 {
	ix := make([]int, len(dims))
	for _, d := range dims {
		if d <= 0 {
			return 0
		}
	}
	var n int64
	for {
		n++
		if !f(ix) {
			return n
		}
		k := len(dims) - 1
		for k >= 0 {
			ix[k]++
			if ix[k] < dims[k] {
				break
			}
			ix[k] = 0
			k--
		}
		if k < 0 {
			return n
		}
	}
}

// NewCtx returns a context that replays prefix and answers 0 afterwards.
func NewCtx(prefix []int) *Ctx { return &Ctx{prefix: prefix, KeepLabels: true} }
