//go:build verif

package vsched_test

import (
	"fmt"
	"os"
	"runtime"
	"sort"
	"strings"
	rsync "sync"
	"testing"
	"time"

	"github.com/rpcpool/yellowstone-faithful/zzverif/explore"
	atomic "github.com/rpcpool/yellowstone-faithful/zzverif/vatomic"
	"github.com/rpcpool/yellowstone-faithful/zzverif/vsched"
	sync "github.com/rpcpool/yellowstone-faithful/zzverif/vsync"
)

// Conformance of the shims ("model <-> implementation" binding, DESIGN.md §3.3).
//
// Every litmus program is written once against the shim API. It is
//   (a) explored exhaustively, stateless, running-thread-first order      -> outcome set A
//   (b) explored with canonical order + happens-before state pruning      -> outcome set B, must equal A
//   (c) explored preemption-bounded with pruning, bound = 0,1,2,...       -> subset of A, reaches A at some bound
//   (d) run free on the real sync/channels (shims in pass-through)        -> observed outcomes must be a subset of A
// and every litmus states the outcomes it must produce (so a shim that loses behaviours is caught).

type litmus struct {
	name string
	body func() string // returns the observed outcome; spawns with vsched.Go; must wait for its threads
	must []string      // outcomes that must be reachable
	only bool          // A must be exactly `must`
	free bool          // safe to run free-running (no deadlock outcomes)
}

func litmuses() []litmus {
	return []litmus{
		{name: "mutex-counter", free: true, only: true, must: []string{"4"}, body: func() string {
			var mu sync.Mutex
			var wg sync.WaitGroup
			n := 0
			wg.Add(2)
			for i := 0; i < 2; i++ {
				vsched.Go(func() {
					defer wg.Done()
					for k := 0; k < 2; k++ {
						mu.Lock()
						n++
						mu.Unlock()
					}
				})
			}
			wg.Wait()
			return fmt.Sprint(n)
		}},
		{name: "atomic-lost-update", free: true, only: true, must: []string{"1", "2"}, body: func() string {
			var v atomic.Int64
			var wg sync.WaitGroup
			wg.Add(2)
			for i := 0; i < 2; i++ {
				vsched.Go(func() {
					defer wg.Done()
					x := v.Load()
					v.Store(x + 1)
				})
			}
			wg.Wait()
			return fmt.Sprint(v.Load())
		}},
		{name: "mutex-message", free: true, only: true, must: []string{"0", "1"}, body: func() string {
			var mu sync.Mutex
			var wg sync.WaitGroup
			x, r := 0, -1
			wg.Add(2)
			vsched.Go(func() { defer wg.Done(); mu.Lock(); x = 1; mu.Unlock() })
			vsched.Go(func() { defer wg.Done(); mu.Lock(); r = x; mu.Unlock() })
			wg.Wait()
			return fmt.Sprint(r)
		}},
		{name: "rwmutex-nested-rlock", free: false, must: []string{"ok", "DEADLOCK"}, only: true, body: func() string {
			var mu sync.RWMutex
			var wg sync.WaitGroup
			wg.Add(2)
			vsched.Go(func() {
				defer wg.Done()
				mu.RLock()
				mu.RLock() // re-entrant read lock: deadlocks if a writer announced in between
				mu.RUnlock()
				mu.RUnlock()
			})
			vsched.Go(func() { defer wg.Done(); mu.Lock(); mu.Unlock() })
			wg.Wait()
			return "ok"
		}},
		{name: "rwmutex-readers-writer", free: true, only: true, must: []string{"r=0,0", "r=0,1", "r=1,0", "r=1,1"}, body: func() string {
			var mu sync.RWMutex
			var wg sync.WaitGroup
			x := 0
			r := [2]int{}
			wg.Add(3)
			for i := 0; i < 2; i++ {
				i := i
				vsched.Go(func() { defer wg.Done(); mu.RLock(); r[i] = x; mu.RUnlock() })
			}
			vsched.Go(func() { defer wg.Done(); mu.Lock(); x = 1; mu.Unlock() })
			wg.Wait()
			return fmt.Sprintf("r=%d,%d", r[0], r[1])
		}},
		{name: "buffered-chan-close-range", free: true, only: true, must: []string{"[1 2 3]"}, body: func() string {
			ch := make(chan int, 1)
			vsched.Go(func() {
				for i := 1; i <= 3; i++ {
					vsched.Send(ch, i)
				}
				vsched.Close(ch)
			})
			var got []int
			for {
				v, ok := vsched.Recv2(ch)
				if !ok {
					break
				}
				got = append(got, v)
			}
			return fmt.Sprint(got)
		}},
		{name: "two-producers", free: true, only: true, must: []string{"[1 2]", "[2 1]"}, body: func() string {
			ch := make(chan int, 2)
			vsched.Go(func() { vsched.Send(ch, 1) })
			vsched.Go(func() { vsched.Send(ch, 2) })
			a := vsched.Recv(ch)
			b := vsched.Recv(ch)
			return fmt.Sprint([]int{a, b})
		}},
		{name: "unbuffered-rendezvous", free: true, only: true, must: []string{"[1 2]", "[2 1]"}, body: func() string {
			ch := make(chan int)
			vsched.Go(func() { vsched.Send(ch, 1) })
			vsched.Go(func() { vsched.Send(ch, 2) })
			a := vsched.Recv(ch)
			b := vsched.Recv(ch)
			return fmt.Sprint([]int{a, b})
		}},
		{name: "unbuffered-no-receiver", free: false, only: true, must: []string{"DEADLOCK"}, body: func() string {
			ch := make(chan int)
			vsched.Send(ch, 1)
			return "ok"
		}},
		{name: "select-two-ready", free: true, only: true, must: []string{"a", "b"}, body: func() string {
			a, b := make(chan int, 1), make(chan int, 1)
			a <- 1
			b <- 1
			i, _, _ := vsched.Select(vsched.CaseRecv(a), vsched.CaseRecv(b))
			return []string{"a", "b"}[i]
		}},
		{name: "select-default-vs-send", free: true, only: true, must: []string{"default", "got"}, body: func() string {
			ch := make(chan int, 1)
			var wg sync.WaitGroup
			wg.Add(1)
			vsched.Go(func() { defer wg.Done(); vsched.Send(ch, 7) })
			i, _, _ := vsched.Select(vsched.CaseRecv(ch), vsched.CaseDefault())
			wg.Wait()
			return []string{"got", "default"}[i]
		}},
		{name: "select-send-or-default", free: true, only: true, must: []string{"sent,sent", "sent,full"}, body: func() string {
			ch := make(chan int, 1)
			var wg sync.WaitGroup
			wg.Add(1)
			vsched.Go(func() { defer wg.Done(); vsched.Recv(ch) })
			r := ""
			for k := 0; k < 2; k++ {
				i, _, _ := vsched.Select(vsched.CaseSend(ch, k), vsched.CaseDefault())
				r += []string{"sent", "full"}[i] + ","
			}
			wg.Wait()
			return strings.TrimSuffix(r, ",")
		}},
		{name: "poll-timer-loop", free: true, only: true, must: []string{"seen"}, body: func() string {
			// the gsfa flusher pattern: poll a flag with select{recv; timer}
			var flag atomic.Bool
			ch := make(chan int, 1)
			done := make(chan struct{})
			vsched.Go(func() {
				for {
					if flag.Load() {
						vsched.Send(done, struct{}{})
						return
					}
					vsched.Select(vsched.CaseRecv(ch), vsched.CaseTimer(time.Millisecond))
				}
			})
			flag.Store(true)
			vsched.Recv(done)
			return "seen"
		}},
		{name: "once", free: true, only: true, must: []string{"1"}, body: func() string {
			var o sync.Once
			var wg sync.WaitGroup
			var n atomic.Int32
			wg.Add(2)
			for i := 0; i < 2; i++ {
				vsched.Go(func() { defer wg.Done(); o.Do(func() { n.Add(1) }) })
			}
			wg.Wait()
			return fmt.Sprint(n.Load())
		}},
		{name: "waitgroup-handoff", free: true, only: true, must: []string{"3"}, body: func() string {
			var wg sync.WaitGroup
			var mu sync.Mutex
			n := 0
			for i := 0; i < 3; i++ {
				wg.Add(1)
				vsched.Go(func() { defer wg.Done(); mu.Lock(); n++; mu.Unlock() })
			}
			wg.Wait()
			return fmt.Sprint(n)
		}},
		{name: "lock-order-inversion", free: false, only: true, must: []string{"ok", "DEADLOCK"}, body: func() string {
			var a, b sync.Mutex
			var wg sync.WaitGroup
			wg.Add(2)
			vsched.Go(func() { defer wg.Done(); a.Lock(); b.Lock(); b.Unlock(); a.Unlock() })
			vsched.Go(func() { defer wg.Done(); b.Lock(); a.Lock(); a.Unlock(); b.Unlock() })
			wg.Wait()
			return "ok"
		}},
		{name: "chan-len-observation", free: true, only: true, must: []string{"0", "1"}, body: func() string {
			ch := make(chan int, 1)
			var wg sync.WaitGroup
			wg.Add(1)
			vsched.Go(func() { defer wg.Done(); vsched.Send(ch, 1) })
			n := vsched.Len(ch)
			wg.Wait()
			return fmt.Sprint(n)
		}},
	}
}

func outcomesOf(l litmus, cfg explore.Config, canonical bool) (map[string]int64, *explore.Stats) {
	out := map[string]int64{}
	st := explore.Search(cfg, func(c *explore.Ctx) explore.Result {
		var got string
		s := vsched.Run(c, vsched.Options{Horizon: 2000, Drain: true, Canonical: canonical}, func() { got = l.body() })
		if c.Pruned {
			return explore.Result{}
		}
		switch {
		case s.Panic != "":
			got = "PANIC:" + strings.SplitN(s.Panic, "\n", 2)[0]
		case s.Deadlock:
			got = "DEADLOCK"
		case s.HorizonHit:
			got = "HORIZON"
		case len(s.Leaked) > 0:
			got += "+LEAK"
		}
		out[got]++
		return explore.Result{Outcome: got}
	})
	return out, st
}

func keys(m map[string]int64) []string {
	var k []string
	for s := range m {
		k = append(k, s)
	}
	sort.Strings(k)
	return k
}

func TestConformance(t *testing.T) {
	if vsched.Off {
		t.Skip("VSCHED=off")
	}
	for _, l := range litmuses() {
		l := l
		A, stA := outcomesOf(l, explore.Config{Bound: -1}, false)
		B, stB := outcomesOf(l, explore.Config{Bound: -1, Prune: true}, true)
		Bn, stBn := outcomesOf(l, explore.Config{Bound: -1, Prune: true}, false)
		ka, kb, kbn := keys(A), keys(B), keys(Bn)
		t.Logf("%-28s outcomes=%v  executions: stateless=%d canonical+prune=%d(states %d) runningfirst+prune=%d", l.name, ka, stA.Executions, stB.Executions, stB.States, stBn.Executions)
		if fmt.Sprint(ka) != fmt.Sprint(kb) {
			t.Errorf("%s: pruned canonical search lost/added outcomes: stateless=%v pruned=%v", l.name, ka, kb)
		}
		if fmt.Sprint(ka) != fmt.Sprint(kbn) {
			t.Errorf("%s: pruned running-first search lost/added outcomes: stateless=%v pruned=%v", l.name, ka, kbn)
		}
		for _, m := range l.must {
			if A[m] == 0 {
				t.Errorf("%s: outcome %q is not reachable in the model", l.name, m)
			}
		}
		if l.only && len(A) != len(l.must) {
			t.Errorf("%s: model outcomes %v, expected exactly %v", l.name, ka, l.must)
		}
		// bounded: monotone and converging
		reached := false
		for b := 0; b <= 6; b++ {
			C, _ := outcomesOf(l, explore.Config{Bound: b, Prune: true}, false)
			Cs, _ := outcomesOf(l, explore.Config{Bound: b}, false)
			if fmt.Sprint(keys(C)) != fmt.Sprint(keys(Cs)) {
				t.Errorf("%s: bound %d: pruned %v != stateless %v", l.name, b, keys(C), keys(Cs))
			}
			for k := range C {
				if A[k] == 0 {
					t.Errorf("%s: bound %d produced outcome %q outside the unbounded set", l.name, b, k)
				}
			}
			if len(C) == len(A) {
				reached = true
				break
			}
		}
		if !reached {
			t.Errorf("%s: bounded search did not reach the full outcome set by bound 6", l.name)
		}
		// determinism: same schedule twice
		if len(stA.Samples) > 0 {
			sch := stA.Samples[len(stA.Samples)-1]
			var o [2]string
			for k := 0; k < 2; k++ {
				var got string
				s := vsched.Run(explore.NewCtx(sch), vsched.Options{Horizon: 2000, Drain: true}, func() { got = l.body() })
				o[k] = got + "|" + s.Summary() + fmt.Sprint(s.Steps())
			}
			if o[0] != o[1] {
				t.Errorf("%s: nondeterministic replay: %q vs %q", l.name, o[0], o[1])
			}
		}
	}
}

// TestFreeRunSubset runs the deadlock-free litmus programs on the real primitives (no scheduler
// active: every shim delegates to sync / real channels) and checks observed ⊆ model.
func TestFreeRunSubset(t *testing.T) {
	iters := 400
	if os.Getenv("VERIF_TIER") == "thorough" {
		iters = 4000
	}
	for _, l := range litmuses() {
		if !l.free {
			continue
		}
		A, _ := outcomesOf(l, explore.Config{Bound: -1, Prune: true}, true)
		seen := map[string]int{}
		for _, procs := range []int{1, 2, 4, 16} {
			old := runtime.GOMAXPROCS(procs)
			for i := 0; i < iters/4; i++ {
				seen[l.body()]++
			}
			runtime.GOMAXPROCS(old)
		}
		for o := range seen {
			if A[o] == 0 {
				t.Errorf("%s: real primitives produced %q which the model cannot (model: %v)", l.name, o, keys(A))
			}
		}
		t.Logf("%-28s free-running outcomes %v within model %v", l.name, seen, keys(A))
	}
}

// TestRealRWMutexWriterPreference confirms on the real sync.RWMutex the behaviour the model
// relies on for deadlock reports: a reader that re-enters RLock while a writer waits is stuck.
// Confirmation only: a watchdog here can drop an alarm, never create one.
func TestRealRWMutexWriterPreference(t *testing.T) {
	var mu rsync.RWMutex
	mu.RLock()
	writerIn := make(chan struct{})
	go func() { close(writerIn); mu.Lock(); mu.Unlock() }()
	<-writerIn
	// wait (without a fixed sleep) until the writer has announced itself: from then on TryRLock fails
	announced := false
	for i := 0; i < 20000 && !announced; i++ {
		if mu.TryRLock() {
			mu.RUnlock()
			time.Sleep(500 * time.Microsecond)
		} else {
			announced = true
		}
	}
	if !announced {
		t.Skip("writer never got to announce itself (machine too loaded); nothing confirmed, nothing refuted")
	}
	got := make(chan struct{})
	go func() { mu.RLock(); mu.RUnlock(); close(got) }()
	select {
	case <-got:
		t.Errorf("real RWMutex admitted a new reader while a writer was waiting: the writer-preference model would be wrong")
	case <-time.After(500 * time.Millisecond):
		// expected: blocked
	}
	mu.RUnlock() // writer proceeds, then the reader
	select {
	case <-got:
	case <-time.After(5 * time.Second):
		t.Errorf("reader never admitted after the writer left")
	}
}
