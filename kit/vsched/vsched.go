//go:build verif

// Package vsched is a cooperative, explorer-controlled scheduler for real goroutines plus
// models ("shims") of Go's synchronisation primitives. Managed threads are real goroutines
// but exactly one holds the baton; every instrumented operation is a scheduling point at
// which the explorer decides which enabled thread continues.
//
// When no scheduler is active (or VSCHED=off) every shim performs the real operation, so
// instrumented code can also run free (set-up code, the -race pass, scaled reproductions).
package vsched

import (
	"fmt"
	"os"
	"runtime"
	"runtime/debug"
	"sort"
	"strings"
	"sync"
	"sync/atomic"
	"time"
	"unsafe"

	"github.com/rpcpool/yellowstone-faithful/zzverif/explore"
)

// Off is true when VSCHED=off: shims are pure pass-through for the whole process.
var Off = os.Getenv("VSCHED") == "off"

type thread struct {
	id        int
	wake      chan struct{}
	done      bool
	started   bool
	kind      string      // pending op kind
	obj       interface{} // pending op object (identity)
	enabled   func() bool // nil = always enabled
	granted   bool        // pending op was granted by another thread (RWMutex reader hand-off)
	own       int         // points taken by this thread
	timerSeen int         // value of othersSteps at the last timer firing
	name      string
	h         uint64 // happens-before hash of this thread's history
}

// Step is one entry of the optional trace.
type Step struct {
	Thread int
	Kind   string
	Obj    int
}

// Sched is one execution.
type Sched struct {
	ctx      *explore.Ctx
	threads  []*thread
	cur      *thread
	steps    int
	horizon  int
	aborting bool
	fin      chan struct{}
	finOnce  sync.Once
	wg       sync.WaitGroup

	// results
	Deadlock     bool
	DeadlockInfo string
	HorizonHit   bool
	Panic        string // first panic value + stack of a managed thread
	Leaked       []string
	MainDone     bool
	Preemptions  int
	Switches     int
	Trace        []Step
	KeepTrace    bool

	// options
	Drain bool // after the main body returns keep running the other threads (deterministically) until quiescent
	// NoPreempt, when set, reports whether a pending op may NOT be preempted (thread-local op).
	NoPreempt func(kind string, obj interface{}) bool

	chans       map[unsafe.Pointer]*chanState
	objIDs      map[interface{}]int
	objHash     map[interface{}]uint64
	stateFn     func() string
	blockedSnap []Blocked
	// Canonical orders the enabled threads by ascending id regardless of who is running and makes
	// every alternative free (for unbounded searches; lets HB-equivalent interleavings share states).
	Canonical bool
	Pruned    bool
}

func mix(a, b uint64) uint64 {
	x := a ^ (b + 0x9e3779b97f4a7c15 + (a << 6) + (a >> 2))
	x ^= x >> 33
	x *= 0xff51afd7ed558ccd
	x ^= x >> 33
	return x
}

func strHash(s string) uint64 {
	var h uint64 = 14695981039346656037
	for i := 0; i < len(s); i++ {
		h ^= uint64(s[i])
		h *= 1099511628211
	}
	return h
}

// fold records that thread t applied an operation of this kind on obj: the thread's hash
// absorbs the object's history and the object's history absorbs the thread's, so two executions
// have equal hashes exactly when they have the same happens-before relation.
func (s *Sched) fold(t *thread, kind string, obj interface{}) {
	t.h = mix(t.h, strHash(kind))
	if obj != nil {
		oh := s.objHash[obj]
		t.h = mix(t.h, oh+1)
		s.objHash[obj] = mix(oh, t.h)
	}
}

// FoldValue lets a shim fold an observed value into the running thread's history.
func (s *Sched) FoldValue(v uint64) { s.cur.h = mix(s.cur.h, v) }

func (s *Sched) fingerprint(me *thread) uint64 {
	var h uint64 = 1
	for _, t := range s.threads {
		x := t.h
		if t.done {
			x = mix(x, 0xdead)
		}
		h = mix(h, x)
	}
	if !s.Canonical {
		h = mix(h, uint64(me.id)+101)
	}
	return h
}

var active *Sched

// Active returns the scheduler of the running execution, or nil.
func Active() *Sched {
	if Off {
		return nil
	}
	return active
}

// Ctx returns the explorer context of the running execution (for Env choices), or nil.
func Ctx() *explore.Ctx {
	if s := Active(); s != nil {
		return s.ctx
	}
	return freeCtx
}

var freeCtx *explore.Ctx

// SetFreeCtx installs an explorer context used by MapKeys / Env choices when no scheduler runs.
func SetFreeCtx(c *explore.Ctx) { freeCtx = c }

func (s *Sched) objID(o interface{}) int {
	if o == nil {
		return -1
	}
	id, ok := s.objIDs[o]
	if !ok {
		id = len(s.objIDs)
		s.objIDs[o] = id
	}
	return id
}

func (t *thread) isEnabled() bool {
	if t.done {
		return false
	}
	if t.granted {
		return true
	}
	return t.enabled == nil || t.enabled()
}

func (s *Sched) enabledList(me *thread) []*thread {
	var out []*thread
	if s.Canonical {
		for _, t := range s.threads {
			if t.isEnabled() {
				out = append(out, t)
			}
		}
		return out
	}
	if me != nil && me.isEnabled() {
		out = append(out, me)
	}
	for _, t := range s.threads {
		if t != me && t.isEnabled() {
			out = append(out, t)
		}
	}
	return out
}

func (s *Sched) finish() { s.finOnce.Do(func() { close(s.fin) }) }

// Point is a scheduling point of the running thread: it registers the pending operation,
// lets the explorer choose who runs, and returns when this thread has been chosen while
// enabled() held (the caller then applies the operation immediately).
func (s *Sched) Point(kind string, obj interface{}, enabled func() bool) {
	if s.aborting {
		return
	}
	me := s.cur
	me.own++
	me.kind, me.obj, me.enabled, me.granted = kind, obj, enabled, false
	s.reschedule(me)
	me.enabled = nil
	if s.aborting {
		runtime.Goexit()
	}
	s.fold(me, kind, obj)
	me.kind = ""
	if s.KeepTrace {
		s.Trace = append(s.Trace, Step{me.id, kind, s.objID(obj)})
	}
}

// Granted reports (and clears) whether the running thread's last pending op was granted by a hand-off.
func (s *Sched) Granted() bool {
	g := s.cur.granted
	s.cur.granted = false
	return g
}

func (s *Sched) describeBlocked() string {
	var parts []string
	for _, t := range s.threads {
		if !t.done {
			parts = append(parts, fmt.Sprintf("T%d:%s#%d", t.id, t.kind, s.objID(t.obj)))
		}
	}
	return strings.Join(parts, " ")
}

func (s *Sched) reschedule(me *thread) {
	s.steps++
	if s.steps > s.horizon {
		s.HorizonHit = true
		s.abortFrom(me)
		return
	}
	en := s.enabledList(me)
	if len(en) == 0 {
		alive := false
		for _, t := range s.threads {
			if !t.done {
				alive = true
			}
		}
		if alive {
			if s.MainDone {
				for _, t := range s.threads {
					if !t.done {
						s.Leaked = append(s.Leaked, fmt.Sprintf("T%d:%s", t.id, t.kind))
					}
				}
			} else {
				s.Deadlock = true
				s.DeadlockInfo = s.describeBlocked()
				s.blockedSnap = s.liveBlocked()
			}
		}
		s.abortFrom(me)
		return
	}
	idx := 0
	if s.MainDone {
		// drain phase: deterministic, no choice points
	} else if len(en) > 1 {
		costly := en[0] == me && !s.Canonical
		if s.ctx.Pruning() && s.ctx.Visit(s.fingerprint(me)) {
			s.Pruned = true
			s.abortFrom(me)
			return
		}
		if costly && s.NoPreempt != nil && s.NoPreempt(me.kind, me.obj) {
			// thread-local operation: never preempted here
			idx = 0
		} else {
			idx = s.ctx.Choose(len(en), explore.Sched, costly, me.kind)
			if costly && idx != 0 {
				s.Preemptions++
			}
		}
	}
	next := en[idx]
	if next != me {
		s.Switches++
		s.cur = next
		next.wake <- struct{}{}
		if !me.done {
			<-me.wake
		}
	}
}

func (s *Sched) abortFrom(me *thread) {
	s.aborting = true
	for _, t := range s.threads {
		if t != me && !t.done {
			select {
			case t.wake <- struct{}{}:
			default:
			}
		}
	}
	s.finish()
	if me != nil && !me.done {
		runtime.Goexit()
	}
}

func (s *Sched) spawn(f func(), name string) *thread {
	t := &thread{id: len(s.threads), wake: make(chan struct{}, 1), timerSeen: -1, name: name, kind: "start"}
	if s.cur != nil {
		t.h = mix(s.cur.h, uint64(t.id)+0x5157)
	}
	s.threads = append(s.threads, t)
	s.wg.Add(1)
	go func() {
		defer s.wg.Done()
		<-t.wake
		if s.aborting {
			t.done = true
			return
		}
		t.kind = ""
		s.fold(t, "start", nil)
		defer func() {
			if r := recover(); r != nil {
				if s.Panic == "" {
					s.Panic = fmt.Sprintf("T%d panic: %v\n%s", t.id, r, debug.Stack())
				}
				t.done = true
				if !s.aborting {
					s.aborting = true
					for _, o := range s.threads {
						if o != t && !o.done {
							select {
							case o.wake <- struct{}{}:
							default:
							}
						}
					}
				}
				s.finish()
				return
			}
			t.done = true
			if s.aborting {
				return
			}
			if t.id == 0 {
				s.MainDone = true
				if !s.Drain {
					s.abortFrom(t)
					return
				}
			}
			s.reschedule(t)
		}()
		f()
	}()
	return t
}

// Go starts f as a managed thread (or a plain goroutine when no scheduler is active).
func Go(f func()) {
	s := Active()
	if s == nil {
		// pass-through: a plain goroutine, but tracked, so that a scheduled execution never starts
		// while free-running goroutines of instrumented code are still alive (they would perform
		// shim operations without being managed threads)
		atomic.AddInt64(&freeLive, 1)
		go func() {
			defer atomic.AddInt64(&freeLive, -1)
			f()
		}()
		return
	}
	if s.aborting {
		return
	}
	s.spawn(f, "")
	s.Point("go", nil, nil)
}

// Options for Run.
type Options struct {
	Horizon   int
	Drain     bool
	KeepTrace bool
	Canonical bool
	NoPreempt func(kind string, obj interface{}) bool
}

var runMu sync.Mutex

// freeLive counts goroutines started by Go in pass-through mode that have not finished yet.
var freeLive int64

// Run executes body as thread 0 under the scheduler driven by c and returns when every
// managed goroutine has exited.
func Run(c *explore.Ctx, opt Options, body func()) *Sched {
	if Off {
		panic("vsched.Run with VSCHED=off")
	}
	runMu.Lock()
	defer runMu.Unlock()
	for i := 0; atomic.LoadInt64(&freeLive) > 0; i++ {
		if i > 100000 {
			panic("vsched.Run: free-running goroutines of instrumented code are still alive")
		}
		runtime.Gosched()
		time.Sleep(50 * time.Microsecond)
	}
	if opt.Horizon <= 0 {
		opt.Horizon = 20000
	}
	s := &Sched{ctx: c, horizon: opt.Horizon, fin: make(chan struct{}), Drain: opt.Drain, KeepTrace: opt.KeepTrace,
		NoPreempt: opt.NoPreempt, Canonical: opt.Canonical,
		chans: map[unsafe.Pointer]*chanState{}, objIDs: map[interface{}]int{}, objHash: map[interface{}]uint64{}}
	resetPools()
	active = s
	t0 := s.spawn(body, "main")
	s.cur = t0
	t0.wake <- struct{}{}
	<-s.fin
	s.wg.Wait()
	active = nil
	return s
}

// Yield is an explicit always-enabled scheduling point (used by harness bodies).
func Yield(label string) {
	if s := Active(); s != nil {
		s.Point(label, nil, nil)
	}
}

// othersSteps counts the points taken by threads other than t.
func (s *Sched) othersSteps(t *thread) int { return s.steps - t.own }

// Summary is a compact description of how the execution ended.
func (s *Sched) Summary() string {
	switch {
	case s.Panic != "":
		return "panic"
	case s.Deadlock:
		return "deadlock[" + s.DeadlockInfo + "]"
	case s.HorizonHit:
		return "horizon"
	case len(s.Leaked) > 0:
		l := append([]string{}, s.Leaked...)
		sort.Strings(l)
		return "leaked[" + strings.Join(l, ",") + "]"
	}
	return "ok"
}

// NThreads returns the number of managed threads created.
func (s *Sched) NThreads() int { return len(s.threads) }

// Steps returns the number of scheduling points taken.
func (s *Sched) Steps() int { return s.steps }

// Aborting reports whether the execution is being torn down (shim operations are no-ops).
func (s *Sched) Aborting() bool { return s.aborting }

// CurID returns the id of the running managed thread (0 = the Run body).
func (s *Sched) CurID() int { return s.cur.id }

// Blocked describes one unfinished thread at the end of an execution.
type Blocked struct {
	Thread int
	Kind   string
	Obj    interface{}
}

// BlockedThreads lists the threads that were blocked when the deadlock was detected.
func (s *Sched) BlockedThreads() []Blocked { return s.blockedSnap }

func (s *Sched) liveBlocked() []Blocked {
	var out []Blocked
	for _, t := range s.threads {
		if !t.done {
			out = append(out, Blocked{t.id, t.kind, t.obj})
		}
	}
	return out
}
