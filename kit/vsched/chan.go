//go:build verif

package vsched

import (
	"fmt"
	"reflect"
	"sort"
	"time"
	"unsafe"

	"github.com/rpcpool/yellowstone-faithful/zzverif/explore"
)

// Channel model.
//
// Buffered channels keep the real channel as storage (len/cap in the code under test stay
// correct); enabledness is computed from len/cap plus a shim-side closed flag. Unbuffered
// channels are rendezvous objects inside the shim: a sender parks with its value until a
// receiver takes it.

type pendingSend struct {
	v     interface{}
	taken bool
}

type chanState struct {
	closed bool
	sendq  []*pendingSend // unbuffered only
}

func chanKey[T any](ch chan T) unsafe.Pointer { return *(*unsafe.Pointer)(unsafe.Pointer(&ch)) }

func (s *Sched) chanOf(k unsafe.Pointer) *chanState {
	cs := s.chans[k]
	if cs == nil {
		cs = &chanState{}
		s.chans[k] = cs
	}
	return cs
}

// Send models `ch <- v`.
func Send[T any](ch chan T, v T) {
	s := Active()
	if s == nil {
		ch <- v
		return
	}
	if s.aborting {
		return
	}
	if ch == nil {
		s.Point("send-nil", nil, func() bool { return false })
		return
	}
	k := chanKey(ch)
	cs := s.chanOf(k)
	if cap(ch) > 0 {
		s.Point("send", k, func() bool { return cs.closed || len(ch) < cap(ch) })
		if s.aborting {
			return
		}
		if cs.closed {
			panic("send on closed channel")
		}
		ch <- v
		return
	}
	// arriving at the channel (joining its sender queue) is itself an operation on the channel:
	// the queue order decides which sender a receiver meets
	s.Point("usend-arrive", k, nil)
	if s.aborting {
		return
	}
	ps := &pendingSend{v: v}
	cs.sendq = append(cs.sendq, ps)
	s.Point("usend", k, func() bool { return ps.taken || cs.closed })
	if s.aborting {
		return
	}
	if !ps.taken && cs.closed {
		panic("send on closed channel")
	}
}

// Recv2 models `v, ok := <-ch`.
func Recv2[T any](ch chan T) (T, bool) {
	var zero T
	s := Active()
	if s == nil {
		v, ok := <-ch
		return v, ok
	}
	if s.aborting {
		return zero, false
	}
	if ch == nil {
		s.Point("recv-nil", nil, func() bool { return false })
		return zero, false
	}
	k := chanKey(ch)
	cs := s.chanOf(k)
	if cap(ch) > 0 {
		s.Point("recv", k, func() bool { return len(ch) > 0 || cs.closed })
		if s.aborting {
			return zero, false
		}
		v, ok := <-ch // never blocks: non-empty or really closed
		return v, ok
	}
	s.Point("urecv", k, func() bool { return cs.firstUntaken() != nil || cs.closed })
	if s.aborting {
		return zero, false
	}
	if ps := cs.firstUntaken(); ps != nil {
		ps.taken = true
		cs.dropTaken()
		return ps.v.(T), true
	}
	return zero, false
}

func (cs *chanState) firstUntaken() *pendingSend {
	for _, p := range cs.sendq {
		if !p.taken {
			return p
		}
	}
	return nil
}

func (cs *chanState) dropTaken() {
	q := cs.sendq[:0]
	for _, p := range cs.sendq {
		if !p.taken {
			q = append(q, p)
		}
	}
	cs.sendq = q
}

// Recv models `<-ch`.
func Recv[T any](ch chan T) T {
	v, _ := Recv2(ch)
	return v
}

// RecvOnly models a receive from a receive-only channel that the code under test does not
// own (ctx.Done() and the like). Such a channel may only ever be closed.
func RecvOnly[T any](ch <-chan T) (T, bool) {
	var zero T
	s := Active()
	if s == nil {
		v, ok := <-ch
		return v, ok
	}
	if s.aborting {
		return zero, false
	}
	s.Point("recv-foreign", nil, func() bool { return foreignReady(ch) })
	return zero, false
}

func foreignReady[T any](ch <-chan T) bool {
	if ch == nil {
		return false
	}
	select {
	case _, ok := <-ch:
		if ok {
			panic("vsched: value received from a foreign channel; only close is supported")
		}
		return true
	default:
		return false
	}
}

// Close models close(ch).
func Close[T any](ch chan T) {
	s := Active()
	if s == nil {
		close(ch)
		return
	}
	if s.aborting {
		return
	}
	k := chanKey(ch)
	cs := s.chanOf(k)
	s.Point("close", k, nil)
	if s.aborting {
		return
	}
	if cs.closed {
		panic("close of closed channel")
	}
	cs.closed = true
	close(ch)
}

// ---- select ----

// Case is one case of a select statement.
type Case struct {
	kind  int         // 0 recv, 1 send, 2 timer, 3 default, 4 foreign recv
	raw   interface{} // the real channel (pass-through select)
	sendv interface{}
	dur   time.Duration
	key   unsafe.Pointer
	ready func(s *Sched) bool
	exec  func(s *Sched) (interface{}, bool)
}

// CaseRecv is `case v, ok := <-ch`.
func CaseRecv[T any](ch chan T) Case {
	k := chanKey(ch)
	return Case{kind: 0, key: k, raw: ch,
		ready: func(s *Sched) bool {
			if ch == nil {
				return false
			}
			cs := s.chanOf(k)
			if cap(ch) > 0 {
				return len(ch) > 0 || cs.closed
			}
			return cs.firstUntaken() != nil || cs.closed
		},
		exec: func(s *Sched) (interface{}, bool) {
			cs := s.chanOf(k)
			if cap(ch) > 0 {
				v, ok := <-ch
				return v, ok
			}
			if ps := cs.firstUntaken(); ps != nil {
				ps.taken = true
				cs.dropTaken()
				return ps.v.(T), true
			}
			var zero T
			return zero, false
		}}
}

// CaseRecvOnly is `case <-ch` on a foreign receive-only channel (ctx.Done()).
func CaseRecvOnly[T any](ch <-chan T) Case {
	return Case{kind: 4, raw: ch,
		ready: func(s *Sched) bool { return foreignReady(ch) },
		exec:  func(s *Sched) (interface{}, bool) { var zero T; return zero, false }}
}

// CaseSend is `case ch <- v` (buffered channels only).
func CaseSend[T any](ch chan T, v T) Case {
	k := chanKey(ch)
	return Case{kind: 1, key: k, raw: ch, sendv: v,
		ready: func(s *Sched) bool {
			if ch == nil {
				return false
			}
			if cap(ch) == 0 {
				panic("vsched: select-send on an unbuffered channel is not supported")
			}
			return len(ch) < cap(ch) || s.chanOf(k).closed
		},
		exec: func(s *Sched) (interface{}, bool) {
			if s.chanOf(k).closed {
				panic("send on closed channel")
			}
			ch <- v
			return nil, false
		}}
}

// CaseTimer is `case <-time.After(d)` / a ticker case: a virtual timer.
func CaseTimer(d time.Duration) Case { return Case{kind: 2, dur: d} }

// CaseDefault is `default:`.
func CaseDefault() Case { return Case{kind: 3} }

// Conv converts the value returned by Select back to the element type of ch.
func Conv[T any](ch chan T, v interface{}) T {
	if v == nil {
		var zero T
		return zero
	}
	return v.(T)
}

// ConvOnly is Conv for receive-only channels.
func ConvOnly[T any](ch <-chan T, v interface{}) T {
	var zero T
	return zero
}

// Select models a select statement. It returns the index of the chosen case, the received
// value (recv cases) and the ok flag.
//
// Timer rule: a timer case may fire only when no other case is ready and some other thread
// has taken a step since this thread's last timer firing. Assumption: a polling iteration
// that observes no change is idempotent.
func Select(cases ...Case) (int, interface{}, bool) {
	s := Active()
	if s == nil {
		return realSelect(cases)
	}
	if s.aborting {
		return -1, nil, false
	}
	me := s.cur
	hasDefault, timerIdx := -1, -1
	for i, c := range cases {
		switch c.kind {
		case 3:
			hasDefault = i
		case 2:
			timerIdx = i
		}
	}
	anyReady := func() bool {
		for _, c := range cases {
			if c.ready != nil && c.ready(s) {
				return true
			}
		}
		return false
	}
	var obj interface{}
	for _, c := range cases {
		if c.key != nil {
			obj = c.key
			break
		}
	}
	s.Point("select", obj, func() bool {
		if hasDefault >= 0 || anyReady() {
			return true
		}
		return timerIdx >= 0 && s.othersSteps(me) > me.timerSeen
	})
	if s.aborting {
		return -1, nil, false
	}
	var ready []int
	for i, c := range cases {
		if c.ready != nil && c.ready(s) {
			ready = append(ready, i)
		}
	}
	if len(ready) == 0 {
		if hasDefault >= 0 {
			return hasDefault, nil, false
		}
		me.timerSeen = s.othersSteps(me)
		return timerIdx, nil, false
	}
	pick := ready[0]
	if len(ready) > 1 {
		pick = ready[s.ctx.Choose(len(ready), explore.Sched, false, "select-case")]
	}
	v, ok := cases[pick].exec(s)
	return pick, v, ok
}

// realSelect performs the select on the real channels (pass-through mode) via reflect.
func realSelect(cases []Case) (int, interface{}, bool) {
	rc := make([]reflect.SelectCase, len(cases))
	for i, c := range cases {
		switch c.kind {
		case 0, 4:
			rc[i] = reflect.SelectCase{Dir: reflect.SelectRecv, Chan: reflect.ValueOf(c.raw)}
		case 1:
			sv := reflect.ValueOf(c.sendv)
			if !sv.IsValid() {
				sv = reflect.Zero(reflect.TypeOf(c.raw).Elem())
			}
			rc[i] = reflect.SelectCase{Dir: reflect.SelectSend, Chan: reflect.ValueOf(c.raw), Send: sv}
		case 2:
			rc[i] = reflect.SelectCase{Dir: reflect.SelectRecv, Chan: reflect.ValueOf(time.After(c.dur / FreeTimerDivisor))}
		case 3:
			rc[i] = reflect.SelectCase{Dir: reflect.SelectDefault}
		}
	}
	i, v, ok := reflect.Select(rc)
	if (cases[i].kind == 0 || cases[i].kind == 4) && v.IsValid() {
		return i, v.Interface(), ok
	}
	return i, nil, ok
}

// FreeTimerDivisor divides timer durations in pass-through mode.
var FreeTimerDivisor time.Duration = 100

// Sleep models time.Sleep: a plain yield.
func Sleep(d time.Duration) {
	s := Active()
	if s == nil {
		time.Sleep(d / 100)
		return
	}
	s.Point("sleep", nil, nil)
}

// ---- map iteration order ----

// MapKeys returns the keys of m sorted canonically and then permuted by an Env choice, so the
// explorer owns Go's randomised map iteration order. Up to 4 keys every permutation is
// enumerated; above that identity, reversal and the rotations.
func MapKeys[K comparable, V any](m map[K]V) []K {
	keys := make([]K, 0, len(m))
	for k := range m {
		keys = append(keys, k)
	}
	sort.Slice(keys, func(i, j int) bool { return keyLess(keys[i], keys[j]) })
	c := Ctx()
	n := len(keys)
	if c == nil || n < 2 {
		return keys
	}
	if n <= 4 {
		f := 1
		for i := 2; i <= n; i++ {
			f *= i
		}
		p := c.Choose(f, explore.Env, false, "maporder")
		return nthPerm(keys, p)
	}
	MapKeysTruncated++
	p := c.Choose(n+1, explore.Env, false, "maporder-rot")
	if p == n {
		out := make([]K, n)
		for i := range keys {
			out[n-1-i] = keys[i]
		}
		return out
	}
	return append(append([]K{}, keys[p:]...), keys[:p]...)
}

// MapKeysTruncated counts MapKeys calls that could not enumerate every permutation.
var MapKeysTruncated int

func nthPerm[K any](keys []K, p int) []K {
	pool := append([]K{}, keys...)
	out := make([]K, 0, len(keys))
	for n := len(pool); n > 0; n-- {
		f := 1
		for i := 2; i < n; i++ {
			f *= i
		}
		i := p / f
		p %= f
		out = append(out, pool[i])
		pool = append(pool[:i], pool[i+1:]...)
	}
	return out
}

func keyLess(a, b interface{}) bool {
	switch x := a.(type) {
	case uint64:
		return x < b.(uint64)
	case int:
		return x < b.(int)
	case int64:
		return x < b.(int64)
	case string:
		return x < b.(string)
	}
	va, vb := reflect.ValueOf(a), reflect.ValueOf(b)
	if va.Kind() == reflect.Array && va.Len() > 0 {
		for i := 0; i < va.Len(); i++ {
			x, y := va.Index(i), vb.Index(i)
			switch x.Kind() {
			case reflect.Int, reflect.Int8, reflect.Int16, reflect.Int32, reflect.Int64:
				if x.Int() != y.Int() {
					return x.Int() < y.Int()
				}
			case reflect.Uint, reflect.Uint8, reflect.Uint16, reflect.Uint32, reflect.Uint64:
				if x.Uint() != y.Uint() {
					return x.Uint() < y.Uint()
				}
			default:
				return fmt.Sprint(a) < fmt.Sprint(b)
			}
		}
		return false
	}
	return fmt.Sprint(a) < fmt.Sprint(b)
}

// ---- pools ----

type resettable interface{ ResetForExecution() }

var pools []resettable

// RegisterPool makes p be emptied at the start of every execution.
func RegisterPool(p resettable) {
	for _, q := range pools {
		if q == p {
			return
		}
	}
	pools = append(pools, p)
}

func resetPools() {
	for _, p := range pools {
		p.ResetForExecution()
	}
	// model state of synchronisation objects that were used in the previous execution: an execution that was cut
	// short (pruned, horizon) may have left them locked, and an object can outlive the execution (e.g. a lock inside
	// a loaded epoch that every execution copies)
	for r := range touched {
		r.ResetForExecution()
		delete(touched, r)
	}
}

var touched = map[resettable]struct{}{}

// Touch records that the model state of r was used in the running execution; it is reset before the next one.
func Touch(r resettable) { touched[r] = struct{}{} }

// RecvOnly1 is RecvOnly returning only the value.
func RecvOnly1[T any](ch <-chan T) T {
	v, _ := RecvOnly(ch)
	return v
}

// Len models len(ch): an observation of the channel, hence a scheduling point on it.
func Len[T any](ch chan T) int {
	s := Active()
	if s == nil || s.aborting {
		return len(ch)
	}
	if ch == nil {
		return 0
	}
	s.Point("len", chanKey(ch), nil)
	return len(ch)
}
