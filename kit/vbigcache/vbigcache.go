// Package bigcache (import path .../zzverif/vbigcache) stands in for github.com/allegro/bigcache/v3 in the
// instrumented copy of huge-cache/cache.go: the same cache, with a scheduling point before every operation. The
// look-up cache is shared by all epochs and all requests; its operations are synchronisation events like any lock
// operation (the real cache serialises them with its own locks), and an interleaving that matters - a request that
// still holds a replaced epoch storing a look-up after the reload has emptied the cache - only exists between them.
package bigcache

import (
	"context"

	real "github.com/allegro/bigcache/v3"
	"github.com/rpcpool/yellowstone-faithful/zzverif/vsched"
)

type Config = real.Config

var ErrEntryNotFound = real.ErrEntryNotFound

type BigCache struct{ inner *real.BigCache }

func New(ctx context.Context, config Config) (*BigCache, error) {
	c, err := real.New(ctx, config)
	if err != nil {
		return nil, err
	}
	return &BigCache{inner: c}, nil
}

func (c *BigCache) Get(key string) ([]byte, error) {
	vsched.Yield("cache-get")
	return c.inner.Get(key)
}

func (c *BigCache) Set(key string, entry []byte) error {
	vsched.Yield("cache-set")
	return c.inner.Set(key, entry)
}

func (c *BigCache) Reset() error {
	vsched.Yield("cache-reset")
	return c.inner.Reset()
}
