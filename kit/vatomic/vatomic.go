//go:build verif

// Package atomic is the model of sync/atomic used by instrumented files: a plain variable
// plus a scheduling point (pass-through to the real type without an active scheduler).
package atomic

import (
	ratomic "sync/atomic"

	"github.com/rpcpool/yellowstone-faithful/zzverif/vsched"
)

func pt(kind string, obj interface{}) {
	if s := vsched.Active(); s != nil && !s.Aborting() {
		s.Point(kind, obj, nil)
	}
}

type Bool struct{ v ratomic.Bool }

func (b *Bool) Load() bool                    { pt("a.Load", b); return b.v.Load() }
func (b *Bool) Store(x bool)                  { pt("a.Store", b); b.v.Store(x) }
func (b *Bool) Swap(x bool) bool              { pt("a.Swap", b); return b.v.Swap(x) }
func (b *Bool) CompareAndSwap(o, n bool) bool { pt("a.CAS", b); return b.v.CompareAndSwap(o, n) }

type Int32 struct{ v ratomic.Int32 }

func (b *Int32) Load() int32                    { pt("a.Load", b); return b.v.Load() }
func (b *Int32) Store(x int32)                  { pt("a.Store", b); b.v.Store(x) }
func (b *Int32) Add(x int32) int32              { pt("a.Add", b); return b.v.Add(x) }
func (b *Int32) Swap(x int32) int32             { pt("a.Swap", b); return b.v.Swap(x) }
func (b *Int32) CompareAndSwap(o, n int32) bool { pt("a.CAS", b); return b.v.CompareAndSwap(o, n) }

type Int64 struct{ v ratomic.Int64 }

func (b *Int64) Load() int64                    { pt("a.Load", b); return b.v.Load() }
func (b *Int64) Store(x int64)                  { pt("a.Store", b); b.v.Store(x) }
func (b *Int64) Add(x int64) int64              { pt("a.Add", b); return b.v.Add(x) }
func (b *Int64) Swap(x int64) int64             { pt("a.Swap", b); return b.v.Swap(x) }
func (b *Int64) CompareAndSwap(o, n int64) bool { pt("a.CAS", b); return b.v.CompareAndSwap(o, n) }

type Uint32 struct{ v ratomic.Uint32 }

func (b *Uint32) Load() uint32                    { pt("a.Load", b); return b.v.Load() }
func (b *Uint32) Store(x uint32)                  { pt("a.Store", b); b.v.Store(x) }
func (b *Uint32) Add(x uint32) uint32             { pt("a.Add", b); return b.v.Add(x) }
func (b *Uint32) Swap(x uint32) uint32            { pt("a.Swap", b); return b.v.Swap(x) }
func (b *Uint32) CompareAndSwap(o, n uint32) bool { pt("a.CAS", b); return b.v.CompareAndSwap(o, n) }

type Uint64 struct{ v ratomic.Uint64 }

func (b *Uint64) Load() uint64                    { pt("a.Load", b); return b.v.Load() }
func (b *Uint64) Store(x uint64)                  { pt("a.Store", b); b.v.Store(x) }
func (b *Uint64) Add(x uint64) uint64             { pt("a.Add", b); return b.v.Add(x) }
func (b *Uint64) Swap(x uint64) uint64            { pt("a.Swap", b); return b.v.Swap(x) }
func (b *Uint64) CompareAndSwap(o, n uint64) bool { pt("a.CAS", b); return b.v.CompareAndSwap(o, n) }

type Pointer[T any] struct{ v ratomic.Pointer[T] }

func (p *Pointer[T]) Load() *T                    { pt("a.Load", p); return p.v.Load() }
func (p *Pointer[T]) Store(x *T)                  { pt("a.Store", p); p.v.Store(x) }
func (p *Pointer[T]) Swap(x *T) *T                { pt("a.Swap", p); return p.v.Swap(x) }
func (p *Pointer[T]) CompareAndSwap(o, n *T) bool { pt("a.CAS", p); return p.v.CompareAndSwap(o, n) }

type Value struct{ v ratomic.Value }

func (p *Value) Load() interface{}   { pt("a.Load", p); return p.v.Load() }
func (p *Value) Store(x interface{}) { pt("a.Store", p); p.v.Store(x) }

func AddInt32(a *int32, d int32) int32     { pt("a.Add", a); return ratomic.AddInt32(a, d) }
func AddInt64(a *int64, d int64) int64     { pt("a.Add", a); return ratomic.AddInt64(a, d) }
func AddUint32(a *uint32, d uint32) uint32 { pt("a.Add", a); return ratomic.AddUint32(a, d) }
func AddUint64(a *uint64, d uint64) uint64 { pt("a.Add", a); return ratomic.AddUint64(a, d) }
func LoadInt32(a *int32) int32             { pt("a.Load", a); return ratomic.LoadInt32(a) }
func LoadInt64(a *int64) int64             { pt("a.Load", a); return ratomic.LoadInt64(a) }
func LoadUint32(a *uint32) uint32          { pt("a.Load", a); return ratomic.LoadUint32(a) }
func LoadUint64(a *uint64) uint64          { pt("a.Load", a); return ratomic.LoadUint64(a) }
func StoreInt32(a *int32, v int32)         { pt("a.Store", a); ratomic.StoreInt32(a, v) }
func StoreInt64(a *int64, v int64)         { pt("a.Store", a); ratomic.StoreInt64(a, v) }
func StoreUint32(a *uint32, v uint32)      { pt("a.Store", a); ratomic.StoreUint32(a, v) }
func StoreUint64(a *uint64, v uint64)      { pt("a.Store", a); ratomic.StoreUint64(a, v) }
func CompareAndSwapInt32(a *int32, o, n int32) bool {
	pt("a.CAS", a)
	return ratomic.CompareAndSwapInt32(a, o, n)
}
func CompareAndSwapInt64(a *int64, o, n int64) bool {
	pt("a.CAS", a)
	return ratomic.CompareAndSwapInt64(a, o, n)
}
func CompareAndSwapUint32(a *uint32, o, n uint32) bool {
	pt("a.CAS", a)
	return ratomic.CompareAndSwapUint32(a, o, n)
}
func CompareAndSwapUint64(a *uint64, o, n uint64) bool {
	pt("a.CAS", a)
	return ratomic.CompareAndSwapUint64(a, o, n)
}
