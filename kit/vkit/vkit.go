//go:build verif

// Package vkit is the harness-side reporting kit: every check harness is a Go test that
// enumerates its space, and writes one JSON report per worker process to $VERIF_OUT. The
// driver (/verif/bin/check) merges the reports, matches violations against
// /verif/known-findings.json, writes /verif/evidence/<id>.json and sets the exit code.
package vkit

import (
	"crypto/sha256"
	"encoding/hex"
	"encoding/json"
	"fmt"
	"os"
	"sort"
	"strconv"
	"strings"
	"sync"
	"time"
)

type ViolationRec struct {
	Key    string      `json:"key"`
	What   string      `json:"what"`
	Replay interface{} `json:"replay,omitempty"`
	Count  int         `json:"count"`
}

type Report struct {
	mu              sync.Mutex
	Property        string                   `json:"property"`
	Tier            string                   `json:"tier"`
	Seed            int64                    `json:"seed"`
	Shard           string                   `json:"shard"`
	Evaluations     int64                    `json:"evaluations"`
	NonTrivial      int64                    `json:"distinct_nontrivial"`
	States          int64                    `json:"states"`
	Transitions     int64                    `json:"transitions"`
	TracesValidated int64                    `json:"traces_validated_against_impl"`
	Exhaustive      bool                     `json:"exhaustive"`
	CapHit          bool                     `json:"cap_hit"`
	Rule            string                   `json:"rule"`
	Samples         []interface{}            `json:"samples"`
	Violations      map[string]*ViolationRec `json:"violations"`
	Outcomes        map[string]int64         `json:"outcomes"`
	Counters        map[string]int64         `json:"counters"`
	Bounds          map[string]interface{}   `json:"bounds"`
	Notes           []string                 `json:"notes"`
	Assumptions     []string                 `json:"assumptions"`
	Inconclusive    []string                 `json:"inconclusive"`
	WallS           float64                  `json:"wall_s"`
	InternalError   string                   `json:"internal_error,omitempty"`
	start           time.Time
	maxSamples      int
	distinct        map[string]struct{}
}

func New(property string) *Report {
	si, sn := Shard()
	return &Report{Property: property, Tier: Tier(), Seed: Seed(), Shard: fmt.Sprintf("%d/%d", si, sn), Exhaustive: true,
		Violations: map[string]*ViolationRec{}, Outcomes: map[string]int64{}, Counters: map[string]int64{}, Bounds: map[string]interface{}{},
		start: time.Now(), maxSamples: 6, distinct: map[string]struct{}{}}
}

func Tier() string {
	t := os.Getenv("VERIF_TIER")
	if t != "thorough" {
		return "quick"
	}
	return t
}

func Thorough() bool { return Tier() == "thorough" }

func Seed() int64 {
	v, err := strconv.ParseInt(os.Getenv("VERIF_SEED"), 10, 64)
	if err != nil {
		return 1
	}
	return v
}

func Shard() (int, int) {
	s := os.Getenv("VERIF_SHARD")
	parts := strings.Split(s, "/")
	if len(parts) != 2 {
		return 0, 1
	}
	i, _ := strconv.Atoi(parts[0])
	n, _ := strconv.Atoi(parts[1])
	if n < 1 {
		return 0, 1
	}
	return i, n
}

// Mine reports whether case number idx belongs to this worker.
func Mine(idx int64) bool {
	i, n := Shard()
	return int(idx%int64(n)) == i
}

// Deadline returns the internal deadline of this run ($VERIF_BUDGET_S seconds from start), zero if none.
func (r *Report) Deadline() time.Time {
	v, err := strconv.ParseFloat(os.Getenv("VERIF_BUDGET_S"), 64)
	if err != nil || v <= 0 {
		return time.Time{}
	}
	return r.start.Add(time.Duration(v * float64(time.Second)))
}

func (r *Report) Expired() bool {
	d := r.Deadline()
	if !d.IsZero() && time.Now().After(d) {
		r.mu.Lock()
		r.CapHit, r.Exhaustive = true, false
		r.mu.Unlock()
		return true
	}
	return false
}

// Case counts one evaluated case. key identifies the case for the distinct count ("" = count
// every non-trivial case as distinct, which is right when cases are distinct by construction).
func (r *Report) Case(nonTrivial bool, key string) {
	r.mu.Lock()
	r.Evaluations++
	if nonTrivial {
		if key == "" {
			r.NonTrivial++
		} else if _, ok := r.distinct[key]; !ok {
			r.distinct[key] = struct{}{}
			r.NonTrivial++
		}
	}
	r.mu.Unlock()
}

func (r *Report) Add(counter string, n int64) {
	r.mu.Lock()
	r.Counters[counter] += n
	r.mu.Unlock()
}

func (r *Report) Outcome(o string) {
	r.mu.Lock()
	if len(r.Outcomes) < 5000 || r.Outcomes[o] > 0 {
		r.Outcomes[o]++
	} else {
		r.Outcomes["<other>"]++
	}
	r.mu.Unlock()
}

func (r *Report) Sample(x interface{}) {
	r.mu.Lock()
	if len(r.Samples) < r.maxSamples {
		r.Samples = append(r.Samples, x)
	}
	r.mu.Unlock()
}

func (r *Report) Note(f string, a ...interface{}) {
	r.mu.Lock()
	if len(r.Notes) < 200 {
		r.Notes = append(r.Notes, fmt.Sprintf(f, a...))
	}
	r.mu.Unlock()
}

func (r *Report) Assume(s string) {
	r.mu.Lock()
	for _, a := range r.Assumptions {
		if a == s {
			r.mu.Unlock()
			return
		}
	}
	r.Assumptions = append(r.Assumptions, s)
	r.mu.Unlock()
}

func (r *Report) InconclusiveF(f string, a ...interface{}) {
	r.mu.Lock()
	if len(r.Inconclusive) < 100 {
		r.Inconclusive = append(r.Inconclusive, fmt.Sprintf(f, a...))
	}
	r.mu.Unlock()
}

// Violation records a violation under a stable key; the first replay per key is kept.
func (r *Report) Violation(key, what string, replay interface{}) {
	r.mu.Lock()
	defer r.mu.Unlock()
	if v, ok := r.Violations[key]; ok {
		v.Count++
		return
	}
	if len(r.Violations) >= 400 {
		return
	}
	r.Violations[key] = &ViolationRec{Key: key, What: what, Replay: replay, Count: 1}
}

func (r *Report) NumViolations() int {
	r.mu.Lock()
	defer r.mu.Unlock()
	return len(r.Violations)
}

func (r *Report) Internal(f string, a ...interface{}) {
	r.mu.Lock()
	if r.InternalError == "" {
		r.InternalError = fmt.Sprintf(f, a...)
	}
	r.mu.Unlock()
}

// Finish writes the report. It never fails the Go test because of violations: the driver decides.
func (r *Report) Finish() {
	r.mu.Lock()
	defer r.mu.Unlock()
	r.WallS = time.Since(r.start).Seconds()
	if r.CapHit {
		r.Exhaustive = false
	}
	out := os.Getenv("VERIF_OUT")
	b, err := json.MarshalIndent(r, "", " ")
	if err != nil {
		panic(err)
	}
	if out == "" {
		keys := make([]string, 0, len(r.Violations))
		for k := range r.Violations {
			keys = append(keys, k)
		}
		sort.Strings(keys)
		fmt.Printf("vkit: property=%s evaluations=%d nontrivial=%d states=%d transitions=%d exhaustive=%v violations=%v counters=%v\n",
			r.Property, r.Evaluations, r.NonTrivial, r.States, r.Transitions, r.Exhaustive, keys, r.Counters)
		return
	}
	if err := os.WriteFile(out, b, 0o644); err != nil {
		panic(err)
	}
}

// ReplayRequest returns the decoded replay file named by $VERIF_REPLAY, or nil.
func ReplayRequest() map[string]interface{} {
	p := os.Getenv("VERIF_REPLAY")
	if p == "" {
		return nil
	}
	b, err := os.ReadFile(p)
	if err != nil {
		panic(err)
	}
	var m map[string]interface{}
	if err := json.Unmarshal(b, &m); err != nil {
		panic(err)
	}
	if rp, ok := m["replay"].(map[string]interface{}); ok {
		return rp
	}
	return m
}

func Hash(parts ...interface{}) string {
	h := sha256.New()
	for _, p := range parts {
		fmt.Fprintf(h, "%v|", p)
	}
	return hex.EncodeToString(h.Sum(nil))[:16]
}

// Ints converts a JSON array to []int.
func Ints(x interface{}) []int {
	arr, _ := x.([]interface{})
	out := make([]int, 0, len(arr))
	for _, v := range arr {
		f, _ := v.(float64)
		out = append(out, int(f))
	}
	return out
}
