// Package mmap (import path .../zzverif/vmmap) stands in for golang.org/x/exp/mmap in instrumented copies of the
// repository's files. It behaves like the real package (the reads go to a real mapping) and adds a model of what
// the operating system does with a mapping: ReadAt copies out of the mapped pages, and that copy is not atomic -
// a scheduling point sits in the middle of it. If Close (munmap) runs while a copy is in flight, the real process
// dies with SIGSEGV (a fault, not a recoverable panic); here the event is recorded as a fault and the read returns
// an error, so that the explorer can report the schedule.
package mmap

import (
	"errors"
	"fmt"
	"sync"

	"github.com/rpcpool/yellowstone-faithful/zzverif/vsched"
	real "golang.org/x/exp/mmap"
)

var (
	mu     sync.Mutex
	faults []string
	retain bool
	guards []*Guard
)

// Retain(true): from now on Close only closes the MODEL of a mapping (the real mapping stays, so that one loaded
// object can be "closed" in many explored executions); ReopenAll then marks every mapping created since as open
// and idle again. The real mappings live until the process ends.
func Retain(on bool) {
	mu.Lock()
	retain = on
	mu.Unlock()
}

func ReopenAll() {
	mu.Lock()
	for _, g := range guards {
		g.closed, g.inflight = false, 0
	}
	faults = nil
	mu.Unlock()
}

// NewGuard registers the model of one mapping.
func NewGuard(name string) *Guard {
	g := &Guard{Name: name}
	mu.Lock()
	if retain {
		guards = append(guards, g)
	}
	mu.Unlock()
	return g
}

// Retained reports whether the real mapping must be kept on Close.
func Retained() bool {
	mu.Lock()
	defer mu.Unlock()
	return retain
}

// Faults returns the faults recorded since the last ResetFaults.
func Faults() []string {
	mu.Lock()
	defer mu.Unlock()
	return append([]string{}, faults...)
}

func ResetFaults() {
	mu.Lock()
	faults = nil
	mu.Unlock()
}

// Guard is the model of one mapping.
type Guard struct {
	Name     string
	inflight int
	closed   bool
}

// Begin is called when a copy out of the mapping starts. ok = false: the mapping is gone already (the real
// package answers "mmap: closed").
func (g *Guard) Begin() (ok bool) {
	mu.Lock()
	if g.closed {
		mu.Unlock()
		return false
	}
	g.inflight++
	mu.Unlock()
	vsched.Yield("mmap-copy") // the copy is in progress
	mu.Lock()
	defer mu.Unlock()
	if g.closed {
		g.inflight--
		return false // fault recorded by Close
	}
	return true
}

func (g *Guard) End() {
	mu.Lock()
	g.inflight--
	mu.Unlock()
}

// Close is the munmap. It reports whether the mapping was still open.
func (g *Guard) Close() bool {
	mu.Lock()
	defer mu.Unlock()
	if g.closed {
		return false
	}
	if g.inflight > 0 {
		faults = append(faults, fmt.Sprintf("%s was unmapped (Close) while %d read(s) were copying from the mapping: SIGSEGV in the real process", g.Name, g.inflight))
	}
	g.closed = true
	return true
}

var errClosed = errors.New("mmap: closed")

type ReaderAt struct {
	inner *real.ReaderAt
	g     *Guard
}

func Open(filename string) (*ReaderAt, error) {
	r, err := real.Open(filename)
	if err != nil {
		return nil, err
	}
	return &ReaderAt{inner: r, g: NewGuard(filename)}, nil
}

func (r *ReaderAt) ReadAt(p []byte, off int64) (int, error) {
	if !r.g.Begin() {
		return 0, errClosed
	}
	defer r.g.End()
	return r.inner.ReadAt(p, off)
}

func (r *ReaderAt) Close() error {
	if !r.g.Close() || Retained() {
		return nil
	}
	return r.inner.Close()
}

func (r *ReaderAt) Len() int { return r.inner.Len() }

func (r *ReaderAt) At(i int) byte { return r.inner.At(i) }
