//go:build verif

// Package sync is the model of package sync used by instrumented files (import path
// rewritten by tools/instrument). Without an active scheduler every type delegates to the
// real primitive it embeds.
package sync

import (
	rsync "sync"

	"github.com/rpcpool/yellowstone-faithful/zzverif/vsched"
)

type Locker = rsync.Locker

// ---- Mutex ----

type Mutex struct {
	real rsync.Mutex
	held bool
}

func (m *Mutex) Lock() {
	s := vsched.Active()
	if s == nil {
		m.real.Lock()
		return
	}
	vsched.Touch(m)
	s.Point("Lock", m, func() bool { return !m.held })
	m.held = true
}

// ResetForExecution clears the model state (see vsched.Touch).
func (m *Mutex) ResetForExecution() { m.held = false }

func (m *Mutex) TryLock() bool {
	s := vsched.Active()
	if s == nil {
		return m.real.TryLock()
	}
	vsched.Touch(m)
	s.Point("TryLock", m, nil)
	if m.held {
		return false
	}
	m.held = true
	return true
}

func (m *Mutex) Unlock() {
	s := vsched.Active()
	if s == nil {
		m.real.Unlock()
		return
	}
	if s.Aborting() {
		return
	}
	if !m.held {
		panic("sync: unlock of unlocked mutex")
	}
	s.Point("Unlock", m, nil)
	m.held = false
}

// ---- RWMutex (with Go's writer preference) ----
//
// Lock = (1) acquire the writer-serialising mutex, (2) announce: from now on new RLock calls
// block, (3) wait until the active readers have left. Unlock hands the read lock to every
// reader that is blocked at that moment (as runtime_Semrelease does) before another writer
// can announce.

type RWMutex struct {
	real     rsync.RWMutex
	wHeld    bool // writer-serialising mutex held (announce pending or writer active)
	announce bool // a writer has announced; new readers block
	writer   bool // a writer holds the lock
	readers  int
	waiting  map[int]bool // reader tokens blocked in RLock
	granted  map[int]bool
	nextTok  int
	rheld    map[int]int // read locks held, per managed thread id
}

// ReentrantBlocked returns the ids of threads that are blocked in RLock while already holding
// a read lock of this mutex (the culprits of a writer-preference deadlock).
func (m *RWMutex) ReentrantBlocked(s *vsched.Sched) []int {
	var out []int
	for _, b := range s.BlockedThreads() {
		if b.Kind == "RLock" && b.Obj == interface{}(m) && m.rheld[b.Thread] > 0 {
			out = append(out, b.Thread)
		}
	}
	return out
}

func (m *RWMutex) Lock() {
	s := vsched.Active()
	if s == nil {
		m.real.Lock()
		return
	}
	vsched.Touch(m)
	s.Point("Lock.w", m, func() bool { return !m.wHeld })
	m.wHeld = true
	m.announce = true
	s.Point("Lock.wait", m, func() bool { return m.readers == 0 })
	m.writer = true
}

// ResetForExecution clears the model state (see vsched.Touch).
func (m *RWMutex) ResetForExecution() {
	m.wHeld, m.announce, m.writer, m.readers = false, false, false, 0
	m.waiting, m.granted, m.rheld, m.nextTok = nil, nil, nil, 0
}

func (m *RWMutex) TryLock() bool {
	s := vsched.Active()
	if s == nil {
		return m.real.TryLock()
	}
	vsched.Touch(m)
	s.Point("TryLock", m, nil)
	if m.wHeld || m.readers > 0 {
		return false
	}
	m.wHeld, m.announce, m.writer = true, true, true
	return true
}

func (m *RWMutex) Unlock() {
	s := vsched.Active()
	if s == nil {
		m.real.Unlock()
		return
	}
	if s.Aborting() {
		return
	}
	if !m.writer {
		panic("sync: Unlock of unlocked RWMutex")
	}
	s.Point("Unlock", m, nil)
	m.writer, m.announce, m.wHeld = false, false, false
	// hand the read lock to every reader blocked right now
	for tok := range m.waiting {
		delete(m.waiting, tok)
		if m.granted == nil {
			m.granted = map[int]bool{}
		}
		m.granted[tok] = true
		m.readers++
	}
}

func (m *RWMutex) RLock() {
	s := vsched.Active()
	if s == nil {
		m.real.RLock()
		return
	}
	if s.Aborting() {
		return
	}
	vsched.Touch(m)
	tok := m.nextTok
	m.nextTok++
	registered := false
	s.Point("RLock", m, func() bool {
		if m.granted[tok] {
			return true
		}
		if !m.announce {
			return true
		}
		// blocked behind an announced writer: remember it so Unlock can hand over
		if !registered {
			if m.waiting == nil {
				m.waiting = map[int]bool{}
			}
			m.waiting[tok] = true
			registered = true
		}
		return false
	})
	if s.Aborting() {
		return
	}
	if m.rheld == nil {
		m.rheld = map[int]int{}
	}
	m.rheld[s.CurID()]++
	if m.granted[tok] {
		delete(m.granted, tok)
		return
	}
	delete(m.waiting, tok)
	m.readers++
}

func (m *RWMutex) TryRLock() bool {
	s := vsched.Active()
	if s == nil {
		return m.real.TryRLock()
	}
	vsched.Touch(m)
	s.Point("TryRLock", m, nil)
	if m.announce {
		return false
	}
	m.readers++
	if m.rheld == nil {
		m.rheld = map[int]int{}
	}
	m.rheld[s.CurID()]++
	return true
}

func (m *RWMutex) RUnlock() {
	s := vsched.Active()
	if s == nil {
		m.real.RUnlock()
		return
	}
	if s.Aborting() {
		return
	}
	if m.readers <= 0 {
		panic("sync: RUnlock of unlocked RWMutex")
	}
	s.Point("RUnlock", m, nil)
	m.readers--
	m.rheld[s.CurID()]--
}

func (m *RWMutex) RLocker() Locker { return (*rlocker)(m) }

type rlocker RWMutex

func (r *rlocker) Lock()   { (*RWMutex)(r).RLock() }
func (r *rlocker) Unlock() { (*RWMutex)(r).RUnlock() }

// ---- WaitGroup ----

type WaitGroup struct {
	real rsync.WaitGroup
	n    int
}

func (w *WaitGroup) Add(d int) {
	s := vsched.Active()
	if s == nil {
		w.real.Add(d)
		return
	}
	if s.Aborting() {
		return
	}
	s.Point("wg.Add", w, nil)
	w.n += d
	if w.n < 0 {
		panic("sync: negative WaitGroup counter")
	}
}

func (w *WaitGroup) Done() { w.Add(-1) }

func (w *WaitGroup) Wait() {
	s := vsched.Active()
	if s == nil {
		w.real.Wait()
		return
	}
	s.Point("wg.Wait", w, func() bool { return w.n == 0 })
}

// ---- Once ----

type Once struct {
	real    rsync.Once
	done    bool
	running bool
}

func (o *Once) Do(f func()) {
	s := vsched.Active()
	if s == nil {
		o.real.Do(f)
		return
	}
	if s.Aborting() {
		return
	}
	s.Point("once", o, func() bool { return !o.running })
	if o.done {
		return
	}
	o.running = true
	defer func() { o.done, o.running = true, false }()
	f()
}

// ---- Pool: deterministic LIFO free list (maximises reuse, so aliasing shows) ----

type Pool struct {
	New   func() interface{}
	mu    rsync.Mutex
	items []interface{}
	reg   bool
}

func (p *Pool) Get() interface{} {
	p.mu.Lock()
	if !p.reg {
		p.reg = true
		vsched.RegisterPool(p)
	}
	if n := len(p.items); n > 0 {
		x := p.items[n-1]
		p.items = p.items[:n-1]
		p.mu.Unlock()
		return x
	}
	p.mu.Unlock()
	if p.New != nil {
		return p.New()
	}
	return nil
}

func (p *Pool) Put(x interface{}) {
	if x == nil {
		return
	}
	p.mu.Lock()
	p.items = append(p.items, x)
	p.mu.Unlock()
}

func (p *Pool) ResetForExecution() {
	p.mu.Lock()
	p.items = nil
	p.mu.Unlock()
}

// Map, Cond are passed through unchanged (not used by any instrumented file).
type Map = rsync.Map
type Cond = rsync.Cond

func NewCond(l Locker) *Cond { return rsync.NewCond(l) }
