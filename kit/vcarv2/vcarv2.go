// Package vcarv2 stands in for github.com/ipld/go-car/v2 in the instrumented copies of epoch.go and storage.go
// (only OpenReader, Reader.DataReader and Reader.Close are used there). The real reader maps the CAR file; every
// read through the data reader is bracketed by the mapping model of the vmmap package (see there).
package vcarv2

import (
	"errors"
	"io"

	real "github.com/ipld/go-car/v2"
	vmmap "github.com/rpcpool/yellowstone-faithful/zzverif/vmmap"
)

type SectionReader interface {
	io.Reader
	io.Seeker
	io.ReaderAt
}

type Reader struct {
	inner *real.Reader
	g     *vmmap.Guard
}

func OpenReader(path string, opts ...real.Option) (*Reader, error) {
	r, err := real.OpenReader(path, opts...)
	if err != nil {
		return nil, err
	}
	return &Reader{inner: r, g: vmmap.NewGuard(path)}, nil
}

var errClosed = errors.New("mmap: closed")

type section struct {
	inner real.SectionReader
	g     *vmmap.Guard
}

func (s *section) Read(p []byte) (int, error) {
	if !s.g.Begin() {
		return 0, errClosed
	}
	defer s.g.End()
	return s.inner.Read(p)
}

func (s *section) ReadAt(p []byte, off int64) (int, error) {
	if !s.g.Begin() {
		return 0, errClosed
	}
	defer s.g.End()
	return s.inner.ReadAt(p, off)
}

func (s *section) Seek(offset int64, whence int) (int64, error) { return s.inner.Seek(offset, whence) }

func (r *Reader) DataReader() (SectionReader, error) {
	dr, err := r.inner.DataReader()
	if err != nil {
		return nil, err
	}
	return &section{inner: dr, g: r.g}, nil
}

func (r *Reader) Close() error {
	if !r.g.Close() || vmmap.Retained() {
		return nil
	}
	return r.inner.Close()
}
